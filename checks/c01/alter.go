package main

// Part "alter": every single alteration of every base blob, opened with the ORIGINAL TOC
// digest through the real metadata stores / reader / caches, read with a complete plan.

import (
	"bufio"
	"bytes"
	"context"
	"crypto/sha256"
	"encoding/json"
	"fmt"
	"io"
	"os"
	"os/exec"
	"path/filepath"
	"runtime/debug"
	"sort"
	"strings"
	"sync/atomic"
	"syscall"
	"time"

	"github.com/containerd/containerd/v2/pkg/reference"
	"github.com/containerd/stargz-snapshotter/cache"
	dbmetadata "github.com/containerd/stargz-snapshotter/cmd/containerd-stargz-grpc/db"
	"github.com/containerd/stargz-snapshotter/estargz/externaltoc"
	"github.com/containerd/stargz-snapshotter/estargz/vrt"
	"github.com/containerd/stargz-snapshotter/estargz/zstdchunked"
	"github.com/containerd/stargz-snapshotter/fs/config"
	"github.com/containerd/stargz-snapshotter/fs/reader"
	"github.com/containerd/stargz-snapshotter/fs/remote"
	"github.com/containerd/stargz-snapshotter/metadata"
	memorymetadata "github.com/containerd/stargz-snapshotter/metadata/memory"
	digest "github.com/opencontainers/go-digest"
	ocispec "github.com/opencontainers/image-spec/specs-go/v1"
	bolt "go.etcd.io/bbolt"

	"verif/lib/memreg"
	"verif/lib/runner"
)

type combo struct {
	Meta   string `json:"meta"`  // mem | db
	Cache  string `json:"cache"` // mem | dir | dirpt (directory cache in direct mode + passthrough fd)
	Order  string `json:"order"` // VR: verify,read | VCR: verify,prefetch,read | CVR: prefetch,verify,read
	Remote bool   `json:"remote,omitempty"`
}

func (c combo) String() string {
	s := fmt.Sprintf("meta=%s cache=%s order=%s", c.Meta, c.Cache, c.Order)
	if c.Remote {
		s += " via memreg+remote blob (chunked fetch)"
	}
	return s
}

// combos lists the open/read configurations applied to every alteration of one base blob.
// zstd:chunked blobs get fewer (every chunk read allocates a fresh multi-megabyte zstd decoder window).
func combos(tier string, cfg baseCfg) []combo {
	var all []combo
	for _, m := range []string{"mem", "db"} {
		for _, c := range []string{"mem", "dir", "dirpt"} {
			for _, o := range []string{"VR", "VCR", "CVR"} {
				all = append(all, combo{Meta: m, Cache: c, Order: o})
			}
		}
	}
	diag := []combo{
		{Meta: "mem", Cache: "mem", Order: "VR"},
		{Meta: "mem", Cache: "dir", Order: "VCR"},
		{Meta: "db", Cache: "mem", Order: "CVR"},
		{Meta: "db", Cache: "dirpt", Order: "VR"},
		{Meta: "mem", Cache: "dirpt", Order: "VCR"},
		{Meta: "db", Cache: "dir", Order: "CVR"},
	}
	var out []combo
	switch {
	case cfg.Kind == "zstd" && tier == "thorough" && cfg.Arch == 0:
		out = diag[:4]
	case cfg.Kind == "zstd":
		out = []combo{diag[0], diag[5]}
	case tier == "thorough" && cfg.Arch == 0:
		out = all
	case tier == "thorough":
		out = diag
	case cfg.Kind == "ext":
		out = []combo{diag[0], diag[3], diag[5]}
	case cfg.Arch != 0:
		out = []combo{diag[0], diag[3]}
	case cfg.Chunk == 3:
		out = diag[:4]
	default:
		out = []combo{diag[0], diag[4], diag[5]}
	}
	if cfg.MinChunk == 0 && cfg.Chunk == 3 && cfg.Kind != "zstd" && (tier == "thorough" || cfg.Arch == 0) {
		out = append(append([]combo{}, out...), combo{Meta: "mem", Cache: "mem", Order: "VR", Remote: true})
	}
	return out
}

type switchRA struct{ cur []byte }

func (s *switchRA) ReadAt(p []byte, off int64) (int, error) {
	if off >= int64(len(s.cur)) {
		return 0, io.EOF
	}
	n := copy(p, s.cur[off:])
	if n < len(p) {
		return n, io.EOF
	}
	return n, nil
}

type readerAtFunc func([]byte, int64) (int, error)

func (f readerAtFunc) ReadAt(p []byte, o int64) (int, error) { return f(p, o) }

type alterEnv struct {
	scratch string
	db      *bolt.DB
	n       int
}

func newAlterEnv(scratch string) *alterEnv {
	os.Setenv("TMPDIR", scratch)
	return &alterEnv{scratch: scratch}
}

func (e *alterEnv) boltDB() (*bolt.DB, error) {
	if e.db != nil {
		return e.db, nil
	}
	db, err := bolt.Open(filepath.Join(e.scratch, "metadata.db"), 0o600, &bolt.Options{NoFreelistSync: true, FreelistType: bolt.FreelistMapType, NoSync: true})
	if err != nil {
		return nil, err
	}
	db.MaxBatchDelay = 0
	e.db = db
	return db, nil
}

type viol struct{ Key, Msg string }

type caseResult struct {
	Outcome  string
	Verified bool
	Viol     *viol
	Panic    string
	Broken   string
}

var layerSha = digest.FromString("c01")

func genID(id uint32, offset, size int64) string {
	sum := sha256.Sum256(fmt.Appendf(nil, "%d-%d-%d", id, offset, size))
	return fmt.Sprintf("%x", sum)
}

type span struct{ o, l int64 }

func readPlan(f *refFile, grid bool) []span {
	size := int64(len(f.Data))
	var out []span
	if size == 0 {
		return []span{{0, 1}}
	}
	out = append(out, span{0, size})
	for _, c := range f.Chunks {
		out = append(out, span{c[0], c[1]})
	}
	if size <= 12 && grid {
		for o := int64(0); o <= size; o++ {
			for l := int64(1); l <= size-o+1; l++ {
				out = append(out, span{o, l})
			}
		}
	}
	return out
}

type runCtx struct {
	b      *baseBlob
	ids    []uint32
	v      *viol
	anyErr bool
	desc   string
}

func (rc *runCtx) fail(key, format string, a ...any) {
	if rc.v == nil {
		rc.v = &viol{Key: key, Msg: rc.desc + ": " + fmt.Sprintf(format, a...)}
	}
}

func lookupPath(m metadata.Reader, name string) (uint32, error) {
	id := m.RootID()
	for _, p := range strings.Split(strings.Trim(name, "/"), "/") {
		cid, _, err := m.GetChild(id, p)
		if err != nil {
			return 0, err
		}
		id = cid
	}
	return id, nil
}

func (rc *runCtx) readAll(r reader.Reader, phase string) {
	for fi := range rc.b.Files {
		f := &rc.b.Files[fi]
		ra, err := r.OpenFile(rc.ids[fi])
		if err != nil {
			rc.anyErr = true
			continue
		}
		size := int64(len(f.Data))
		for _, s := range readPlan(f, phase == "cold" || rc.b.Cfg.Kind != "zstd") {
			buf := bytes.Repeat([]byte{0xEE}, int(s.l))
			n, err := ra.ReadAt(buf, s.o)
			if err != nil && err != io.EOF {
				rc.anyErr = true
			}
			if n < 0 || n > len(buf) {
				rc.fail("C01/alter/read-bad-count", "%s: ReadAt(%s, off=%d, len=%d) returned n=%d", phase, f.Name, s.o, s.l, n)
				continue
			}
			max := size - s.o
			if max < 0 {
				max = 0
			}
			if int64(n) > max {
				rc.fail("C01/alter/read-beyond-size", "%s: ReadAt(%s, off=%d, len=%d) returned %d bytes, the file pinned by the TOC has only %d bytes from that offset", phase, f.Name, s.o, s.l, n, max)
				continue
			}
			if !bytes.Equal(buf[:n], f.Data[s.o:s.o+int64(n)]) {
				rc.fail("C01/alter/read-returned-altered-bytes/"+phase, "ReadAt(%s, off=%d, len=%d) err=%v returned %q; the content pinned by TOC digest D is %q. expected: original bytes or an error; actual: bytes that match no TOC-pinned chunk digest", f.Name, s.o, s.l, err, buf[:n], f.Data[s.o:s.o+int64(n)])
			}
		}
	}
}

func (rc *runCtx) passthrough(r reader.Reader, phase string) {
	for fi := range rc.b.Files {
		f := &rc.b.Files[fi]
		// merge buffer sizes: a multiple of the chunk size (parallel batch path), smaller than a chunk
		// (sequential path), one batch. NOTE: a merge buffer that is not chunk-aligned makes
		// processBatchChunks slice out of range in an errgroup goroutine (process crash) - outside C01.
		cs := int64(rc.b.Cfg.Chunk)
		for _, prm := range [][2]int64{{2 * cs, 2}, {cs - 1, 2}, {1 << 20, 3}} {
			ra, err := r.OpenFile(rc.ids[fi])
			if err != nil {
				rc.anyErr = true
				continue
			}
			g, ok := ra.(reader.PassthroughFdGetter)
			if !ok {
				continue
			}
			fd, cr, err := g.GetPassthroughFd(prm[0], int(prm[1]))
			if err != nil {
				rc.anyErr = true
				continue
			}
			buf := make([]byte, len(f.Data)+4)
			n, _ := syscall.Pread(int(fd), buf, 0)
			if n < 0 {
				n = 0
			}
			if !bytes.Equal(buf[:n], f.Data) {
				rc.fail("C01/alter/read-returned-altered-bytes/passthrough-"+phase, "GetPassthroughFd(%s, mergeBuffer=%d, workers=%d) handed out a file holding %q; the content pinned by TOC digest D is %q", f.Name, prm[0], prm[1], buf[:n], f.Data)
			}
			cr.Close()
		}
	}
}

func (rc *runCtx) walkCache(c cache.BlobCache, dir string, phase string) {
	want := map[string][]byte{}
	what := map[string]string{}
	for fi := range rc.b.Files {
		f := &rc.b.Files[fi]
		for _, ch := range f.Chunks {
			k := genID(rc.ids[fi], ch[0], ch[1])
			want[k] = f.Data[ch[0] : ch[0]+ch[1]]
			what[k] = fmt.Sprintf("chunk %s@%d+%d", f.Name, ch[0], ch[1])
		}
		k := genID(rc.ids[fi], 0, int64(len(f.Data)))
		want[k] = f.Data
		what[k] = "whole file " + f.Name
	}
	check := func(key string, content []byte) {
		w, ok := want[key]
		if !ok {
			rc.fail("C01/alter/cache-unknown-entry", "%s: the chunk cache holds entry %s.. (%q) that is no chunk of the TOC-pinned layout", phase, key[:8], content)
			return
		}
		if !bytes.Equal(content, w) {
			rc.fail("C01/alter/cache-holds-mismatching-chunk", "%s: the chunk cache entry for %s holds %q, its TOC-pinned content is %q: a later read would serve it from the cache without verification", phase, what[key], content, w)
		}
	}
	if mc, ok := c.(*cache.MemoryCache); ok {
		for k, b := range mc.Membuf {
			check(k, b.Bytes())
		}
		return
	}
	filepath.WalkDir(dir, func(p string, d os.DirEntry, err error) error {
		if err != nil {
			return nil
		}
		if d.IsDir() {
			if d.Name() == "wip" {
				return filepath.SkipDir
			}
			return nil
		}
		b, err := os.ReadFile(p)
		if err == nil {
			check(d.Name(), b)
		}
		return nil
	})
}

// checkView compares the chunk tables the metadata reader hands out with the pristine TOC.
func (rc *runCtx) checkView(m metadata.Reader) {
	for fi := range rc.b.Files {
		f := &rc.b.Files[fi]
		mf, err := m.OpenFile(rc.ids[fi])
		if err != nil {
			rc.fail("C01/alter/view-differs-after-verify", "VerifyTOC(D) succeeded but metadata OpenFile(%s) fails: %v", f.Name, err)
			return
		}
		var got [][2]int64
		for off := int64(0); ; {
			co, cs, dg, ok := mf.ChunkEntryForOffset(off)
			if !ok || len(got) > 64 {
				break
			}
			got = append(got, [2]int64{co, cs})
			if co >= 0 && cs > 0 && co+cs <= int64(len(f.Data)) {
				want := "sha256:" + sha256hex(f.Data[co:co+cs])
				if rc.b.Cfg.NoDigest {
					want = ""
				}
				if dg != want {
					rc.fail("C01/alter/view-differs-after-verify", "VerifyTOC(D) succeeded but the chunk digest handed out for %s@%d is %q, the TOC pinned by D has %q", f.Name, co, dg, want)
				}
			}
			if cs <= 0 {
				break
			}
			off = co + cs
		}
		if fmt.Sprint(got) != fmt.Sprint(f.Chunks) && !(len(got) == 0 && len(f.Chunks) == 0) {
			rc.fail("C01/alter/view-differs-after-verify", "VerifyTOC(D) succeeded but the chunk table of %s is %v, the TOC pinned by D has %v", f.Name, got, f.Chunks)
		}
	}
}

const repoName = "img/c01"

func runAlterCase(env *alterEnv, b *baseBlob, a alt, cb combo) (res caseResult) {
	raw, ext := b.apply(a)
	env.n++
	dir := filepath.Join(env.scratch, fmt.Sprintf("case%d", env.n))
	rc := &runCtx{b: b, desc: fmt.Sprintf("base %s (%d-byte blob, TOC digest D=%s), alteration: %s; opened with D via %s", b.Cfg, len(b.Raw), b.D.Encoded()[:12], b.describe(a), cb)}
	phase := "open"
	var closers []func()
	defer func() {
		if r := recover(); r != nil {
			res.Outcome = "panic@" + phase
			res.Panic = fmt.Sprintf("%s: panic at %s: %v\n%s", rc.desc, phase, r, firstLines(string(debug.Stack()), 30))
			res.Viol = rc.v
		}
		for i := len(closers) - 1; i >= 0; i-- {
			func() {
				defer func() { recover() }()
				closers[i]()
			}()
		}
		os.RemoveAll(dir)
	}()

	sw := &switchRA{cur: raw}
	var sr *io.SectionReader
	var reg *memreg.Registry
	var blobDigest string
	if cb.Remote {
		reg = memreg.New()
		blobDigest = digest.FromBytes(b.Raw).String()
		reg.AddBlob(blobDigest, raw)
		rs := remote.NewResolver(config.BlobConfig{ChunkSize: 64, ValidInterval: 1 << 30, MaxRetries: 1, MinWaitMSec: 1, MaxWaitMSec: 1}, nil)
		refspec, err := reference.Parse(reg.Host + "/" + repoName + ":latest")
		if err != nil {
			res.Broken = err.Error()
			return
		}
		desc := ocispec.Descriptor{Digest: digest.Digest(blobDigest), Size: int64(len(raw)), MediaType: ocispec.MediaTypeImageLayerGzip}
		bl, err := rs.Resolve(context.Background(), reg.CompatHosts(nil), refspec, desc, cache.NewMemoryCache())
		if err != nil {
			res.Outcome = "open-rejected"
			return
		}
		closers = append(closers, func() { bl.Close() })
		sr = io.NewSectionReader(readerAtFunc(func(p []byte, o int64) (int, error) { return bl.ReadAt(p, o) }), 0, bl.Size())
	} else {
		sr = io.NewSectionReader(sw, 0, int64(len(raw)))
	}
	decs := []metadata.Decompressor{new(zstdchunked.Decompressor)}
	if b.Cfg.Kind == "ext" {
		tb := ext
		decs = append(decs, externaltoc.NewGzipDecompressor(func() ([]byte, error) { return tb, nil }))
	}
	var meta metadata.Reader
	var err error
	if cb.Meta == "db" {
		db, derr := env.boltDB()
		if derr != nil {
			res.Broken = derr.Error()
			return
		}
		meta, err = dbmetadata.NewReader(db, sr, metadata.WithDecompressors(decs...))
	} else {
		meta, err = memorymetadata.NewReader(sr, metadata.WithDecompressors(decs...))
	}
	if err != nil {
		res.Outcome = "open-rejected"
		return
	}
	var cc cache.BlobCache
	switch cb.Cache {
	case "mem":
		cc = cache.NewMemoryCache()
	case "dir":
		cc, err = cache.NewDirectoryCache(dir, cache.DirectoryCacheConfig{MaxLRUCacheEntry: 1, MaxCacheFds: 10, SyncAdd: true})
	case "dirpt":
		cc, err = cache.NewDirectoryCache(dir, cache.DirectoryCacheConfig{MaxLRUCacheEntry: 1, MaxCacheFds: 1, SyncAdd: true, Direct: true})
	}
	if err != nil {
		meta.Close()
		res.Broken = err.Error()
		return
	}
	vr, err := reader.NewReader(meta, cc, layerSha)
	if err != nil {
		res.Broken = err.Error()
		return
	}
	closers = append(closers, func() { vr.Close() })

	if cb.Order == "CVR" {
		phase = "prefetch-before-verify"
		if _, br := underVrt(func() { vr.Cache() }); br == stepCap {
			res.Outcome = "runaway@prefetch-before-verify"
			res.Panic = rc.desc + ": reader.Cache() before VerifyTOC did not finish within 30000 scheduling points (runaway chunk loop on unverified TOC numbers)"
			return
		} else if br != "" {
			res.Broken = rc.desc + ": " + br
			return
		}
	}
	phase = "verify"
	r, err := vr.VerifyTOC(b.D)
	if err != nil {
		res.Outcome = "verify-rejected"
		return
	}
	res.Verified = true
	// oracle 1: the TOC the blob designates is the one D pins
	exact, prefixOnly, detail := tocMatches(b, raw, ext)
	if !exact && !prefixOnly {
		rc.fail("C01/alter/verify-accepted-foreign-toc", "VerifyTOC(D) returned nil but the TOC JSON designated by the altered bytes does not hash to D (%s). expected: error; actual: nil", detail)
		res.Outcome, res.Viol = "VERIFY-ACCEPTED-FOREIGN-TOC", rc.v // reading through a TOC nobody vouched for proves nothing more
		return
	}
	phase = "lookup"
	for fi := range b.Files {
		id, err := lookupPath(r.Metadata(), b.Files[fi].Name)
		if err != nil {
			rc.fail("C01/alter/view-differs-after-verify", "VerifyTOC(D) succeeded but %s cannot be looked up: %v", b.Files[fi].Name, err)
			res.Outcome, res.Viol = "read-error", rc.v
			return
		}
		rc.ids = append(rc.ids, id)
	}
	phase = "view"
	rc.checkView(r.Metadata())
	if cb.Order == "VCR" {
		phase = "prefetch-after-verify"
		var cerr error
		if _, br := underVrt(func() { cerr = vr.Cache() }); br != "" {
			res.Broken = rc.desc + ": " + br
			return
		}
		if cerr != nil {
			rc.anyErr = true
		}
		rc.walkCache(cc, dir, "after prefetch following VerifyTOC")
	}
	phase = "read1"
	rc.readAll(r, "cold")
	phase = "read2"
	rc.readAll(r, "warm")
	if cb.Cache == "dirpt" {
		phase = "passthrough"
		rc.passthrough(r, "altered")
	}
	phase = "walk1"
	rc.walkCache(cc, dir, "after the read passes")
	if !a.Ext && a.Kind != "none" {
		// the registry / mirror serves the pristine bytes again; the cache is kept
		if cb.Remote {
			reg.SetBlob(blobDigest, b.Raw)
		} else {
			sw.cur = b.Raw
		}
		phase = "read3"
		rc.readAll(r, "after-restore")
		if cb.Cache == "dirpt" {
			phase = "passthrough2"
			rc.passthrough(r, "after-restore")
		}
		phase = "walk2"
		rc.walkCache(cc, dir, "after re-reading from the pristine blob")
	}
	res.Viol = rc.v
	switch {
	case prefixOnly:
		res.Outcome = "ok-toc-with-trailing-bytes"
	case rc.anyErr:
		res.Outcome = "read-error"
	default:
		res.Outcome = "ok-unaffected"
	}
	return
}

// underVrt runs f as the only initial thread of a vrt scheduler with the default choice at
// every point (one deterministic schedule). Needed for code paths whose instrumented copies
// contain select statements (x/sync semaphore in reader.Cache, fs.Mount, layer prefetch waiter):
// the channel shims implement select only under a scheduler. A panic in f is re-raised.
func underVrt(f func()) (steps int, broken string) {
	res := vrt.Run(vrt.Config{Chooser: func(vrt.ChoicePoint) int { return 0 }, MaxSteps: 30000, KeepTimers: true}, f) // KeepTimers: virtual time must not run on (the resolver's TTL cache would evict the layer)
	if res.Failure != nil {
		panic(res.Failure.Msg)
	}
	switch {
	case res.Broken != "":
		return res.Steps, "vrt: " + res.Broken
	case res.Deadlock:
		return res.Steps, "vrt: deadlock in a sequential section: " + strings.Join(res.Blocked, "; ")
	case res.StepCap:
		return res.Steps, stepCap
	}
	return res.Steps, ""
}

// stepCap: the section did not finish within 30000 scheduling points (a prefetch over a 4-file
// blob needs < 3000): a runaway loop driven by hostile (unverified) TOC numbers. C04's subject.
const stepCap = "vrt: step cap"

func firstLines(s string, n int) string {
	l := strings.Split(s, "\n")
	if len(l) > n {
		l = l[:n]
	}
	return strings.Join(l, "\n")
}

type alterReplay struct {
	Base  baseCfg `json:"base"`
	Alt   alt     `json:"alt"`
	Combo combo   `json:"combo"`
}

// ---- crash isolation ----------------------------------------------------------------------------
// Hostile bytes can kill the process (unrecoverable stack overflow in metadata/memory assignIDs,
// panics in goroutines): the enumeration of one shard runs in a child process (this binary with
// C01_CHILD set) that streams one line per case; when it dies the supervisor records the case as
// "process-crash" and restarts the child right after it.

type childParams struct {
	Tier     string `json:"tier"`
	Shard    int    `json:"shard"`
	Of       int    `json:"of"`
	FromSeq  int    `json:"from_seq"`
	FromCmb  int    `json:"from_cmb"`
	FromBase int    `json:"from_base"` // skip building the base blobs before this one ...
	IdxBase  int    `json:"idx_base"`  // ... whose alterations end at this enumeration index
	SeqBase  int    `json:"seq_base"`  // ... and at this per-shard sequence number
	Deadline int64  `json:"deadline"`
	Scratch  string `json:"scratch"`
}

type childLine struct {
	T        string       `json:"t"` // B begin | E end | D done | X broken | C cap
	Seq      int          `json:"seq,omitempty"`
	Cmb      int          `json:"cmb,omitempty"`
	Kind     string       `json:"kind,omitempty"`
	Desc     string       `json:"desc,omitempty"`
	Outcome  string       `json:"outcome,omitempty"`
	Verified bool         `json:"verified,omitempty"`
	Viol     *viol        `json:"viol,omitempty"`
	Replay   *alterReplay `json:"replay,omitempty"`
	Panic    string       `json:"panic,omitempty"`
	Msg      string       `json:"msg,omitempty"`
	Sizes    []string     `json:"sizes,omitempty"`
	Total    int          `json:"total,omitempty"`
	NewState bool         `json:"new_state,omitempty"`
	Base     int          `json:"base,omitempty"`
	Idx      int          `json:"idx,omitempty"`
	US       int64        `json:"us,omitempty"` // case duration, microseconds
}

func alterChild() {
	var p childParams
	if err := json.Unmarshal([]byte(os.Getenv("C01_CHILD")), &p); err != nil {
		fmt.Println(`{"t":"X","msg":"bad child params"}`)
		return
	}
	debug.SetMaxStack(4 << 20)
	out := bufio.NewWriter(os.Stdout)
	emit := func(l childLine) {
		b, _ := json.Marshal(l)
		out.Write(b)
		out.WriteByte('\n')
		out.Flush()
	}
	os.MkdirAll(p.Scratch, 0o755)
	env := newAlterEnv(p.Scratch)
	deadline := time.Unix(p.Deadline, 0)
	idx, seq, total := p.IdxBase, p.SeqBase, 0
	var sizes []string
	cfgs := baseConfigs(p.Tier)
	for bi, cfg := range cfgs {
		if bi < p.FromBase {
			continue
		}
		emit(childLine{T: "S", Base: bi, Idx: idx, Seq: seq})
		b, err := buildBase(cfg)
		if err != nil {
			emit(childLine{T: "X", Msg: fmt.Sprintf("base %s: %v", cfg, err)})
			return
		}
		cbs := combos(p.Tier, cfg)
		alts := b.alterations()
		total += len(alts)
		sizes = append(sizes, fmt.Sprintf("%s=%dB/%d members/%d repl/%d toc-alts", cfg, len(b.Raw)+len(b.Ext), len(b.Members), len(b.repls), len(b.tocAlts)))
		for _, a := range alts {
			idx++
			if idx%p.Of != p.Shard {
				continue
			}
			seq++
			if seq < p.FromSeq {
				continue
			}
			if p.Deadline > 0 && time.Now().After(deadline) {
				emit(childLine{T: "C", Msg: fmt.Sprintf("time budget (stopped in base blob %d of %d)", bi+1, len(cfgs))})
				goto done
			}
			for ci, cb := range cbs {
				if seq == p.FromSeq && ci < p.FromCmb {
					continue
				}
				if cb.Remote && (a.Kind == "trunc" && a.Len%7 != 0) {
					continue // remote path: every 7th truncation length (the fetch path does not depend on the length beyond chunking)
				}
				emit(childLine{T: "B", Seq: seq, Cmb: ci, Kind: a.Kind, Desc: fmt.Sprintf("base %s, alteration: %s; opened via %s", cfg, b.describe(a), cb)})
				tc := time.Now()
				cr := runAlterCase(env, b, a, cb)
				us := time.Since(tc).Microseconds()
				if cr.Broken != "" {
					emit(childLine{T: "X", Msg: cr.Broken})
					return
				}
				if a.Kind == "none" {
					switch {
					case cr.Panic != "":
						emit(childLine{T: "X", Msg: fmt.Sprintf("pristine blob %s via %s: %s", cfg, cb, cr.Panic)})
						return
					case cfg.NoDigest:
						// a TOC without digests cannot be verified: rejected by a prefetch-first open, unreadable otherwise
					case !cr.Verified || cr.Outcome != "ok-unaffected":
						// non-vacuity guard: everything below assumes the unaltered layer is accepted and served
						if cr.Viol == nil {
							cr.Viol = &viol{Key: "C01/alter/pristine-blob-rejected", Msg: fmt.Sprintf("base %s, UNALTERED blob opened with its own TOC digest via %s: outcome %s. expected: verification succeeds and every read returns the original bytes; actual: %s (the remaining alteration results are not meaningful)", cfg, cb, cr.Outcome, cr.Outcome)}
						}
					}
				}
				l := childLine{T: "E", Seq: seq, Cmb: ci, Kind: a.Kind, Outcome: cr.Outcome, Verified: cr.Verified, Viol: cr.Viol, Panic: cr.Panic, NewState: ci == 0, US: us}
				if cr.Viol != nil || (cr.Verified && a.Kind == "repl") {
					l.Replay = &alterReplay{cfg, a, cb}
					l.Desc = b.describe(a)
				}
				emit(l)
			}
		}
	}
done:
	if env.db != nil {
		env.db.Close()
	}
	emit(childLine{T: "D", Sizes: sizes, Total: total})
}

func alterShards(tier string) int {
	if tier == "thorough" {
		return 128
	}
	return 32
}

func alterPart(tier string) runner.Part {
	return runner.Part{Name: "alter", Shards: alterShards(tier), Run: func(c *runner.Ctx) *runner.Result {
		res := &runner.Result{Outcomes: map[string]int{}}
		if !c.Deadline.IsZero() && time.Now().After(c.Deadline) {
			res.Caps = []string{"time budget (not started)"}
			return res
		}
		crashes := map[string]string{}
		p := childParams{Tier: tier, Shard: c.Shard, Of: c.Of, FromSeq: 1, Deadline: c.Deadline.Unix(), Scratch: filepath.Join(c.Scratch, "child")}
		if c.Deadline.IsZero() {
			p.Deadline = 0
		}
		self, _ := os.Executable()
		for restarts := 0; ; restarts++ {
			if restarts > 5000 {
				res.Broken = "alter: more than 5000 child restarts"
				return res
			}
			pj, _ := json.Marshal(p)
			cmd := exec.Command(self)
			cmd.Env = append(os.Environ(), "C01_CHILD="+string(pj))
			var stderr tailBuffer
			cmd.Stderr = &stderr
			stdout, err := cmd.StdoutPipe()
			if err != nil {
				res.Broken = err.Error()
				return res
			}
			if err := cmd.Start(); err != nil {
				res.Broken = err.Error()
				return res
			}
			sc := bufio.NewScanner(stdout)
			sc.Buffer(make([]byte, 1<<20), 16<<20)
			var open *childLine
			finished := false
			// watchdog: a case normally takes milliseconds; kill the child when nothing was reported for 40 s
			var lastLine atomic.Int64
			lastLine.Store(time.Now().Unix())
			stopWD := make(chan struct{})
			hung := false
			go func() {
				for {
					select {
					case <-stopWD:
						return
					case <-time.After(2 * time.Second):
						if time.Now().Unix()-lastLine.Load() > 40 {
							hung = true
							cmd.Process.Kill()
							return
						}
					}
				}
			}()
			for sc.Scan() {
				lastLine.Store(time.Now().Unix())
				var l childLine
				if json.Unmarshal(sc.Bytes(), &l) != nil {
					continue
				}
				switch l.T {
				case "B":
					ll := l
					open = &ll
				case "E":
					open = nil
					res.Evaluations++
					res.Transitions++
					if l.NewState {
						res.States++
					}
					res.Outcomes[l.Kind+":"+l.Outcome]++
					if l.Verified {
						res.Nontrivial++
					}
					if l.Panic != "" {
						k := l.Kind + ":" + l.Outcome
						if _, ok := crashes[k]; !ok {
							crashes[k] = firstLines(l.Panic, 14)
						}
					}
					if l.Viol != nil && !hasKey(res.Violations, l.Viol.Key) {
						res.Violations = append(res.Violations, runner.Violation{Key: l.Viol.Key, Msg: l.Viol.Msg, Replay: l.Replay})
					}
					if len(res.Samples) == 0 && l.Replay != nil && l.Viol == nil {
						res.Samples = append(res.Samples, map[string]any{"base": l.Replay.Base.String(), "alteration": l.Desc, "combo": l.Replay.Combo.String(), "outcome": l.Outcome})
					}
				case "S":
					p.FromBase, p.IdxBase, p.SeqBase = l.Base, l.Idx, l.Seq
				case "C":
					res.Caps = appendUniq(res.Caps, l.Msg)
				case "X":
					res.Broken = l.Msg
				case "D":
					finished = true
					if restarts == 0 {
						res.Extra = map[string]any{"base_blobs": l.Sizes, "alterations_total": l.Total}
					}
				}
			}
			close(stopWD)
			cmd.Wait()
			os.RemoveAll(p.Scratch)
			if res.Broken != "" {
				return res
			}
			if finished {
				break
			}
			if open == nil {
				res.Broken = "alter child died between cases: " + stderr.head(600)
				return res
			}
			// the child died inside a case
			res.Evaluations++
			res.Transitions++
			if open.Cmb == 0 {
				res.States++
			}
			if hung {
				res.Outcomes[open.Kind+":process-hang"]++
				if _, ok := crashes[open.Kind+":process-hang"]; !ok {
					crashes[open.Kind+":process-hang"] = open.Desc + ": no result within 40 s (killed)"
				}
			} else {
				res.Outcomes[open.Kind+":process-crash"]++
				k := open.Kind + ":process-crash:" + firstLines(stderr.head(200), 1)
				if _, ok := crashes[k]; !ok {
					crashes[k] = open.Desc + ": the process died: " + stderr.head(1500)
				}
			}
			p.FromSeq, p.FromCmb = open.Seq, open.Cmb+1
		}
		if res.Extra == nil {
			res.Extra = map[string]any{}
		}
		if len(crashes) > 0 {
			var l []string
			for _, v := range crashes {
				l = append(l, v)
			}
			sort.Strings(l)
			res.Extra["panics_and_crashes_outside_C01_scope(C04)"] = l
		}
		return res
	}, Replay: func(c *runner.Ctx, rawj json.RawMessage) (string, error) {
		var r alterReplay
		if err := json.Unmarshal(rawj, &r); err != nil {
			return "", err
		}
		b, err := buildBase(r.Base)
		if err != nil {
			return "", err
		}
		cr := runAlterCase(newAlterEnv(c.Scratch), b, r.Alt, r.Combo)
		if cr.Viol != nil {
			return cr.Outcome, fmt.Errorf("%s: %s", cr.Viol.Key, cr.Viol.Msg)
		}
		return cr.Outcome + " " + cr.Panic, nil
	}}
}

// tailBuffer keeps the first 8 KiB written to it (the head of a crash report).
type tailBuffer struct{ b []byte }

func (t *tailBuffer) Write(p []byte) (int, error) {
	if len(t.b) < 8192 {
		n := 8192 - len(t.b)
		if n > len(p) {
			n = len(p)
		}
		t.b = append(t.b, p[:n]...)
	}
	return len(p), nil
}

func (t *tailBuffer) head(n int) string {
	if len(t.b) < n {
		n = len(t.b)
	}
	return string(t.b[:n])
}

func hasKey(vs []runner.Violation, k string) bool {
	for _, v := range vs {
		if v.Key == k {
			return true
		}
	}
	return false
}

func appendUniq(l []string, s string) []string {
	for _, x := range l {
		if x == s {
			return l
		}
	}
	return append(l, s)
}
