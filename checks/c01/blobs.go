package main

// Base blobs, the independent (from-the-spec) TOC extraction used by the
// oracle and the generators of single alterations.

import (
	"archive/tar"
	"bytes"
	"compress/gzip"
	"crypto/sha256"
	"encoding/binary"
	"encoding/hex"
	"encoding/json"
	"fmt"
	"io"
	"strconv"
	"strings"
	"time"

	"github.com/containerd/stargz-snapshotter/estargz"
	"github.com/containerd/stargz-snapshotter/estargz/externaltoc"
	"github.com/containerd/stargz-snapshotter/estargz/zstdchunked"
	"github.com/klauspost/compress/zstd"
	digest "github.com/opencontainers/go-digest"

	"verif/lib/enumx"
)

type fileSpec struct {
	Name string
	Data string
	Type byte // tar typeflag; 0 = regular
	Link string
}

// The archives: 2-3 regular files each, one of them multi-chunk for both chunk sizes.
var archives = [][]fileSpec{
	{ // 0: distinct bytes everywhere
		{Name: "a", Data: "abcdefghijklmnopqrst"},
		{Name: "b", Data: "0123456789"},
		{Name: "d/", Type: tar.TypeDir},
		{Name: "d/c", Data: "xyz"},
	},
	{ // 1: identical chunks (swapping them is content-preserving), an empty file, a 12-byte file
		{Name: "e", Data: ""},
		{Name: "f", Data: "AAAAAAAAAAAAAAAAAAAAAAAA"},
		{Name: "g", Data: "hello world\n"},
	},
	{ // 2: equal-length chunks with different content (a swap must be caught by the chunk digests), non-regular entries
		{Name: "p", Data: "abcdefghABCDEFGHabcdefgh"},
		{Name: "l", Type: tar.TypeSymlink, Link: "p"},
		{Name: "q/", Type: tar.TypeDir},
		{Name: "q/r", Data: "123456789"},
	},
	{ // 3: the tiny two-file archive of the schedule part (3 chunks at chunk size 3)
		{Name: "a", Data: "abcdef"},
		{Name: "b", Data: "xyz"},
	},
}

const nAlterArchives = 3

type baseCfg struct {
	Arch     int    `json:"arch"`
	Kind     string `json:"kind"` // gzip | zstd | ext
	Chunk    int    `json:"chunk"`
	MinChunk int    `json:"minchunk"`
	Prio     bool   `json:"prioritized,omitempty"` // every regular file prioritized (so that a prefetch landmark follows them)
	NoDigest bool   `json:"nodigest,omitempty"`    // legacy-style TOC: digest / chunkDigest stripped from every entry; D pins that TOC
	Lite     bool   `json:"lite,omitempty"`        // only member replacements and swaps are enumerated
}

func (c baseCfg) String() string {
	s := fmt.Sprintf("arch%d/%s/chunk%d/min%d", c.Arch, c.Kind, c.Chunk, c.MinChunk)
	if c.NoDigest {
		s += "/no-chunk-digests"
	}
	return s
}

type refFile struct {
	Name   string
	Data   []byte
	Chunks [][2]int64 // (chunkOffset, chunkSize) from the pristine TOC
}

type chunkRegion struct { // where a chunk's payload lives inside a decompressed member
	File        string
	ChunkOffset int64
	Inner       int64
	Size        int64
}

type baseBlob struct {
	Cfg      baseCfg
	Raw      []byte
	Ext      []byte // external TOC blob (kind ext)
	TOCJSON  []byte
	D        digest.Digest
	Files    []refFile
	Members  []enumx.Stream          // members / frames of Raw, in order
	Regions  map[int64][]chunkRegion // member start offset -> chunk payload regions
	Payload  int                     // number of leading members that hold tar payload (not TOC / footer)
	TOCStart int64                   // where the TOC member (gzip) / TOC skippable frame (zstd) starts; len(Raw)-footer for ext
	tocAlts  []tocAlt
	repls    []replAlt
}

func buildTar(ents []fileSpec) []byte {
	var buf bytes.Buffer
	tw := tar.NewWriter(&buf)
	mt := time.Unix(1500000000, 0).UTC()
	for _, e := range ents {
		h := &tar.Header{Name: e.Name, Mode: 0o644, ModTime: mt, Format: tar.FormatUSTAR}
		switch e.Type {
		case tar.TypeDir:
			h.Typeflag, h.Mode = tar.TypeDir, 0o755
		case tar.TypeSymlink:
			h.Typeflag, h.Linkname = tar.TypeSymlink, e.Link
		default:
			h.Typeflag, h.Size = tar.TypeReg, int64(len(e.Data))
		}
		if err := tw.WriteHeader(h); err != nil {
			panic(err)
		}
		if h.Typeflag == tar.TypeReg {
			tw.Write([]byte(e.Data))
		}
	}
	tw.Close()
	return buf.Bytes()
}

type zstdCompression struct {
	*zstdchunked.Compressor
	*zstdchunked.Decompressor
}

var baseMemo = map[baseCfg]*baseBlob{}

func buildBase(cfg baseCfg) (*baseBlob, error) {
	if b, ok := baseMemo[cfg]; ok {
		return b, nil
	}
	b, err := buildBase1(cfg)
	if err == nil {
		baseMemo[cfg] = b
	}
	return b, err
}

func buildBase1(cfg baseCfg) (*baseBlob, error) {
	tarb := buildTar(archives[cfg.Arch])
	opts := []estargz.Option{estargz.WithChunkSize(cfg.Chunk), estargz.WithMinChunkSize(cfg.MinChunk), estargz.WithParallelism(4)} // fixed: the member layout depends on it
	if cfg.Prio {
		var names []string
		for _, e := range archives[cfg.Arch] {
			if e.Type == 0 {
				names = append(names, e.Name)
			}
		}
		opts = append(opts, estargz.WithPrioritizedFiles(names))
	}
	var extc *externaltoc.GzipCompression
	switch cfg.Kind {
	case "zstd":
		opts = append(opts, estargz.WithCompression(&zstdCompression{&zstdchunked.Compressor{CompressionLevel: zstd.SpeedDefault}, &zstdchunked.Decompressor{}}))
	case "ext":
		extc = externaltoc.NewGzipCompressionWithLevel(nil, gzip.BestCompression).(*externaltoc.GzipCompression)
		opts = append(opts, estargz.WithCompression(extc))
	}
	rc, err := estargz.Build(io.NewSectionReader(bytes.NewReader(tarb), 0, int64(len(tarb))), opts...)
	if err != nil {
		return nil, err
	}
	raw, err := io.ReadAll(rc)
	rc.Close()
	if err != nil {
		return nil, err
	}
	var ext []byte
	if extc != nil {
		var tb bytes.Buffer
		if _, err := extc.WriteTOCTo(&tb); err != nil {
			return nil, err
		}
		ext = tb.Bytes()
	}
	b, err := analyse(cfg, raw, ext, rc.TOCDigest())
	if err != nil || !cfg.NoDigest {
		return b, err
	}
	// legacy-style variant: the same payload with a TOC that records no digests
	dec := json.NewDecoder(bytes.NewReader(b.TOCJSON))
	dec.UseNumber()
	var m map[string]any
	if err := dec.Decode(&m); err != nil {
		return nil, err
	}
	for _, e := range m["entries"].([]any) {
		delete(e.(map[string]any), "digest")
		delete(e.(map[string]any), "chunkDigest")
	}
	js := marshalTOC(m)
	raw2, ext2 := b.embedTOC(js)
	return analyse(cfg, raw2, ext2, digest.FromBytes(js))
}

// analyse parses a (pristine) blob independently of the code under test and prepares its alterations.
func analyse(cfg baseCfg, raw, ext []byte, d digest.Digest) (*baseBlob, error) {
	b := &baseBlob{Cfg: cfg, Raw: raw, Ext: ext, D: d, Regions: map[int64][]chunkRegion{}}
	js, _, err := extractTOC(cfg.Kind, b.Raw, b.Ext)
	if err != nil {
		return nil, fmt.Errorf("independent TOC extraction failed on the pristine blob: %v", err)
	}
	if got := sha256hex(js); got != b.D.Encoded() {
		return nil, fmt.Errorf("pristine TOC digest: builder says %s, independent extraction hashes to %s", b.D, got)
	}
	b.TOCJSON = js
	var toc enumx.TOC
	if err := json.Unmarshal(js, &toc); err != nil {
		return nil, err
	}
	// members
	if cfg.Kind == "zstd" {
		b.Members, err = enumx.ZstdFrames(raw)
	} else {
		b.Members, err = enumx.GzipMembers(raw)
	}
	if err != nil {
		return nil, fmt.Errorf("member split: %v", err)
	}
	switch cfg.Kind {
	case "gzip":
		b.Payload = len(b.Members) - 2 // TOC member, footer member
	case "zstd":
		b.Payload = len(b.Members) - 2 // TOC skippable frame, footer skippable frame
	case "ext":
		b.Payload = len(b.Members) - 1 // footer member
	}
	if b.Payload < 1 {
		return nil, fmt.Errorf("unexpected member layout: %d members", len(b.Members))
	}
	b.TOCStart = b.Members[b.Payload].Start
	starts := map[int64]bool{}
	for _, m := range b.Members {
		starts[m.Start] = true
	}
	// reference files + chunk regions
	content := map[string]string{}
	for _, e := range archives[cfg.Arch] {
		if e.Type == 0 {
			content[e.Name] = e.Data
		}
	}
	// the builder adds a one-byte landmark file (documented content 0x0f)
	content[".prefetch.landmark"] = "\x0f"
	content[".no.prefetch.landmark"] = "\x0f"
	var cur *refFile
	var curSize int64
	for _, e := range toc.Entries {
		switch e.Type {
		case "reg":
			data, ok := content[e.Name]
			if !ok {
				return nil, fmt.Errorf("TOC has regular file %q that is not in the archive", e.Name)
			}
			b.Files = append(b.Files, refFile{Name: e.Name, Data: []byte(data)})
			cur = &b.Files[len(b.Files)-1]
			curSize = e.Size
			if e.Size == 0 {
				continue
			}
		case "chunk":
		default:
			continue
		}
		cs := e.ChunkSize
		if cs == 0 {
			cs = curSize - e.ChunkOffset
		}
		cur.Chunks = append(cur.Chunks, [2]int64{e.ChunkOffset, cs})
		if !starts[e.Offset] {
			return nil, fmt.Errorf("TOC offset %d of %s is not a member boundary", e.Offset, cur.Name)
		}
		b.Regions[e.Offset] = append(b.Regions[e.Offset], chunkRegion{File: cur.Name, ChunkOffset: e.ChunkOffset, Inner: e.InnerOffset, Size: cs})
	}
	if len(b.Files) != len(content)-1 {
		return nil, fmt.Errorf("TOC lists %d regular files, archive has %d (+1 landmark)", len(b.Files), len(content)-2)
	}
	// sanity: the regions hold the file content
	for _, m := range b.Members[:b.Payload] {
		for _, r := range b.Regions[m.Start] {
			want := content[r.File][r.ChunkOffset : r.ChunkOffset+r.Size]
			if int(r.Inner+r.Size) > len(m.Data) || string(m.Data[r.Inner:r.Inner+r.Size]) != want {
				return nil, fmt.Errorf("member at %d does not hold chunk %s@%d at inner offset %d", m.Start, r.File, r.ChunkOffset, r.Inner)
			}
		}
	}
	b.tocAlts = b.genTOCAlts(js)
	b.repls = b.genRepls()
	return b, nil
}

func sha256hex(b []byte) string {
	s := sha256.Sum256(b)
	return hex.EncodeToString(s[:])
}

// ---- independent TOC extraction -------------------------------------------------------------

// gunzipTarEntry reads the first tar entry of the first gzip member of b; it does not
// insist on a valid gzip trailer (the code under test does not read that far either).
func gunzipTarEntry(b []byte) (name string, content []byte, err error) {
	zr, err := gzip.NewReader(bytes.NewReader(b))
	if err != nil {
		return "", nil, err
	}
	zr.Multistream(false)
	tr := tar.NewReader(zr)
	h, err := tr.Next()
	if err != nil {
		return "", nil, err
	}
	content = make([]byte, h.Size)
	if _, err := io.ReadFull(tr, content); err != nil {
		return h.Name, nil, err
	}
	return h.Name, content, nil
}

// extractTOC returns the TOC JSON the blob designates, by the documented rules only
// (gzip: footer -> tocOffset -> tar entry stargz.index.json; zstd:chunked: footer in the last
// skippable frame -> manifest frame; external: the separate TOC blob). All footers the
// implementation may fall back to (51-byte, legacy 47-byte, zstd 40-byte) are tried; every
// candidate that can be extracted is returned in all (the first is also returned as js).
func extractTOC(kind string, raw, ext []byte) (js []byte, all [][]byte, err error) {
	var errs []string
	add := func(c []byte, e error, what string) {
		if e != nil {
			errs = append(errs, what+": "+e.Error())
			return
		}
		all = append(all, c)
	}
	gz := func(off int64, end int) ([]byte, error) {
		if off < 0 || off > int64(end) {
			return nil, fmt.Errorf("toc offset %d outside blob", off)
		}
		name, c, err := gunzipTarEntry(raw[off:end])
		if err != nil {
			return nil, err
		}
		if name != "stargz.index.json" {
			return nil, fmt.Errorf("tar entry %q", name)
		}
		return c, nil
	}
	// 51-byte footer: hex offset at [16:32] followed by "STARGZ"
	if n := len(raw); n >= 51 && string(raw[n-51+32:n-51+38]) == "STARGZ" && raw[n-51] == 0x1f {
		if off, e := strconv.ParseInt(string(raw[n-51+16:n-51+32]), 16, 64); e == nil {
			c, e := gz(off, n-51)
			add(c, e, "gzip footer")
		}
	}
	// legacy 47-byte footer: extra = 16 hex + "STARGZ" at [12:34]
	if n := len(raw); n >= 47 && string(raw[n-47+28:n-47+34]) == "STARGZ" && raw[n-47] == 0x1f {
		if off, e := strconv.ParseInt(string(raw[n-47+12:n-47+28]), 16, 64); e == nil {
			c, e := gz(off, n-47)
			add(c, e, "legacy footer")
		}
	}
	// zstd:chunked footer: last 40 bytes
	if n := len(raw); n >= 40 && string(raw[n-8:]) == "GnUlInUx" {
		off := int64(binary.LittleEndian.Uint64(raw[n-40:]))
		cl := int64(binary.LittleEndian.Uint64(raw[n-32:]))
		if off >= 0 && cl > 0 && off <= int64(n) && off+cl <= int64(n) && off+cl >= off {
			c, e := zstdDecodeLenient(raw[off : off+cl])
			add(c, e, "zstd footer")
		} else if off >= 0 && off <= int64(n-40) {
			// no usable length: the manifest is whatever zstd stream starts at the offset (the JSON value it begins with)
			c, e := zstdDecodeLenient(raw[off : n-40])
			if e == nil {
				if v := firstJSONValue(c); v != nil {
					c = v
				}
			}
			add(c, e, "zstd footer (length unusable)")
		} else {
			errs = append(errs, "zstd footer: manifest offset outside blob")
		}
	}
	if kind == "ext" || ext != nil {
		name, c, e := gunzipTarEntry(ext)
		if e == nil && name != "stargz.index.json" {
			e = fmt.Errorf("tar entry %q", name)
		}
		add(c, e, "external TOC")
	}
	if len(all) == 0 {
		return nil, nil, fmt.Errorf("no TOC can be extracted (%s)", strings.Join(errs, "; "))
	}
	return all[0], all, nil
}

var zstdDecAll, _ = zstd.NewReader(nil, zstd.WithDecoderConcurrency(1))

// zstdDecodeLenient decodes as much of a zstd stream as decodes cleanly.
func zstdDecodeLenient(b []byte) ([]byte, error) {
	out, err := zstdDecAll.DecodeAll(b, nil)
	if err != nil && len(out) == 0 {
		return nil, err
	}
	return out, nil
}

// firstJSONValue returns the prefix of b holding its first JSON value (nil if none).
func firstJSONValue(b []byte) []byte {
	dec := json.NewDecoder(bytes.NewReader(b))
	var v json.RawMessage
	if err := dec.Decode(&v); err != nil {
		return nil
	}
	return b[:dec.InputOffset()]
}

// tocMatches reports whether one of the TOC candidates the altered blob designates is the
// pristine TOC (byte-identical, hence hashing to D; a candidate with extra bytes after the
// JSON value is reported separately).
func tocMatches(b *baseBlob, raw, ext []byte) (exact, prefixOnly bool, detail string) {
	_, all, err := extractTOC(b.Cfg.Kind, raw, ext)
	if err != nil {
		return false, false, err.Error()
	}
	for _, c := range all {
		if bytes.Equal(c, b.TOCJSON) {
			return true, false, ""
		}
	}
	for _, c := range all {
		if v := firstJSONValue(c); v != nil && bytes.Equal(bytes.TrimSpace(v), b.TOCJSON) {
			return false, true, "TOC JSON followed by extra bytes"
		}
	}
	return false, false, fmt.Sprintf("%d extractable TOC candidate(s), hashing to %s", len(all), sha256hex(all[0])[:16])
}

// ---- alterations --------------------------------------------------------------------------------

type alt struct {
	Kind string `json:"kind"`          // none | byte | trunc | swap | repl | toc
	Ext  bool   `json:"ext,omitempty"` // applies to the external TOC blob
	Pos  int    `json:"pos,omitempty"`
	Xf   int    `json:"xf,omitempty"`
	Len  int    `json:"len,omitempty"`
	I    int    `json:"i,omitempty"`
	J    int    `json:"j,omitempty"`
	N    int    `json:"n,omitempty"` // index into repls / tocAlts
}

var xfNames = []string{"bit0", "bit7", "+1", "zero"}

func xform(b byte, xf int) byte {
	switch xf {
	case 0:
		return b ^ 1
	case 1:
		return b ^ 0x80
	case 2:
		return b + 1
	}
	return 0
}

func (b *baseBlob) describe(a alt) string {
	tgt := "blob"
	if a.Ext {
		tgt = "external TOC blob"
	}
	switch a.Kind {
	case "none":
		return "pristine"
	case "byte":
		return fmt.Sprintf("%s byte %d %s (%s)", tgt, a.Pos, xfNames[a.Xf], b.where(a))
	case "trunc":
		return fmt.Sprintf("%s truncated to %d bytes", tgt, a.Len)
	case "swap":
		return fmt.Sprintf("members %d [%d,%d) and %d [%d,%d) swapped", a.I, b.Members[a.I].Start, b.Members[a.I].End, a.J, b.Members[a.J].Start, b.Members[a.J].End)
	case "repl":
		return b.repls[a.N].Desc
	case "toc":
		return "TOC re-serialised with " + b.tocAlts[a.N].Desc
	}
	return a.Kind
}

func (b *baseBlob) where(a alt) string {
	if a.Ext {
		return "toc blob"
	}
	for i, m := range b.Members {
		if int64(a.Pos) >= m.Start && int64(a.Pos) < m.End {
			role := "payload"
			if i >= b.Payload {
				role = "toc/footer"
			}
			return fmt.Sprintf("member %d %s +%d", i, role, int64(a.Pos)-m.Start)
		}
	}
	return "?"
}

// apply returns the altered (blob, external TOC) pair.
func (b *baseBlob) apply(a alt) (raw, ext []byte) {
	raw, ext = b.Raw, b.Ext
	switch a.Kind {
	case "byte":
		src := raw
		if a.Ext {
			src = ext
		}
		c := append([]byte(nil), src...)
		c[a.Pos] = xform(c[a.Pos], a.Xf)
		if a.Ext {
			ext = c
		} else {
			raw = c
		}
	case "trunc":
		if a.Ext {
			ext = append([]byte{}, ext[:a.Len]...)
		} else {
			raw = append([]byte{}, raw[:a.Len]...)
		}
	case "swap":
		var out []byte
		for k, m := range b.Members {
			src := m
			if k == a.I {
				src = b.Members[a.J]
			} else if k == a.J {
				src = b.Members[a.I]
			}
			out = append(out, b.Raw[src.Start:src.End]...)
		}
		raw = out
	case "repl":
		r := b.repls[a.N]
		m := b.Members[r.Member]
		out := append([]byte(nil), b.Raw[:m.Start]...)
		out = append(out, r.Bytes...)
		out = append(out, b.Raw[m.End:]...)
		raw = out
	case "toc":
		raw, ext = b.embedTOC(b.tocAlts[a.N].gen())
	}
	return
}

// embedTOC re-embeds a TOC JSON the way the writers do.
func (b *baseBlob) embedTOC(js []byte) (raw, ext []byte) {
	gzTOC := func() []byte {
		var tb bytes.Buffer
		tw := tar.NewWriter(&tb)
		tw.WriteHeader(&tar.Header{Typeflag: tar.TypeReg, Name: "stargz.index.json", Size: int64(len(js))})
		tw.Write(js)
		tw.Close()
		return gzipBytes(tb.Bytes(), gzip.BestCompression, "")
	}
	switch b.Cfg.Kind {
	case "gzip":
		foot := b.Raw[len(b.Raw)-51:] // tocOffset is unchanged: the TOC member still starts where it did
		out := append([]byte(nil), b.Raw[:b.TOCStart]...)
		out = append(out, gzTOC()...)
		out = append(out, foot...)
		return out, nil
	case "ext":
		return b.Raw, gzTOC()
	}
	// zstd:chunked: skippable frame with the compressed manifest, skippable frame with the 40-byte footer
	comp := zstdEnc(zstd.SpeedDefault).EncodeAll(js, nil)
	skip := func(p []byte) []byte {
		h := []byte{0x50, 0x2a, 0x4d, 0x18, 0, 0, 0, 0}
		binary.LittleEndian.PutUint32(h[4:], uint32(len(p)))
		return append(h, p...)
	}
	foot := make([]byte, 40)
	binary.LittleEndian.PutUint64(foot, uint64(b.TOCStart)+8)
	binary.LittleEndian.PutUint64(foot[8:], uint64(len(comp)))
	binary.LittleEndian.PutUint64(foot[16:], uint64(len(js)))
	binary.LittleEndian.PutUint64(foot[24:], 1)
	copy(foot[32:], "GnUlInUx")
	out := append([]byte(nil), b.Raw[:b.TOCStart]...)
	out = append(out, skip(comp)...)
	out = append(out, skip(foot)...)
	return out, nil
}

// ---- member replacement -------------------------------------------------------------------------

type replAlt struct {
	Member int
	Bytes  []byte
	Desc   string
	File   string // file whose chunk payload differs ("" = only bytes outside chunk payloads differ)
}

var zstdEncs = map[zstd.EncoderLevel]*zstd.Encoder{}

func zstdEnc(lv zstd.EncoderLevel) *zstd.Encoder {
	if e, ok := zstdEncs[lv]; ok {
		return e
	}
	e, _ := zstd.NewWriter(nil, zstd.WithEncoderLevel(lv), zstd.WithEncoderConcurrency(1), zstd.WithLowerEncoderMem(true))
	zstdEncs[lv] = e
	return e
}

var gzipWriters = map[int]*gzip.Writer{}

// gzipBytes compresses data as one gzip member (optionally with an FNAME header field).
func gzipBytes(data []byte, level int, name string) []byte {
	var buf bytes.Buffer
	gz, ok := gzipWriters[level]
	if !ok {
		gz, _ = gzip.NewWriterLevel(&buf, level)
		gzipWriters[level] = gz
	} else {
		gz.Reset(&buf)
	}
	gz.Name = name
	gz.Write(data)
	gz.Close()
	return buf.Bytes()
}

var gzipLevels = []int{gzip.BestCompression, gzip.BestSpeed, gzip.HuffmanOnly, gzip.NoCompression}

func (b *baseBlob) compress(data []byte, variant int) []byte {
	if b.Cfg.Kind == "zstd" {
		lv := []zstd.EncoderLevel{zstd.SpeedDefault, zstd.SpeedFastest, zstd.SpeedBetterCompression}[variant%3]
		return zstdEnc(lv).EncodeAll(data, nil)
	}
	return gzipBytes(data, gzipLevels[variant%4], "")
}

// fit compresses data into exactly want bytes of valid compressed stream (padding with a gzip
// FNAME/FEXTRA header field or a zstd skippable frame when shorter); nil if impossible.
func (b *baseBlob) fit(data []byte, want int) []byte {
	nv := 4
	if b.Cfg.Kind == "zstd" {
		nv = 3
	}
	for v := 0; v < nv; v++ {
		c := b.compress(data, v)
		d := want - len(c)
		if d == 0 {
			return c
		}
		if d < 0 {
			continue
		}
		if b.Cfg.Kind == "zstd" {
			if d >= 8 {
				h := []byte{0x50, 0x2a, 0x4d, 0x18, 0, 0, 0, 0}
				binary.LittleEndian.PutUint32(h[4:], uint32(d-8))
				return append(append(c, h...), make([]byte, d-8)...)
			}
			continue
		}
		if d >= 2 {
			if c := gzipBytes(data, gzipLevels[v], strings.Repeat("x", d-1)); len(c) == want { // FNAME: d-1 characters + NUL
				return c
			}
		}
	}
	return nil
}

// genRepls: for every payload member, validly compressed replacements with a different payload
// of the same uncompressed length and the same compressed length (so every TOC offset stays right).
func (b *baseBlob) genRepls() []replAlt {
	var out []replAlt
	for mi, m := range b.Members[:b.Payload] {
		if m.Skippable || len(m.Data) == 0 {
			continue
		}
		want := int(m.End - m.Start)
		try := func(data []byte, desc, file string) {
			if bytes.Equal(data, m.Data) {
				return
			}
			c := b.fit(data, want)
			if c == nil {
				return
			}
			out = append(out, replAlt{Member: mi, Bytes: c, File: file,
				Desc: fmt.Sprintf("member %d [%d,%d) replaced by a valid %s stream of the same compressed and uncompressed length with %s", mi, m.Start, m.End, b.Cfg.Kind, desc)})
		}
		regs := b.Regions[m.Start]
		for _, r := range regs {
			for _, pos := range []int64{0, r.Size - 1} {
				for _, f := range []func(byte) byte{func(x byte) byte { return x + 1 }, func(x byte) byte { return x ^ 0x20 }} {
					d := append([]byte(nil), m.Data...)
					d[r.Inner+pos] = f(d[r.Inner+pos])
					try(d, fmt.Sprintf("byte %d of chunk %s@%d changed from %q to %q", pos, r.File, r.ChunkOffset, m.Data[r.Inner+pos], d[r.Inner+pos]), r.File)
				}
				if r.Size == 1 {
					break
				}
			}
			d := append([]byte(nil), m.Data...)
			for i := r.Inner; i < r.Inner+r.Size; i++ {
				d[i] ^= 0x20
			}
			try(d, fmt.Sprintf("every byte of chunk %s@%d case-flipped", r.File, r.ChunkOffset), r.File)
		}
		// bytes outside chunk payloads (tar header / padding): not pinned by the TOC
		inChunk := make([]bool, len(m.Data))
		for _, r := range regs {
			for i := r.Inner; i < r.Inner+r.Size; i++ {
				inChunk[i] = true
			}
		}
		for i := range m.Data {
			if !inChunk[i] {
				d := append([]byte(nil), m.Data...)
				d[i] ^= 1
				try(d, fmt.Sprintf("byte %d outside every chunk payload (tar header / padding) changed", i), "")
				break
			}
		}
	}
	return out
}

// ---- TOC field alterations ----------------------------------------------------------------------

type tocAlt struct {
	Desc string
	gen  func() []byte // the re-serialised TOC JSON (built on demand)
}

func marshalTOC(v any) []byte {
	js, err := json.MarshalIndent(v, "", "\t")
	if err != nil {
		panic(err)
	}
	return js
}

func (b *baseBlob) genTOCAlts(js []byte) []tocAlt {
	parse := func() map[string]any {
		dec := json.NewDecoder(bytes.NewReader(js))
		dec.UseNumber()
		var m map[string]any
		if err := dec.Decode(&m); err != nil {
			panic(err)
		}
		return m
	}
	var out []tocAlt
	// add registers an alteration; mut edits a freshly parsed copy of the TOC.
	add := func(desc string, mut func(m map[string]any)) {
		out = append(out, tocAlt{Desc: desc, gen: func() []byte {
			m := parse()
			mut(m)
			return marshalTOC(m)
		}})
	}
	// semantically identical, different bytes
	add("no field changed (key order / formatting only)", func(map[string]any) {})
	out = append(out, tocAlt{Desc: "a trailing newline appended", gen: func() []byte { return append(append([]byte(nil), js...), '\n') }})
	base := parse()
	ents := base["entries"].([]any)
	otherDigest := func(i int, field string) string {
		for k, e := range ents {
			if k != i {
				if s, ok := e.(map[string]any)[field].(string); ok && s != "" && s != ents[i].(map[string]any)[field] {
					return s
				}
			}
		}
		return ""
	}
	allFields := []string{"name", "type", "size", "modtime", "linkName", "mode", "uid", "gid", "userName", "groupName", "offset", "innerOffset", "NumLink", "digest", "chunkOffset", "chunkSize", "chunkDigest"}
	for i := range ents {
		orig := ents[i].(map[string]any)
		for _, f := range allFields {
			v, present := orig[f]
			set := func(desc string, nv any, del bool) {
				if !del && present && fmt.Sprint(nv) == fmt.Sprint(v) {
					return // not an alteration
				}
				i, f := i, f
				add(fmt.Sprintf("entry %d (%v %v) %s", i, orig["type"], orig["name"], desc), func(m map[string]any) {
					e := m["entries"].([]any)[i].(map[string]any)
					if del {
						delete(e, f)
					} else {
						e[f] = nv
					}
				})
			}
			if present {
				set(f+" removed", nil, true)
			}
			switch f {
			case "size", "offset", "innerOffset", "chunkOffset", "chunkSize", "mode", "uid", "gid", "NumLink":
				n := int64(0)
				if present {
					n, _ = v.(json.Number).Int64()
				}
				for _, nv := range []int64{n + 1, n - 1, 0, 70000} { // (1<<40 makes readAndCache allocate a 1 TiB bufio buffer before verification: fatal OOM, C04 scope)
					if nv != n || !present {
						set(fmt.Sprintf("%s %d -> %d", f, n, nv), json.Number(strconv.FormatInt(nv, 10)), false)
					}
				}
			case "digest", "chunkDigest":
				s, _ := v.(string)
				if present && len(s) > 10 {
					c := []byte(s)
					if c[len(c)-1] == '0' {
						c[len(c)-1] = '1'
					} else {
						c[len(c)-1] = '0'
					}
					set(f+" last hex digit changed", string(c), false)
					set(f+" emptied", "", false)
				}
				if o := otherDigest(i, f); o != "" {
					set(f+" replaced by the "+f+" of another entry", o, false)
				}
				if !present {
					set(f+" added (sha256 of the empty string)", "sha256:e3b0c44298fc1c149afbf4c8996fb92427ae41e4649b934ca495991b7852b855", false)
				}
			case "name":
				s, _ := v.(string)
				set("name -> "+s+"x", s+"x", false)
				for _, e2 := range ents {
					if n2, _ := e2.(map[string]any)["name"].(string); n2 != s && n2 != "" {
						set("name -> "+n2+" (name of another entry)", n2, false)
						break
					}
				}
			case "type":
				for _, t := range []string{"reg", "chunk", "dir", "symlink", "hardlink"} {
					if t != v {
						set(fmt.Sprintf("type %v -> %s", v, t), t, false)
					}
				}
			case "linkName":
				set("linkName -> a", "a", false)
			case "modtime":
				set("modtime -> 2001-01-01T00:00:00Z", "2001-01-01T00:00:00Z", false)
			case "userName", "groupName":
				set(f+" -> root", "root", false)
			}
		}
	}
	// structural
	for i := range ents {
		i := i
		add(fmt.Sprintf("entry %d removed", i), func(m map[string]any) {
			e := m["entries"].([]any)
			m["entries"] = append(append([]any{}, e[:i]...), e[i+1:]...)
		})
		add(fmt.Sprintf("entry %d duplicated", i), func(m map[string]any) {
			e := m["entries"].([]any)
			m["entries"] = append(append(append([]any{}, e[:i+1]...), e[i]), e[i+1:]...)
		})
		if i+1 < len(ents) {
			add(fmt.Sprintf("entries %d and %d exchanged", i, i+1), func(m map[string]any) {
				e := m["entries"].([]any)
				e[i], e[i+1] = e[i+1], e[i]
			})
		}
	}
	add("version 1 -> 2", func(m map[string]any) { m["version"] = json.Number("2") })
	add("all entries removed", func(m map[string]any) { m["entries"] = []any{} })
	return out
}

// alterations lists every single alteration of the base blob, simplest first.
func (b *baseBlob) alterations() []alt {
	out := b.alterations1()
	if !b.Cfg.Lite {
		return out
	}
	var lite []alt
	for _, a := range out {
		if a.Kind == "none" || a.Kind == "repl" || a.Kind == "swap" {
			lite = append(lite, a)
		}
	}
	return lite
}

func (b *baseBlob) alterations1() []alt {
	out := []alt{{Kind: "none"}}
	for i := range b.repls {
		out = append(out, alt{Kind: "repl", N: i})
	}
	limit := b.Payload + 1 // payload members and the TOC member; the footer stays last
	if b.Cfg.Kind == "ext" {
		limit = b.Payload
	}
	for i := 0; i < limit; i++ {
		for j := i + 1; j < limit; j++ {
			out = append(out, alt{Kind: "swap", I: i, J: j})
		}
	}
	for i := range b.tocAlts {
		out = append(out, alt{Kind: "toc", N: i})
	}
	for p := range b.Raw {
		for xf := 0; xf < 4; xf++ {
			if xform(b.Raw[p], xf) != b.Raw[p] {
				out = append(out, alt{Kind: "byte", Pos: p, Xf: xf})
			}
		}
	}
	for p := range b.Ext {
		for xf := 0; xf < 4; xf++ {
			if xform(b.Ext[p], xf) != b.Ext[p] {
				out = append(out, alt{Kind: "byte", Ext: true, Pos: p, Xf: xf})
			}
		}
	}
	for l := len(b.Raw) - 1; l >= 0; l-- {
		out = append(out, alt{Kind: "trunc", Len: l})
	}
	for l := len(b.Ext) - 1; l >= 0; l-- {
		out = append(out, alt{Kind: "trunc", Ext: true, Len: l})
	}
	return out
}

func baseConfigs(tier string) []baseCfg {
	var out []baseCfg
	for a := 0; a < nAlterArchives; a++ {
		for _, k := range []string{"gzip", "zstd", "ext"} {
			for _, c := range []int{3, 8} {
				for _, m := range []int{0, 64} {
					cfg := baseCfg{Arch: a, Kind: k, Chunk: c, MinChunk: m}
					if tier != "thorough" && a == 2 {
						cfg.Lite = true // quick: only the member swaps / replacements of archive 2
					}
					if tier != "thorough" {
						// quick: archive 0 with (3,0) and (8,64) as gzip, (3,0) with external TOC, (8,64) as zstd:chunked;
						// archive 2 gzip (8,0) for the equal-length chunk swap
						ok := (a == 0 && k == "gzip" && ((c == 3 && m == 0) || (c == 8 && m == 64))) ||
							(a == 0 && k == "ext" && c == 3 && m == 0) ||
							(a == 0 && k == "zstd" && c == 8 && m == 64) ||
							(a == 2 && k == "gzip" && c == 8 && m == 0)
						if !ok {
							continue
						}
					}
					out = append(out, cfg)
				}
			}
		}
	}
	// TOCs that legitimately record no chunk digests (pinned by their own D): nothing can be verified, so no read may return bytes
	out = append(out, baseCfg{Arch: 0, Kind: "gzip", Chunk: 8, MinChunk: 0, NoDigest: true, Lite: tier != "thorough"})
	if tier == "thorough" {
		out = append(out, baseCfg{Arch: 0, Kind: "zstd", Chunk: 8, MinChunk: 64, NoDigest: true, Lite: true})
	}
	return out
}

var _ = digest.FromBytes
