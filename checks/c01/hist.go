package main

// Part "hist": every history over {Verify(D), Verify(D'), SkipVerify, read, Prefetch} x two
// holders of ONE cached layer object obtained from the real layer.Resolver over an in-memory
// registry. Part "mount": fs.Mount's verification decision table (FUSE server start seamed out).

import (
	"bytes"
	"context"
	"encoding/json"
	"errors"
	"fmt"
	"os"
	"path/filepath"
	"strings"
	"syscall"
	"time"

	"github.com/containerd/containerd/v2/pkg/reference"
	"github.com/containerd/stargz-snapshotter/estargz"
	stargzfs "github.com/containerd/stargz-snapshotter/fs"
	"github.com/containerd/stargz-snapshotter/fs/config"
	"github.com/containerd/stargz-snapshotter/fs/layer"
	"github.com/containerd/stargz-snapshotter/fs/source"
	memorymetadata "github.com/containerd/stargz-snapshotter/metadata/memory"
	"github.com/containerd/stargz-snapshotter/task"
	fusefs "github.com/hanwen/go-fuse/v2/fs"
	"github.com/hanwen/go-fuse/v2/fuse"
	digest "github.com/opencontainers/go-digest"
	ocispec "github.com/opencontainers/image-spec/specs-go/v1"

	"verif/lib/memreg"
	"verif/lib/runner"
)

type hop struct {
	H  int    `json:"h"`
	Op string `json:"op"` // VD Verify(D) | VX Verify(D') | SK SkipVerify | RD read every file | PF Prefetch
}

func (o hop) String() string {
	n := map[string]string{"VD": "Verify(D)", "VX": "Verify(D')", "SK": "SkipVerify()", "RD": "read", "PF": "Prefetch()"}[o.Op]
	return fmt.Sprintf("h%d.%s", o.H+1, n)
}

func histString(h []hop) string {
	var s []string
	for _, o := range h {
		s = append(s, o.String())
	}
	return strings.Join(s, "; ")
}

var histOps = []string{"VD", "VX", "SK", "RD", "PF"}

type histCfg struct {
	Base    baseCfg `json:"base"`
	Corrupt bool    `json:"corrupt"`
	Cache   string  `json:"cache"` // mem | dirpt (directory cache, direct mode, passthrough on)
	Less    int     `json:"-"`     // explored to (depth - Less)
}

func (c histCfg) String() string {
	b := "pristine blob"
	if c.Corrupt {
		b = "blob with one chunk replaced by a validly compressed different payload"
	}
	return fmt.Sprintf("%s %s, fs cache %s", c.Base, b, c.Cache)
}

var wrongDigest = digest.FromString("c01: not the TOC")

type histWorld struct {
	b       *baseBlob
	cfg     histCfg
	reg     *memreg.Registry
	rs      *layer.Resolver
	root    string
	refs    [2]layer.Layer
	badFile string
}

// corruptBlob picks the first replacement that changes a chunk payload of a multi-chunk file.
func corruptBlob(b *baseBlob) (raw []byte, file string, desc string, err error) {
	for i, r := range b.repls {
		if r.File == "" {
			continue
		}
		for _, f := range b.Files {
			if f.Name == r.File && len(f.Chunks) > 1 {
				raw, _ = b.apply(alt{Kind: "repl", N: i})
				return raw, r.File, r.Desc, nil
			}
		}
	}
	return nil, "", "", fmt.Errorf("no constructible chunk replacement for %s", b.Cfg)
}

func layerConfig(cacheKind string) config.Config {
	cfg := config.Config{
		HTTPCacheType: "memory",
		FSCacheType:   "memory",
		NoPrometheus:  true,
		BlobConfig:    config.BlobConfig{ValidInterval: 1 << 30, ChunkSize: 4096, MaxRetries: 1, MinWaitMSec: 1, MaxWaitMSec: 1},
	}
	if cacheKind == "dirpt" {
		cfg.FSCacheType = ""
		cfg.DirectoryCacheConfig = config.DirectoryCacheConfig{SyncAdd: true, Direct: true}
		cfg.FuseConfig = config.FuseConfig{PassThrough: true, MergeBufferSize: 16, MergeWorkerCount: 2}
	}
	return cfg
}

func newHistWorld(b *baseBlob, raw []byte, cfg histCfg, scratch string, n int) (*histWorld, error) {
	w := &histWorld{b: b, cfg: cfg, reg: memreg.New(), root: filepath.Join(scratch, fmt.Sprintf("h%d", n))}
	dg := digest.FromBytes(raw)
	w.reg.AddBlob(dg.String(), raw)
	tm := task.NewBackgroundTaskManager(2, 0)
	rs, err := layer.NewResolver(w.root, tm, layerConfig(cfg.Cache), nil, memorymetadata.NewReader, layer.OverlayOpaqueAll, nil)
	if err != nil {
		return nil, err
	}
	w.rs = rs
	refspec, err := reference.Parse(w.reg.Host + "/" + repoName + ":latest")
	if err != nil {
		return nil, err
	}
	desc := ocispec.Descriptor{Digest: dg, Size: int64(len(raw)), MediaType: ocispec.MediaTypeImageLayerGzip}
	for i := range w.refs {
		l, err := rs.Resolve(context.Background(), w.reg.CompatHosts(nil), refspec, desc)
		if err != nil {
			return nil, fmt.Errorf("Resolve #%d: %v", i+1, err)
		}
		w.refs[i] = l
	}
	return w, nil
}

func (w *histWorld) close() {
	for _, l := range w.refs {
		if l != nil {
			l.Close()
		}
	}
	os.RemoveAll(w.root)
}

type fileRead struct {
	Name   string
	Err    string
	Data   []byte
	PT     []byte // content of the passthrough fd, if one was handed out
	HasPT  bool
	RootEr string
}

// readAll reads every regular file through RootNode -> Lookup -> Open -> Read (the FUSE node API, no mount).
func readLayer(l layer.Layer, files []refFile) (out []fileRead, rootErr error) {
	root, err := l.RootNode(0)
	if err != nil {
		return nil, err
	}
	fusefs.NewNodeFS(root, &fusefs.Options{})
	ctx := context.Background()
	for _, f := range files {
		fr := fileRead{Name: f.Name}
		var node fusefs.InodeEmbedder = root
		ok := true
		for _, comp := range strings.Split(f.Name, "/") {
			lk, is := node.(fusefs.NodeLookuper)
			if !is {
				fr.Err, ok = "not a directory node", false
				break
			}
			var eo fuse.EntryOut
			in, errno := lk.Lookup(ctx, comp, &eo)
			if errno != 0 {
				fr.Err, ok = fmt.Sprintf("lookup %s: %v", comp, errno), false
				break
			}
			node = in.Operations()
		}
		if ok {
			op, is := node.(fusefs.NodeOpener)
			if !is {
				fr.Err = "not openable"
			} else if fh, _, errno := op.Open(ctx, 0); errno != 0 {
				fr.Err = fmt.Sprintf("open: %v", errno)
			} else {
				if p, is := fh.(fusefs.FilePassthroughFder); is {
					if fd, has := p.PassthroughFd(); has {
						buf := make([]byte, len(f.Data)+4)
						n, _ := syscall.Pread(fd, buf, 0)
						if n < 0 {
							n = 0
						}
						fr.PT, fr.HasPT = buf[:n], true
					}
				}
				buf := make([]byte, len(f.Data)+4)
				rr, errno := fh.(fusefs.FileReader).Read(ctx, buf, 0)
				if errno != 0 {
					fr.Err = fmt.Sprintf("read: %v", errno)
				} else {
					d, st := rr.Bytes(make([]byte, len(buf)))
					if st != fuse.OK {
						fr.Err = fmt.Sprintf("read result: %v", st)
					} else {
						fr.Data = append([]byte{}, d...)
					}
				}
				if rl, is := fh.(fusefs.FileReleaser); is {
					rl.Release(ctx)
				}
			}
		}
		out = append(out, fr)
	}
	return out, nil
}

type histCase struct {
	Cfg  histCfg `json:"cfg"`
	Hist []hop   `json:"hist"`
}

type histResult struct {
	ops             []string // per-op observation class
	v               *viol
	verified        bool // some Verify returned nil
	readAfterVerify bool
}

const layerLoc = "fs/layer/layer.go:470-486 (Verify returns nil whenever l.r != nil; SkipVerify and VerifyTOC hand out the same *reader whose verify flag is only set inside VerifyTOC) and fs/reader/reader.go:446-454 (file.ReadAt trusts chunk-cache hits)"

func runHist(b *baseBlob, raw []byte, badFile string, hc histCase, scratch string, n int) (res histResult, broken string) {
	w, err := newHistWorld(b, raw, hc.Cfg, scratch, n)
	if err != nil {
		return res, err.Error()
	}
	defer w.close()
	state := "none"       // none | verified | skipped: which call made the layer usable (decided from observed returns)
	guardAt := -1         // index of the first Verify(D) that returned nil
	guardState := ""      // state before that call
	cachedBefore := false // the bad file's chunks were read or prefetched before the guard
	touched := false      // some read / prefetch happened so far
	desc := func(i int) string {
		return fmt.Sprintf("%s; history: %s", hc.Cfg, histString(hc.Hist[:i+1]))
	}
	fail := func(key, msg string) {
		if res.v == nil {
			res.v = &viol{Key: key, Msg: msg}
		}
	}
	for i, o := range hc.Hist {
		l := w.refs[o.H]
		switch o.Op {
		case "VD", "VX":
			d := b.D
			if o.Op == "VX" {
				d = wrongDigest
			}
			err := l.Verify(d)
			if err != nil {
				res.ops = append(res.ops, o.Op+":error")
				continue
			}
			res.ops = append(res.ops, o.Op+":nil@"+state)
			res.verified = true
			if o.Op == "VX" {
				key := "C01/hist/verify-wrong-digest-accepted"
				switch state {
				case "verified":
					key = "C01/hist/verify-after-verify-wrong-digest-accepted"
				case "skipped":
					key = "C01/hist/verify-after-skipverify-wrong-digest-accepted"
				}
				fail(key, fmt.Sprintf("%s. Verify(%s) returned nil but the layer's TOC hashes to %s. expected: an error (Verify(X) may return nil only if the TOC hashes to X); actual: nil. %s", desc(i), d, b.D, layerLoc))
			} else if guardAt < 0 {
				guardAt, guardState, cachedBefore = i, state, touched
			}
			if state == "none" {
				state = "verified"
			}
		case "SK":
			l.SkipVerify()
			res.ops = append(res.ops, "SK@"+state)
			if state == "none" {
				state = "skipped"
			}
		case "PF":
			var err error
			if _, br := underVrt(func() { err = l.Prefetch(int64(len(raw))) }); br != "" {
				return res, desc(i) + ": " + br
			}
			touched = true
			if err != nil {
				res.ops = append(res.ops, "PF:error")
			} else {
				res.ops = append(res.ops, "PF:ok")
			}
		case "RD":
			frs, rerr := readLayer(l, b.Files)
			if rerr != nil {
				res.ops = append(res.ops, "RD:rootnode-error")
				continue
			}
			touched = true
			cls := "orig"
			for fi, fr := range frs {
				f := &b.Files[fi]
				if fr.Err != "" {
					if cls == "orig" {
						cls = "error"
					}
					continue
				}
				bad := !bytes.Equal(fr.Data, f.Data)
				badPT := fr.HasPT && !bytes.Equal(fr.PT, f.Data)
				if !bad && !badPT {
					continue
				}
				cls = "corrupt-unverified"
				if guardAt < 0 {
					continue // never verified: the statement makes no promise
				}
				cls = "CORRUPT-AFTER-VERIFY"
				res.readAfterVerify = true
				got, how := fr.Data, "Read"
				if !bad {
					got, how = fr.PT, "the passthrough fd"
				}
				key := "C01/hist/verified-layer-served-corrupt-bytes"
				if guardState == "skipped" {
					key = "C01/hist/verify-after-skipverify-serves-unverified-bytes"
					if cachedBefore {
						key = "C01/hist/verify-after-skipverify-serves-unverified-cached-chunk"
					}
				} else if guardState == "none" && cachedBefore {
					key = "C01/hist/verified-layer-served-chunk-cached-before-verify"
				}
				fail(key, fmt.Sprintf("%s. Verify(D) returned nil at step %d (layer state before that call: %s), then %s of %q returned %q; the content pinned by D is %q. expected: original bytes or an error; actual: the corrupted chunk. %s", desc(i), guardAt+1, guardState, how, fr.Name, got, f.Data, layerLoc))
			}
			if guardAt >= 0 {
				res.readAfterVerify = true
			}
			res.ops = append(res.ops, "RD:"+cls)
		}
	}
	return res, ""
}

func histConfigs(tier string) []histCfg {
	base := baseCfg{Arch: 0, Kind: "gzip", Chunk: 8, MinChunk: 0, Prio: true}
	out := []histCfg{{Base: base, Corrupt: false, Cache: "mem"}, {Base: base, Corrupt: true, Cache: "mem"}, {Base: base, Corrupt: true, Cache: "dirpt", Less: 1}}
	if tier == "thorough" {
		out = append(out, histCfg{Base: base, Corrupt: false, Cache: "dirpt", Less: 1},
			histCfg{Base: baseCfg{Arch: 0, Kind: "zstd", Chunk: 8, MinChunk: 64, Prio: true}, Corrupt: true, Cache: "mem", Less: 2})
	}
	return out
}

func histPart(tier string) runner.Part {
	depth := 4
	if tier == "thorough" {
		depth = 6
	}
	cfgs := histConfigs(tier)
	return runner.Part{Name: "hist", Shards: map[bool]int{false: 16, true: 96}[tier == "thorough"], Run: func(c *runner.Ctx) *runner.Result {
		os.Setenv("TMPDIR", c.Scratch)
		res := &runner.Result{Outcomes: map[string]int{}}
		if !c.Deadline.IsZero() && time.Now().After(c.Deadline) {
			res.Caps = []string{"time budget (not started)"}
			return res
		}
		n := 0
		idx := 0
		for _, hc := range cfgs {
			b, err := buildBase(hc.Base)
			if err != nil {
				res.Broken = err.Error()
				return res
			}
			raw, badFile := b.Raw, ""
			if hc.Corrupt {
				var d string
				raw, badFile, d, err = corruptBlob(b)
				if err != nil {
					res.Broken = err.Error()
					return res
				}
				if c.Shard == 0 && len(res.Samples) == 0 {
					res.Samples = append(res.Samples, map[string]any{"config": hc.String(), "corruption": d, "alphabet": "h1|h2 x Verify(D) Verify(D') SkipVerify read Prefetch", "depth": depth})
				}
			}
			// sanity: both Resolve calls return the same cached layer
			if c.Shard == 0 {
				w, err := newHistWorld(b, raw, hc, c.Scratch, -1)
				if err != nil {
					res.Broken = "hist world: " + err.Error()
					return res
				}
				w.refs[0].SkipVerify()
				if _, err := w.refs[1].RootNode(0); err != nil {
					res.Broken = "Resolve did not return the same cached layer to both holders: " + err.Error()
					w.close()
					return res
				}
				w.close()
			}
			for d := 1; d <= depth-hc.Less; d++ {
				hist := make([]hop, d)
				var rec func(k int) bool
				rec = func(k int) bool {
					if k == d {
						idx++
						if idx%c.Of != c.Shard {
							return true
						}
						if time.Now().After(c.Deadline) {
							res.Caps = appendUniq(res.Caps, fmt.Sprintf("time budget (stopped at depth %d of %s)", d, hc))
							return false
						}
						n++
						hr, broken := runHist(b, raw, badFile, histCase{hc, hist}, c.Scratch, n)
						if broken != "" {
							res.Broken = broken
							return false
						}
						res.Evaluations++
						res.States++
						res.Transitions += int64(d)
						for _, o := range hr.ops {
							res.Outcomes[o]++
						}
						if hr.readAfterVerify {
							res.Nontrivial++
						}
						if hr.v != nil && !hasKey(res.Violations, hr.v.Key) {
							// shrink: drop operations while the same defect class still shows (shards see different
							// histories first; the reported one is 1-minimal)
							min, mv := append([]hop(nil), hist...), hr.v
							for changed := true; changed; {
								changed = false
								for i := range min {
									cand := append(append([]hop(nil), min[:i]...), min[i+1:]...)
									n++
									cr, _ := runHist(b, raw, badFile, histCase{hc, cand}, c.Scratch, n)
									if cr.v != nil && cr.v.Key == mv.Key {
										min, mv, changed = cand, cr.v, true
										break
									}
								}
							}
							res.Violations = append(res.Violations, runner.Violation{Key: mv.Key, Msg: mv.Msg, Replay: histCase{hc, min}})
						}
						return true
					}
					for h := 0; h < 2; h++ {
						if k == 0 && h == 1 {
							continue // the two holders are interchangeable: the first operation is by h1 w.l.o.g.
						}
						for _, op := range histOps {
							hist[k] = hop{h, op}
							if !rec(k + 1) {
								return false
							}
						}
					}
					return true
				}
				if !rec(0) {
					goto done
				}
			}
		}
	done:
		res.Extra = map[string]any{"history_depth_completed": depth, "configs": len(cfgs)}
		return res
	}, Replay: func(c *runner.Ctx, rawj json.RawMessage) (string, error) {
		var hc histCase
		if err := json.Unmarshal(rawj, &hc); err != nil {
			return "", err
		}
		os.Setenv("TMPDIR", c.Scratch)
		b, err := buildBase(hc.Cfg.Base)
		if err != nil {
			return "", err
		}
		raw, bad := b.Raw, ""
		if hc.Cfg.Corrupt {
			raw, bad, _, err = corruptBlob(b)
			if err != nil {
				return "", err
			}
		}
		hr, broken := runHist(b, raw, bad, hc, c.Scratch, 1)
		if broken != "" {
			return "", errors.New("broken: " + broken)
		}
		if hr.v != nil {
			return strings.Join(hr.ops, ","), fmt.Errorf("%s: %s", hr.v.Key, hr.v.Msg)
		}
		return strings.Join(hr.ops, ","), nil
	}}
}

// ---- fs.Mount decision table ------------------------------------------------------------------

type mountLabels struct {
	Digest string `json:"digest"` // "" | D | X
	Skip   bool   `json:"skip"`
}

func (m mountLabels) String() string {
	var s []string
	switch m.Digest {
	case "D":
		s = append(s, "toc.digest=D")
	case "X":
		s = append(s, "toc.digest=D'")
	}
	if m.Skip {
		s = append(s, "skipverify")
	}
	if len(s) == 0 {
		return "{}"
	}
	return "{" + strings.Join(s, ",") + "}"
}

type mountCase struct {
	Disable bool          `json:"disable_verification"`
	Allow   bool          `json:"allow_no_verification"`
	Corrupt bool          `json:"corrupt"`
	Mounts  []mountLabels `json:"mounts"`
}

func (m mountCase) String() string {
	var s []string
	for _, l := range m.Mounts {
		s = append(s, "Mount"+l.String())
	}
	return fmt.Sprintf("disable_verification=%v allow_no_verification=%v: %s", m.Disable, m.Allow, strings.Join(s, "; "))
}

func runMount(b *baseBlob, mc mountCase, scratch string, n int) (outs []string, v *viol, broken string) {
	reg := memreg.New()
	raw := b.Raw
	dg := digest.FromBytes(raw)
	reg.AddBlob(dg.String(), raw)
	refspec, err := reference.Parse(reg.Host + "/" + repoName + ":latest")
	if err != nil {
		return nil, nil, err.Error()
	}
	desc := ocispec.Descriptor{Digest: dg, Size: int64(len(raw)), MediaType: ocispec.MediaTypeImageLayerGzip}
	cfg := layerConfig("mem")
	cfg.DisableVerification, cfg.AllowNoVerification = mc.Disable, mc.Allow
	cfg.NoPrefetch, cfg.NoBackgroundFetch = true, true
	root := filepath.Join(scratch, fmt.Sprintf("m%d", n))
	defer os.RemoveAll(root)
	fsys, err := stargzfs.NewFilesystem(root, cfg,
		stargzfs.WithGetSources(func(map[string]string) ([]source.Source, error) {
			return []source.Source{{Hosts: reg.CompatHosts(nil), Name: refspec, Target: desc, Manifest: ocispec.Manifest{Layers: []ocispec.Descriptor{desc}}}}, nil
		}),
		stargzfs.WithMetadataStore(memorymetadata.NewReader))
	if err != nil {
		return nil, nil, err.Error()
	}
	for i, ml := range mc.Mounts {
		labels := map[string]string{}
		switch ml.Digest {
		case "D":
			labels[estargz.TOCJSONDigestAnnotation] = b.D.String()
		case "X":
			labels[estargz.TOCJSONDigestAnnotation] = wrongDigest.String()
		}
		if ml.Skip {
			labels[config.TargetSkipVerifyLabel] = "true"
		}
		var err error
		if _, br := underVrt(func() { err = fsys.Mount(context.Background(), filepath.Join(root, fmt.Sprintf("mnt%d", i)), labels) }); br != "" {
			return nil, nil, br
		}
		reached := errors.Is(err, stargzfs.VerifStop)
		if err == nil {
			return nil, nil, "Mount returned nil although the FUSE server start is seamed out"
		}
		allowed := mc.Disable || (ml.Digest == "D") || (ml.Digest == "" && ml.Skip && mc.Allow)
		switch {
		case reached:
			outs = append(outs, "mounts")
		case strings.Contains(err.Error(), "digest of TOC JSON must be passed"):
			outs = append(outs, "refused:no-digest")
		case strings.Contains(err.Error(), "invalid stargz layer"):
			outs = append(outs, "refused:verify-failed")
		default:
			outs = append(outs, "refused:other")
		}
		if reached && !allowed && v == nil {
			key := "C01/mount/unverified-mount-accepted"
			why := "a mount without a TOC digest must fail unless verification is explicitly disabled/allowed"
			if ml.Digest == "X" {
				key = "C01/mount/wrong-toc-digest-accepted"
				why = "a mount with TOC digest D' may succeed only if the layer's TOC hashes to D'"
				if i > 0 {
					key = "C01/mount/second-mount-wrong-toc-digest-accepted"
				}
			}
			v = &viol{Key: key, Msg: fmt.Sprintf("%s: mount #%d reached the FUSE server start (would succeed). expected: error (%s; the TOC hashes to D); actual: success. fs/fs.go:296-322 -> %s", mc, i+1, why, layerLoc)}
		}
	}
	return outs, v, ""
}

func mountCases() []mountCase {
	var labels []mountLabels
	for _, d := range []string{"", "D", "X"} {
		for _, s := range []bool{false, true} {
			labels = append(labels, mountLabels{d, s})
		}
	}
	var out []mountCase
	for _, dis := range []bool{false, true} {
		for _, al := range []bool{false, true} {
			for _, l := range labels {
				out = append(out, mountCase{Disable: dis, Allow: al, Mounts: []mountLabels{l}})
			}
		}
	}
	for _, dis := range []bool{false, true} {
		for _, al := range []bool{false, true} {
			for _, l1 := range labels {
				for _, l2 := range labels {
					out = append(out, mountCase{Disable: dis, Allow: al, Mounts: []mountLabels{l1, l2}})
				}
			}
		}
	}
	return out
}

func mountPart(tier string) runner.Part {
	cases := mountCases()
	base := baseCfg{Arch: 0, Kind: "gzip", Chunk: 8, MinChunk: 0}
	return runner.Part{Name: "mount", Shards: 1, Run: func(c *runner.Ctx) *runner.Result {
		os.Setenv("TMPDIR", c.Scratch)
		res := &runner.Result{Outcomes: map[string]int{}}
		b, err := buildBase(base)
		if err != nil {
			res.Broken = err.Error()
			return res
		}
		for i, mc := range cases {
			if i%c.Of != c.Shard {
				continue
			}
			outs, v, broken := runMount(b, mc, c.Scratch, i)
			if broken != "" {
				res.Broken = mc.String() + ": " + broken
				return res
			}
			res.Evaluations++
			res.States++
			res.Transitions += int64(len(mc.Mounts))
			res.Outcomes["mount:"+strings.Join(outs, ",")]++
			for _, o := range outs {
				if o == "mounts" {
					res.Nontrivial++
					break
				}
			}
			if v != nil && !hasKey(res.Violations, v.Key) {
				res.Violations = append(res.Violations, runner.Violation{Key: v.Key, Msg: v.Msg, Replay: mc})
			}
			if len(res.Samples) == 0 {
				res.Samples = append(res.Samples, map[string]any{"mount_case": mc.String(), "observed": outs})
			}
		}
		return res
	}, Replay: func(c *runner.Ctx, rawj json.RawMessage) (string, error) {
		var mc mountCase
		if err := json.Unmarshal(rawj, &mc); err != nil {
			return "", err
		}
		os.Setenv("TMPDIR", c.Scratch)
		b, err := buildBase(base)
		if err != nil {
			return "", err
		}
		outs, v, broken := runMount(b, mc, c.Scratch, 1)
		if broken != "" {
			return "", errors.New("broken: " + broken)
		}
		if v != nil {
			return strings.Join(outs, ","), fmt.Errorf("%s: %s", v.Key, v.Msg)
		}
		return strings.Join(outs, ","), nil
	}}
}
