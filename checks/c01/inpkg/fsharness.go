//go:build verif

package fs

import (
	"errors"

	"github.com/hanwen/go-fuse/v2/fuse"
)

// VerifStop is returned instead of starting a FUSE server: Mount got past its
// verification decision and RootNode.
var VerifStop = errors.New("verif: FUSE server start reached (not executed)")

func verifNewServer(fs fuse.RawFileSystem, mountPoint string, opts *fuse.MountOptions) (*fuse.Server, error) {
	return nil, VerifStop
}
