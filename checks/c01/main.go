// C01: verified layers never return bytes that do not match the TOC-pinned digests.
package main

import (
	"fmt"
	"io"
	"os"
	"runtime/debug"
	"runtime/pprof"
	"time"

	"github.com/sirupsen/logrus"

	"verif/lib/runner"
)

func main() {
	// tiny live heap + megabyte-sized compressor states: the default pacer would collect every few cases
	gcp, lim := 100, int64(0)
	if v := os.Getenv("C01_GC"); v != "" {
		fmt.Sscanf(v, "%d,%d", &gcp, &lim)
	}
	debug.SetGCPercent(gcp)
	if lim > 0 {
		debug.SetMemoryLimit(lim << 20)
	}
	logrus.SetOutput(io.Discard)
	logrus.SetLevel(logrus.PanicLevel)
	if os.Getenv("C01_CHILD") != "" {
		alterChild()
		return
	}
	if os.Getenv("C01_DEBUG") != "" {
		debugMain()
		return
	}
	runner.Main(runner.Check{
		ID:    "C01",
		Level: "model_checking",
		Rule: "alter (input exploration): base blobs = tiny archives x {gzip eStargz, zstd:chunked, external TOC} x chunk {3,8} x min-chunk {0,16}; for each EVERY byte position x {bit0 flip, bit7 flip, +1, 0x00}, EVERY truncation length, every swap of two members/frames, every payload member replaced by a validly compressed different payload of equal compressed+uncompressed length (chunk payload bytes / tar-header bytes), every TOC field of every entry altered from a menu (and structural edits) with the TOC re-serialised and re-embedded; each altered blob is opened with the ORIGINAL TOC digest D through {memory, bolt-db} metadata x {memory, directory, directory-direct+passthrough fd} chunk cache x {verify-read, verify-prefetch-read, prefetch-verify-read} (quick: 5 diagonal combinations + memreg/remote-blob path for the chunk-3 blobs with every 7th truncation length) and read with the complete plan (whole file, every chunk, every (off,len) of files <= 12 B, twice, passthrough fd, then again after the pristine bytes are served with the same cache); oracle from archive/tar + compress/gzip + zstd + sha256 only. Non-trivial = altered inputs that passed VerifyTOC(D) and reached the read phase. " +
			"hist (model checking): all histories up to the depth over {Verify(D), Verify(D'), SkipVerify, read all files through RootNode/Lookup/Open/Read (+passthrough fd), Prefetch} x two holders of ONE cached layer obtained from layer.Resolver.Resolve twice over the in-memory registry, blob in {pristine, one chunk validly re-compressed with different payload}; non-trivial = histories with a read after a nil Verify. " +
			"mount: fs.Mount driven up to the FUSE server start (seamed out) for {disable_verification} x {allow_no_verification} x labels {toc digest absent / D / D'} x {skip-verify label}, single mounts and every ordered pair of mounts of the same layer. " +
			"sched (model checking): T1=Cache() || T2=VerifyTOC(D);read all || T3=on-demand reads after T2 verified, on a 2-file 3-chunk blob with each chunk corrupted in turn, every schedule within the preemption bound (LockDominance+StateCache); non-trivial = executions in which VerifyTOC returned nil",
		Assumptions: []string{
			"sha256 is collision-free: 'belongs to a chunk whose digest matches the TOC pinned by D' is checked as 'equals the original file content'",
			"single alterations of small blobs (not multi-site edits); replacement members are constructed only when a validly compressed stream of exactly the original compressed length exists (count in Extra)",
			"panics on hostile bytes are recorded as outcomes (C04's subject), not as C01 violations",
			"hist/mount run the real Resolver/Mount code sequentially (no scheduler); FUSE server start replaced by a seam; kernel page cache (FOPEN_KEEP_CACHE) is outside",
			"sched: sequential consistency at instrumented sync operations; reader.verify / lastVerifyErr / prohibitVerifyFailure are watched (scheduling point before each access); reader.Cache's semaphore width = GOMAXPROCS is 1 (quick) / 1,2 (thorough)",
			"bolt opened with NoSync and MaxBatchDelay=0 (speed only)",
		},
		QuickBudget: 10 * time.Minute, ThoroughBudget: 30 * time.Minute, // quick needs ~2-3 min on an idle 16-core machine; the budget leaves room for a loaded one
		Parts: func(tier string) []runner.Part {
			return []runner.Part{alterPart(tier), histPart(tier), mountPart(tier), schedPart(tier)}
		},
	})
}

func debugMain() {
	if os.Getenv("C01_DEBUG") == "profhist" {
		f, _ := os.Create("/tmp/c01h.prof")
		pprof.StartCPUProfile(f)
		t0 := time.Now()
		p := histPart("quick")
		r := p.Run(&runner.Ctx{Tier: "quick", Shard: 1, Of: 480, Scratch: "/dev/shm/c01profh", Deadline: time.Now().Add(time.Hour)})
		pprof.StopCPUProfile()
		fmt.Println("elapsed", time.Since(t0), r.Evaluations, r.Broken)
		return
	}
	if os.Getenv("C01_DEBUG") == "prof" {
		f, _ := os.Create("/tmp/c01.prof")
		pprof.StartCPUProfile(f)
		t0 := time.Now()
		os.Setenv("C01_CHILD", `{"tier":"quick","shard":1,"of":640,"from_seq":1,"scratch":"/dev/shm/c01prof"}`)
		old := os.Stdout
		os.Stdout, _ = os.Create("/tmp/c01.child.out")
		alterChild()
		os.Stdout = old
		pprof.StopCPUProfile()
		fmt.Println("elapsed", time.Since(t0))
		return
	}
	for _, cfg := range baseConfigs(os.Getenv("C01_DEBUG")) {
		t0 := time.Now()
		b, err := buildBase(cfg)
		fmt.Println("build took", time.Since(t0))
		if err != nil {
			fmt.Println(cfg, "ERR", err)
			continue
		}
		fmt.Printf("%s: blob=%d ext=%d toc=%d members=%d payload=%d repls=%d tocalts=%d alts=%d\n", cfg, len(b.Raw), len(b.Ext), len(b.TOCJSON), len(b.Members), b.Payload, len(b.repls), len(b.tocAlts), len(b.alterations()))
		for _, f := range b.Files {
			fmt.Printf("   %s %q chunks=%v\n", f.Name, f.Data, f.Chunks)
		}
		for i, m := range b.Members {
			fmt.Printf("   member %d [%d,%d) skippable=%v data=%d regions=%v\n", i, m.Start, m.End, m.Skippable, len(m.Data), b.Regions[m.Start])
		}
		for _, r := range b.repls {
			fmt.Println("   repl:", r.Desc)
		}
	}
}
