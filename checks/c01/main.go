// C01: verified layers never return bytes that do not match the TOC-pinned digests.
package main

import (
	"fmt"
	"io"
	"os"
	"time"

	"github.com/sirupsen/logrus"

	"verif/lib/runner"
)

func main() {
	// tiny live heap + megabyte-sized compressor states: the default pacer would collect every few cases
	logrus.SetOutput(io.Discard)
	logrus.SetLevel(logrus.PanicLevel)
	if os.Getenv("C01_CHILD") != "" {
		alterChild()
		return
	}
	if os.Getenv("C01_DEBUG") != "" {
		debugMain()
		return
	}
	runner.Main(runner.Check{
		ID:    "C01",
		Level: "model_checking",
		Rule: "alter (input exploration): base blobs = 3 tiny archives (2-3 regular files, one multi-chunk, plus the builder's 1-byte landmark) x {gzip eStargz, zstd:chunked, external TOC} x chunk {3,8} x min-chunk {0,64} (64 instead of 16: a compressed 8-byte chunk already exceeds 16 bytes, so 16 never packs two chunks into one stream), each < 2 KB, plus a legacy-style variant whose TOC records no digests (pinned by its own D). For each: EVERY byte position x {bit0 flip, bit7 flip, +1, 0x00}, EVERY truncation length, every swap of two members/frames, every payload member replaced by a validly compressed different payload of equal compressed+uncompressed length (first/last/all bytes of each chunk payload; a tar-header byte outside the pinned content), every TOC field of every entry altered from a menu plus structural edits with the TOC re-serialised and re-embedded. Each altered blob is opened with the ORIGINAL TOC digest D through {memory, bolt-db} metadata x {memory, directory, directory-direct + passthrough fd} chunk cache x {verify-read, verify-prefetch-read, prefetch-verify-read} (thorough: all 18 for the gzip blobs of archive 0, a 6-element diagonal elsewhere, 1-4 for zstd:chunked; quick: 7 blobs, 2-4 diagonal combinations; the chunk-3 gzip/external blobs additionally through memreg + remote blob with 64-byte fetch chunks, every 7th truncation length there) and read with the complete plan (whole file, every chunk, every (off,len) of files <= 12 B incl. one past EOF; twice; passthrough fd with merge buffer = 2 chunks / < 1 chunk / whole file; then all again after the pristine bytes are served with the same cache; for zstd the (off,len) grid only in the first pass); after each phase the chunk cache (Membuf / cache directory) is walked. Oracle from archive/tar + compress/gzip + zstd + sha256 only. Non-trivial = altered inputs that passed VerifyTOC(D) and reached the read phase. " +
			"hist (model checking): all histories up to depth 4 (quick) / 6 over {Verify(D), Verify(D'), SkipVerify, read every file through RootNode/Lookup/Open/Read (+ passthrough fd), Prefetch} x two holders (first operation by h1 w.l.o.g.) of ONE cached layer obtained from layer.Resolver.Resolve twice over the in-memory registry, blob in {pristine, one chunk validly re-compressed with a different payload}, fs cache memory / directory+passthrough (one level less); a violating history is shrunk to a 1-minimal one. Non-trivial = histories with a read after a nil Verify(D). " +
			"mount: fs.Mount driven up to the FUSE server start (seamed out) for {disable_verification} x {allow_no_verification} x labels {toc digest absent / D / D'} x {skip-verify label}: the 24 single mounts and all 144 ordered pairs of mounts of the same layer on one filesystem. " +
			"sched (model checking): T1=Cache() || T2=VerifyTOC(D);read all || T3=on-demand chunk reads after T2 verified, on a 2-file 3-chunk blob (+landmark, filtered from the prefetch) with each chunk corrupted in turn, every schedule within the preemption bound (quick: 2 for the middle chunk, 1 elsewhere, memory + directory cache; thorough: 3/2/1/0, + asynchronous directory commit, semaphore width 1 and 2) with LockDominance+StateCache; after every execution everything is read again and the cache walked. Non-trivial = executions in which VerifyTOC returned nil",
		Assumptions: []string{
			"sha256 is collision-free: 'belongs to a chunk whose digest matches the TOC pinned by D' is checked as 'equals the original file content'",
			"single alterations of small blobs (not multi-site edits); replacement members are constructed only when a validly compressed stream of exactly the original compressed length exists (count in Extra)",
			"panics on hostile bytes are recorded as outcomes (C04's subject), not as C01 violations",
			"hist/mount run the real Resolver/Mount code sequentially (no scheduler); FUSE server start replaced by a seam; kernel page cache (FOPEN_KEEP_CACHE) is outside",
			"sched: sequential consistency at instrumented sync operations; reader.verify / lastVerifyErr / prohibitVerifyFailure are watched (scheduling point before each access); reader.Cache's semaphore width = GOMAXPROCS is 1 (quick) / 1,2 (thorough)",
			"bolt opened with NoSync and MaxBatchDelay=0 (speed only)",
			"inputs and verdicts are deterministic; db.ForeachChild iterates a Go map, so which of several failing chunks aborts a prefetch first (and with it the count of cases that reach the read phase) can differ by a few cases between runs; a case that produces no result within 40 s is killed and recorded as process-hang",
			"process crashes on hostile bytes (stack overflow in metadata/memory assignIDs, out-of-memory on huge TOC numbers) are isolated in a child process per shard and recorded as outcomes",
		},
		QuickBudget: 10 * time.Minute, ThoroughBudget: 30 * time.Minute, // quick needs ~2-3 min on an idle 16-core machine; the budget leaves room for a loaded one
		Parts: func(tier string) []runner.Part {
			return []runner.Part{alterPart(tier), histPart(tier), mountPart(tier), schedPart(tier)}
		},
	})
}

func debugMain() {
	for _, cfg := range baseConfigs(os.Getenv("C01_DEBUG")) {
		t0 := time.Now()
		b, err := buildBase(cfg)
		fmt.Println("build took", time.Since(t0))
		if err != nil {
			fmt.Println(cfg, "ERR", err)
			continue
		}
		fmt.Printf("%s: blob=%d ext=%d toc=%d members=%d payload=%d repls=%d tocalts=%d alts=%d\n", cfg, len(b.Raw), len(b.Ext), len(b.TOCJSON), len(b.Members), b.Payload, len(b.repls), len(b.tocAlts), len(b.alterations()))
		for _, f := range b.Files {
			fmt.Printf("   %s %q chunks=%v\n", f.Name, f.Data, f.Chunks)
		}
		for i, m := range b.Members {
			fmt.Printf("   member %d [%d,%d) skippable=%v data=%d regions=%v\n", i, m.Start, m.End, m.Skippable, len(m.Data), b.Regions[m.Start])
		}
		for _, r := range b.repls {
			fmt.Println("   repl:", r.Desc)
		}
	}
}
