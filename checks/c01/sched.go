package main

// Part "sched": prefetch (Cache) of a blob with one corrupted chunk racing with VerifyTOC and
// with on-demand reads, every schedule within the preemption bound under the vrt scheduler.

import (
	"bytes"
	"encoding/json"
	"fmt"
	"io"
	"os"
	"runtime"
	"strings"
	"time"

	"github.com/containerd/stargz-snapshotter/cache"
	"github.com/containerd/stargz-snapshotter/estargz/vrt"
	"github.com/containerd/stargz-snapshotter/estargz/zstdchunked"
	"github.com/containerd/stargz-snapshotter/fs/reader"
	"github.com/containerd/stargz-snapshotter/metadata"
	memorymetadata "github.com/containerd/stargz-snapshotter/metadata/memory"

	"verif/lib/runner"
	"verif/lib/vexp"
)

type schedCase struct {
	Repl  int    `json:"repl"`  // index into the base blob's replacement list; -1 = pristine
	Cache string `json:"cache"` // mem | dir (SyncAdd) | dira (async file commit)
	Sem   int    `json:"sem"`   // GOMAXPROCS seen by reader.Cache's semaphore
	PB    int    `json:"pb"`
	NoT3  bool   `json:"no_t3,omitempty"` // only T1 || T2 (used for the highest preemption bound)
	Split int    `json:"-"`               // worker processes sharing this scenario
}

var schedBase = baseCfg{Arch: 3, Kind: "gzip", Chunk: 3, MinChunk: 0}

func (sc schedCase) describe(b *baseBlob) string {
	d := "pristine blob"
	if sc.Repl >= 0 {
		d = b.repls[sc.Repl].Desc
	}
	t3 := " || T3=(after T2 verified) ReadAt of the corrupted file"
	if sc.NoT3 {
		t3 = ""
	}
	return fmt.Sprintf("files a=%q (2 chunks) b=%q + the 1-byte landmark file the builder adds, %s; cache=%s semaphore=%d; T1=Cache(all files but the landmark) || T2=VerifyTOC(D);read all%s", "abcdef", "xyz", d, sc.Cache, sc.Sem, t3)
}

func schedScenario(b *baseBlob, sc schedCase, scratch string) *vexp.Scenario {
	raw := b.Raw
	badFile := ""
	if sc.Repl >= 0 {
		raw, _ = b.apply(alt{Kind: "repl", N: sc.Repl})
		badFile = b.repls[sc.Repl].File
	}
	return &vexp.Scenario{
		Name:          sc.describe(b),
		LockDominance: true,
		StateCache:    true,
		MaxSteps:      40000,
		New: func() (func(), func(vrt.Result) (string, error)) {
			var errs []string
			var log []string
			var cc cache.BlobCache
			var vr *reader.VerifiableReader
			var r reader.Reader
			var ids []uint32
			dir := ""
			verified := false
			fail := func(f string, a ...any) { errs = append(errs, fmt.Sprintf(f, a...)) }
			readFile := func(who string, fi int, whole bool) {
				f := &b.Files[fi]
				ra, err := r.OpenFile(ids[fi])
				if err != nil {
					log = append(log, who+":"+f.Name+"=openerr")
					return
				}
				spans := []span{{0, int64(len(f.Data))}}
				if !whole {
					spans = nil
					for _, c := range f.Chunks {
						spans = append(spans, span{c[0], c[1]})
					}
				}
				for _, s := range spans {
					buf := bytes.Repeat([]byte{0xEE}, int(s.l))
					n, err := ra.ReadAt(buf, s.o)
					if n > 0 && !bytes.Equal(buf[:n], f.Data[s.o:s.o+int64(n)]) {
						fail("%s: after VerifyTOC(D) returned nil, ReadAt(%s, off=%d, len=%d) err=%v returned %q; the content pinned by D is %q", who, f.Name, s.o, s.l, err, buf[:n], f.Data[s.o:s.o+int64(n)])
					}
					if err != nil && err != io.EOF {
						log = append(log, fmt.Sprintf("%s:%s@%d=err", who, f.Name, s.o))
					} else {
						log = append(log, fmt.Sprintf("%s:%s@%d=ok", who, f.Name, s.o))
					}
				}
			}
			body := func() {
				old := runtime.GOMAXPROCS(sc.Sem)
				defer runtime.GOMAXPROCS(old)
				sr := io.NewSectionReader(bytes.NewReader(raw), 0, int64(len(raw)))
				meta, err := memorymetadata.NewReader(sr, metadata.WithDecompressors(new(zstdchunked.Decompressor)))
				if err != nil {
					vrt.Broken("open: %v", err)
					return
				}
				switch sc.Cache {
				case "mem":
					cc = cache.NewMemoryCache()
				default:
					d, err := os.MkdirTemp(scratch, "c01s-")
					if err != nil {
						vrt.Broken("mkdtemp: %v", err)
						return
					}
					dir = d
					cc, err = cache.NewDirectoryCache(d, cache.DirectoryCacheConfig{MaxLRUCacheEntry: 1, MaxCacheFds: 1, SyncAdd: sc.Cache == "dir"})
					if err != nil {
						vrt.Broken("NewDirectoryCache: %v", err)
						return
					}
				}
				vr, err = reader.NewReader(meta, cc, layerSha)
				if err != nil {
					vrt.Broken("NewReader: %v", err)
					return
				}
				for fi := range b.Files {
					id, err := lookupPath(meta, b.Files[fi].Name)
					if err != nil {
						vrt.Broken("lookup: %v", err)
						return
					}
					ids = append(ids, id)
				}
				done := make([]bool, 3)
				t2done := false
				// the builder's 1-byte landmark file is filtered out of the prefetch (as layer.prefetch filters by offset): one thread less
				lmOff := int64(-1)
				for fi := range b.Files {
					if strings.HasPrefix(b.Files[fi].Name, ".") {
						lmOff, _ = meta.GetOffset(ids[fi])
					}
				}
				vrt.GoNamed("T1-prefetch", func() {
					if err := vr.Cache(reader.WithFilter(func(off int64) bool { return off != lmOff })); err != nil {
						log = append(log, "T1:cache=err")
					} else {
						log = append(log, "T1:cache=ok")
					}
					done[0] = true
				})
				vrt.GoNamed("T2-verify-read", func() {
					rr, err := vr.VerifyTOC(b.D)
					if err != nil {
						log = append(log, "T2:verify=err")
					} else {
						log = append(log, "T2:verify=ok")
						r = rr
						verified = true
						vrt.Event("ghost", &verified, 0)
						for fi := range b.Files {
							readFile("T2", fi, true)
						}
					}
					t2done = true
					vrt.Event("ghost", &t2done, 0)
					done[1] = true
				})
				vrt.GoNamed("T3-ondemand", func() {
					if sc.NoT3 {
						done[2] = true
						return
					}
					for !verified && !t2done {
						vrt.Block("wait-verified", func() bool { return verified || t2done })
					}
					if verified {
						for fi := range b.Files {
							if b.Files[fi].Name == badFile || badFile == "" {
								readFile("T3", fi, false)
							}
						}
					}
					done[2] = true
				})
				for i := range done {
					i := i
					for !done[i] {
						vrt.Block("join", func() bool { return done[i] })
					}
				}
			}
			check := func(vrt.Result) (string, error) {
				defer func() {
					if vr != nil {
						vr.Close()
					}
					if dir != "" {
						os.RemoveAll(dir)
					}
				}()
				if len(errs) == 0 && verified {
					// quiescent: read everything again and walk the cache
					rc := &runCtx{b: b, ids: ids, desc: "final state"}
					rc.readAll(r, "final")
					rc.walkCache(cc, dir, "after all threads finished")
					if rc.v != nil {
						errs = append(errs, rc.v.Msg)
					}
				}
				if len(errs) > 0 {
					return "", fmt.Errorf("%s", strings.Join(errs, "; "))
				}
				return strings.Join(sortedCopy(log), ","), nil
			}
			return body, check
		},
	}
}

func sortedCopy(l []string) []string {
	c := append([]string(nil), l...)
	for i := 1; i < len(c); i++ {
		for j := i; j > 0 && c[j] < c[j-1]; j-- {
			c[j], c[j-1] = c[j-1], c[j]
		}
	}
	return c
}

func schedCases(b *baseBlob, tier string) []schedCase {
	// one replacement per chunk: the first constructible replacement of each (file, chunk)
	seen := map[string]bool{}
	repl := map[string]int{}
	var order []string
	for i, r := range b.repls {
		if r.File == "" {
			continue
		}
		k := fmt.Sprintf("%s/%d", r.File, r.Member)
		if !seen[k] {
			seen[k] = true
			name := fmt.Sprintf("%s#%d", r.File, len(order))
			repl[name] = i
			order = append(order, name)
		}
	}
	// order: landmark chunk, a@0, a@3, b@0 (member order of the blob)
	if len(order) != 4 {
		return nil
	}
	lm, a0, a3, b0 := repl[order[0]], repl[order[1]], repl[order[2]], repl[order[3]]
	var out []schedCase
	if tier != "thorough" {
		return []schedCase{
			{Repl: a3, Cache: "mem", Sem: 1, PB: 2, Split: 8},
			{Repl: b0, Cache: "mem", Sem: 1, PB: 1, Split: 1},
			{Repl: a0, Cache: "mem", Sem: 1, PB: 1, Split: 1},
			{Repl: lm, Cache: "mem", Sem: 1, PB: 1, Split: 1},
			{Repl: -1, Cache: "mem", Sem: 1, PB: 1, Split: 1},
			{Repl: a3, Cache: "dir", Sem: 1, PB: 1, Split: 1},
		}
	}
	out = append(out, schedCase{Repl: a3, Cache: "mem", Sem: 1, PB: 3, NoT3: true, Split: 24})
	for _, sem := range []int{1, 2} {
		for _, r := range []int{a3, b0, a0, lm} {
			out = append(out, schedCase{Repl: r, Cache: "mem", Sem: sem, PB: 2, Split: 8})
		}
	}
	out = append(out,
		schedCase{Repl: -1, Cache: "mem", Sem: 1, PB: 2, Split: 8},
		schedCase{Repl: a3, Cache: "dir", Sem: 1, PB: 2, Split: 12},
		schedCase{Repl: b0, Cache: "dir", Sem: 1, PB: 1, Split: 2},
		// asynchronous file commit: every commit is one more runnable thread, the number of thread orders explodes
		schedCase{Repl: a3, Cache: "dira", Sem: 1, PB: 0, Split: 2},
		schedCase{Repl: a3, Cache: "dira", Sem: 2, PB: 0, Split: 2},
		schedCase{Repl: a3, Cache: "dira", Sem: 1, PB: 1, Split: 12})
	return out
}

func schedKey(msg string) string {
	switch {
	case strings.Contains(msg, "ReadAt("):
		return "C01/sched/read-returned-altered-bytes"
	case strings.Contains(msg, "chunk cache"):
		return "C01/sched/cache-holds-mismatching-chunk"
	case strings.Contains(msg, "deadlock"):
		return "C01/sched/deadlock"
	case strings.Contains(msg, "panic"):
		return "C01/sched/panic"
	}
	return "C01/sched/other"
}

func schedPart(tier string) runner.Part {
	b, berr := buildBase(schedBase)
	var cases []schedCase
	if berr == nil {
		cases = schedCases(b, tier)
	}
	type sub struct{ ci, k int }
	var subs []sub
	for ci, sc := range cases {
		for k := 0; k < maxInt(1, sc.Split); k++ {
			subs = append(subs, sub{ci, k})
		}
	}
	return runner.Part{Name: "sched", Shards: maxInt(1, len(subs)), Run: func(c *runner.Ctx) *runner.Result {
		res := &runner.Result{Outcomes: map[string]int{}}
		if berr != nil {
			res.Broken = berr.Error()
			return res
		}
		if len(cases) == 0 || len(b.Files) != 3 || len(b.Files[0].Chunks)+len(b.Files[1].Chunks)+len(b.Files[2].Chunks) != 4 {
			res.Broken = fmt.Sprintf("unexpected layout of the schedule blob: %+v", b.Files)
			return res
		}
		if !c.Deadline.IsZero() && time.Now().After(c.Deadline) {
			res.Caps = []string{"time budget (not started)"}
			return res
		}
		sc := cases[subs[c.Shard].ci]
		split, part := maxInt(1, sc.Split), subs[c.Shard].k
		st := vexp.Explore(schedScenario(b, sc, c.Scratch), vexp.Options{PB: sc.PB, DetChecks: 3, StopAtFirst: true, Deadline: c.Deadline, Shard: part, Of: split, ShardLevel: 1})
		res.Evaluations = st.Executions
		res.States = int64(st.StateKeys)
		res.Transitions = st.Transitions
		verifiedRuns := 0
		for o, n := range st.Outcomes {
			cls := "verify-failed"
			if strings.Contains(o, "T2:verify=ok") {
				cls = "verify-ok"
				verifiedRuns += n
				if strings.Contains(o, "=err") {
					cls = "verify-ok,some-op-failed"
				}
			}
			if o == "" || o == "failure" || o == "deadlock" || o == "stepcap" {
				cls = "violation-or-" + o
			}
			res.Outcomes["sched:"+cls] += n
		}
		res.Nontrivial = int64(verifiedRuns)
		if st.Broken != "" {
			res.Broken = sc.describe(b) + ": " + st.Broken
			return res
		}
		if st.Capped {
			res.Caps = append(res.Caps, fmt.Sprintf("%s: %s", sc.describe(b), st.CapReason))
		}
		for _, v := range st.Violations {
			key := schedKey(v.Msg)
			if hasKey(res.Violations, key) {
				continue
			}
			res.Violations = append(res.Violations, runner.Violation{Key: key,
				Msg:    fmt.Sprintf("%s\nchoices=%v\n%s\nexpected: in every schedule, if VerifyTOC(D) returned nil then every byte read equals the original (or the read fails) and no cache entry holds the corrupted chunk\ntrace:\n  %s", sc.describe(b), v.Choices, v.Msg, strings.Join(v.Trace, "\n  ")),
				Replay: map[string]any{"case": sc, "choices": v.Choices}})
		}
		if len(st.SampleTraces) > 0 && part == 0 {
			t := st.SampleTraces[0]
			if len(t) > 30 {
				t = t[:30]
			}
			res.Samples = append(res.Samples, map[string]any{"scenario": sc.describe(b), "executions_in_this_worker": st.Executions, "max_threads": st.MaxThreads, "trace_head": t})
		}
		var pbs []string
		for _, x := range cases {
			pbs = append(pbs, fmt.Sprintf("repl%d/%s/sem%d/t3=%v:pb%d", x.Repl, x.Cache, x.Sem, !x.NoT3, x.PB))
		}
		res.Extra = map[string]any{"preemption_bound_per_scenario": strings.Join(pbs, " "), "scenarios": len(cases)}
		return res
	}, Replay: func(c *runner.Ctx, raw json.RawMessage) (string, error) {
		var r struct {
			Case    schedCase `json:"case"`
			Choices []int     `json:"choices"`
		}
		if err := json.Unmarshal(raw, &r); err != nil {
			return "", err
		}
		if berr != nil {
			return "", berr
		}
		out, err, trace, broken := vexp.Replay(schedScenario(b, r.Case, c.Scratch), r.Choices)
		if broken != "" {
			return "", fmt.Errorf("replay broken: %s", broken)
		}
		return strings.Join(trace, "\n") + "\n" + out, err
	}}
}

func maxInt(a, b int) int {
	if a > b {
		return a
	}
	return b
}
