// C02: lazily served files and metadata equal the source tar under any access history.
package main

import (
	"archive/tar"
	"bytes"
	"compress/gzip"
	"context"
	"crypto/sha256"
	"encoding/json"
	"fmt"
	"io"
	"net/http"
	"os"
	"path/filepath"
	"runtime"
	"runtime/pprof"
	"sort"
	"strings"
	"syscall"
	"time"

	"github.com/containerd/containerd/v2/core/remotes/docker"
	"github.com/containerd/containerd/v2/pkg/reference"
	"github.com/containerd/stargz-snapshotter/cache"
	dbmeta "github.com/containerd/stargz-snapshotter/cmd/containerd-stargz-grpc/db"
	"github.com/containerd/stargz-snapshotter/estargz"
	"github.com/containerd/stargz-snapshotter/estargz/zstdchunked"
	"github.com/containerd/stargz-snapshotter/fs/config"
	"github.com/containerd/stargz-snapshotter/fs/layer"
	"github.com/containerd/stargz-snapshotter/fs/reader"
	"github.com/containerd/stargz-snapshotter/fs/remote"
	"github.com/containerd/stargz-snapshotter/fs/source"
	"github.com/containerd/stargz-snapshotter/metadata"
	memmeta "github.com/containerd/stargz-snapshotter/metadata/memory"
	"github.com/containerd/stargz-snapshotter/task"
	fusefs "github.com/hanwen/go-fuse/v2/fs"
	"github.com/klauspost/compress/zstd"
	digest "github.com/opencontainers/go-digest"
	ocispec "github.com/opencontainers/image-spec/specs-go/v1"
	"github.com/sirupsen/logrus"
	bolt "go.etcd.io/bbolt"

	"verif/lib/fusedrv"
	"verif/lib/memreg"
	"verif/lib/reftar"
	"verif/lib/runner"
)

const (
	repoName  = "img/x"
	baseInode = 3
)

// ---------------------------------------------------------------- input tars

// ent is one tar member specification. Size is symbolic in the chunk size:
// Size = SzA*cs + SzB.
type ent struct {
	Name   string            `json:"n"`
	Type   byte              `json:"t"`
	Link   string            `json:"l,omitempty"`
	SzA    int               `json:"sa,omitempty"`
	SzB    int               `json:"sb,omitempty"`
	Mode   int64             `json:"m,omitempty"`
	UID    int               `json:"u,omitempty"`
	GID    int               `json:"g,omitempty"`
	MTime  int64             `json:"mt,omitempty"`
	Xattrs map[string]string `json:"x,omitempty"`
	Major  int64             `json:"maj,omitempty"`
	Minor  int64             `json:"min,omitempty"`
}

func (e ent) size(cs int) int { return e.SzA*cs + e.SzB }

func (e ent) String() string {
	sz := func() string {
		switch {
		case e.SzA == 0:
			return fmt.Sprint(e.SzB)
		case e.SzB == 0:
			return fmt.Sprintf("%dcs", e.SzA)
		default:
			return fmt.Sprintf("%dcs%+d", e.SzA, e.SzB)
		}
	}
	x := ""
	if len(e.Xattrs) > 0 {
		x = "+xattrs"
	}
	switch e.Type {
	case tar.TypeReg:
		return fmt.Sprintf("%s(%s%s)", e.Name, sz(), x)
	case tar.TypeDir:
		return fmt.Sprintf("dir:%s%s", e.Name, x)
	case tar.TypeSymlink:
		return fmt.Sprintf("%s->%s", e.Name, e.Link)
	case tar.TypeLink:
		return fmt.Sprintf("%s=>%s", e.Name, e.Link)
	case tar.TypeChar:
		return fmt.Sprintf("char:%s(%d,%d)", e.Name, e.Major, e.Minor)
	case tar.TypeFifo:
		return fmt.Sprintf("fifo:%s", e.Name)
	}
	return e.Name
}

func describe(es []ent) string {
	var s []string
	for _, e := range es {
		s = append(s, e.String())
	}
	return "[" + strings.Join(s, " ") + "]"
}

// content is the fixed byte pattern of the member at position pos (symmetry
// reduction: contents are not enumerated, they only have to be distinct and
// position-sensitive so that misplaced, stale or shifted bytes are visible).
func content(pos, size int) []byte {
	b := make([]byte, size)
	for i := range b {
		b[i] = byte('A' + (pos*7+i*3+(i/4))%53)
	}
	return b
}

func buildTar(es []ent, cs int) []byte {
	var buf bytes.Buffer
	tw := tar.NewWriter(&buf)
	for pos, e := range es {
		h := &tar.Header{Typeflag: e.Type, Name: e.Name, Linkname: e.Link, Mode: e.Mode, Uid: e.UID, Gid: e.GID, Devmajor: e.Major, Devminor: e.Minor, Format: tar.FormatPAX}
		if e.MTime != 0 {
			h.ModTime = time.Unix(e.MTime, 0)
		} else {
			h.ModTime = time.Unix(0, 0)
		}
		var data []byte
		if e.Type == tar.TypeReg {
			data = content(pos, e.size(cs))
			h.Size = int64(len(data))
		}
		if len(e.Xattrs) > 0 {
			h.PAXRecords = map[string]string{}
			for k, v := range e.Xattrs {
				h.PAXRecords["SCHILY.xattr."+k] = v
			}
		}
		if err := tw.WriteHeader(h); err != nil {
			panic(fmt.Sprintf("tar header %v: %v", e, err))
		}
		if len(data) > 0 {
			tw.Write(data)
		}
	}
	tw.Close()
	return buf.Bytes()
}

const mt = 1_500_000_000

// entryAlphabet is the member alphabet of the input enumeration.
func entryAlphabet(tier string) []ent {
	reg := func(name string, a, b int) ent {
		return ent{Name: name, Type: tar.TypeReg, SzA: a, SzB: b, Mode: 0o644, UID: 1, GID: 2, MTime: mt}
	}
	xb := ent{Name: "b", Type: tar.TypeReg, SzA: 1, SzB: 0, Mode: 0o4755, UID: 1000, GID: 2000, MTime: mt + 1, Xattrs: map[string]string{"user.k": "v", "user.e": ""}}
	al := []ent{
		reg("a", 0, 0), reg("a", 1, 1), reg("a", 2, 1), // sizes 0, cs+1, 2cs+1 (1 and cs below; cs-1 in the thorough tier)
		xb,               // size cs, xattrs incl. an empty value, setuid, large ids
		reg("d/a", 0, 1), // size 1, implicit parent
		reg("./a", 0, 1), // "./" prefix; replaces an earlier a
		{Name: "d/", Type: tar.TypeDir, Mode: 0o700, UID: 5, GID: 6, MTime: mt + 2, Xattrs: map[string]string{"user.d": "1"}},
		{Name: "./", Type: tar.TypeDir, Mode: 0o711, UID: 9, GID: 9, MTime: mt + 4}, // entry for the root itself
		{Name: "/a", Type: tar.TypeSymlink, Link: "b", Mode: 0o777, MTime: mt + 5},  // "/" prefix
		{Name: "../b", Type: tar.TypeLink, Link: "/a"},                              // "../" prefix, "/" prefixed link name
		{Name: "d/a", Type: tar.TypeLink, Link: "b"},                                // with the previous one: a chain
		{Name: "a", Type: tar.TypeChar, Mode: 0o600, Major: 1, Minor: 3},            // device; mtime: the epoch
		{Name: "b", Type: tar.TypeFifo, Mode: 0o640, UID: 3, MTime: mt + 9},
	}
	if tier == "thorough" {
		al = append(al,
			reg("a", 1, -1), reg("a", 0, 1), reg("a", 1, 0), reg("/a", 1, 0), reg("../a", 1, -1), reg("b", 0, 0), reg("d/a", 2, 1),
			ent{Name: "a/", Type: tar.TypeDir, Mode: 0o755, MTime: mt + 3},
			ent{Name: "d/a", Type: tar.TypeSymlink, Link: "../b", Mode: 0o777, MTime: mt + 7},
			ent{Name: "b", Type: tar.TypeChar, Mode: 0o666, Major: 259, Minor: 300, MTime: mt + 8},
			ent{Name: "d/a", Type: tar.TypeLink, Link: "/a"},
		)
	}
	return al
}

// ---------------------------------------------------------------- configurations

type buildCfg struct {
	Chunk    int    `json:"chunk"`
	MinChunk int    `json:"min_chunk"`
	Comp     string `json:"comp"` // gzip | zstd
	Prio     bool   `json:"prio"` // prioritized files = {first regular file}
}

func (b buildCfg) String() string {
	return fmt.Sprintf("chunk%d/min%d/%s/prio=%v", b.Chunk, b.MinChunk, b.Comp, b.Prio)
}

type rtCfg struct {
	Store    string `json:"store"`     // memory | db
	RegChunk int    `json:"reg_chunk"` // registry (blob) chunk size
	Cache    string `json:"cache"`     // memory | lru1 | direct
	Verify   bool   `json:"verify"`
}

func (r rtCfg) String() string {
	return fmt.Sprintf("%s/regchunk%d/cache-%s/verify=%v", r.Store, r.RegChunk, r.Cache, r.Verify)
}

func allBuildCfgs() []buildCfg {
	var out []buildCfg
	for _, c := range []int{3, 8} {
		// 16: consecutive chunks of one file share a zstd stream; 300: several small files (tar
		// header + payload) and their chunks share one stream (gzip and zstd)
		for _, m := range []int{0, 16, 300} {
			for _, z := range []string{"gzip", "zstd"} {
				for _, p := range []bool{false, true} {
					out = append(out, buildCfg{c, m, z, p})
				}
			}
		}
	}
	return out
}

func allRtCfgs(verifyDim bool) []rtCfg {
	var out []rtCfg
	for _, s := range []string{"memory", "db"} {
		for _, r := range []int{4, 64} {
			for _, c := range []string{"memory", "lru1", "direct"} {
				if verifyDim {
					out = append(out, rtCfg{s, r, c, false})
				}
				out = append(out, rtCfg{s, r, c, true})
			}
		}
	}
	return out
}

type zstdCompression struct {
	*zstdchunked.Compressor
	*zstdchunked.Decompressor
}

type builtBlob struct {
	blob []byte
	dgst digest.Digest
	toc  digest.Digest
}

// firstRegular returns the cleaned path of the first regular file of the final tree, "" if none.
func firstRegular(truth reftar.Tree) string {
	for _, p := range truth.Paths() {
		if truth[p].IsReg() {
			return strings.TrimPrefix(p, "/")
		}
	}
	return ""
}

func buildBlob(tarb []byte, bc buildCfg, prio string) (*builtBlob, error) {
	opts := []estargz.Option{estargz.WithChunkSize(bc.Chunk), estargz.WithMinChunkSize(bc.MinChunk), estargz.WithParallelism(1)}
	if bc.Comp == "zstd" {
		opts = append(opts, estargz.WithCompression(&zstdCompression{&zstdchunked.Compressor{CompressionLevel: zstd.SpeedFastest}, &zstdchunked.Decompressor{}}))
	} else {
		opts = append(opts, estargz.WithCompressionLevel(gzip.BestSpeed))
	}
	if bc.Prio && prio != "" {
		opts = append(opts, estargz.WithPrioritizedFiles([]string{prio}))
	}
	eb, err := estargz.Build(io.NewSectionReader(bytes.NewReader(tarb), 0, int64(len(tarb))), opts...)
	if err != nil {
		return nil, err
	}
	defer eb.Close()
	blob, err := io.ReadAll(eb)
	if err != nil {
		return nil, err
	}
	return &builtBlob{blob: blob, dgst: digest.FromBytes(blob), toc: eb.TOCDigest()}, nil
}

// ---------------------------------------------------------------- caches

// trackCache wraps the cache under use: it records which keys were committed and can
// be dropped as a whole (a fresh, empty cache of the same kind takes its place).
type trackCache struct {
	kind  string
	dir   string
	n     int
	inner cache.BlobCache
	keys  map[string]bool
}

func newTrackCache(kind, dir string) (*trackCache, error) {
	t := &trackCache{kind: kind, dir: dir}
	return t, t.reset()
}

func (t *trackCache) reset() error {
	if t.inner != nil {
		t.inner.Close()
	}
	t.keys = map[string]bool{}
	t.n++
	switch t.kind {
	case "memory":
		t.inner = cache.NewMemoryCache()
		return nil
	case "lru1":
		c, err := cache.NewDirectoryCache(filepath.Join(t.dir, fmt.Sprint(t.n)), cache.DirectoryCacheConfig{MaxLRUCacheEntry: 1, MaxCacheFds: 1, SyncAdd: true})
		t.inner = c
		return err
	case "direct":
		c, err := cache.NewDirectoryCache(filepath.Join(t.dir, fmt.Sprint(t.n)), cache.DirectoryCacheConfig{MaxLRUCacheEntry: 1, MaxCacheFds: 1, SyncAdd: true, Direct: true})
		t.inner = c
		return err
	}
	return fmt.Errorf("unknown cache kind %q", t.kind)
}

type trackWriter struct {
	cache.Writer
	t   *trackCache
	key string
}

func (w *trackWriter) Commit() error {
	err := w.Writer.Commit()
	if err == nil {
		w.t.keys[w.key] = true
	}
	return err
}

func (t *trackCache) Add(key string, opts ...cache.Option) (cache.Writer, error) {
	w, err := t.inner.Add(key, opts...)
	if err != nil {
		return nil, err
	}
	return &trackWriter{Writer: w, t: t, key: key}, nil
}
func (t *trackCache) Get(key string, opts ...cache.Option) (cache.Reader, error) {
	return t.inner.Get(key, opts...)
}
func (t *trackCache) Close() error { return t.inner.Close() }

// ---------------------------------------------------------------- the full stack

type world struct {
	rt                    rtCfg
	bb                    *builtBlob
	reg                   *memreg.Registry
	blob                  remote.Blob
	vr                    *reader.VerifiableReader
	mr                    metadata.Reader
	lyr                   layer.Layer
	root                  fusefs.InodeEmbedder
	drv                   *fusedrv.Driver
	fsCache               *trackCache
	htCache               *trackCache
	dir                   string
	prefetched, bgfetched bool
}

type env struct {
	db      *bolt.DB
	scratch string
	n       int
	btm     *task.BackgroundTaskManager
}

func newEnv(c *runner.Ctx) (*env, error) {
	os.Setenv("TMPDIR", c.Scratch)
	db, err := bolt.Open(filepath.Join(c.Scratch, "metadata.db"), 0o600, &bolt.Options{NoFreelistSync: true, FreelistType: bolt.FreelistMapType, NoSync: true})
	if err != nil {
		return nil, err
	}
	db.MaxBatchDelay = 0
	return &env{db: db, scratch: c.Scratch, btm: task.NewBackgroundTaskManager(2, 0)}, nil
}

// ctTransport adds the Content-Type every real registry/CDN sends with blob bytes
// (lib/memreg leaves it out on single-range 206 replies, which the fetcher refuses).
type ctTransport struct{ rt http.RoundTripper }

func (t ctTransport) RoundTrip(req *http.Request) (*http.Response, error) {
	res, err := t.rt.RoundTrip(req)
	if err == nil && res.Header.Get("Content-Type") == "" {
		res.Header.Set("Content-Type", "application/octet-stream")
	}
	return res, err
}

func hostsOf(g *memreg.Registry) source.RegistryHosts {
	return func(ref reference.Spec) ([]docker.RegistryHost, error) {
		return []docker.RegistryHost{{
			Client: &http.Client{Transport: ctTransport{g}}, Host: g.Host, Scheme: "https", Path: "/v2",
			Capabilities: docker.HostCapabilityPull | docker.HostCapabilityResolve,
		}}, nil
	}
}

type readerAtFunc func([]byte, int64) (int, error)

func (f readerAtFunc) ReadAt(p []byte, o int64) (int, error) { return f(p, o) }

// newWorld builds memreg -> remote.Resolver -> Blob -> metadata store -> reader -> layer -> root node -> driver.
// httpCacheKind is the kind of the compressed-blob cache.
func (e *env) newWorld(bb *builtBlob, rt rtCfg, httpCacheKind string) (w *world, err error) {
	e.n++
	w = &world{rt: rt, bb: bb, reg: memreg.New(), dir: filepath.Join(e.scratch, fmt.Sprintf("w%d", e.n))}
	defer func() {
		if err != nil {
			w.close()
		}
	}()
	w.reg.AddBlob(bb.dgst.String(), bb.blob)
	if w.fsCache, err = newTrackCache(rt.Cache, filepath.Join(w.dir, "fs")); err != nil {
		return w, err
	}
	if w.htCache, err = newTrackCache(httpCacheKind, filepath.Join(w.dir, "http")); err != nil {
		return w, err
	}
	res := remote.NewResolver(config.BlobConfig{ChunkSize: int64(rt.RegChunk), ValidInterval: 1 << 30, MaxRetries: 1, MinWaitMSec: 1, MaxWaitMSec: 1}, nil)
	refspec, err := reference.Parse(w.reg.Host + "/" + repoName + ":latest")
	if err != nil {
		return w, err
	}
	desc := ocispec.Descriptor{Digest: bb.dgst, Size: int64(len(bb.blob)), MediaType: ocispec.MediaTypeImageLayerGzip}
	if w.blob, err = res.Resolve(context.Background(), hostsOf(w.reg), refspec, desc, w.htCache); err != nil {
		return w, fmt.Errorf("remote resolve: %w", err)
	}
	sr := io.NewSectionReader(readerAtFunc(func(p []byte, o int64) (int, error) { return w.blob.ReadAt(p, o) }), 0, w.blob.Size())
	mopts := []metadata.Option{metadata.WithDecompressors(new(zstdchunked.Decompressor))}
	if rt.Store == "db" {
		w.mr, err = dbmeta.NewReader(e.db, sr, mopts...)
	} else {
		w.mr, err = memmeta.NewReader(sr, mopts...)
	}
	if err != nil {
		return w, fmt.Errorf("%s metadata reader: %w", rt.Store, err)
	}
	if rt.Store == "db" && os.Getenv("C02_NOSETTLE") == "" {
		// db.NewReader returns while the TOC is still being loaded in the background, and
		// GetAttr(root) does not wait for it: a root node created right away keeps the
		// pre-load attributes of "/" (timing dependent). Wait for the load so that the view is
		// a function of the input only.
		w.mr.GetChild(w.mr.RootID(), "\x00settle")
	}
	if w.vr, err = reader.NewReader(w.mr, w.fsCache, bb.dgst); err != nil {
		return w, err
	}
	w.lyr = layer.VerifNewLayer(desc, w.blob, w.vr, e.btm, config.Config{}, layer.OverlayOpaqueAll)
	if rt.Verify {
		if err = w.lyr.Verify(bb.toc); err != nil {
			return w, fmt.Errorf("Verify(toc digest): %w", err)
		}
	} else {
		w.lyr.SkipVerify()
	}
	if w.root, err = w.lyr.RootNode(baseInode); err != nil {
		return w, fmt.Errorf("RootNode: %w", err)
	}
	w.drv = fusedrv.New(w.root)
	return w, nil
}

func (w *world) close() {
	if w.vr != nil {
		w.vr.Close() // closes the chunk cache and the metadata reader
	} else if w.mr != nil {
		w.mr.Close()
	}
	if w.blob != nil {
		w.blob.Close()
	}
	if w.htCache != nil && w.htCache.inner != nil {
		w.htCache.Close()
	}
	os.RemoveAll(w.dir)
}

// ---------------------------------------------------------------- oracle

var cmpAll = reftar.CmpOpts{Attrs: true, DirAttrs: true, Nlink: true, DirNlink: true, HardlinkSets: true}

// viewDiffs takes a full snapshot through the driver and compares it with the truth.
func viewDiffs(drv *fusedrv.Driver, truth reftar.Tree, readChunk int) (diffs []reftar.Difference, problems []string, snap *fusedrv.Snapshot) {
	snap = drv.Walk(fusedrv.WalkOpts{ReadChunk: readChunk})
	return reftar.Diff(truth, snap.Tree, cmpAll), snap.Problems, snap
}

// shape classifies the object at path p of an input by the features that matter for
// defect classes (not by the whole input, so that one defect gives one key).
func shape(es []ent, cs int, truth reftar.Tree, p string) string {
	var f []string
	p = firstPath(p)
	e := truth[p]
	if e != nil {
		f = append(f, reftar.TypeName(e.Mode))
		if e.IsReg() {
			switch n := len(e.Content); {
			case n == 0:
				f = append(f, "empty")
			case n <= cs:
				f = append(f, "one-chunk")
			default:
				f = append(f, "multi-chunk")
			}
		}
		if e.Nlink > 1 && !e.IsDir() {
			f = append(f, "hardlinked")
		}
		if e.Implicit {
			f = append(f, "implicit")
		}
		if p == "/" {
			f = append(f, "root")
		}
	} else {
		f = append(f, "absent")
	}
	// was the path (or, for a hard link, its target) declared more than once?
	n := 0
	for _, x := range es {
		if reftar.Clean(x.Name) == p {
			n++
		}
	}
	if n > 1 {
		f = append(f, "replaced-member")
	}
	if e != nil && e.Nlink > 1 && !e.IsDir() {
		for q, o := range truth {
			if o.Obj != e.Obj {
				continue
			}
			m := 0
			for _, x := range es {
				if reftar.Clean(x.Name) == q {
					m++
				}
			}
			if m > 1 && q != p {
				f = append(f, "replaced-link-peer")
				break
			}
		}
	}
	return strings.Join(f, "+")
}

func firstPath(p string) string { return strings.Fields(p + " x")[0] }

type vset struct {
	res  *runner.Result
	seen map[string]bool
}

func (v *vset) add(key string, msg func() string, replay any) {
	if v.seen[key] {
		return
	}
	v.seen[key] = true
	v.res.Violations = append(v.res.Violations, runner.Violation{Key: key, Msg: msg(), Replay: replay})
}

// guard runs f and turns a panic of the code under test into a violation.
func guard(v *vset, ic inputCase, what string, f func()) {
	defer func() {
		if r := recover(); r != nil {
			buf := make([]byte, 1<<14)
			buf = buf[:runtime.Stack(buf, false)]
			frames := ""
			for _, l := range strings.Split(string(buf), "\n") {
				if strings.Contains(l, "/repo/") {
					frames += "\n  " + strings.TrimSpace(l)
				}
			}
			v.add("C02/panic/"+fmt.Sprintf("%s/%s/min%d", ic.Rt.Store, ic.Build.Comp, ic.Build.MinChunk), func() string {
				return fmt.Sprintf("tar %s, build %s, runtime %s%s\npanic: %v%s", describe(ic.Ents), ic.Build, ic.Rt, what, r, frames)
			}, ic)
		}
	}()
	f()
}

type inputCase struct {
	Ents  []ent    `json:"ents"`
	Build buildCfg `json:"build"`
	Rt    rtCfg    `json:"rt"`
	Hist  []string `json:"hist,omitempty"`
}

var dataClasses = map[string]bool{"content-mismatch": true, "size-mismatch": true, "read-failed": true, "serve-failed": true, "history-reply": true}

// cfgShape is the part of the configuration a defect class may depend on: the metadata store
// always; for data classes also the blob layout knobs (compression, min-chunk-size).
func cfgShape(class string, ic inputCase) string {
	if dataClasses[class] {
		return fmt.Sprintf("%s/%s/min%d", ic.Rt.Store, ic.Build.Comp, ic.Build.MinChunk)
	}
	return ic.Rt.Store
}

// report turns differences/problems of one case into violations.
func report(v *vset, ic inputCase, truth reftar.Tree, when string, diffs []reftar.Difference, problems []string, served reftar.Tree) {
	head := func() string {
		return fmt.Sprintf("tar %s, build %s, runtime %s%s", describe(ic.Ents), ic.Build, ic.Rt, when)
	}
	readFailed := map[string]bool{}
	for _, p := range problems {
		f := strings.SplitN(p, " ", 2)
		pp := strings.TrimSuffix(firstPath(f[1]), ":")
		if f[0] == "read-failed" {
			readFailed[pp] = true
		}
		key := "C02/" + f[0] + "/" + shape(ic.Ents, ic.Build.Chunk, truth, pp) + "/" + cfgShape(f[0], ic)
		if hardlinkTargetReplaced(ic.Ents) {
			key = "C02/hardlink-target-replaced/any/" + ic.Rt.Store
		}
		v.add(key, func() string {
			return fmt.Sprintf("%s\nthe tar describes %s\n%s", head(), truth.Describe(), p)
		}, ic)
	}
	hlr := hardlinkTargetReplaced(ic.Ents)
	for _, d := range diffs {
		class := d.Class + "-mismatch"
		if d.Class == "missing" || d.Class == "unexpected" {
			class = d.Class + "-entry"
		}
		sh := shape(ic.Ents, ic.Build.Chunk, truth, d.Path)
		switch {
		case d.Class == "mtime" && truth[d.Path] != nil && truth[d.Path].Mtime == 0:
			v.add("C02/mtime-epoch/any", func() string {
				return fmt.Sprintf("%s\nthe tar describes %s\nserved view       %s\n%s", head(), truth.Describe(), served.Describe(), d)
			}, ic)
			continue
		case d.Class == "content" && readFailed[d.Path]:
			continue // consequence of the failed read reported above
		case hlr:
			// a member that a hard link refers to is declared again later: the builder keeps
			// only the last declaration, whatever symptom follows is one defect class
			class, sh = "hardlink-target-replaced", "any"
		case d.Path == "/" && d.Class != "missing" && d.Class != "unexpected" && hasRootMember(ic.Ents):
			class, sh = "root-member-"+d.Class, "any"
		case d.Class == "xattrs" && onlyEmptyValuesDiffer(truth[d.Path], served[d.Path]):
			sh = "empty-value"
		}
		v.add("C02/"+class+"/"+sh+"/"+cfgShape(class, ic), func() string {
			return fmt.Sprintf("%s\nthe tar describes %s\nserved view       %s\n%s", head(), truth.Describe(), served.Describe(), d)
		}, ic)
	}
}

// hardlinkTargetReplaced: some hard-link member names a path that a later member declares again.
func hardlinkTargetReplaced(es []ent) bool {
	for i, e := range es {
		if e.Type != tar.TypeLink {
			continue
		}
		for _, l := range es[i+1:] {
			if reftar.Clean(l.Name) == reftar.Clean(e.Link) {
				return true
			}
		}
	}
	return false
}

func hasRootMember(es []ent) bool {
	for _, e := range es {
		if reftar.Clean(e.Name) == "/" {
			return true
		}
	}
	return false
}

// onlyEmptyValuesDiffer: the served xattrs equal the wanted ones except for names whose wanted value is "".
func onlyEmptyValuesDiffer(w, g *reftar.Entry) bool {
	if w == nil || g == nil {
		return false
	}
	for k, v := range w.Xattrs {
		if gv, ok := g.Xattrs[k]; (!ok || gv != v) && v != "" {
			return false
		}
	}
	for k := range g.Xattrs {
		if _, ok := w.Xattrs[k]; !ok {
			return false
		}
	}
	return true
}

// ---------------------------------------------------------------- part 1: inputs

// validTar says whether the reference accepts the member list (extractable archive).
func validTar(es []ent, cs int) (reftar.Tree, []byte, bool) {
	tb := buildTar(es, cs)
	t, err := reftar.FromTar(tb)
	if err != nil {
		return nil, nil, false
	}
	return t, tb, true
}

func enumTars(al []ent, max int, fn func(idx int, es []ent) bool) {
	idx := 0
	for l := 0; l <= max; l++ {
		seq := make([]int, l)
		for {
			es := make([]ent, l)
			for i, k := range seq {
				es[i] = al[k]
			}
			if !fn(idx, es) {
				return
			}
			idx++
			i := l - 1
			for i >= 0 {
				seq[i]++
				if seq[i] < len(al) {
					break
				}
				seq[i] = 0
				i--
			}
			if i < 0 {
				break
			}
		}
	}
}

// runInput serves one tar under one configuration from the cold state and compares the whole view.
func (e *env) runInput(ic inputCase, truth reftar.Tree, bb *builtBlob, v *vset, res *runner.Result) {
	w, err := e.newWorld(bb, ic.Rt, "memory")
	if err != nil {
		v.add("C02/serve-failed/"+shape(ic.Ents, ic.Build.Chunk, truth, "/")+"/"+cfgShape("serve-failed", ic), func() string {
			return fmt.Sprintf("tar %s, build %s, runtime %s: the layer cannot be served: %v", describe(ic.Ents), ic.Build, ic.Rt, err)
		}, ic)
		return
	}
	defer w.close()
	res.Evaluations++
	guard(v, ic, " (walk from the cold state)", func() {
		diffs, problems, snap := viewDiffs(w.drv, truth, 4096)
		res.Transitions += w.drv.Ops
		report(v, ic, truth, "", diffs, problems, snap.Tree)
		// second pass over the now warm state with small READs (chunk assembly across READ boundaries)
		diffs, problems, snap = viewDiffs(w.drv, truth, ic.Build.Chunk+1)
		res.Transitions += w.drv.Ops
		report(v, ic, truth, " (second walk, warm caches, READ size chunk+1)", diffs, problems, snap.Tree)
	})
}

// minimize drops members of the tar of a violation as long as the same key is still reported
// under the same build and runtime configuration.
func (e *env) minimize(viol runner.Violation) runner.Violation {
	ic, ok := viol.Replay.(inputCase)
	if !ok || ic.Hist != nil || ic.Rt.Store == "" {
		return viol
	}
	for changed := true; changed && len(ic.Ents) > 0; {
		changed = false
		for drop := range ic.Ents {
			cand := append(append([]ent{}, ic.Ents[:drop]...), ic.Ents[drop+1:]...)
			truth, tarb, ok := validTar(cand, ic.Build.Chunk)
			if !ok {
				continue
			}
			bb, err := buildBlob(tarb, ic.Build, firstRegular(truth))
			if err != nil {
				continue
			}
			tmp := &runner.Result{Outcomes: map[string]int{}}
			tv := &vset{res: tmp, seen: map[string]bool{}}
			cic := inputCase{Ents: cand, Build: ic.Build, Rt: ic.Rt}
			e.runInput(cic, truth, bb, tv, tmp)
			for _, x := range tmp.Violations {
				if x.Key == viol.Key {
					viol, ic, changed = x, cic, true
					break
				}
			}
			if changed {
				break
			}
		}
	}
	return viol
}

func inputsPart(tier string) runner.Part {
	al := entryAlphabet(tier)
	max := 3
	return runner.Part{Name: "inputs", Shards: 128, Run: func(c *runner.Ctx) *runner.Result {
		res := &runner.Result{Outcomes: map[string]int{}}
		v := &vset{res: res, seen: map[string]bool{}}
		e, err := newEnv(c)
		if err != nil {
			res.Broken = err.Error()
			return res
		}
		bcs := allBuildCfgs()
		rts := allRtCfgs(false)
		ntars := 0
		enumTars(al, max, func(idx int, es []ent) bool {
			if idx%c.Of != c.Shard {
				return true
			}
			if time.Now().After(c.Deadline) {
				res.Caps = appendUniq(res.Caps, fmt.Sprintf("time budget: %d tars done in this shard", ntars))
				return false
			}
			for _, cs := range []int{3, 8} {
				truth, tarb, ok := validTar(es, cs)
				if !ok {
					res.Outcomes["input refused by the reference (not extractable: dangling/forward hard link, non-directory parent)"]++
					return true
				}
				if cs == 3 {
					ntars++
					res.States++
					if len(truth) > 2 {
						res.Nontrivial++
					}
				}
				prio := firstRegular(truth)
				for _, bc := range bcs {
					if bc.Chunk != cs || (bc.Prio && prio == "") {
						continue
					}
					bb, err := buildBlob(tarb, bc, prio)
					if err != nil && bc.Prio && strings.Contains(err.Error(), "failed to sort tar entries") && strings.Contains(err.Error(), "not found") {
						// the builder refuses a prioritized file whose parent directory has no member of its
						// own (explicit error at build time, no layer exists): not a served view, C14's business
						res.Outcomes["build refused: prioritized file below a directory without a member"]++
						continue
					}
					if err != nil {
						v.add("C02/build-failed/"+shape(es, cs, truth, "/"), func() string { return fmt.Sprintf("tar %s, build %s: estargz.Build: %v", describe(es), bc, err) }, inputCase{Ents: es, Build: bc})
						continue
					}
					for _, rt := range rts {
						e.runInput(inputCase{Ents: es, Build: bc, Rt: rt}, truth, bb, v, res)
					}
				}
				res.Outcomes[fmt.Sprintf("served tree of %d entries", len(truth)-1)]++
			}
			if len(res.Samples) == 0 && len(es) == 3 {
				res.Samples = append(res.Samples, map[string]any{"tar": describe(es), "build_configs": len(bcs), "runtime_configs": len(rts)})
			}
			return true
		})
		// shrink every violation to a smallest member list that shows the same key under the same configuration
		for i := range res.Violations {
			res.Violations[i] = e.minimize(res.Violations[i])
		}
		res.Extra = map[string]any{"member_alphabet": len(al), "max_members": max, "build_configs": len(bcs), "runtime_configs": len(rts)}
		if os.Getenv("C02_MEMSTAT") != "" {
			var ms runtime.MemStats
			runtime.GC()
			runtime.ReadMemStats(&ms)
			res.Extra["dbg_goroutines"] = runtime.NumGoroutine()
			res.Extra["dbg_heap_alloc_mb"] = ms.HeapAlloc >> 20
			res.Extra["dbg_total_alloc_mb"] = ms.TotalAlloc >> 20
			res.Extra["dbg_numgc"] = ms.NumGC
			if f, err := os.Create("/tmp/c02.heap"); err == nil {
				pprof.WriteHeapProfile(f)
				f.Close()
			}
			if f, err := os.Create("/tmp/c02.gor"); err == nil {
				pprof.Lookup("goroutine").WriteTo(f, 1)
				f.Close()
			}
		}
		return res
	}, Replay: func(c *runner.Ctx, raw json.RawMessage) (string, error) { return replay(c, raw) }}
}

func appendUniq(l []string, s string) []string {
	for _, x := range l {
		if x == s {
			return l
		}
	}
	return append(l, s)
}

// ---------------------------------------------------------------- part 2: access histories

// representative tars of the history exploration.
func histTars() [][]ent {
	reg := func(name string, a, b int) ent {
		return ent{Name: name, Type: tar.TypeReg, SzA: a, SzB: b, Mode: 0o644, UID: 1, GID: 2, MTime: mt}
	}
	xb := ent{Name: "b", Type: tar.TypeReg, SzB: 1, Mode: 0o4755, UID: 1000, GID: 2000, MTime: mt + 1, Xattrs: map[string]string{"user.k": "v", "user.e": ""}}
	d := ent{Name: "d/", Type: tar.TypeDir, Mode: 0o700, UID: 5, GID: 6, MTime: mt + 2, Xattrs: map[string]string{"user.d": "1"}}
	return [][]ent{
		{reg("a", 2, 1)},          // one multi-chunk file
		{xb, d, reg("d/a", 1, 1)}, // directory with attributes, file in it, xattrs incl. an empty value
		{reg("a", 1, 0), {Name: "h", Type: tar.TypeLink, Link: "a"}, {Name: "s", Type: tar.TypeSymlink, Link: "a", Mode: 0o777, MTime: mt + 5}}, // hard link + symlink
		{reg("d/a", 1, 1), {Name: "c", Type: tar.TypeChar, Mode: 0o600, Major: 1, Minor: 3, MTime: mt + 6}},                                     // implicit parent, device
		{reg("a", 1, 1), reg("./a", 0, 1), reg("b", 0, 0)},                                                                                      // replaced member, empty file
		{reg("./a", 1, -1), reg("../b", 1, 1)},                                                                                                  // prefixed names, two files
	}
}

func histBuildCfgs(tier string) []buildCfg {
	if tier == "thorough" {
		return allBuildCfgs()
	}
	return []buildCfg{{3, 0, "gzip", false}, {8, 16, "gzip", true}, {3, 16, "zstd", true}, {8, 0, "zstd", false}, {3, 300, "gzip", false}}
}

// histOps builds the operation alphabet of a tar: LOOKUP of every path and of an absent name
// per directory, READDIR of every directory, GETATTR of the root and of the first file,
// xattrs of every path that has some (and of the root), READLINK of symlinks, READ of every
// regular inode: the chunk/EOF boundary grid on the first multi-chunk (else first non-empty)
// file and a whole-file read (len = size+2) on the others, Prefetch, BackgroundFetch, drop.
func histOps(truth reftar.Tree, cs int) []string {
	var ops []string
	firstFile := ""
	for _, p := range truth.Paths() {
		e := truth[p]
		if p != "/" {
			ops = append(ops, "L:"+p)
		}
		if e.IsDir() {
			ops = append(ops, "R:"+p, "L:"+reftar.Join(p, "zz"))
		}
		if len(e.Xattrs) > 0 {
			ops = append(ops, "X:"+p)
		}
		if e.IsLnk() {
			ops = append(ops, "K:"+p)
		}
		if e.IsReg() && firstFile == "" {
			firstFile = p
		}
	}
	ops = append(ops, "X:/", "G:/")
	if firstFile != "" {
		ops = append(ops, "G:"+firstFile)
	}
	// the file that gets the full grid
	gridFile, best := "", -1
	for _, p := range truth.Paths() {
		if e := truth[p]; e.IsReg() && len(e.Content) > best && (best <= cs) {
			gridFile, best = p, len(e.Content)
		}
	}
	seenObj := map[int]bool{}
	for _, p := range truth.Paths() {
		e := truth[p]
		if !e.IsReg() || seenObj[e.Obj] {
			continue
		}
		seenObj[e.Obj] = true
		n := len(e.Content)
		cand := [][2]int{{0, n + 2}}
		if p == gridFile {
			cand = [][2]int{{0, 1}, {0, n + 2}, {1, cs}, {cs - 1, 2}, {cs, cs + 1}, {n - 1, 3}, {n, 1}, {n + 1, 2}}
		}
		grid := map[[2]int]bool{}
		for _, g := range cand {
			if g[0] < 0 || g[1] <= 0 || g[0] > n+1 || (n == 0 && g[0] > 0) {
				continue
			}
			grid[g] = true
		}
		var gs [][2]int
		for g := range grid {
			gs = append(gs, g)
		}
		sort.Slice(gs, func(i, j int) bool { return gs[i][0] < gs[j][0] || gs[i][0] == gs[j][0] && gs[i][1] < gs[j][1] })
		for _, g := range gs {
			ops = append(ops, fmt.Sprintf("read:%s@%d+%d", p, g[0], g[1]))
		}
	}
	ops = append(ops, "P", "B", "D")
	return ops
}

// apply executes one operation and checks its own reply against the truth.
func (w *world) apply(op string, truth reftar.Tree) (bad string) {
	switch {
	case op == "P":
		w.prefetched = true
		if err := w.lyr.Prefetch(int64(len(w.bb.blob)) / 2); err != nil {
			return fmt.Sprintf("Prefetch: %v", err)
		}
		return ""
	case op == "B":
		w.bgfetched = true
		if err := w.lyr.BackgroundFetch(); err != nil {
			return fmt.Sprintf("BackgroundFetch: %v", err)
		}
		return ""
	case op == "D":
		if err := w.fsCache.reset(); err != nil {
			return "harness: " + err.Error()
		}
		return ""
	}
	kind, arg, _ := strings.Cut(op, ":")
	p := arg
	off, ln := 0, 0
	if kind == "read" {
		var rest string
		p, rest, _ = strings.Cut(arg, "@")
		fmt.Sscanf(rest, "%d+%d", &off, &ln)
	}
	want := truth[p]
	ent, en := w.drv.Resolve(p)
	if want == nil {
		if en != syscall.ENOENT {
			return fmt.Sprintf("LOOKUP of the absent %s = %v (node %d), want ENOENT", p, en, ent.NodeID)
		}
		return ""
	}
	if en != 0 {
		return fmt.Sprintf("LOOKUP %s: %v", p, en)
	}
	cmpAttr := func(what string) string {
		got := fusedrv.AttrToEntry(ent.Attr)
		t1, t2 := reftar.Tree{p: shallow(want)}, reftar.Tree{p: got}
		o := cmpAll
		o.HardlinkSets = false
		for _, d := range reftar.Diff(t1, t2, o) {
			if d.Class == "content" || d.Class == "link" || d.Class == "xattrs" {
				continue
			}
			return fmt.Sprintf("%s %s", what, d)
		}
		return ""
	}
	switch kind {
	case "L":
		return cmpAttr("LOOKUP reply:")
	case "G":
		a, en := w.drv.GetAttr(ent.NodeID)
		if en != 0 {
			return fmt.Sprintf("GETATTR %s: %v", p, en)
		}
		ent.Attr = a
		return cmpAttr("GETATTR reply:")
	case "R":
		ds, en := w.drv.ReadDir(ent.NodeID)
		if en != 0 {
			return fmt.Sprintf("READDIR %s: %v", p, en)
		}
		var got []string
		for _, d := range ds {
			if d.Name != "." && d.Name != ".." {
				got = append(got, d.Name+":"+reftar.TypeName(d.Type))
			}
		}
		var exp []string
		for _, n := range truth.Children(p) {
			exp = append(exp, n+":"+reftar.TypeName(truth[reftar.Join(p, n)].Mode))
		}
		sort.Strings(got)
		if strings.Join(got, " ") != strings.Join(exp, " ") {
			return fmt.Sprintf("READDIR %s = [%s], want [%s]", p, strings.Join(got, " "), strings.Join(exp, " "))
		}
	case "X":
		names, en := w.drv.ListXAttr(ent.NodeID)
		if en != 0 {
			return fmt.Sprintf("LISTXATTR %s: %v", p, en)
		}
		got := map[string]string{}
		for _, n := range names {
			val, en := w.drv.GetXAttr(ent.NodeID, n)
			if en != 0 {
				return fmt.Sprintf("GETXATTR %s %q: %v", p, n, en)
			}
			got[n] = string(val)
		}
		if fmt.Sprint(got) != fmt.Sprint(nonNil(want.Xattrs)) {
			return fmt.Sprintf("xattrs of %s = %q, want %q", p, got, want.Xattrs)
		}
		if _, en := w.drv.GetXAttr(ent.NodeID, "user.absent"); en != syscall.ENODATA {
			return fmt.Sprintf("GETXATTR %s user.absent = %v, want ENODATA", p, en)
		}
	case "K":
		b, en := w.drv.Readlink(ent.NodeID)
		if en != 0 || string(b) != want.Link {
			return fmt.Sprintf("READLINK %s = %q, %v; want %q", p, b, en, want.Link)
		}
	case "read":
		b, en := w.drv.Read(ent.NodeID, int64(off), ln)
		if en != 0 {
			return fmt.Sprintf("READ %s off=%d len=%d: %v", p, off, ln, en)
		}
		var exp []byte
		if off < len(want.Content) {
			end := off + ln
			if end > len(want.Content) {
				end = len(want.Content)
			}
			exp = want.Content[off:end]
		}
		if !bytes.Equal(b, exp) {
			return fmt.Sprintf("READ %s off=%d len=%d (file of %d bytes) = %q, want %q", p, off, ln, len(want.Content), b, exp)
		}
	}
	return ""
}

func nonNil(m map[string]string) map[string]string {
	if m == nil {
		return map[string]string{}
	}
	return m
}

func shallow(e *reftar.Entry) *reftar.Entry { c := *e; return &c }

// stateKey renders the internal state the history has reached: chunk-cache content,
// compressed-blob cache content, fetched size, memoised directories, instantiated
// inodes, one-shot flags.
func (w *world) stateKey(truth reftar.Tree, cs int) string {
	// canonical names of the chunk-cache keys: sha256("<id>-<chunkOffset>-<chunkSize>")
	names := map[string]string{}
	for _, p := range truth.Paths() {
		e := truth[p]
		if !e.IsReg() || len(e.Content) == 0 {
			continue
		}
		id, ok := w.metaID(p)
		if !ok {
			continue
		}
		n := len(e.Content)
		for o := 0; o < n; o += cs {
			sz := cs
			if o+sz > n {
				sz = n - o
			}
			names[fmt.Sprintf("%x", sha256.Sum256(fmt.Appendf(nil, "%d-%d-%d", id, o, sz)))] = fmt.Sprintf("%s@%d", p, o)
		}
	}
	var fk []string
	for k := range w.fsCache.keys {
		if n, ok := names[k]; ok {
			fk = append(fk, n)
		} else {
			fk = append(fk, "other")
		}
	}
	sort.Strings(fk)
	var memo, inst []string
	for _, p := range truth.Paths() {
		in := w.root.EmbeddedInode()
		ok := true
		if p != "/" {
			for _, c := range strings.Split(strings.Trim(p, "/"), "/") {
				in = in.GetChild(c)
				if in == nil {
					ok = false
					break
				}
			}
		}
		if !ok {
			continue
		}
		if p != "/" {
			inst = append(inst, p)
		}
		if truth[p].IsDir() && layer.VerifEntsCached(in.Operations()) {
			memo = append(memo, p)
		}
	}
	return fmt.Sprintf("chunks=%v http=%d fetched=%d memo=%v inodes=%v P=%v B=%v", fk, len(w.htCache.keys), w.blob.FetchedSize(), memo, inst, w.prefetched, w.bgfetched)
}

// metaID resolves a path to the metadata id without touching the node tree.
func (w *world) metaID(p string) (uint32, bool) {
	id := w.mr.RootID()
	for _, c := range strings.Split(strings.Trim(p, "/"), "/") {
		cid, _, err := w.mr.GetChild(id, c)
		if err != nil {
			return 0, false
		}
		id = cid
	}
	return id, true
}

type histCase struct {
	Tar   int      `json:"tar"`
	Build buildCfg `json:"build"`
	Rt    rtCfg    `json:"rt"`
	Depth int      `json:"depth"`
}

// exploreHistories: depth-bounded explicit-state search from the cold state.
// Every history prefix is executed from a cold world; after its last operation the
// complete view is compared with the truth. A prefix whose state was already reached
// by a history that is not longer is not extended.
func (e *env) exploreHistories(hc histCase, es []ent, depth int, deadline time.Time, v *vset, res *runner.Result) {
	cs := hc.Build.Chunk
	truth, tarb, ok := validTar(es, cs)
	if !ok {
		res.Broken = "representative tar refused by the reference: " + describe(es)
		return
	}
	bb, err := buildBlob(tarb, hc.Build, firstRegular(truth))
	if err != nil && hc.Build.Prio && strings.Contains(err.Error(), "failed to sort tar entries") {
		// the builder refuses a prioritized file below a directory without a member of its own:
		// this tar is explored without a prioritized file
		res.Outcomes["build refused: prioritized file below a directory without a member (explored without prioritized files)"]++
		bb, err = buildBlob(tarb, hc.Build, "")
	}
	if err != nil {
		res.Broken = fmt.Sprintf("build %s %s: %v", describe(es), hc.Build, err)
		return
	}
	ops := histOps(truth, cs)
	ic := inputCase{Ents: es, Build: hc.Build, Rt: hc.Rt}
	seen := map[string]bool{} // internal states already reached (by a history that is not longer)
	// run executes one history from a cold world; it returns the reached state ("" = do not extend).
	run := func(hist []string) (state string) {
		w, err := e.newWorld(bb, hc.Rt, httpCacheKind(hc.Rt))
		ic.Hist = append([]string{}, hist...)
		if err != nil {
			v.add("C02/serve-failed/"+shape(es, cs, truth, "/")+"/"+cfgShape("serve-failed", ic), func() string {
				return fmt.Sprintf("tar %s, build %s, runtime %s: %v", describe(es), hc.Build, hc.Rt, err)
			}, ic)
			return ""
		}
		defer w.close()
		bad := ""
		panicked := true
		guard(v, ic, "\nhistory from the cold state: "+strings.Join(hist, "; "), func() {
			for i, op := range hist {
				if b := w.apply(op, truth); b != "" {
					bad = fmt.Sprintf("step %d (%s): %s", i+1, op, b)
					break
				}
			}
			panicked = false
		})
		res.Evaluations++
		res.Transitions += int64(len(hist))
		if panicked {
			return ""
		}
		if bad != "" {
			last := hist[len(hist)-1]
			kind, _, _ := strings.Cut(last, ":")
			key := "C02/history-reply/" + kind + "/" + shape(es, cs, truth, pathOfOp(last)) + "/" + cfgShape("history-reply", ic)
			if kind == "read" && strings.HasSuffix(bad, ": input/output error") {
				key = "C02/read-failed/" + shape(es, cs, truth, pathOfOp(last)) + "/" + cfgShape("read-failed", ic) // same class as in the inputs part
			}
			v.add(key, func() string {
				return fmt.Sprintf("tar %s, build %s, runtime %s\nhistory from the cold state: %s\n%s", describe(es), hc.Build, hc.Rt, strings.Join(hist, "; "), bad)
			}, ic)
			return ""
		}
		key := w.stateKey(truth, cs)
		nbad := 1
		guard(v, ic, "\nfull view after the history (from the cold state): "+strings.Join(hist, "; "), func() {
			diffs, problems, snap := viewDiffs(w.drv, truth, 4096)
			report(v, ic, truth, "\nafter the history (from the cold state): "+strings.Join(hist, "; "), diffs, problems, snap.Tree)
			nbad = len(diffs) + len(problems)
		})
		if nbad > 0 {
			return ""
		}
		return key
	}
	// breadth first: all histories of length k before any of length k+1, so that the first
	// failing history is a shortest one and a state is always first reached by a shortest history
	frontier := [][]string{{}}
	for d := 0; d <= depth && len(frontier) > 0; d++ {
		var next [][]string
		for _, hist := range frontier {
			if time.Now().After(deadline) {
				res.Caps = appendUniq(res.Caps, fmt.Sprintf("time budget (histories): depth %d not completed for some case", d))
				frontier, next = nil, nil
				break
			}
			key := run(hist)
			if key == "" {
				continue
			}
			if seen[key] {
				res.Outcomes["history reached an already explored state (not extended)"]++
				continue
			}
			seen[key] = true
			res.States++
			if d < depth {
				for _, op := range ops {
					next = append(next, append(append([]string{}, hist...), op))
				}
			}
		}
		frontier = next
	}
	best := seen
	res.Nontrivial += int64(len(best))
	res.Outcomes[fmt.Sprintf("tar %d: %d ops", hc.Tar, len(ops))]++
}

func pathOfOp(op string) string {
	_, arg, _ := strings.Cut(op, ":")
	p, _, _ := strings.Cut(arg, "@")
	if p == "" {
		return "/"
	}
	return p
}

// httpCacheKind: in the history exploration the compressed-blob cache is of the same kind as the
// chunk cache when the registry chunk is 64 bytes; with 4-byte registry chunks (hundreds of
// entries per layer) it is the memory cache.
func httpCacheKind(rt rtCfg) string {
	if rt.RegChunk >= 64 {
		return rt.Cache
	}
	return "memory"
}

func shardsFor(cases int) int {
	if cases > 288 {
		return 288
	}
	return cases
}

func histCases(tier string) []histCase {
	var out []histCase
	quickBuilds := histBuildCfgs("quick")
	isQuick := func(b buildCfg) bool {
		for _, q := range quickBuilds {
			if q == b {
				return true
			}
		}
		return false
	}
	for ti := range histTars() {
		for _, bc := range histBuildCfgs(tier) {
			for _, rt := range allRtCfgs(tier == "thorough") {
				d := 3
				if tier == "thorough" && isQuick(bc) && rt.Verify {
					d = 4
				}
				if tier == "thorough" && !isQuick(bc) && !rt.Verify {
					continue
				}
				out = append(out, histCase{ti, bc, rt, d})
			}
		}
	}
	return out
}

func historiesPart(tier string) runner.Part {
	cases := histCases(tier)
	depth := 0
	for _, hc := range cases {
		if hc.Depth > depth {
			depth = hc.Depth
		}
	}
	return runner.Part{Name: "histories", Shards: shardsFor(len(cases)), Run: func(c *runner.Ctx) *runner.Result {
		res := &runner.Result{Outcomes: map[string]int{}}
		v := &vset{res: res, seen: map[string]bool{}}
		e, err := newEnv(c)
		if err != nil {
			res.Broken = err.Error()
			return res
		}
		tars := histTars()
		for i, hc := range cases {
			if i%c.Of != c.Shard {
				continue
			}
			e.exploreHistories(hc, tars[hc.Tar], hc.Depth, c.Deadline, v, res)
			if res.Broken != "" {
				return res
			}
			if len(res.Samples) == 0 {
				truth, _, _ := validTar(tars[hc.Tar], hc.Build.Chunk)
				res.Samples = append(res.Samples, map[string]any{"tar": describe(tars[hc.Tar]), "build": hc.Build.String(), "runtime": hc.Rt.String(), "alphabet": histOps(truth, hc.Build.Chunk), "depth": hc.Depth})
			}
		}
		res.Extra = map[string]any{"max_depth": depth, "cases(tar x build x runtime)": len(cases)}
		return res
	}, Replay: func(c *runner.Ctx, raw json.RawMessage) (string, error) { return replay(c, raw) }}
}

// ---------------------------------------------------------------- replay

func replay(c *runner.Ctx, raw json.RawMessage) (string, error) {
	var ic inputCase
	if err := json.Unmarshal(raw, &ic); err != nil {
		return "", err
	}
	e, err := newEnv(c)
	if err != nil {
		return "", err
	}
	res := &runner.Result{Outcomes: map[string]int{}}
	v := &vset{res: res, seen: map[string]bool{}}
	truth, tarb, ok := validTar(ic.Ents, ic.Build.Chunk)
	if !ok {
		return "", fmt.Errorf("reference refuses the tar")
	}
	bb, err := buildBlob(tarb, ic.Build, firstRegular(truth))
	if err != nil {
		return "", err
	}
	if ic.Hist == nil {
		e.runInput(ic, truth, bb, v, res)
	} else {
		w, err := e.newWorld(bb, ic.Rt, httpCacheKind(ic.Rt))
		if err != nil {
			return "", err
		}
		defer w.close()
		for i, op := range ic.Hist {
			if b := w.apply(op, truth); b != "" {
				return "", fmt.Errorf("step %d (%s): %s", i+1, op, b)
			}
		}
		diffs, problems, snap := viewDiffs(w.drv, truth, 4096)
		report(v, ic, truth, " after "+strings.Join(ic.Hist, "; "), diffs, problems, snap.Tree)
	}
	var out []string
	for _, x := range res.Violations {
		out = append(out, x.Key+": "+x.Msg)
	}
	if len(out) > 0 {
		return "", fmt.Errorf("%s", strings.Join(out, "\n"))
	}
	return "view equals the tar", nil
}

// matrix is a debugging aid: C02_MATRIX=<file with {"ents":[...]}> runs one tar under every
// configuration and prints which configurations deviate.
func matrix(file string) {
	b, err := os.ReadFile(file)
	if err != nil {
		panic(err)
	}
	var ic inputCase
	if err := json.Unmarshal(b, &ic); err != nil {
		panic(err)
	}
	scratch, _ := os.MkdirTemp("/dev/shm", "c02dbg")
	defer os.RemoveAll(scratch)
	e, err := newEnv(&runner.Ctx{Scratch: scratch})
	if err != nil {
		panic(err)
	}
	for _, bc := range allBuildCfgs() {
		truth, tarb, ok := validTar(ic.Ents, bc.Chunk)
		if !ok {
			fmt.Println("reference refuses the tar")
			return
		}
		bb, err := buildBlob(tarb, bc, firstRegular(truth))
		if err != nil {
			fmt.Println(bc, "build:", err)
			continue
		}
		if os.Getenv("C02_MATRIX_TOC") != "" {
			var d interface {
				ParseFooter(p []byte) (int64, int64, int64, error)
				ParseTOC(r io.Reader) (*estargz.JTOC, digest.Digest, error)
				FooterSize() int64
			} = new(estargz.GzipDecompressor)
			if bc.Comp == "zstd" {
				d = new(zstdchunked.Decompressor)
			}
			fs := d.FooterSize()
			_, tocOff, tocSize, err := d.ParseFooter(bb.blob[int64(len(bb.blob))-fs:])
			if tocSize <= 0 {
				tocSize = int64(len(bb.blob)) - tocOff - fs
			}
			fmt.Println(bc, "blob", len(bb.blob), "tocOff", tocOff, "tocSize", tocSize, err)
			toc, _, err := d.ParseTOC(bytes.NewReader(bb.blob[tocOff : tocOff+tocSize]))
			if err != nil {
				fmt.Println("  toc:", err)
			} else {
				for _, te := range toc.Entries {
					fmt.Printf("   %-8s %-26q size=%d off=%d inner=%d chunkOff=%d chunkSize=%d link=%q\n", te.Type, te.Name, te.Size, te.Offset, te.InnerOffset, te.ChunkOffset, te.ChunkSize, te.LinkName)
				}
			}
		}
		for _, rt := range allRtCfgs(true) {
			res := &runner.Result{Outcomes: map[string]int{}}
			v := &vset{res: res, seen: map[string]bool{}}
			e.runInput(inputCase{Ents: ic.Ents, Build: bc, Rt: rt}, truth, bb, v, res)
			var ks []string
			for _, x := range res.Violations {
				ks = append(ks, x.Key)
			}
			fmt.Printf("%-32s %-44s %s\n", bc, rt, strings.Join(ks, " "))
			if os.Getenv("C02_MATRIX_V") != "" {
				for _, x := range res.Violations {
					fmt.Println("    ", strings.ReplaceAll(x.Msg, "\n", "\n     "))
				}
			}
		}
	}
}

func main() {
	logrus.SetOutput(io.Discard)
	if f := os.Getenv("C02_MATRIX"); f != "" {
		matrix(f)
		return
	} // the layer logs every reported error; the state file content is what the check reads
	if f := os.Getenv("C02_CPUPROFILE"); f != "" {
		fh, _ := os.Create(f)
		pprof.StartCPUProfile(fh)
		go func() {
			time.Sleep(5 * time.Second)
			pprof.StopCPUProfile()
			fh.Close()
		}()
	}
	runner.Main(runner.Check{
		ID:    "C02",
		Level: "exploration",
		Rule: "inputs: every tar of <=3 members over the member alphabet (regular files a/b/d/a/./a//a/../a/'a/' with sizes {0,1,cs,cs+1,2cs+1} (thorough: also cs-1 and more name/size pairs), directories d/ a/ ./, symlink, hard links incl. a chain, char device, fifo, xattrs incl. an empty value, setuid, duplicate names, implicit parents; fixed distinct payload patterns) that archive/tar extraction semantics accept, x build {chunk 3,8} x {min-chunk 0,16,300} x {gzip, zstd:chunked} x prioritized {none, first file} x registry chunk {4,64} x chunk cache {memory, directory LRU=1, directory direct} x metadata store {memory, db}, served through memreg -> remote.Resolver -> Blob -> metadata reader -> reader (VerifyTOC) -> layer -> node tree -> go-fuse raw bridge; the complete view (cold walk, then warm walk with READ size chunk+1) must equal the archive/tar reference (lib/reftar). " +
			"histories: for 6 representative tars x build configs x runtime configs (thorough: x verify/skip-verify), explicit-state breadth-first search over {LOOKUP, READDIR, GETATTR, LIST/GETXATTR, READLINK, READ on the chunk/EOF boundary grid, Prefetch, BackgroundFetch, drop-chunk-cache} to depth 3 from the cold state (thorough: depth 4 for the 5 quick build configs with verification, depth 3 for the other 19 build configs); every reply and, after every history prefix, the complete view must equal the reference. distinct states = (cached chunks, compressed-cache entries, fetched size, memoised directories, instantiated inodes, one-shot flags); non-trivial = distinct states reached (histories), tars with >= 2 entries (inputs)",
		Assumptions: []string{
			"in-memory registry (lib/memreg), perfect server behaviour (deviations are C06's business)",
			"directory caches use SyncAdd (asynchronous commit would make the reached state timing dependent; the bytes served are the same); the compressed-blob cache is a memory cache in the inputs part and for 4-byte registry chunks, else of the same kind as the chunk cache",
			"BackgroundTaskManager with a zero silence period; Prefetch/BackgroundFetch run to completion before the next operation (concurrent readers are not explored here)",
			"names are cleaned as docs/estargz.md and cleanEntryName define; members the reference refuses (hard link to a missing/later member, non-directory parent) are not inputs",
			"attributes of directories that no member declares, directory sizes and sub-second mtimes are not compared",
		},
		QuickBudget: 4 * time.Minute, ThoroughBudget: 30 * time.Minute,
		Parts: func(tier string) []runner.Part {
			return []runner.Part{inputsPart(tier), historiesPart(tier)}
		},
	})
}
