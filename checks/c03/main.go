// C03: built blobs unpack like the input tar and index themselves consistently.
//
// Bounded-exhaustive input enumeration: every tar of up to N entries over a small
// entry alphabet x every builder configuration, evaluated by oracles that do not use
// estargz.Open: archive/tar + compress/gzip / klauspost zstd on the whole blob, and a
// from-the-spec reader (lib/enumx) for footer -> TOC -> chunk reads.
package main

import (
	"archive/tar"
	"bytes"
	"compress/gzip"
	"encoding/json"
	"fmt"
	"io"
	"os"
	"runtime"
	"runtime/debug"
	"sort"
	"strconv"
	"strings"
	"time"

	"github.com/containerd/stargz-snapshotter/estargz"
	"github.com/containerd/stargz-snapshotter/estargz/externaltoc"
	"github.com/containerd/stargz-snapshotter/estargz/zstdchunked"
	"github.com/klauspost/compress/zstd"

	"verif/lib/enumx"
	"verif/lib/runner"
)

const (
	tocName = "stargz.index.json"
	lmP     = ".prefetch.landmark"
	lmN     = ".no.prefetch.landmark"
)

// ---- configuration space ---------------------------------------------------------

type cfg struct {
	Mode    string `json:"mode"`    // build | append | append2 | lossless
	CS      int    `json:"cs"`      // chunk size, 0 = default (4 MiB)
	Min     int    `json:"min"`     // min-chunk-size
	Comp    string `json:"comp"`    // gzip | zstd | ext
	Level   int    `json:"level"`   // gzip level
	Prio    bool   `json:"prio"`    // one prioritized file (build only)
	In      string `json:"in"`      // plain | gzip | zstd | estargz (output of a first pass fed back)
	Workers int    `json:"workers"` // build only
	Via     string `json:"via"`     // how the worker count is set: gomaxprocs | option
}

func (c cfg) String() string {
	b, _ := json.Marshal(c)
	return string(b)
}

func effCS(cs int) int {
	if cs == 0 {
		return 8 // small files only under the default chunk size; the 4 MiB boundary is the "big" part
	}
	return cs
}

// min-chunk-size values: 0 = one stream per chunk; 5 = same, but through the single-worker path;
// 64 = consecutive chunks of one file share a stream (a tar header compresses to ~90 bytes);
// 256 = several files share a stream.
var mins = []int{0, 5, 64, 256}

func buildCfgs(tier string) []cfg {
	var out []cfg
	for _, cs := range []int{3, 8, 0} {
		for _, comp := range []string{"gzip", "zstd", "ext"} {
			// zstd:chunked allocates a multi-MB window per chunk and per Build (WithLowerEncoderMem, fresh
			// decoder): ~10x the cost of gzip. It is crossed with chunk {3,default}, min {0,256}, workers {1,3}.
			z := comp == "zstd"
			if z && cs == 8 {
				continue
			}
			for _, prio := range []bool{false, true} {
				for _, min := range mins {
					if z && min != 0 && min != 256 {
						continue
					}
					for w := 1; w <= 4; w++ {
						if z && w != 1 && w != 3 {
							continue
						}
						// With min-chunk-size > 0 the builder documents that the worker count has no
						// effect; still run 1 and 3 to see that.
						if min > 0 && w != 1 && w != 3 || z && min > 0 && w != 1 {
							continue
						}
						out = append(out, cfg{Mode: "build", CS: cs, Min: min, Comp: comp, Level: 1, Prio: prio, In: "plain", Workers: w, Via: "option"})
					}
				}
				// compressed / already-eStargz input is peeled off before anything else: min-chunk {0,256}, workers 2 (1 under min-chunk)
				for _, in := range []string{"gzip", "zstd", "estargz"} {
					if z {
						continue // a zstd:chunked blob as input costs one window allocation per frame (~0.5 s per build)
					}
					for _, min := range []int{0, 256} {
						out = append(out, cfg{Mode: "build", CS: cs, Min: min, Comp: comp, Level: 1, Prio: prio, In: in, Workers: 2, Via: "option"})
					}
				}
			}
			// default gzip level 9
			if !z {
				for _, min := range []int{0, 256} {
					out = append(out, cfg{Mode: "build", CS: cs, Min: min, Comp: comp, Level: 9, In: "plain", Workers: 2, Via: "option"})
				}
			}
		}
	}
	// worker count through runtime.GOMAXPROCS (real OS-thread parallelism) instead of WithParallelism
	for _, prio := range []bool{false, true} {
		for _, w := range []int{2, 3, 4} {
			out = append(out, cfg{Mode: "build", CS: 3, Min: 0, Comp: "gzip", Level: 1, Prio: prio, In: "plain", Workers: w, Via: "gomaxprocs"})
		}
	}
	return out
}

func writerCfgs(tier string) []cfg {
	var out []cfg
	for _, mode := range []string{"append", "lossless", "append2"} {
		for _, cs := range []int{3, 8, 0} {
			for _, comp := range []string{"gzip", "zstd", "ext"} {
				for _, min := range mins {
					for _, in := range []string{"plain", "gzip"} { // the Writer only understands tar and tar.gz
						if comp == "zstd" && (cs == 8 || in != "plain" || (min != 0 && min != 256)) {
							continue
						}
						out = append(out, cfg{Mode: mode, CS: cs, Min: min, Comp: comp, Level: 1, In: in})
					}
				}
			}
		}
	}
	return out
}

// ---- tar alphabet ----------------------------------------------------------------

type symbol struct {
	label string
	ent   func(cs int) enumx.Ent
}

// core symbols are used at every length; the others only up to fullLen entries.
var core = map[string]bool{"d/": true, "a:0": true, "a:4": true, "a:5": true, "d/f:3": true, "h=>a": true, "x+xattr": true}

func sizeClass(cs, k int) int { return []int{0, 1, cs - 1, cs, cs + 1, 2*cs + 1}[k] }

func regSym(name string, k int) symbol {
	return symbol{fmt.Sprintf("%s:%d", name, k), func(cs int) enumx.Ent {
		return enumx.Ent{Name: name, Type: tar.TypeReg, Size: sizeClass(cs, k), Mode: 0o644}
	}}
}

func alphabet(tier string) []symbol {
	syms := []symbol{
		{"d/", func(int) enumx.Ent { return enumx.Ent{Name: "d/", Type: tar.TypeDir, Mode: 0o755, MTime: 1600000000} }},
	}
	for k := 0; k < 6; k++ {
		syms = append(syms, regSym("a", k)) // sizes 0,1,cs-1,cs,cs+1,2cs+1
	}
	for _, k := range []int{0, 3, 5} {
		syms = append(syms, regSym("d/f", k))
	}
	syms = append(syms,
		symbol{"s->a", func(int) enumx.Ent { return enumx.Ent{Name: "s", Type: tar.TypeSymlink, Link: "a", Mode: 0o777} }},
		symbol{"h=>a", func(int) enumx.Ent { return enumx.Ent{Name: "h", Type: tar.TypeLink, Link: "a", Mode: 0o644} }},
		symbol{"x+xattr", func(cs int) enumx.Ent {
			return enumx.Ent{Name: "x", Type: tar.TypeReg, Size: sizeClass(cs, 4), Mode: 0o4755, UID: 1000, GID: 1001, Uname: "u", Gname: "g",
				MTime: 1700000000, Xattrs: map[string]string{"user.k": "v", "security.capability": "\x01\x00\x00\x02"}}
		}},
	)
	return syms
}

// validShape: a hardlink needs its target earlier in the archive and not replaced later.
func validShape(syms []symbol, shape []int) bool {
	for i, s := range shape {
		if syms[s].label != "h=>a" {
			continue
		}
		before, after := false, false
		for j, t := range shape {
			if strings.HasPrefix(syms[t].label, "a:") {
				if j < i {
					before = true
				} else {
					after = true
				}
			}
		}
		if !before || after {
			return false
		}
	}
	return true
}

func ents(syms []symbol, shape []int, cs int) []enumx.Ent {
	var out []enumx.Ent
	for _, s := range shape {
		out = append(out, syms[s].ent(cs))
	}
	return out
}

// ---- running one case --------------------------------------------------------------

type zstdCompression struct {
	*zstdchunked.Compressor
	*zstdchunked.Decompressor
}

type built struct {
	raw       []byte
	extTOC    []byte
	tocDigest string
	diffID    string
	usize     int64 // -1: not reported by this API
}

func kindOf(comp string) string {
	switch comp {
	case "zstd":
		return enumx.KindZstd
	case "ext":
		return enumx.KindExt
	}
	return enumx.KindGzip
}

var curProcs = -1

func setProcs(n int) {
	if n != curProcs {
		runtime.GOMAXPROCS(n)
		curProcs = n
	}
}

func doBuild(in []byte, c cfg, prio []string) (*built, error) {
	opts := []estargz.Option{estargz.WithChunkSize(c.CS), estargz.WithMinChunkSize(c.Min)}
	var ext *externaltoc.GzipCompression
	switch c.Comp {
	case "gzip":
		opts = append(opts, estargz.WithCompressionLevel(c.Level))
	case "zstd":
		opts = append(opts, estargz.WithCompression(&zstdCompression{&zstdchunked.Compressor{CompressionLevel: zstd.SpeedFastest}, &zstdchunked.Decompressor{}}))
	case "ext":
		ext = externaltoc.NewGzipCompressionWithLevel(func() ([]byte, error) { return nil, fmt.Errorf("unused") }, c.Level).(*externaltoc.GzipCompression)
		opts = append(opts, estargz.WithCompression(ext))
	}
	if len(prio) > 0 {
		opts = append(opts, estargz.WithPrioritizedFiles(prio))
	}
	if c.Via == "option" {
		setProcs(1)
		opts = append(opts, estargz.WithParallelism(c.Workers))
	} else {
		setProcs(c.Workers)
	}
	defer setProcs(1)
	blob, err := estargz.Build(io.NewSectionReader(bytes.NewReader(in), 0, int64(len(in))), opts...)
	if err != nil {
		return nil, err
	}
	raw, err := io.ReadAll(blob)
	if cerr := blob.Close(); err == nil {
		err = cerr
	}
	if err != nil {
		return nil, err
	}
	b := &built{raw: raw, tocDigest: blob.TOCDigest().String(), diffID: blob.DiffID().String()}
	if b.usize, err = blob.UncompressedSize(); err != nil {
		return nil, fmt.Errorf("UncompressedSize after full read: %v", err)
	}
	if ext != nil {
		var tb bytes.Buffer
		if _, err := ext.WriteTOCTo(&tb); err != nil {
			return nil, err
		}
		b.extTOC = tb.Bytes()
	}
	return b, nil
}

func doWriter(ins [][]byte, c cfg) (*built, error) {
	var out bytes.Buffer
	b, stage, err := doWriterTo(&out, ins, c)
	if err != nil {
		return nil, fmt.Errorf("%s: %w", stage, err)
	}
	b.raw = out.Bytes()
	return b, nil
}

// doWriterTo drives a Writer over dst; stage names the call that returned the error.
func doWriterTo(dst io.Writer, ins [][]byte, c cfg) (_ *built, stage string, _ error) {
	var comp estargz.Compressor
	var ext *externaltoc.GzipCompressor
	switch c.Comp {
	case "gzip":
		comp = estargz.NewGzipCompressorWithLevel(c.Level)
	case "zstd":
		comp = &zstdchunked.Compressor{CompressionLevel: zstd.SpeedFastest}
	case "ext":
		ext = externaltoc.NewGzipCompressorWithLevel(c.Level)
		comp = ext
	}
	w := estargz.NewWriterWithCompressor(dst, comp)
	w.ChunkSize = c.CS
	w.MinChunkSize = c.Min
	for _, in := range ins {
		var err error
		if c.Mode == "lossless" {
			err = w.AppendTarLossLess(bytes.NewReader(in))
		} else {
			err = w.AppendTar(bytes.NewReader(in))
		}
		if err != nil {
			return nil, "AppendTar", err
		}
	}
	td, err := w.Close()
	if err != nil {
		return nil, "Close", err
	}
	b := &built{tocDigest: td.String(), diffID: w.DiffID(), usize: -1}
	if ext != nil {
		var tb bytes.Buffer
		if _, err := ext.WriteTOCTo(&tb); err != nil {
			return nil, "WriteTOCTo", err
		}
		b.extTOC = tb.Bytes()
	}
	return b, "", nil
}

func gz(b []byte) []byte {
	var o bytes.Buffer
	w, _ := gzip.NewWriterLevel(&o, 1)
	w.Write(b)
	w.Close()
	return o.Bytes()
}

var zenc, _ = zstd.NewWriter(nil, zstd.WithEncoderLevel(zstd.SpeedFastest), zstd.WithEncoderConcurrency(1))

func zs(b []byte) []byte { return zenc.EncodeAll(b, nil) }

type failure struct {
	class string // stable defect class (part of the key)
	msg   string
}

func fail(class, format string, a ...any) *failure {
	return &failure{class, fmt.Sprintf(format, a...)}
}

type obs struct {
	chunks  int  // data chunks (non-empty reg + chunk TOC entries)
	shared  bool // some chunk has innerOffset > 0
	streams int
	class   string
}

// pickPrio: the last entry that the builder can prioritise (all parent directories have entries).
func pickPrio(es []enumx.Parsed) string {
	have := map[string]bool{}
	for _, e := range es {
		have[enumx.Clean(e.Hdr.Name)] = true
	}
	for i := len(es) - 1; i >= 0; i-- {
		n := enumx.Clean(es[i].Hdr.Name)
		if n == "" {
			continue
		}
		ok := true
		parts := strings.Split(n, "/")
		for k := 1; k < len(parts); k++ {
			if !have[strings.Join(parts[:k], "/")] {
				ok = false
			}
		}
		if ok {
			return es[i].Hdr.Name
		}
	}
	return ""
}

// runCase builds one blob and evaluates the four oracles. tarBytes is the plain input.
func runCase(tarEnts []enumx.Ent, c cfg) (o obs, f *failure) {
	defer func() {
		if r := recover(); r != nil {
			f = fail("panic", "panic: %v\n%s", r, debug.Stack())
		}
	}()
	tarBytes := enumx.BuildTar(tarEnts)
	input, err := enumx.ParseTar(tarBytes)
	if err != nil {
		return o, fail("harness", "generated tar does not parse: %v", err)
	}
	kind := kindOf(c.Comp)

	// expected entry list (before additions)
	var exp []enumx.Parsed
	var prio []string
	landmark := ""
	switch c.Mode {
	case "build":
		dedup := enumx.LastWins(enumx.Without(input, lmP, lmN, tocName))
		landmark = lmN
		if c.Prio {
			if p := pickPrio(dedup); p != "" {
				prio = []string{p}
				landmark = lmP
			} else {
				o.class = "skipped: nothing to prioritise"
				return o, nil
			}
		}
		lead, rest, missing := enumx.Layout(dedup, prio)
		if len(missing) > 0 {
			return o, fail("harness", "prioritized %v missing in reference", missing)
		}
		for _, i := range lead {
			exp = append(exp, dedup[i])
		}
		exp = append(exp, enumx.Parsed{}) // landmark slot
		for _, i := range rest {
			exp = append(exp, dedup[i])
		}
	case "append", "append2":
		exp = enumx.Without(input, tocName)
	case "lossless":
		exp = input
	}

	// run the implementation
	var b *built
	wrap := func(t []byte) []byte {
		switch c.In {
		case "gzip":
			return gz(t)
		case "zstd":
			return zs(t)
		}
		return t
	}
	switch c.Mode {
	case "build":
		in := wrap(tarBytes)
		if c.In == "estargz" {
			first, err := doBuild(tarBytes, c, prio)
			if err != nil {
				return o, fail("error", "first pass Build failed: %v", err)
			}
			in = first.raw
		}
		b, err = doBuild(in, c, prio)
	case "append", "lossless":
		b, err = doWriter([][]byte{wrap(tarBytes)}, c)
	case "append2":
		if len(tarEnts) < 2 {
			o.class = "skipped: fewer than 2 entries to split"
			return o, nil
		}
		// positions continue across the two archives so that payloads stay distinct
		t1 := enumx.BuildTar(tarEnts[:1])
		full := enumx.BuildTar(tarEnts)
		t2 := tailTar(full)
		b, err = doWriter([][]byte{wrap(t1), wrap(t2)}, c)
	}
	if err != nil {
		return o, fail("error", "unexpected error: %v", err)
	}

	// (1) eStargz-agnostic view: decompress everything, parse with archive/tar
	dec, err := enumx.DecompressAll(kind, b.raw)
	if err != nil {
		return o, fail("decompress", "the blob is not a valid %s stream: %v", kind, err)
	}
	out, err := enumx.ParseTar(dec)
	if err != nil {
		return o, fail("untar", "decompressed blob is not a tar archive: %v (entries so far %s)", err, enumx.Describe(out))
	}
	if c.Mode == "lossless" {
		// (4) byte-for-byte
		if !bytes.HasPrefix(dec, tarBytes) {
			return o, fail("lossless-bytes", "lossless: decompressed stream (%d bytes) does not start with the %d input tar bytes; first difference at %d", len(dec), len(tarBytes), firstDiff(dec, tarBytes))
		}
		rest, err := enumx.ParseTar(dec[len(tarBytes):])
		if kind == enumx.KindGzip {
			if err != nil || len(rest) != 1 || rest[0].Hdr.Name != tocName {
				return o, fail("lossless-suffix", "lossless: after the input bytes the stream must hold exactly the TOC entry, got %s %v", enumx.Describe(rest), err)
			}
		} else if len(dec) != len(tarBytes) {
			return o, fail("lossless-suffix", "lossless: %d extra decompressed bytes after the input tar", len(dec)-len(tarBytes))
		}
	} else if kind == enumx.KindGzip {
		if len(out) == 0 || out[len(out)-1].Hdr.Name != tocName || out[len(out)-1].Hdr.Typeflag != tar.TypeReg {
			return o, fail("toc-entry-last", "last tar entry must be %s, entries are %s", tocName, enumx.Describe(out))
		}
		out = out[:len(out)-1]
	}
	if len(out) != len(exp) {
		return o, fail("tar-entries", "unpacked entries %s, expected %s", enumx.Describe(out), describeExp(exp, landmark))
	}
	for i := range exp {
		if exp[i].Hdr == nil { // landmark slot
			h := out[i].Hdr
			if h.Name != landmark || h.Typeflag != tar.TypeReg || !bytes.Equal(out[i].Data, []byte{0xf}) {
				return o, fail("landmark", "entry %d must be the landmark %s with content 0x0f; unpacked entries %s, expected %s", i, landmark, enumx.Describe(out), describeExp(exp, landmark))
			}
			continue
		}
		if d := enumx.EntryDiff(out[i], exp[i]); d != "" {
			return o, fail("tar-entries", "entry %d differs (output vs input): %s; unpacked entries %s, expected %s", i, d, enumx.Describe(out), describeExp(exp, landmark))
		}
	}

	// (2) the documented reader
	blob, err := enumx.ParseBlob(kind, b.raw, b.extTOC)
	if err != nil {
		return o, fail("footer-toc", "footer/TOC by the documented rules: %v", err)
	}
	lastTOC = compactTOC(blob)
	files, err := blob.Files()
	if err != nil {
		return o, fail("spec-read", "reading through the TOC by the documented rules: %v\nTOC: %s", err, compactTOC(blob))
	}
	if len(files) != len(out) {
		return o, fail("toc-entries", "TOC lists %d files, the tar stream has %d entries %s\nTOC: %s", len(files), len(out), enumx.Describe(out), compactTOC(blob))
	}
	un, gn := map[int]string{}, map[int]string{}
	for i := range files {
		if d := enumx.FileVsTar(files[i], out[i]); d != "" {
			return o, fail("toc-vs-tar", "TOC file %d vs tar entry: %s\nTOC: %s", i, d, compactTOC(blob))
		}
		e := files[i].Entry
		if e.Uname != "" {
			un[e.UID] = e.Uname
		}
		if e.Gname != "" {
			gn[e.GID] = e.Gname
		}
		if un[e.UID] != out[i].Hdr.Uname || gn[e.GID] != out[i].Hdr.Gname {
			return o, fail("toc-vs-tar", "TOC file %d %q: user/group name %q/%q, tar has %q/%q", i, e.Name, un[e.UID], gn[e.GID], out[i].Hdr.Uname, out[i].Hdr.Gname)
		}
	}
	// ranged reads: the extent of every chunk, derived from the following offsets, covers its stream
	if err := blob.RangeCheck(); err != nil {
		return o, fail("spec-range-read", "fetching chunks by [offset, next offset): %v\nTOC: %s", err, compactTOC(blob))
	}
	// every payload stream before the TOC is reachable: offsets are non-decreasing in TOC order
	var lastOff int64 = -1
	for _, e := range blob.TOC.Entries {
		if (e.Type == "reg" && e.Size > 0) || e.Type == "chunk" {
			o.chunks++
			if e.InnerOffset > 0 {
				o.shared = true
			}
			if e.Offset < lastOff {
				return o, fail("offset-order", "chunk of %q at offset %d after a chunk at offset %d\nTOC: %s", e.Name, e.Offset, lastOff, compactTOC(blob))
			}
			lastOff = e.Offset
		}
	}
	o.streams = len(blob.Streams)

	// (3) digests
	if want := enumx.Sha256(blob.TOCJSON); b.tocDigest != want {
		return o, fail("toc-digest", "TOCDigest() = %s, sha256 of the TOC JSON in the blob = %s", b.tocDigest, want)
	}
	if want := enumx.Sha256(dec); b.diffID != want {
		return o, fail("diffid", "DiffID() = %s, sha256 of the decompressed stream (%d bytes) = %s", b.diffID, len(dec), want)
	}
	if b.usize >= 0 && b.usize != int64(len(dec)) {
		return o, fail("uncompressed-size", "UncompressedSize() = %d, decompressed stream has %d bytes", b.usize, len(dec))
	}
	return o, nil
}

// tailTar returns the archive holding every entry of full after the first one (payload bytes kept).
func tailTar(full []byte) []byte {
	all, _ := enumx.ParseTar(full)
	var buf bytes.Buffer
	tw := tar.NewWriter(&buf)
	for _, e := range all[1:] {
		tw.WriteHeader(e.Hdr)
		tw.Write(e.Data)
	}
	tw.Close()
	return buf.Bytes()
}

func firstDiff(a, b []byte) int {
	for i := 0; i < len(a) && i < len(b); i++ {
		if a[i] != b[i] {
			return i
		}
	}
	if len(a) < len(b) {
		return len(a)
	}
	return len(b)
}

func describeExp(exp []enumx.Parsed, landmark string) string {
	var l []enumx.Parsed
	for _, e := range exp {
		if e.Hdr == nil {
			l = append(l, enumx.Parsed{Hdr: &tar.Header{Name: landmark, Typeflag: tar.TypeReg, Size: 1}})
		} else {
			l = append(l, e)
		}
	}
	return enumx.Describe(l)
}

func compactTOC(b *enumx.Blob) string {
	var s []string
	for _, e := range b.TOC.Entries {
		switch {
		case e.Type == "reg" || e.Type == "chunk":
			s = append(s, fmt.Sprintf("{%s %s size=%d off=%d inner=%d chunkOff=%d chunkSize=%d}", e.Type, e.Name, e.Size, e.Offset, e.InnerOffset, e.ChunkOffset, e.ChunkSize))
		default:
			s = append(s, fmt.Sprintf("{%s %s}", e.Type, e.Name))
		}
	}
	var st []string
	for _, x := range b.Streams {
		st = append(st, fmt.Sprintf("%d+%d", x.Start, len(x.Data)))
	}
	return strings.Join(s, " ") + " streams(start+ulen)=" + strings.Join(st, ",")
}

// ---- parts ------------------------------------------------------------------------------

var lastTOC string

type replay struct {
	Ents []enumx.Ent `json:"ents"`
	Cfg  cfg         `json:"cfg"`
	Q    *int        `json:"q,omitempty"` // dest-fault: byte quota of the destination
}

func key(c cfg, class string) string {
	k := "C03/" + c.Mode
	if c.Min > 0 {
		k += "/min-chunk"
	}
	if class == "footer-toc" || class == "decompress" {
		k += "/" + c.Comp
	}
	return k + "/" + class
}

func bucket(n int) string {
	switch {
	case n == 0:
		return "0"
	case n == 1:
		return "1"
	case n <= 3:
		return "2-3"
	case n <= 6:
		return "4-6"
	}
	return "7+"
}

var fullLen = map[string]int{"quick": 2, "thorough": 3}

func enumPart(name string, cfgsOf func(string) []cfg, maxLen map[string]int) runner.Part {
	return runner.Part{
		Name:   name,
		Shards: 16,
		Run: func(ctx *runner.Ctx) *runner.Result {
			os.Setenv("TMPDIR", ctx.Scratch)
			res := &runner.Result{Outcomes: map[string]int{}}
			syms := alphabet(ctx.Tier)
			cfgs := cfgsOf(ctx.Tier)
			seen := map[string]bool{}
			ti := -1
			total, done, invalid := 0, 0, 0
			capped := false
			enumx.Sequences(len(syms), maxLen[ctx.Tier], func(shape []int) bool {
				if len(shape) > fullLen[ctx.Tier] {
					for _, x := range shape {
						if !core[syms[x].label] {
							return true
						}
					}
				}
				if !validShape(syms, shape) {
					invalid++
					return true
				}
				ti++
				if ti%ctx.Of != ctx.Shard {
					return true
				}
				total++
				if capped || time.Now().After(ctx.Deadline) {
					capped = true
					return true
				}
				done++
				res.States++
				for ci, c := range cfgs {
					if ci%32 == 31 && time.Now().After(ctx.Deadline) {
						capped = true
						done--
						return true
					}
					es := ents(syms, shape, effCS(c.CS))
					o, f := runCase(es, c)
					if o.class != "" {
						res.Outcomes[o.class]++
						continue
					}
					res.Evaluations++
					res.Transitions += int64(len(es))
					if f != nil {
						if f.class == "harness" {
							res.Broken = f.msg
							return false
						}
						k := key(c, f.class)
						res.Outcomes["VIOLATION "+k]++
						if !seen[k] {
							seen[k] = true
							r, m := minimize(replay{Ents: es, Cfg: c}, f)
							res.Violations = append(res.Violations, runner.Violation{Key: k,
								Msg:    fmt.Sprintf("input tar %s, config %s\n%s", enumx.DescribeEnts(r.Ents), r.Cfg, m.msg),
								Replay: r})
						}
						continue
					}
					if o.chunks >= 2 {
						res.Nontrivial++
					}
					w := ""
					if c.Mode == "build" {
						w = " parallel=" + strconv.FormatBool(c.Workers > 1 && c.Min == 0)
					}
					res.Outcomes[fmt.Sprintf("%s/%s%s: data-chunks=%s shared-stream=%v", c.Mode, c.Comp, w, bucket(o.chunks), o.shared)]++
					if len(res.Samples) < 2 && o.chunks >= 3 && len(shape) >= 2 {
						res.Samples = append(res.Samples, map[string]any{"tar": enumx.DescribeEnts(es), "config": c, "data_chunks": o.chunks, "compressed_streams": o.streams})
					}
				}
				return true
			})
			if capped {
				res.Caps = append(res.Caps, fmt.Sprintf("time budget: %d of %d tars of this shard evaluated", done, total))
			}
			res.Extra = map[string]any{"tar_alphabet": labels(syms), "max_entries": maxLen[ctx.Tier], "full_alphabet_up_to_entries": fullLen[ctx.Tier], "core_alphabet_beyond": coreLabels(), "configs_per_tar": len(cfgs), "invalid_shapes_skipped(dangling hardlink)": invalid}
			return res
		},
		Replay: replayFn,
	}
}

func validEnts(es []enumx.Ent) bool {
	for i, e := range es {
		if e.Type != tar.TypeLink {
			continue
		}
		before, after := false, false
		for j, t := range es {
			if t.Name == e.Link {
				if j < i {
					before = true
				} else {
					after = true
				}
			}
		}
		if !before || after {
			return false
		}
	}
	return true
}

// minimize shrinks a failing case (fewer tar entries, simpler configuration) while it keeps failing
// with the same key, so that the reported input is minimal whichever shard found it.
func minimize(r replay, f *failure) (replay, *failure) {
	k := key(r.Cfg, f.class)
	try := func(c replay) bool {
		if !validEnts(c.Ents) || c.Cfg == r.Cfg && len(c.Ents) == len(r.Ents) {
			return false
		}
		o, g := runCase(c.Ents, c.Cfg)
		if o.class == "" && g != nil && key(c.Cfg, g.class) == k {
			r, f = c, g
			return true
		}
		return false
	}
	for changed := true; changed; {
		changed = false
		for i := range r.Ents {
			c := r
			c.Ents = append(append([]enumx.Ent{}, r.Ents[:i]...), r.Ents[i+1:]...)
			if try(c) {
				changed = true
				break
			}
		}
		var simpler []cfg
		c := r.Cfg
		c.Workers, c.Via = min(c.Workers, 1), "option"
		if r.Cfg.Mode != "build" {
			c.Via = ""
		}
		simpler = append(simpler, c)
		c = r.Cfg
		c.In = "plain"
		simpler = append(simpler, c)
		c = r.Cfg
		c.Prio = false
		simpler = append(simpler, c)
		c = r.Cfg
		c.Comp = "gzip"
		simpler = append(simpler, c)
		c = r.Cfg
		c.Level = 1
		simpler = append(simpler, c)
		if r.Cfg.Workers > 1 {
			c = r.Cfg
			c.Workers--
			simpler = append(simpler, c)
		}
		for _, sc := range simpler {
			if try(replay{Ents: r.Ents, Cfg: sc}) {
				changed = true
				break
			}
		}
	}
	return r, f
}

func coreLabels() []string {
	var l []string
	for k := range core {
		l = append(l, k)
	}
	sort.Strings(l)
	return l
}

func labels(s []symbol) []string {
	var l []string
	for _, x := range s {
		l = append(l, x.label)
	}
	return l
}

func replayFn(ctx *runner.Ctx, raw json.RawMessage) (string, error) {
	os.Setenv("TMPDIR", ctx.Scratch)
	var r replay
	if err := json.Unmarshal(raw, &r); err != nil {
		return "", err
	}
	if r.Q != nil {
		stage, f := faultCase(writerInputs(r.Ents, r.Cfg), r.Cfg, *r.Q, -1)
		d := fmt.Sprintf("%s %s destination quota=%d: %s", enumx.DescribeEnts(r.Ents), r.Cfg, *r.Q, stage)
		if f != nil {
			return d, fmt.Errorf("%s: %s", f.class, f.msg)
		}
		return d, nil
	}
	_, f := runCase(r.Ents, r.Cfg)
	if f != nil {
		return enumx.DescribeEnts(r.Ents) + " " + r.Cfg.String(), fmt.Errorf("%s: %s", f.class, f.msg)
	}
	return enumx.DescribeEnts(r.Ents) + " " + r.Cfg.String() + "\nTOC: " + lastTOC, nil
}

// bigPart: the default 4 MiB chunk size with files around that boundary.
func bigPart() runner.Part {
	const cs = 4 << 20
	return runner.Part{
		Name:   "big",
		Shards: 8,
		Run: func(ctx *runner.Ctx) *runner.Result {
			os.Setenv("TMPDIR", ctx.Scratch)
			res := &runner.Result{Outcomes: map[string]int{}}
			seen := map[string]bool{}
			idx := -1
			for _, size := range []int{cs - 1, cs, cs + 1, 2*cs + 1} {
				for _, comp := range []string{"gzip", "zstd", "ext"} {
					var cfgs []cfg
					for w := 1; w <= 3; w++ {
						cfgs = append(cfgs, cfg{Mode: "build", Comp: comp, Level: 1, In: "plain", Workers: w, Via: "gomaxprocs"})
					}
					cfgs = append(cfgs, cfg{Mode: "build", Comp: comp, Level: 1, In: "plain", Workers: 2, Via: "gomaxprocs", Prio: true},
						cfg{Mode: "build", Comp: comp, Min: 64, Level: 1, In: "plain", Workers: 1, Via: "gomaxprocs"},
						cfg{Mode: "append", Comp: comp, Level: 1, In: "plain"}, cfg{Mode: "lossless", Comp: comp, Level: 1, In: "plain"})
					for _, c := range cfgs {
						idx++
						if idx%ctx.Of != ctx.Shard {
							continue
						}
						if time.Now().After(ctx.Deadline) {
							res.Caps = append(res.Caps, "time budget")
							return res
						}
						es := []enumx.Ent{{Name: "a", Type: tar.TypeReg, Size: 5, Mode: 0o644}, {Name: "big", Type: tar.TypeReg, Size: size, Mode: 0o644}, {Name: "z", Type: tar.TypeReg, Size: 9, Mode: 0o644}}
						o, f := runCase(es, c)
						res.Evaluations++
						res.States++
						res.Transitions += 3
						if f != nil {
							k := key(c, f.class) + "/default-chunk-size"
							if !seen[k] {
								seen[k] = true
								res.Violations = append(res.Violations, runner.Violation{Key: k, Msg: fmt.Sprintf("input tar %s, config %s\n%s", enumx.DescribeEnts(es), c, f.msg), Replay: replay{Ents: es, Cfg: c}})
							}
							continue
						}
						res.Nontrivial++
						res.Outcomes[fmt.Sprintf("big %s/%s: data-chunks=%s", c.Mode, c.Comp, bucket(o.chunks))]++
					}
				}
			}
			return res
		},
		Replay: replayFn,
	}
}

// combinePart: a targeted family for the merge of parallel sub-blobs: every ordering of 4 and of 5
// entries out of {non-empty a (cs+1), empty b, non-empty c (2cs+1), empty e, dir d/} x workers {2,3}
// x {gzip, zstd:chunked} x chunk size 3, so that non-first sub-blobs hold empty files after data.
func combinePart() runner.Part {
	const cs = 3
	pool := []enumx.Ent{
		{Name: "a", Type: tar.TypeReg, Size: cs + 1, Mode: 0o644},
		{Name: "b", Type: tar.TypeReg, Size: 0, Mode: 0o644},
		{Name: "c", Type: tar.TypeReg, Size: 2*cs + 1, Mode: 0o644},
		{Name: "e", Type: tar.TypeReg, Size: 0, Mode: 0o600},
		{Name: "d/", Type: tar.TypeDir, Mode: 0o755},
	}
	return runner.Part{
		Name:   "combine",
		Shards: 8,
		Run: func(ctx *runner.Ctx) *runner.Result {
			os.Setenv("TMPDIR", ctx.Scratch)
			res := &runner.Result{Outcomes: map[string]int{}}
			seen := map[string]bool{}
			idx := -1
			enumx.Sequences(len(pool), 5, func(seq []int) bool {
				if len(seq) < 4 {
					return true
				}
				used := map[int]bool{}
				for _, x := range seq {
					if used[x] {
						return true // orderings: no repetition
					}
					used[x] = true
				}
				idx++
				if idx%ctx.Of != ctx.Shard {
					return true
				}
				if time.Now().After(ctx.Deadline) {
					res.Caps = appendUniq(res.Caps, "time budget")
					return false
				}
				var es []enumx.Ent
				for _, x := range seq {
					es = append(es, pool[x])
				}
				res.States++
				for _, comp := range []string{"gzip", "zstd"} {
					for _, w := range []int{2, 3} {
						c := cfg{Mode: "build", CS: cs, Comp: comp, Level: 1, In: "plain", Workers: w, Via: "option"}
						o, f := runCase(es, c)
						res.Evaluations++
						res.Transitions += int64(len(es))
						if f != nil {
							k := key(c, f.class)
							res.Outcomes["VIOLATION "+k]++
							if !seen[k] {
								seen[k] = true
								r, m := minimize(replay{Ents: es, Cfg: c}, f)
								res.Violations = append(res.Violations, runner.Violation{Key: k,
									Msg: fmt.Sprintf("input tar %s, config %s\n%s", enumx.DescribeEnts(r.Ents), r.Cfg, m.msg), Replay: r})
							}
							continue
						}
						res.Nontrivial++
						res.Outcomes[fmt.Sprintf("combine %s workers=%d: data-chunks=%s", comp, w, bucket(o.chunks))]++
					}
				}
				return true
			})
			return res
		},
		Replay: replayFn,
	}
}

func appendUniq(l []string, s string) []string {
	for _, x := range l {
		if x == s {
			return l
		}
	}
	return append(l, s)
}

// ---- destination faults -------------------------------------------------------------------

// quotaWriter accepts q bytes in total, then fails (short write + error, then errors only).
type quotaWriter struct {
	q   int
	buf bytes.Buffer
}

var errQuota = fmt.Errorf("destination quota exceeded")

func (w *quotaWriter) Write(p []byte) (int, error) {
	room := w.q - w.buf.Len()
	if len(p) <= room {
		return w.buf.Write(p)
	}
	if room > 0 {
		w.buf.Write(p[:room])
	} else {
		room = 0
	}
	return room, errQuota
}

func writerInputs(es []enumx.Ent, c cfg) [][]byte {
	full := enumx.BuildTar(es)
	if c.Mode == "append2" && len(es) >= 2 {
		return [][]byte{enumx.BuildTar(es[:1]), tailTar(full)}
	}
	return [][]byte{full}
}

// faultCase runs a Writer over a destination that fails after q bytes. Either some call reports an
// error, or the destination must hold the complete blob; a nil error with a truncated destination
// is a violation. fullLen < 0: unknown (replay).
func faultCase(ins [][]byte, c cfg, q int, fullLen int) (stage string, f *failure) {
	defer func() {
		if r := recover(); r != nil {
			f = fail("dest-fault/panic", "panic with destination quota %d: %v\n%s", q, r, debug.Stack())
		}
	}()
	if fullLen < 0 {
		var out bytes.Buffer
		if _, st, err := doWriterTo(&out, ins, c); err != nil {
			return "", fail("harness", "fault-free run failed in %s: %v", st, err)
		}
		fullLen = out.Len()
	}
	dst := &quotaWriter{q: q}
	_, stage, err := doWriterTo(dst, ins, c)
	if err != nil {
		return "error surfaced in " + stage, nil
	}
	if dst.buf.Len() < fullLen {
		return "", fail("dest-fault/close-nil-on-truncated-output", "the destination accepted %d of the %d bytes of the blob and failed the write after that, yet AppendTar and Close returned nil errors: a truncated blob (no valid footer) was reported as written", dst.buf.Len(), fullLen)
	}
	return "complete", nil
}

// faultPart: for a few small tars and every Writer mode/compressor, sweep EVERY byte quota q in
// [0, len(full output)) of the destination.
func faultPart() runner.Part {
	tars := [][]enumx.Ent{
		{{Name: "a", Type: tar.TypeReg, Size: 4, Mode: 0o644}},
		{{Name: "d/", Type: tar.TypeDir, Mode: 0o755}, {Name: "d/f", Type: tar.TypeReg, Size: 7, Mode: 0o644}, {Name: "e", Type: tar.TypeReg, Size: 0, Mode: 0o644}},
		{{Name: "a", Type: tar.TypeReg, Size: 9, Mode: 0o644}, {Name: "b", Type: tar.TypeReg, Size: 20, Mode: 0o644}, {Name: "h", Type: tar.TypeLink, Link: "a", Mode: 0o644}, {Name: "c", Type: tar.TypeReg, Size: 3, Mode: 0o644}},
	}
	type cc struct {
		comp  string
		level int
	}
	return runner.Part{
		Name:   "dest-fault",
		Shards: 16,
		Run: func(ctx *runner.Ctx) *runner.Result {
			res := &runner.Result{Outcomes: map[string]int{}}
			seen := map[string]bool{}
			idx := -1
			lens := map[string]int{}
			res.Extra = map[string]any{"output_length_per_combination(= quotas swept)": lens}
			for ti, es := range tars {
				for _, mode := range []string{"append", "lossless", "append2"} {
					// level 0 (stored blocks) makes the output exceed the Writer's 4 KiB buffer, so that
					// faults hit intermediate flushes as well as the final one (3-entry tar only);
					// min-chunk 256 (shared streams) with gzip on the 3-entry tar
					for _, k := range []cc{{"gzip", 1}, {"gzip", 0}, {"zstd", 1}, {"ext", 1}} {
						for _, min := range []int{0, 256} {
							if mode == "append2" && len(es) < 2 || k.level == 0 && (ti != 1 || mode == "append2") ||
								min > 0 && (ti != 2 || k != cc{"gzip", 1}) {
								continue
							}
							idx++
							c := cfg{Mode: mode, CS: 3, Min: min, Comp: k.comp, Level: k.level, In: "plain"}
							ins := writerInputs(es, c)
							var out bytes.Buffer
							if _, st, err := doWriterTo(&out, ins, c); err != nil {
								res.Broken = fmt.Sprintf("fault-free run of %s %s failed in %s: %v", enumx.DescribeEnts(es), c, st, err)
								return res
							}
							full := out.Len()
							if ctx.Shard == 0 {
								res.States++
							}
							lens[fmt.Sprintf("%s %s/%s/l%d/min%d", enumx.DescribeEnts(es), mode, k.comp, k.level, min)] = full
							for q := 0; q < full; q++ {
								if (idx+q)%ctx.Of != ctx.Shard {
									continue // every shard takes every Of-th quota of every combination
								}
								if q%64 == 0 && time.Now().After(ctx.Deadline) {
									res.Caps = appendUniq(res.Caps, "time budget")
									return res
								}
								stage, f := faultCase(ins, c, q, full)
								res.Evaluations++
								res.Transitions++
								if f != nil {
									if f.class == "harness" {
										res.Broken = f.msg
										return res
									}
									kk := "C03/" + f.class
									res.Outcomes["VIOLATION "+kk]++
									if !seen[kk] {
										seen[kk] = true
										qq := q
										res.Violations = append(res.Violations, runner.Violation{Key: kk,
											Msg:    fmt.Sprintf("input tar %s, config %s, destination fails after %d of %d bytes\n%s", enumx.DescribeEnts(es), c, q, full, f.msg),
											Replay: replay{Ents: es, Cfg: c, Q: &qq}})
									}
									continue
								}
								if stage == "error surfaced in Close" {
									res.Nontrivial++ // only the final flush / TOC write could notice
								}
								res.Outcomes[fmt.Sprintf("dest-fault %s/%s(level %d): %s", mode, k.comp, k.level, stage)]++
							}
							// q == full: everything fits
							if stage, f := faultCase(ins, c, full, full); f != nil || stage != "complete" {
								res.Broken = fmt.Sprintf("destination with exactly enough room: %s %v", stage, f)
								return res
							}
						}
					}
				}
			}
			return res
		},
		Replay: replayFn,
	}
}

// budget: C03_BUDGET_S overrides the wall-clock budget (for runs on an overloaded machine).
func budget(d time.Duration) time.Duration {
	if v, err := strconv.Atoi(os.Getenv("C03_BUDGET_S")); err == nil && v > 0 {
		return time.Duration(v) * time.Second
	}
	return d
}

func main() {
	debug.SetMaxStack(64 << 20)
	runner.Main(runner.Check{
		ID:    "C03",
		Level: "exploration",
		Rule: "every tar of <= N entries (quick: <=2 over the full alphabet, 3 over the 7-symbol core alphabet {d/, a:0, a:cs+1, a:2cs+1, d/f:cs, hardlink, xattr file}; thorough: <=3 full, 4 core) over the alphabet {dir d/, file a with size 0,1,cs-1,cs,cs+1,2cs+1, nested file d/f with size 0,cs,2cs+1, symlink, hardlink, file with xattrs/owner/mtime; repeated names = duplicates} " +
			"x {Build, Writer.AppendTar, AppendTar twice, AppendTarLossLess} x chunk size {3,8,default} x min-chunk-size {0,5,64,256} x {gzip, zstd:chunked, external TOC} x prioritized {none, one} x input {plain, gzip, zstd, already-eStargz} x workers 1..4 (GOMAXPROCS and WithParallelism); " +
			"plus files of 4MiB-1, 4MiB, 4MiB+1, 8MiB+1 under the default chunk size; plus (combine) every ordering of 4 and 5 entries of {a(cs+1), empty b, c(2cs+1), empty e, d/} x workers {2,3} x {gzip, zstd} at chunk 3; " +
			"plus (dest-fault) 3 small tars x {AppendTar, AppendTar twice, AppendTarLossLess} x {gzip level 1, zstd, external TOC; gzip level 0 (output > 4 KiB buffer) on one; min-chunk 256 with gzip on one} with a destination that fails after q bytes for EVERY q < len(output): an error must surface or the output be complete. Oracles: archive/tar + compress/gzip|zstd on the whole blob, a from-the-spec footer/TOC/chunk reader incl. ranged reads [offset, next offset), sha256 of TOC JSON and decompressed stream, byte equality in lossless mode. " +
			"non-trivial = case whose blob holds >= 2 data chunks (offset bookkeeping matters)",
		Assumptions: []string{
			"archive/tar, compress/gzip, compress/flate and klauspost/compress/zstd decoders are correct (they are the oracle)",
			"the input archive is a well-formed tar written by archive/tar; a hardlink's target precedes it and is not replaced later",
			"compressed/already-eStargz input is removed by decompressBlob before sorting, so it is crossed with min-chunk {0,256} and 2 workers only",
			"zstd:chunked (10x the cost of gzip per build) is crossed with chunk {3,default}, min-chunk {0,256}, workers {1,3}, plain input; real GOMAXPROCS 2..4 with gzip, chunk 3, min-chunk 0 (other cases set the worker count with WithParallelism)",
		},
		QuickBudget: budget(4 * time.Minute), ThoroughBudget: budget(30 * time.Minute),
		Parts: func(tier string) []runner.Part {
			ml := map[string]int{"quick": 3, "thorough": 4}
			all := func(t string) []cfg { return append(buildCfgs(t), writerCfgs(t)...) }
			return []runner.Part{bigPart(), combinePart(), faultPart(), enumPart("enum", all, ml)}
		},
	})
}
