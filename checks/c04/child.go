package main

// The child process: executes inputs one after another, every pipeline stage
// under recover(), and reports progress on fd 3 so that the parent can
// attribute a process death (fatal error, panic in a background goroutine,
// OOM) or a CPU-budget overrun to a single (input, stage).

import (
	"encoding/json"
	"fmt"
	"os"
	"regexp"
	"runtime"
	"runtime/debug"
	"strings"
	"syscall"
	"time"

	bolt "go.etcd.io/bbolt"
)

const (
	vOK    = "ok"
	vErr   = "error"
	vPanic = "PANIC"
	vFatal = "FATAL"
	vHang  = "HANG"
	vWrong = "WRONG-BYTES" // passthrough-merge only: the fd returned for a pristine file holds other bytes
)

type childSpec struct {
	Part       string              `json:"part"`
	Tier       string              `json:"tier"`
	Shard      int                 `json:"shard"`
	Of         int                 `json:"of"`
	From       int                 `json:"from"`
	Only       []int               `json:"only,omitempty"`
	OnlyStage  string              `json:"only_stage,omitempty"`
	Skip       map[int][]string    `json:"skip,omitempty"`     // stages already known to kill the process for this input
	Disabled   []string            `json:"disabled,omitempty"` // stages switched off (after a confirmed hang)
	Guarded    map[string][]string `json:"guarded,omitempty"`  // stage group -> crash sites (functions) of hangs / attacker-sized allocations already confirmed there ("*": any)
	Pruned     map[string]string   `json:"pruned,omitempty"`   // "stage|tag" -> key: the reference model predicts a process death already confirmed
	Scratch    string              `json:"scratch"`
	Deadline   int64               `json:"deadline"`
	MemLimit   uint64              `json:"mem_limit"`
	Verbose    bool                `json:"verbose,omitempty"`
	MaxIdx     int                 `json:"max_idx,omitempty"`   // debugging aid (C04_MAXIDX): stop after this input index
	DeepSeen   int                 `json:"deep_seen,omitempty"` // deep trees already pushed through the prefetch walk by earlier children of this job
	ClaimsDir  string              `json:"claims_dir,omitempty"`
	NoPrune    bool                `json:"no_prune,omitempty"`     // alone/replay runs execute every stage
	MaxStackMB int                 `json:"max_stack_mb,omitempty"` // 16 in batches (a death is re-run alone with 64 before it is believed), 64 alone
	Pass2      bool                `json:"pass2,omitempty"`        // second pass over deferred inputs: wait for the learning lock
}

type stageRes struct {
	St     string `json:"st"`
	V      string `json:"v"`
	Key    string `json:"key,omitempty"`
	Msg    string `json:"msg,omitempty"`
	Top    string `json:"top,omitempty"`
	Err    string `json:"err,omitempty"`
	NoRepo bool   `json:"norepo,omitempty"`
	Tag    string `json:"tag,omitempty"` // reference-model prediction attached to this (input, stage)
	Us     int64  `json:"us,omitempty"`
	Died   bool   `json:"died,omitempty"` // the process died in this stage (set by the parent)
}

type childMsg struct {
	T    string     `json:"t"` // S start input, T start stage, R input done, E end
	I    int        `json:"i"`
	St   string     `json:"st,omitempty"`
	Tag  string     `json:"tag,omitempty"`
	Res  []stageRes `json:"res,omitempty"`
	Desc string     `json:"desc,omitempty"`
	Deep bool       `json:"deep,omitempty"`
	Ops  int        `json:"ops,omitempty"`
	Hash string     `json:"hash,omitempty"`
	Leak int        `json:"leak,omitempty"`
	Cap  string     `json:"cap,omitempty"`
}

type childCtx struct {
	spec      childSpec
	out       *os.File
	idx       int
	skip      map[string]bool
	disabled  map[string]bool
	guarded   map[string][]string
	res       []stageRes
	ops       int
	deep      bool
	leak      int
	baseG     int
	scratch   string
	caseDir   string
	pred      map[string]string // stage -> tag for the current input
	bdb       *bolt.DB
	bdbDirty  bool
	bdbUses   int
	deepTrees int
}

func (c *childCtx) emit(m childMsg) {
	b, _ := json.Marshal(m)
	b = append(b, '\n')
	c.out.Write(b)
}

// settle waits until the goroutines started by the stage are gone, so that a
// late crash in one of them is not blamed on the next stage/input.
func (c *childCtx) settle() {
	for i := 0; i < 2000; i++ {
		if runtime.NumGoroutine() <= c.baseG {
			return
		}
		if i < 50 {
			runtime.Gosched()
		} else {
			time.Sleep(100 * time.Microsecond)
		}
	}
	c.leak += runtime.NumGoroutine() - c.baseG
	c.baseG = runtime.NumGoroutine()
}

const (
	vPruned      = "pruned"       // not executed: the validated reference model predicts an already confirmed process death
	vSkippedSlow = "skipped-slow" // not executed: bounded but slow (prefetch walk to maxWalkDepth), exercised on the first few such inputs only
	vDeferred    = "deferred"     // not executed in the first pass (another job is learning the prediction); the input is re-run in a second pass
	vImplied     = "implied"      // not executed: a stage that runs the same code first already killed the process on this input
)

// impliedBy: stage -> stage whose death implies this one's (it calls the same code on the same bytes first).
var impliedBy = map[string]string{
	"memory.NewReader": "estargz.Open[daemon]", // memory.NewReader starts with estargz.Open(sr, same options)
}

// stage runs one pipeline stage on the current input.
func (c *childCtx) stage(name string, fn func() error) {
	if c.skip[name] || c.skip["group:"+disableName(name)] || c.disabled[name] || c.disabled[disableName(name)] {
		return
	}
	if c.spec.OnlyStage != "" && c.spec.OnlyStage != name {
		return
	}
	if by, ok := impliedBy[name]; ok {
		implied := c.skip[by]
		for _, r := range c.res {
			if r.St == by && (r.V == vPruned || r.V == vDeferred) {
				implied = true
			}
		}
		if implied {
			c.res = append(c.res, stageRes{St: name, V: vImplied})
			return
		}
	}
	tag := c.pred[name]
	if tag != "" {
		// The reference model predicts that this stage never returns on this input. Process deaths are
		// expensive, so a prediction that has come true twice (in any job of this run) is not re-run; while
		// it is being learned, the jobs take turns (file lock) instead of all dying at the same time.
		st := name + "|" + tag
		if key, ok := c.prunedKey(st); ok {
			c.res = append(c.res, stageRes{St: name, V: vPruned, Key: key, Tag: tag})
			return
		}
		if !c.spec.NoPrune {
			c.emit(childMsg{T: "W", I: c.idx, St: name})
			unlock, ok := lockLearning(st, c.spec.Pass2)
			if !ok {
				// another job is finding out right now whether the prediction comes true: come back to this input later
				c.res = append(c.res, stageRes{St: name, V: vDeferred, Tag: tag})
				return
			}
			time.Sleep(100 * time.Millisecond)
			if key, ok := c.prunedKey(st); ok {
				unlock()
				c.res = append(c.res, stageRes{St: name, V: vPruned, Key: key, Tag: tag})
				return
			}
			defer unlock()
		}
	}
	c.emit(childMsg{T: "T", I: c.idx, St: name, Tag: tag})
	if sites := append(append([]string{}, c.guarded[name]...), c.guarded[disableName(name)]...); len(sites) > 0 {
		// A hang (30 s x 3) or an attacker-sized allocation has been confirmed in this stage group at the listed
		// functions. The stage stays in use, but an input that keeps it busy for more than 1 s CPU *inside one of those
		// functions* is given up as "suspected, same site" (the process exits, the parent goes on). Anything else that
		// is slow here is left to the normal follow-up, so that a second hang site in the same stage is still found.
		stop := make(chan struct{})
		defer close(stop)
		start := selfCPU()
		go func() {
			buf := make([]byte, 256<<10)
			for {
				select {
				case <-stop:
					return
				case <-time.After(200 * time.Millisecond):
					if selfCPU()-start < 1.0 {
						continue
					}
					n := runtime.Stack(buf, true)
					if atSite(string(buf[:n]), sites) {
						c.emit(childMsg{T: "G", I: c.idx, St: name})
						os.Exit(98)
					}
				}
			}
		}()
	}
	r := stageRes{St: name, Tag: tag}
	t0 := time.Now()
	func() {
		defer func() {
			if p := recover(); p != nil {
				st := string(debug.Stack())
				r.V = vPanic
				full := fmt.Sprint(p)
				r.Msg = trunc(full, 300)
				if i := strings.Index(full, "\n\n"); i >= 0 && strings.Contains(full, "singleflight.newPanicError") {
					// x/sync/singleflight re-panics with the original stack in the panic value: classify that one
					r.Msg = trunc(full[:i], 300)
					st = "goroutine 0 [running]:\n" + full[i+2:]
				}
				r.Key, r.Top, r.NoRepo = classifyTrace(vPanic, r.Msg, st, true)
			}
		}()
		if err := fn(); err != nil {
			if wb, ok := err.(wrongBytes); ok {
				r.V, r.Key, r.Msg = vWrong, "C04/passthrough/wrong-bytes", trunc(wb.msg, 400)
				return
			}
			r.V, r.Err = vErr, errClass(err)
		} else {
			r.V = vOK
		}
	}()
	r.Us = time.Since(t0).Microseconds()
	c.res = append(c.res, r)
	t1 := time.Now()
	c.settle()
	if d := time.Since(t1).Microseconds(); d > 2000 {
		c.res = append(c.res, stageRes{St: name + "/settle", V: vOK, Us: d})
	}
}

// atSite reports whether a goroutine of the dump is inside one of the given repository functions.
func atSite(dump string, sites []string) bool {
	for _, b := range strings.Split(dump, "\n\n") {
		for _, f := range parseFrames(b) {
			if !isRepoFn(f.fn) {
				continue
			}
			sf := shortFn(f.fn)
			for _, s := range sites {
				if s == "*" || s == sf || s == baseFn(sf) {
					return true
				}
			}
		}
	}
	return false
}

func selfCPU() float64 {
	var ru syscall.Rusage
	syscall.Getrusage(syscall.RUSAGE_SELF, &ru)
	return float64(ru.Utime.Sec+ru.Stime.Sec) + float64(ru.Utime.Usec+ru.Stime.Usec)/1e6
}

func (c *childCtx) prunedKey(stageTag string) (string, bool) {
	if c.spec.NoPrune {
		return "", false
	}
	if k, ok := c.spec.Pruned[stageTag]; ok {
		return k, true
	}
	if c.spec.ClaimsDir == "" {
		return "", false
	}
	if k, ok := prunedIn(c.spec.ClaimsDir)[stageTag]; ok {
		if c.spec.Pruned == nil {
			c.spec.Pruned = map[string]string{}
		}
		c.spec.Pruned[stageTag] = k
		return k, true
	}
	return "", false
}

// stageClass strips the "[variant]" suffix: "fsreader.Cache[memory]" -> "fsreader.Cache".
func stageClass(s string) string {
	if i := strings.IndexByte(s, '['); i >= 0 {
		return s[:i]
	}
	return s
}

func trunc(s string, n int) string {
	if len(s) > n {
		return s[:n] + "..."
	}
	return s
}

var reDigits = regexp.MustCompile(`[0-9]+`)
var reQuoted = regexp.MustCompile(`"[^"]*"`)
var reHex = regexp.MustCompile(`0x[0-9a-f]+|[0-9a-f]{16,}`)

// errClass reduces an error text to a coarse class for the outcome histogram.
func errClass(err error) string {
	s := err.Error()
	if i := strings.IndexByte(s, '\n'); i >= 0 {
		s = s[:i]
	}
	s = reQuoted.ReplaceAllString(s, `"_"`)
	s = reHex.ReplaceAllString(s, "H")
	s = reDigits.ReplaceAllString(s, "N")
	return trunc(s, 70)
}

func childMain() {
	var spec childSpec
	if err := json.Unmarshal([]byte(os.Getenv("C04_CHILD")), &spec); err != nil {
		fmt.Fprintln(os.Stderr, "bad child spec:", err)
		os.Exit(3)
	}
	if spec.MaxStackMB <= 0 {
		spec.MaxStackMB = 64
	}
	debug.SetMaxStack(spec.MaxStackMB << 20)
	if spec.MemLimit > 0 {
		lim := syscall.Rlimit{Cur: spec.MemLimit, Max: spec.MemLimit}
		if err := syscall.Setrlimit(syscall.RLIMIT_AS, &lim); err != nil {
			fmt.Fprintln(os.Stderr, "setrlimit:", err)
			os.Exit(3)
		}
	}
	os.Setenv("TMPDIR", spec.Scratch)
	c := &childCtx{spec: spec, out: os.NewFile(3, "results"), scratch: spec.Scratch, disabled: map[string]bool{}}
	for _, d := range spec.Disabled {
		c.disabled[d] = true
	}
	c.deepTrees = spec.DeepSeen
	c.guarded = spec.Guarded
	var fam *family
	for _, f := range families() {
		if f.name == spec.Part {
			f := f
			fam = &f
		}
	}
	if fam == nil {
		fmt.Fprintln(os.Stderr, "unknown part", spec.Part)
		os.Exit(3)
	}
	only := map[int]bool{}
	for _, i := range spec.Only {
		only[i] = true
	}
	idx := -1
	ran := 0
	stopped := ""
	c.baseG = runtime.NumGoroutine()
	fam.enum(spec.Tier, func(mk func() *Input) {
		idx++
		if stopped != "" || idx < spec.From || idx%spec.Of != spec.Shard {
			return
		}
		if len(only) > 0 && !only[idx] {
			return
		}
		if spec.MaxIdx > 0 && idx > spec.MaxIdx {
			stopped = fmt.Sprintf("C04_MAXIDX=%d (debugging)", spec.MaxIdx)
			return
		}
		if spec.Deadline > 0 && time.Now().Unix() > spec.Deadline {
			stopped = fmt.Sprintf("time budget reached at input #%d", idx)
			return
		}
		in := mk()
		c.idx, c.res, c.ops, c.deep, c.leak = idx, nil, 0, false, 0
		c.pred = map[string]string{}
		for k, v := range in.Pred {
			c.pred[k] = v
		}
		c.skip = map[string]bool{}
		for _, s := range spec.Skip[idx] {
			c.skip[s] = true
		}
		c.emit(childMsg{T: "S", I: idx})
		c.caseDir = fmt.Sprintf("%s/case", c.scratch)
		os.RemoveAll(c.caseDir)
		os.MkdirAll(c.caseDir, 0o755)
		switch {
		case in.HTTP != nil:
			runHTTP(c, in)
		case in.Build != nil:
			runBuild(c, in)
		case in.PT != nil:
			runPassthrough(c, in)
		default:
			runBlob(c, in)
		}
		os.RemoveAll(c.caseDir)
		ran++
		m := childMsg{T: "R", I: idx, Res: c.res, Deep: c.deep, Ops: c.ops, Hash: inputHash(in), Leak: c.leak}
		bad := spec.Verbose
		for _, r := range c.res {
			if r.V == vPanic || r.V == vWrong {
				bad = true
			}
		}
		if bad || idx < 3*spec.Of {
			m.Desc = in.Desc
		}
		c.emit(m)
	})
	c.emit(childMsg{T: "E", I: idx, Cap: stopped})
	os.Exit(0)
}
