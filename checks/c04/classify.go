package main

// Crash-site classification: the violation key is derived from the top
// repository frame of the crashing goroutine plus the kind of crash.

import (
	"crypto/sha256"
	"encoding/hex"
	"regexp"
	"strings"
)

const repoPrefix = "github.com/containerd/stargz-snapshotter/"

type frame struct {
	fn   string // function without arguments
	file string // file:line
}

var reArgs = regexp.MustCompile(`\([^()]*\)$`)

// parseFrames parses one goroutine block of a Go traceback.
func parseFrames(block string) []frame {
	var out []frame
	lines := strings.Split(block, "\n")
	for i := 0; i < len(lines); i++ {
		l := lines[i]
		if l == "" || strings.HasPrefix(l, "goroutine ") || strings.HasPrefix(l, "\t") || strings.HasPrefix(l, "...") {
			continue
		}
		fn := strings.TrimPrefix(l, "created by ")
		if j := strings.Index(fn, " in goroutine"); j >= 0 {
			fn = fn[:j]
		}
		fn = reArgs.ReplaceAllString(fn, "")
		f := frame{fn: fn}
		if i+1 < len(lines) && strings.HasPrefix(lines[i+1], "\t") {
			loc := strings.TrimSpace(lines[i+1])
			if j := strings.Index(loc, " +0x"); j >= 0 {
				loc = loc[:j]
			}
			f.file = loc
			i++
		}
		out = append(out, f)
	}
	return out
}

func isRepoFn(fn string) bool {
	return strings.HasPrefix(fn, repoPrefix) && !strings.HasPrefix(fn, repoPrefix+"estargz/vrt")
}

func shortFn(fn string) string {
	fn = strings.TrimPrefix(fn, repoPrefix)
	// a closure of method N inlined into method M is printed as "pkg.(*T).M.(*T).N.func1": name it after N
	if i := strings.Index(fn, ".(*"); i >= 0 {
		if j := strings.LastIndex(fn, ".(*"); j > i {
			fn = fn[:i] + fn[j:]
		}
	}
	return fn
}

var reBound = regexp.MustCompile(`\[[^\]]*\]`)

// boundShape keeps the shape of the offending bounds with the numbers abstracted ("[:-N]", "[N:N]", "[:N]cap"), so that
// two different slicing expressions of one function are different crash sites while the key stays input-independent.
func boundShape(m string) string {
	b := reBound.FindString(m)
	b = reDigits.ReplaceAllString(b, "N")
	switch {
	case strings.Contains(m, "with capacity"):
		b += "cap"
	case strings.Contains(m, "with length"):
		b += "len"
	}
	return b
}

func panicKind(msg string) string {
	m := strings.ToLower(msg)
	switch {
	case strings.Contains(m, "stack overflow") || strings.Contains(m, "stack exceeds"):
		return "stack-overflow"
	case strings.Contains(m, "out of memory") || strings.Contains(m, "cannot allocate memory"):
		return "out-of-memory"
	case strings.Contains(m, "slice bounds out of range"):
		return "slice-bounds" + boundShape(m)
	case strings.Contains(m, "index out of range"):
		return "index-out-of-range" + boundShape(m)
	case strings.Contains(m, "nil pointer dereference") || strings.Contains(m, "invalid memory address"):
		return "nil-deref"
	case strings.Contains(m, "makeslice"):
		return "makeslice"
	case strings.Contains(m, "bytes.buffer: too large"):
		return "buffer-too-large"
	case strings.Contains(m, "negative count") || strings.Contains(m, "negative"):
		return "negative-count"
	case strings.Contains(m, "divide by zero"):
		return "divide-by-zero"
	case strings.Contains(m, "concurrent map"):
		return "concurrent-map-access"
	case strings.Contains(m, "all goroutines are asleep"):
		return "deadlock"
	case strings.Contains(m, "interface conversion") || strings.Contains(m, "type assertion"):
		return "type-assertion"
	case strings.Contains(m, "close of closed channel") || strings.Contains(m, "send on closed channel") || strings.Contains(m, "close of nil channel"):
		return "channel-misuse"
	}
	// sanitize: first words of the message
	m = reDigits.ReplaceAllString(m, "N")
	var sb strings.Builder
	for _, r := range m {
		switch {
		case r >= 'a' && r <= 'z', r >= '0' && r <= '9', r == 'N':
			sb.WriteRune(r)
		case sb.Len() > 0 && !strings.HasSuffix(sb.String(), "-"):
			sb.WriteByte('-')
		}
		if sb.Len() > 40 {
			break
		}
	}
	return strings.Trim(sb.String(), "-")
}

// crashingBlock returns the traceback block of the goroutine that crashed.
func crashingBlock(trace string) string {
	// a recovered panic: debug.Stack() has only the current goroutine
	blocks := strings.Split(trace, "\n\n")
	for _, b := range blocks {
		if i := strings.Index(b, "goroutine "); i >= 0 {
			hdr := b[i:]
			nl := strings.IndexByte(hdr, '\n')
			if nl < 0 {
				continue
			}
			if strings.Contains(hdr[:nl], "[running]") || strings.Contains(hdr[:nl], "[running,") {
				return hdr
			}
		}
	}
	for _, b := range blocks {
		if i := strings.Index(b, "goroutine "); i >= 0 {
			return b[i:]
		}
	}
	return trace
}

// classifyTrace builds (key, top-of-stack text, noRepoFrame).
func classifyTrace(verdict, msg, trace string, recovered bool) (string, string, bool) {
	frames := parseFrames(crashingBlock(trace))
	start := 0
	if recovered {
		// skip debug.Stack, the deferred closure and panic() itself
		for i, f := range frames {
			if f.fn == "panic" || strings.HasPrefix(f.fn, "runtime.gopanic") {
				start = i + 1
			}
		}
	}
	site := ""
	var top []string
	for _, f := range frames[start:] {
		if len(top) < 8 {
			top = append(top, shortFn(f.fn)+"  "+strings.TrimPrefix(f.file, "/repo/"))
		}
		if site == "" && isRepoFn(f.fn) {
			site = shortFn(f.fn)
		}
	}
	if panicKind(msg) == "stack-overflow" {
		// the site of a stack overflow is the recursive function, not whatever leaf ran out of stack:
		// the most frequent repository function (closures folded into their parent) in the trace
		count := map[string]int{}
		var order []string
		for _, f := range frames[start:] {
			if isRepoFn(f.fn) {
				b := baseFn(shortFn(f.fn))
				if count[b] == 0 {
					order = append(order, b)
				}
				count[b]++
			}
		}
		best := ""
		for _, b := range order {
			if best == "" || count[b] > count[best] {
				best = b
			}
		}
		if best != "" {
			site = best
		}
	}
	noRepo := site == ""
	if noRepo {
		for _, f := range frames[start:] {
			if !strings.HasPrefix(f.fn, "runtime.") && !strings.HasPrefix(f.fn, "runtime/") {
				site = f.fn
				break
			}
		}
	}
	class := "panic"
	if verdict == vFatal {
		class = "fatal"
	}
	return "C04/" + class + "/" + site + ":" + panicKind(msg), strings.Join(top, "\n"), noRepo
}

var reClosure = regexp.MustCompile(`(\.func[0-9]+|\.[0-9]+|\.gowrap[0-9]+)+$`)

// baseFn folds closures into the enclosing function: "pkg.f.func2.1" -> "pkg.f".
func baseFn(fn string) string { return reClosure.ReplaceAllString(fn, "") }

// hangSite: the innermost repository function present in a non-idle goroutine of every dump.
func busyState(hdr string) bool {
	for _, s := range []string{"[running", "[runnable", "[GC assist", "[preempted", "[copystack", "[syscall"} {
		if strings.Contains(hdr, s) {
			return true
		}
	}
	return false
}

func hangSite(dumps []string, blocked bool) (site string, top string, allocating bool) {
	growing := false
	defer func() {
		if growing {
			allocating = false
		}
	}()
	if !blocked {
		// no busy goroutine with repository frames in any dump (e.g. all parked in the allocator): look at all of them
		defer func() {
			if site == "unknown" {
				site, top, allocating = hangSite(dumps, true)
			}
		}()
	}
	type dumpInfo struct {
		order []string       // repo base functions of busy goroutines, innermost first
		count map[string]int // frames per function
	}
	var infos []dumpInfo
	for _, d := range dumps {
		info := dumpInfo{count: map[string]int{}}
		for _, b := range strings.Split(d, "\n\n") {
			i := strings.Index(b, "goroutine ")
			if i < 0 {
				continue
			}
			hdr := b[i:]
			nl := strings.IndexByte(hdr, '\n')
			if nl < 0 {
				continue
			}
			h := hdr[:nl]
			if !blocked && !busyState(h) {
				continue
			}
			frames := parseFrames(hdr)
			hasRepo := false
			for _, f := range frames {
				if isRepoFn(f.fn) {
					hasRepo = true
				}
			}
			if !hasRepo {
				continue
			}
			if top == "" {
				var t []string
				for k, f := range frames {
					if len(t) < 10 {
						t = append(t, shortFn(f.fn)+"  "+strings.TrimPrefix(f.file, "/repo/"))
					}
					if k < 8 && (strings.HasPrefix(f.fn, "runtime.mallocgcLarge") || strings.HasPrefix(f.fn, "runtime.memclrNoHeapPointersChunked")) {
						allocating = true // one very large allocation being cleared ...
					}
					if k < 10 && strings.HasPrefix(f.fn, "runtime.growslice") {
						growing = true // ... unless it is a slice that a loop keeps appending to
					}
				}
				top = strings.Join(t, "\n")
			}
			for _, f := range frames {
				if isRepoFn(f.fn) {
					b := baseFn(shortFn(f.fn))
					if info.count[b] == 0 {
						info.order = append(info.order, b)
					}
					info.count[b]++
				}
			}
		}
		if len(info.order) > 0 {
			infos = append(infos, info)
		}
	}
	if len(infos) == 0 {
		return "unknown", top, allocating
	}
	common := func(fn string) bool {
		for _, in := range infos {
			if in.count[fn] == 0 {
				return false
			}
		}
		return true
	}
	// a recursive function dominates; otherwise the outermost repository function of the busy goroutine that is
	// present in every dump (the entry point that never returns) — leaf helpers come and go between dumps
	best := ""
	for _, fn := range infos[0].order {
		if common(fn) && infos[0].count[fn] > 1 && (best == "" || infos[0].count[fn] > infos[0].count[best]) {
			best = fn
		}
	}
	if best == "" {
		for _, fn := range infos[0].order {
			if common(fn) {
				best = fn // keeps the last one: outermost
			}
		}
	}
	if best == "" {
		return "unknown", top, allocating
	}
	return best, top, allocating
}

func inputHash(in *Input) string {
	h := sha256.New()
	h.Write([]byte(in.Desc))
	h.Write(in.Blob)
	h.Write([]byte{0})
	h.Write(in.Ext)
	return hex.EncodeToString(h.Sum(nil)[:8])
}
