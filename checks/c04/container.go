package main

// From-the-spec writers for the four container formats (independent of the
// repository's writers): gzip eStargz (51-byte footer), legacy stargz
// (47-byte footer), zstd:chunked (skippable frames + 40-byte footer) and
// external-TOC eStargz (46-byte footer, TOC handed over out of band).

import (
	"archive/tar"
	"bytes"
	"compress/gzip"
	"crypto/sha256"
	"encoding/binary"
	"encoding/hex"
	"encoding/json"
	"fmt"

	"github.com/klauspost/compress/zstd"
)

const (
	kindGz     = "gz"     // eStargz, 51-byte footer
	kindLegacy = "legacy" // stargz, 47-byte footer
	kindZstd   = "zstd"   // zstd:chunked, 40-byte footer (+8 skippable frame header)
	kindExt    = "ext"    // eStargz with external TOC, 46-byte footer
)

var allKinds = []string{kindGz, kindLegacy, kindZstd, kindExt}
var tocKinds = []string{kindGz, kindZstd, kindExt}

func footerSizeOf(kind string) int {
	switch kind {
	case kindGz:
		return 51
	case kindLegacy:
		return 47
	case kindZstd:
		return 40
	case kindExt:
		return 46
	}
	panic("kind")
}

func gzMember(data []byte) []byte {
	var b bytes.Buffer
	w, _ := gzip.NewWriterLevel(&b, gzip.BestSpeed)
	w.Write(data)
	w.Close()
	return b.Bytes()
}

var zenc *zstd.Encoder

func zstdFrame(data []byte) []byte {
	if zenc == nil {
		zenc, _ = zstd.NewWriter(nil, zstd.WithEncoderLevel(zstd.SpeedFastest), zstd.WithEncoderConcurrency(1), zstd.WithLowerEncoderMem(true), zstd.WithWindowSize(1<<16))
	}
	return zenc.EncodeAll(data, nil)
}

// gzFooterRaw: an empty gzip stream with an Extra field (RFC1952) followed by
// an empty stored flate block and a zero CRC/ISIZE trailer.
func gzFooterRaw(extra []byte) []byte {
	b := []byte{0x1f, 0x8b, 8, 4, 0, 0, 0, 0, 0, 0xff}
	b = append(b, byte(len(extra)), byte(len(extra)>>8))
	b = append(b, extra...)
	b = append(b, 1, 0, 0, 0xff, 0xff)
	b = append(b, make([]byte, 8)...)
	return b
}

func sgExtra(sub string) []byte {
	e := []byte{'S', 'G', byte(len(sub)), byte(len(sub) >> 8)}
	return append(e, sub...)
}

// footerFor returns the well-formed footer of the kind. tocOffField is the
// literal 16-character offset field for the gzip kinds.
func gzFooterWithField(kind, tocOffField string) []byte {
	switch kind {
	case kindGz:
		return gzFooterRaw(sgExtra(tocOffField + "STARGZ"))
	case kindLegacy:
		return gzFooterRaw([]byte(tocOffField + "STARGZ"))
	case kindExt:
		return gzFooterRaw(sgExtra("STARGZEXTERNALTOC"))
	}
	panic("kind")
}

func zstdFooter40(off, clen, ulen, typ uint64) []byte {
	f := make([]byte, 40)
	binary.LittleEndian.PutUint64(f[0:], off)
	binary.LittleEndian.PutUint64(f[8:], clen)
	binary.LittleEndian.PutUint64(f[16:], ulen)
	binary.LittleEndian.PutUint64(f[24:], typ)
	copy(f[32:], []byte{0x47, 0x6e, 0x55, 0x6c, 0x49, 0x6e, 0x55, 0x78})
	return f
}

func skippable(b []byte) []byte {
	h := []byte{0x50, 0x2a, 0x4d, 0x18, 0, 0, 0, 0}
	binary.LittleEndian.PutUint32(h[4:], uint32(len(b)))
	return append(h, b...)
}

func gzTOC(tocJSON []byte) []byte {
	var b bytes.Buffer
	gw, _ := gzip.NewWriterLevel(&b, gzip.BestSpeed)
	tw := tar.NewWriter(gw)
	tw.WriteHeader(&tar.Header{Typeflag: tar.TypeReg, Name: "stargz.index.json", Size: int64(len(tocJSON))})
	tw.Write(tocJSON)
	tw.Close()
	gw.Close()
	return b.Bytes()
}

// payload layout shared by all TOC families: three compressed members
//
//	m0 @0   : "hdr"               (so that real data never sits at offset 0)
//	m1 @O1  : "abcdefghijklmnop"  (16 bytes: one 16-byte file, or 2 inner chunks of 8)
//	m2 @O2  : "ijklmnop"          (second chunk of a 2-chunk file)
type payload struct {
	kind   string
	bytes  []byte
	O1, O2 int64
}

var payloadData1 = []byte("abcdefghijklmnop")
var payloadData2 = []byte("ijklmnop")

func mkPayload(kind string) payload {
	comp := gzMember
	if kind == kindZstd {
		comp = zstdFrame
	}
	m0, m1, m2 := comp([]byte("hdr")), comp(payloadData1), comp(payloadData2)
	p := payload{kind: kind}
	p.bytes = append(p.bytes, m0...)
	p.O1 = int64(len(p.bytes))
	p.bytes = append(p.bytes, m1...)
	p.O2 = int64(len(p.bytes))
	p.bytes = append(p.bytes, m2...)
	return p
}

var payloadCache = map[string]payload{}

func payloadOf(kind string) payload {
	p, ok := payloadCache[kind]
	if !ok {
		p = mkPayload(kind)
		payloadCache[kind] = p
	}
	return p
}

// wrapTOC puts tocJSON behind the payload in the given container format.
// Returns blob, external TOC (kindExt only), and the [tocOff,tocEnd) region of the
// compressed TOC inside the blob (-1 for kindExt).
func wrapTOC(kind string, tocJSON []byte) (blob, ext []byte, tocOff, tocEnd int) {
	p := payloadOf(kind)
	blob = append([]byte{}, p.bytes...)
	switch kind {
	case kindGz, kindLegacy:
		tocOff = len(blob)
		blob = append(blob, gzTOC(tocJSON)...)
		tocEnd = len(blob)
		blob = append(blob, gzFooterWithField(kind, fmt.Sprintf("%016x", tocOff))...)
	case kindZstd:
		z := zstdFrame(tocJSON)
		tocOff = len(blob) + 8
		blob = append(blob, skippable(z)...)
		tocEnd = len(blob)
		blob = append(blob, skippable(zstdFooter40(uint64(tocOff), uint64(len(z)), uint64(len(tocJSON)), 1))...)
	case kindExt:
		tocOff, tocEnd = -1, -1
		ext = gzTOC(tocJSON)
		blob = append(blob, gzFooterWithField(kind, "")...)
	}
	return
}

// ---- TOC JSON model (own struct: every numeric field is always written) ----

type tocEnt struct {
	Name        string `json:"name"`
	Type        string `json:"type"`
	Size        int64  `json:"size"`
	LinkName    string `json:"linkName,omitempty"`
	Mode        int64  `json:"mode,omitempty"`
	Offset      int64  `json:"offset"`
	InnerOffset int64  `json:"innerOffset"`
	Digest      string `json:"digest,omitempty"`
	ChunkOffset int64  `json:"chunkOffset"`
	ChunkSize   int64  `json:"chunkSize"`
	ChunkDigest string `json:"chunkDigest,omitempty"`
}

type tocDoc struct {
	Version int      `json:"version"`
	Entries []tocEnt `json:"entries"`
}

func (d tocDoc) JSON() []byte {
	b, _ := json.Marshal(d)
	return b
}

func sha(b []byte) string {
	s := sha256.Sum256(b)
	return "sha256:" + hex.EncodeToString(s[:])
}

func digestVariant(v string, data []byte) string {
	switch v {
	case "ok":
		return sha(data)
	case "":
		return ""
	}
	return v
}
