package main

// Input families (i)-(iii): footers, TOC JSON, single-byte mutations.
// Every family is a deterministic enumeration; inputs are built lazily.

import (
	"archive/tar"
	"bytes"
	"compress/gzip"
	"encoding/binary"
	"fmt"
	"io"
	"math"
	"path"
	"strings"

	"github.com/containerd/stargz-snapshotter/estargz"
	"github.com/containerd/stargz-snapshotter/estargz/externaltoc"
	"github.com/containerd/stargz-snapshotter/estargz/zstdchunked"
	"github.com/klauspost/compress/zstd"
)

// Input is one hostile input. Exactly one of (Blob), HTTP, Build is used.
type Input struct {
	Desc   string
	Blob   []byte
	Ext    []byte // external TOC; nil => the TOC provider fails (registry has none)
	TocOff int    // compressed-TOC region inside Blob, when known (else -1)
	TocEnd int
	Light  bool              // footer-level input: skip the expensive read stages when Open fails anyway
	Pred   map[string]string // stage -> tag: the harness' reference model predicts unbounded recursion there
	HTTP   *httpSc
	Build  *buildCase
	PT     *ptCase
}

type family struct {
	name   string
	shards map[string]int
	enum   func(tier string, yield func(mk func() *Input))
}

func families() []family {
	return []family{
		{"footer-len", map[string]int{"quick": 1, "thorough": 1}, enumFooterLen},
		{"footer-xlen", map[string]int{"quick": 4, "thorough": 4}, enumFooterXlen},
		{"footer-num", map[string]int{"quick": 2, "thorough": 2}, enumFooterNum},
		{"footer-mut", map[string]int{"quick": 4, "thorough": 16}, enumFooterMut},
		{"toc-misc", map[string]int{"quick": 2, "thorough": 2}, enumTOCMisc},
		{"toc-num", map[string]int{"quick": 8, "thorough": 16}, enumTOCNum},
		{"toc-struct", map[string]int{"quick": 16, "thorough": 64}, enumTOCStruct},
		{"mut-gz", map[string]int{"quick": 6, "thorough": 8}, func(t string, y func(func() *Input)) { enumMut(kindGz, t, y) }},
		{"mut-zstd", map[string]int{"quick": 6, "thorough": 8}, func(t string, y func(func() *Input)) { enumMut(kindZstd, t, y) }},
		{"mut-ext", map[string]int{"quick": 6, "thorough": 8}, func(t string, y func(func() *Input)) { enumMut(kindExt, t, y) }},
		{"http", map[string]int{"quick": 4, "thorough": 8}, enumHTTP},
		{"build", map[string]int{"quick": 12, "thorough": 16}, enumBuild},
		{"passthrough-merge", map[string]int{"quick": 2, "thorough": 2}, enumPassthrough},
	}
}

func hexs(b []byte) string { return fmt.Sprintf("%x", b) }

func blobInput(desc string, blob, ext []byte, tocOff, tocEnd int, light bool) *Input {
	return &Input{Desc: desc, Blob: blob, Ext: ext, TocOff: tocOff, TocEnd: tocEnd, Light: light}
}

// validBody returns a well-formed tiny container of the kind (payload + TOC with one
// 16-byte file) without its footer, the footer, and the ext TOC.
func validParts(kind string) (body, footer, ext []byte, tocOff, tocEnd int) {
	d := tocDoc{Version: 1, Entries: []tocEnt{{Name: "a", Type: "reg", Size: 16, Offset: payloadOf(kind).O1, Digest: sha(payloadData1), ChunkDigest: sha(payloadData1)}}}
	blob, ext, tocOff, tocEnd := wrapTOC(kind, d.JSON())
	fl := footerSizeOf(kind)
	if kind == kindZstd {
		fl += 8
	}
	return blob[:len(blob)-fl], blob[len(blob)-fl:], ext, tocOff, tocEnd
}

// ---- (i) footers -----------------------------------------------------------------

func enumFooterLen(tier string, yield func(func() *Input)) {
	for n := 0; n <= 120; n++ {
		for _, fill := range []byte{0x00, 0xff, 'a'} {
			n, fill := n, fill
			yield(func() *Input {
				b := bytes.Repeat([]byte{fill}, n)
				return blobInput(fmt.Sprintf("blob of %d bytes 0x%02x", n, fill), b, nil, -1, -1, true)
			})
		}
	}
	// every prefix and every suffix of each well-formed footer, alone and behind filler
	for _, kind := range allKinds {
		_, footer, _, _, _ := validParts(kind)
		for cut := 0; cut <= len(footer); cut++ {
			for _, mode := range []string{"prefix", "suffix", "00fill+suffix", "fffill+suffix"} {
				kind, cut, mode := kind, cut, mode
				yield(func() *Input {
					var b []byte
					switch mode {
					case "prefix":
						b = footer[:cut]
					case "suffix":
						b = footer[cut:]
					case "00fill+suffix":
						b = append(bytes.Repeat([]byte{0x00}, 60), footer[cut:]...)
					default:
						b = append(bytes.Repeat([]byte{0xff}, 60), footer[cut:]...)
					}
					return blobInput(fmt.Sprintf("%s footer %s cut=%d: %s", kind, mode, cut, hexs(b)), append([]byte{}, b...), nil, -1, -1, true)
				})
			}
		}
	}
}

func enumFooterXlen(tier string, yield func(func() *Input)) {
	decls := []int{0, 1, 4, 16, 17, 18, 21, 22, 23, 255, 0xffff}
	xlens := []int{}
	for x := 0; x <= 44; x++ {
		xlens = append(xlens, x)
	}
	xlens = append(xlens, 45, 100, 0xffff)
	for _, kind := range []string{kindGz, kindExt, kindLegacy} {
		fs := footerSizeOf(kind)
		magic := "0000000000000000STARGZ"
		if kind == kindExt {
			magic = "STARGZEXTERNALTOC"
		}
		for _, xlen := range xlens {
			for _, decl := range decls {
				if kind == kindLegacy && decl != 0 {
					continue
				}
				for _, si := range []string{"SG", "sg"} {
					if kind == kindLegacy && si != "SG" {
						continue
					}
					for _, content := range []string{"magic", "zero"} {
						for _, prefix := range []int{0, 10} {
							kind, xlen, decl, si, content, prefix := kind, xlen, decl, si, content, prefix
							yield(func() *Input {
								var extra []byte
								if kind != kindLegacy {
									extra = append(extra, si...)
									extra = append(extra, byte(decl), byte(decl>>8))
								}
								if content == "magic" {
									extra = append(extra, magic...)
								}
								n := xlen
								if n > 200 {
									n = 200 // the XLEN field lies; only so many bytes follow
								}
								for len(extra) < n {
									extra = append(extra, 0)
								}
								extra = extra[:n]
								f := []byte{0x1f, 0x8b, 8, 4, 0, 0, 0, 0, 0, 0xff, byte(xlen), byte(xlen >> 8)}
								f = append(f, extra...)
								f = append(f, 1, 0, 0, 0xff, 0xff, 0, 0, 0, 0, 0, 0, 0, 0)
								for len(f) < fs {
									f = append(f, 0)
								}
								f = f[:fs]
								b := append(bytes.Repeat([]byte{'x'}, prefix), f...)
								return blobInput(fmt.Sprintf("%s footer XLEN=%d subfieldLEN=%d SI=%s content=%s prefix=%d: %s", kind, xlen, decl, si, content, prefix, hexs(b)), b, []byte{}, -1, -1, true)
							})
						}
					}
				}
			}
		}
	}
}

// predictZstdFooter: the harness' reading of a 40-byte zstd:chunked footer (from the format description): a compressed
// TOC length between the 4 GiB address-space limit and Go's maximal allocation size can only end in an out-of-memory
// death if the reader allocates what the footer says. Only used to avoid re-running an already confirmed process death.
func predictZstdFooter(f40 []byte) map[string]string {
	if len(f40) != 40 || !bytes.Equal(f40[32:], []byte{0x47, 0x6e, 0x55, 0x6c, 0x49, 0x6e, 0x55, 0x78}) {
		return nil
	}
	off, clen := binary.LittleEndian.Uint64(f40[0:]), binary.LittleEndian.Uint64(f40[8:])
	if off < 1<<63 && clen >= 1<<32 && clen < 1<<47 {
		return map[string]string{"estargz.Open[daemon]": "toc-size-over-memory-limit", "db.NewReader": "toc-size-over-memory-limit"}
	}
	return nil
}

func enumFooterNum(tier string, yield func(func() *Input)) {
	for _, kind := range []string{kindGz, kindLegacy} {
		body, _, _, tocOff, tocEnd := validParts(kind)
		fs := int64(footerSizeOf(kind))
		size := int64(len(body)) + fs
		fields := []string{
			fmt.Sprintf("%016x", tocOff), "0000000000000000", "0000000000000001", fmt.Sprintf("%016x", size-fs), fmt.Sprintf("%016x", size-fs-1),
			fmt.Sprintf("%016x", size-fs+1), fmt.Sprintf("%016x", size), fmt.Sprintf("%016x", size+1), "7fffffffffffffff", "8000000000000000", "ffffffffffffffff",
			"-000000000000001", "+000000000000001", "-7fffffffffffffff", "0x00000000000001", " 000000000000001", "000000000000001 ", "zzzzzzzzzzzzzzzz",
		}
		for _, fld := range fields {
			for _, withBody := range []bool{true, false} {
				kind, fld, withBody := kind, fld, withBody
				yield(func() *Input {
					var b []byte
					to, te := -1, -1
					if withBody {
						b = append(b, body...)
						to, te = tocOff, tocEnd
					}
					b = append(b, gzFooterWithField(kind, fld)...)
					return blobInput(fmt.Sprintf("%s footer tocOffset field %q body=%v (blob %d bytes)", kind, fld, withBody, len(b)), b, nil, to, te, false)
				})
			}
		}
	}
	// zstd:chunked: offset x compressedLength (pairs), uncompressedLength and type alone
	body, footer, _, tocOff, tocEnd := validParts(kindZstd)
	size := uint64(len(body) + len(footer))
	vOff := binary.LittleEndian.Uint64(footer[8:])
	vCl := binary.LittleEndian.Uint64(footer[16:])
	vUl := binary.LittleEndian.Uint64(footer[24:])
	menu := func(valid uint64) []uint64 {
		return []uint64{valid, 0, 1, 7, 8, 9, valid - 1, valid + 1, size - 48, size - 40, size, size + 1, 1 << 20, 1 << 32, 1 << 40, 1 << 62, math.MaxInt64, 1 << 63, math.MaxUint64 - 7, math.MaxUint64}
	}
	emit := func(off, cl, ul, typ uint64, withBody bool) {
		yield(func() *Input {
			var b []byte
			to, te := -1, -1
			if withBody {
				b = append(b, body...)
				to, te = tocOff, tocEnd
			}
			b = append(b, skippable(zstdFooter40(off, cl, ul, typ))...)
			in := blobInput(fmt.Sprintf("zstd footer offset=%d compressedLength=%d uncompressedLength=%d type=%d body=%v (blob %d bytes)", off, cl, ul, typ, withBody, len(b)), b, nil, to, te, false)
			in.Pred = predictZstdFooter(b[len(b)-40:])
			return in
		})
	}
	for _, withBody := range []bool{true, false} {
		for _, off := range menu(vOff) {
			for _, cl := range menu(vCl) {
				emit(off, cl, vUl, 1, withBody)
			}
		}
		for _, ul := range menu(vUl) {
			emit(vOff, vCl, ul, 1, withBody)
		}
		for _, typ := range []uint64{0, 2, math.MaxUint64} {
			emit(vOff, vCl, vUl, typ, withBody)
		}
	}
}

func mutValues(orig byte, tier string, textual bool) []byte {
	var vals []byte
	if tier == "thorough" {
		for v := 0; v < 256; v++ {
			vals = append(vals, byte(v))
		}
	} else {
		vals = []byte{0x00, 0x01, 0x7f, 0x80, 0xff, orig ^ 0x01, orig ^ 0x80, orig + 1, orig - 1}
		if textual {
			vals = append(vals, '0', 'f', '-', '+', ' ', 'g')
		}
	}
	seen := map[byte]bool{orig: true}
	var out []byte
	for _, v := range vals {
		if !seen[v] {
			seen[v] = true
			out = append(out, v)
		}
	}
	return out
}

func enumFooterMut(tier string, yield func(func() *Input)) {
	for _, kind := range allKinds {
		body, footer, ext, tocOff, tocEnd := validParts(kind)
		for _, withBody := range []bool{true, false} {
			for pos := 0; pos < len(footer); pos++ {
				for _, v := range mutValues(footer[pos], tier, true) {
					kind, withBody, pos, v := kind, withBody, pos, v
					yield(func() *Input {
						var b []byte
						to, te := -1, -1
						if withBody {
							b = append(b, body...)
							to, te = tocOff, tocEnd
						}
						f := append([]byte{}, footer...)
						f[pos] = v
						b = append(b, f...)
						in := blobInput(fmt.Sprintf("%s footer byte %d: 0x%02x->0x%02x body=%v footer=%s", kind, pos, footer[pos], v, withBody, hexs(f)), b, ext, to, te, !withBody)
						if kind == kindZstd {
							in.Pred = predictZstdFooter(f[8:])
						}
						return in
					})
				}
			}
		}
	}
}

// ---- (ii) TOC JSON ----------------------------------------------------------------

var nameAlphabet = []string{"", ".", "a", "a/", "a/b", "../a", "/"}
var canonNames = []string{"", "a", "a/b"} // one representative per class under path cleaning
var typeAlphabet = []string{"dir", "reg", "chunk", "symlink", "hardlink", "char", "bogus"}

type sEnt struct{ name, typ, link string }

func structVariants(names []string) []sEnt {
	var out []sEnt
	for _, t := range typeAlphabet {
		switch t {
		case "chunk":
			out = append(out, sEnt{"", t, ""}) // a chunk's name is ignored (it continues the previous file)
		case "hardlink":
			for _, n := range names {
				for _, l := range names {
					out = append(out, sEnt{n, t, l})
				}
			}
		case "symlink":
			for _, n := range names {
				out = append(out, sEnt{n, t, "a"})
			}
		default:
			for _, n := range names {
				out = append(out, sEnt{n, t, ""})
			}
		}
	}
	return out
}

func (s sEnt) toc(p payload) tocEnt {
	e := tocEnt{Name: s.name, Type: s.typ, LinkName: s.link}
	switch s.typ {
	case "reg":
		e.Size, e.ChunkSize, e.Offset = 16, 8, p.O1
		e.Digest, e.ChunkDigest = sha(payloadData1), sha(payloadData1[:8])
	case "chunk":
		e.Offset, e.ChunkOffset, e.ChunkSize = p.O2, 8, 8
		e.ChunkDigest = sha(payloadData2)
	case "dir":
		e.Mode = 0755
	}
	return e
}

func tocInput(kind string, d tocDoc, note string) *Input {
	j := d.JSON()
	blob, ext, to, te := wrapTOC(kind, j)
	in := blobInput(fmt.Sprintf("%s container%s TOC=%s", kind, note, j), blob, ext, to, te, false)
	in.Pred = predictTOC(d.Entries)
	return in
}

// predictTOC is the harness' reference model of hardlink resolution by name (cleaned names, last entry of a
// name wins, implicit parent directories): it tells where a resolver without a visited set never terminates.
// It is only used to avoid re-running an already confirmed process death, and only while every prediction
// made so far came true.
func predictTOC(ents []tocEnt) map[string]string {
	clean := func(n string) string { return strings.TrimPrefix(path.Clean("/"+n), "/") }
	parent := func(p string) string { d, _ := path.Split(p); return strings.TrimSuffix(d, "/") }
	m := map[string]*tocEnt{}
	for i := range ents {
		if e := &ents[i]; e.Type != "chunk" {
			m[clean(e.Name)] = e
		}
	}
	implicit := map[string]bool{}
	lookup := func(n string) (*tocEnt, bool) {
		if e, ok := m[n]; ok {
			return e, true
		}
		if implicit[n] {
			return &tocEnt{Type: "dir"}, true
		}
		return nil, false
	}
	chain := func(e *tocEnt) (cycle, missing bool) {
		cur := e
		for steps := 0; steps <= len(ents)+1; steps++ {
			if cur.Type != "hardlink" {
				return false, false
			}
			t, ok := lookup(clean(cur.LinkName))
			if !ok {
				return false, true
			}
			cur = t
		}
		return true, false
	}
	for i := range ents {
		e := &ents[i]
		if e.Type == "chunk" {
			continue
		}
		name := clean(e.Name)
		if name == "" {
			continue // an entry named like the root is not linked into the tree
		}
		for d := parent(name); ; d = parent(d) {
			if _, ok := m[d]; !ok {
				implicit[d] = true
			}
			if d == "" {
				break
			}
		}
		if e.Type == "hardlink" {
			cyc, miss := chain(e)
			if miss {
				return nil // opening fails with an error before anything else
			}
			if cyc {
				return map[string]string{"estargz.Open[daemon]": "hardlink-cycle"}
			}
		}
	}
	if e, ok := m[""]; ok && e.Type == "hardlink" {
		if cyc, _ := chain(e); cyc {
			return map[string]string{"estargz.walk": "root-hardlink-cycle", "memory.NewReader": "root-hardlink-cycle"}
		}
	}
	return nil
}

func enumTOCStruct(tier string, yield func(func() *Input)) {
	emit := func(kind string, ents []sEnt) {
		ents = append([]sEnt{}, ents...)
		yield(func() *Input {
			d := tocDoc{Version: 1}
			for _, s := range ents {
				d.Entries = append(d.Entries, s.toc(payloadOf(kind)))
			}
			return tocInput(kind, d, "")
		})
	}
	full := structVariants(nameAlphabet)
	canon := structVariants(canonNames)
	// 0, 1, 2 entries: full name alphabet (quick: in the gzip container; the other two containers get the
	// canonical names — the 7 names fall into 3 classes under path.Clean, which both readers apply first)
	for _, kind := range tocKinds {
		vs := full
		if tier != "thorough" && kind != kindGz {
			vs = canon
		}
		emit(kind, nil)
		for _, a := range vs {
			emit(kind, []sEnt{a})
		}
		for _, a := range vs {
			for _, b := range vs {
				emit(kind, []sEnt{a, b})
			}
		}
	}
	// 3 entries over the canonical names (quick: gzip container only, and without the leaf types symlink/char/bogus,
	// which behave like an empty regular file for the tree and are covered at <= 2 entries)
	for _, kind := range tocKinds {
		if tier != "thorough" && kind != kindGz {
			continue
		}
		canon := canon
		if tier != "thorough" {
			var pr []sEnt
			for _, s := range canon {
				if s.typ != "bogus" && s.typ != "char" && s.typ != "symlink" {
					pr = append(pr, s)
				}
			}
			canon = pr
		}
		for _, a := range canon {
			for _, b := range canon {
				for _, c := range canon {
					emit(kind, []sEnt{a, b, c})
				}
			}
		}
	}
	if tier == "thorough" {
		for _, a := range full {
			for _, b := range full {
				for _, c := range full {
					emit(kindGz, []sEnt{a, b, c})
				}
			}
		}
		// 4 entries over canonical names, pruned: no "bogus"/"char" (they behave like any non-dir leaf, covered at <=3)
		var pr []sEnt
		for _, s := range canon {
			if s.typ != "bogus" && s.typ != "char" {
				pr = append(pr, s)
			}
		}
		for _, a := range pr {
			for _, b := range pr {
				for _, c := range pr {
					for _, d := range pr {
						emit(kindGz, []sEnt{a, b, c, d})
					}
				}
			}
		}
	}
}

var numAlphabet = []int64{-1, 0, 1, 1 << 62, math.MaxInt64}

func numField(e *tocEnt, i int) *int64 {
	switch i {
	case 0:
		return &e.Size
	case 1:
		return &e.Offset
	case 2:
		return &e.ChunkOffset
	case 3:
		return &e.ChunkSize
	}
	return &e.InnerOffset
}

var numFieldNames = []string{"size", "offset", "chunkOffset", "chunkSize", "innerOffset"}

func numStructures(kind, tier string) [][]tocEnt {
	p := payloadOf(kind)
	d1, d2 := sha(payloadData1), sha(payloadData2)
	s := [][]tocEnt{
		{{Name: "a", Type: "reg", Size: 16, Offset: p.O1, Digest: d1, ChunkDigest: d1}},
		{{Name: "a", Type: "reg", Size: 16, Offset: p.O1, ChunkSize: 8, Digest: d1, ChunkDigest: sha(payloadData1[:8])},
			{Name: "a", Type: "chunk", Offset: p.O2, ChunkOffset: 8, ChunkSize: 8, ChunkDigest: d2}},
		{{Name: "a", Type: "reg", Size: 8, Offset: p.O1, Digest: sha(payloadData1[:8]), ChunkDigest: sha(payloadData1[:8])},
			{Name: "a/b", Type: "reg", Size: 8, Offset: p.O1, InnerOffset: 8, Digest: sha(payloadData1[8:]), ChunkDigest: sha(payloadData1[8:])}},
	}
	if tier == "thorough" {
		s = append(s, []tocEnt{
			{Name: "a", Type: "reg", Size: 24, Offset: p.O1, ChunkSize: 8, Digest: d1, ChunkDigest: sha(payloadData1[:8])},
			{Name: "a", Type: "chunk", Offset: p.O2, ChunkOffset: 8, ChunkSize: 8, ChunkDigest: d2},
			{Name: "a", Type: "chunk", Offset: p.O2, ChunkOffset: 16, ChunkSize: 8, ChunkDigest: d2}})
	}
	return s
}

func enumTOCNum(tier string, yield func(func() *Input)) {
	alpha := numAlphabet
	if tier == "thorough" {
		alpha = append(append([]int64{}, alpha...), 2, 8, 1<<20, 1<<32, math.MinInt64)
	}
	for _, kind := range tocKinds {
		for si := range numStructures(kind, tier) {
			n := len(numStructures(kind, tier)[si]) * 5
			emit := func(slots []int, vals []int64) {
				slots, vals = append([]int{}, slots...), append([]int64{}, vals...)
				kind, si := kind, si
				yield(func() *Input {
					ents := numStructures(kind, tier)[si]
					var note []string
					for k, sl := range slots {
						*numField(&ents[sl/5], sl%5) = vals[k]
						note = append(note, fmt.Sprintf("entries[%d].%s=%d", sl/5, numFieldNames[sl%5], vals[k]))
					}
					return tocInput(kind, tocDoc{Version: 1, Entries: ents}, " ["+strings.Join(note, ",")+"]")
				})
			}
			emit(nil, nil)
			for a := 0; a < n; a++ {
				for _, va := range alpha {
					emit([]int{a}, []int64{va})
				}
			}
			for a := 0; a < n; a++ {
				if tier != "thorough" && kind != kindGz {
					break // quick: two fields at a time in the gzip container only (the other containers differ in the payload codec only)
				}
				for b := a + 1; b < n; b++ {
					for _, va := range alpha {
						for _, vb := range alpha {
							emit([]int{a, b}, []int64{va, vb})
						}
					}
				}
			}
			// digests: every combination of {ok,"",bad} on digest/chunkDigest of every entry, with baseline numbers
			dv := []string{"ok", "", "sha256:zz"}
			ne := len(numStructures(kind, tier)[si])
			total := 1
			for i := 0; i < 2*ne; i++ {
				total *= 3
			}
			for c := 0; c < total; c++ {
				c, kind, si := c, kind, si
				yield(func() *Input {
					ents := numStructures(kind, tier)[si]
					x := c
					var note []string
					for i := range ents {
						a, b := dv[x%3], dv[(x/3)%3]
						x /= 9
						if a != "ok" {
							ents[i].Digest = a
						}
						if b != "ok" {
							ents[i].ChunkDigest = b
						}
						note = append(note, fmt.Sprintf("entries[%d].digest=%q,chunkDigest=%q", i, a, b))
					}
					return tocInput(kind, tocDoc{Version: 1, Entries: ents}, " ["+strings.Join(note, ",")+"]")
				})
			}
		}
	}
}

func miscTOCs() [][2]string {
	deepName := strings.Repeat("a/", 300) + "f"
	deeperName := strings.Repeat("d/", 12000) + "f"
	nest := strings.Repeat("[", 20000) + strings.Repeat("]", 20000)
	docs := [][2]string{
		{"empty", ``}, {"null", `null`}, {"array", `[]`}, {"number", `1`}, {"string", `"x"`}, {"empty-object", `{}`},
		{"no-entries", `{"version":1}`}, {"entries-null", `{"version":1,"entries":null}`}, {"entries-empty", `{"version":1,"entries":[]}`},
		{"null-entry", `{"version":1,"entries":[null]}`}, {"two-null-entries", `{"version":1,"entries":[null,null]}`},
		{"null-entry-after-dir", `{"version":1,"entries":[{"name":"a","type":"dir"},null]}`},
		{"empty-entry", `{"version":1,"entries":[{}]}`}, {"entries-object", `{"version":1,"entries":{}}`}, {"entry-array", `{"version":1,"entries":[[]]}`},
		{"entry-number", `{"version":1,"entries":[1]}`}, {"entry-string", `{"version":1,"entries":["a"]}`}, {"version-string", `{"version":"1","entries":[]}`},
		{"version-huge", `{"version":99999999999999999999,"entries":[]}`}, {"name-number", `{"version":1,"entries":[{"name":1,"type":"reg"}]}`},
		{"size-1e400", `{"version":1,"entries":[{"name":"a","type":"reg","size":1e400}]}`},
		{"size-2^63", `{"version":1,"entries":[{"name":"a","type":"reg","size":9223372036854775808}]}`},
		{"size-min", `{"version":1,"entries":[{"name":"a","type":"reg","size":-9223372036854775808}]}`},
		{"size-string", `{"version":1,"entries":[{"name":"a","type":"reg","size":"1"}]}`}, {"size-float", `{"version":1,"entries":[{"name":"a","type":"reg","size":1.5}]}`},
		{"mode-huge", `{"version":1,"entries":[{"name":"a","type":"reg","mode":9223372036854775807}]}`}, {"mode-neg", `{"version":1,"entries":[{"name":"a","type":"dir","mode":-1}]}`},
		{"uid-huge", `{"version":1,"entries":[{"name":"a","type":"reg","uid":9223372036854775807,"gid":-9223372036854775808}]}`},
		{"dev-huge", `{"version":1,"entries":[{"name":"a","type":"char","devMajor":9223372036854775807,"devMinor":-1}]}`},
		{"xattr-badb64", `{"version":1,"entries":[{"name":"a","type":"reg","xattrs":{"k":"!!"}}]}`}, {"xattr-emptykey", `{"version":1,"entries":[{"name":"a","type":"reg","xattrs":{"":""}}]}`},
		{"xattr-two-emptykey", `{"version":1,"entries":[{"name":"a","type":"reg","xattrs":{"k":"YQ==","":"YQ=="}}]}`},
		{"xattr-null", `{"version":1,"entries":[{"name":"a","type":"reg","xattrs":{"k":null}}]}`}, {"xattrs-null", `{"version":1,"entries":[{"name":"a","type":"reg","xattrs":null}]}`},
		{"xattrs-array", `{"version":1,"entries":[{"name":"a","type":"reg","xattrs":[]}]}`}, {"xattr-emptyval-twice", `{"version":1,"entries":[{"name":"a","type":"dir","xattrs":{"a":"","b":""}},{"name":"a","type":"dir","xattrs":{"a":"YQ==","b":"Yg=="}}]}`},
		{"modtime-garbage", `{"version":1,"entries":[{"name":"a","type":"reg","modtime":"garbage"}]}`}, {"modtime-zero", `{"version":1,"entries":[{"name":"a","type":"reg","modtime":"0000-00-00T00:00:00Z"}]}`},
		{"modtime-year9999", `{"version":1,"entries":[{"name":"a","type":"reg","modtime":"9999-12-31T23:59:59Z"}]}`}, {"modtime-year0", `{"version":1,"entries":[{"name":"a","type":"reg","modtime":"0000-01-01T00:00:00Z"}]}`},
		{"dup-keys", `{"version":1,"entries":[{"name":"a","name":"b","type":"reg","type":"dir"}]}`}, {"dup-entries-key", `{"version":1,"entries":[{"name":"a","type":"dir"}],"entries":[null]}`},
		{"name-nul", `{"version":1,"entries":[{"name":"a\u0000b","type":"reg"}]}`}, {"name-badutf8", "{\"version\":1,\"entries\":[{\"name\":\"a\xff\xfeb\",\"type\":\"reg\"}]}"},
		{"name-long", `{"version":1,"entries":[{"name":"` + strings.Repeat("a", 5000) + `","type":"reg"}]}`},
		{"name-deep300", `{"version":1,"entries":[{"name":"` + deepName + `","type":"reg"}]}`}, {"name-deep12000", `{"version":1,"entries":[{"name":"` + deeperName + `","type":"reg"}]}`},
		{"name-dots", `{"version":1,"entries":[{"name":"a/../../b/./c//d","type":"reg"},{"name":"..","type":"dir"},{"name":"...","type":"dir"}]}`},
		{"trailing-garbage", `{"version":1,"entries":[]}garbage`}, {"bom", "\xef\xbb\xbf" + `{"version":1,"entries":[]}`}, {"truncated", `{"version":1,"entries":[{"name":"a"`},
		{"nest-20000-in-xattrs", `{"version":1,"entries":[{"name":"a","type":"reg","xattrs":` + nest + `}]}`}, {"nest-20000-top", nest},
		{"nest-20000-unknown-key", `{"version":1,"zzz":` + nest + `,"entries":[]}`},
		{"type-number", `{"version":1,"entries":[{"name":"a","type":1}]}`}, {"type-empty", `{"version":1,"entries":[{"name":"a","type":""}]}`},
		{"chunk-first", `{"version":1,"entries":[{"name":"a","type":"chunk","offset":1}]}`}, {"chunk-after-dir", `{"version":1,"entries":[{"name":"a","type":"dir"},{"type":"chunk","offset":1,"chunkSize":1}]}`},
		{"toc-entry-name", `{"version":1,"entries":[{"name":"stargz.index.json","type":"reg","size":1},{"name":".prefetch.landmark","type":"reg","size":1},{"name":".no.prefetch.landmark","type":"reg","size":1}]}`},
		{"landmark-dir", `{"version":1,"entries":[{"name":".prefetch.landmark","type":"dir"},{"name":".no.prefetch.landmark","type":"hardlink","linkName":".prefetch.landmark"}]}`},
		{"whiteouts", `{"version":1,"entries":[{"name":".wh..wh..opq","type":"reg"},{"name":"a/.wh..wh..opq","type":"dir"},{"name":".wh.","type":"reg"},{"name":".wh.a","type":"hardlink","linkName":"a"}]}`},
		{"hardlink-chain-200", hardlinkChain(200)},
		{"hardlink-tail-into-cycle", `{"version":1,"entries":[{"name":"t","type":"hardlink","linkName":"x"},{"name":"x","type":"hardlink","linkName":"y"},{"name":"y","type":"hardlink","linkName":"x"}]}`},
		{"hardlink-tail-into-self-link", `{"version":1,"entries":[{"name":"t","type":"hardlink","linkName":"x"},{"name":"x","type":"hardlink","linkName":"x"}]}`},
		{"root-hardlink-tail-into-cycle", `{"version":1,"entries":[{"name":"x","type":"reg"},{"name":"","type":"hardlink","linkName":"y"},{"name":"y","type":"hardlink","linkName":"z"},{"name":"z","type":"hardlink","linkName":"y"}]}`}, {"hardlink-to-missing-dir-child", `{"version":1,"entries":[{"name":"a","type":"hardlink","linkName":"x/y/z"}]}`},
		{"file-then-child", `{"version":1,"entries":[{"name":"a","type":"reg"},{"name":"a/b","type":"reg"},{"name":"a/b/c","type":"dir"}]}`},
		{"dir-redefined-as-file", `{"version":1,"entries":[{"name":"a/b","type":"reg"},{"name":"a","type":"reg"},{"name":"a","type":"dir"},{"name":"a","type":"symlink","linkName":"a"}]}`},
	}
	return docs
}

func hardlinkChain(n int) string {
	var sb strings.Builder
	sb.WriteString(`{"version":1,"entries":[{"name":"l0","type":"reg"}`)
	for i := 1; i <= n; i++ {
		fmt.Fprintf(&sb, `,{"name":"l%d","type":"hardlink","linkName":"l%d"}`, i, i-1)
	}
	sb.WriteString("]}")
	return sb.String()
}

func enumTOCMisc(tier string, yield func(func() *Input)) {
	for _, kind := range tocKinds {
		for _, d := range miscTOCs() {
			kind, d := kind, d
			yield(func() *Input {
				blob, ext, to, te := wrapTOC(kind, []byte(d[1]))
				show := d[1]
				if len(show) > 300 {
					show = show[:150] + "...(" + fmt.Sprint(len(d[1])) + " bytes)..." + show[len(show)-100:]
				}
				return blobInput(fmt.Sprintf("%s container TOC[%s]=%s", kind, d[0], show), blob, ext, to, te, false)
			})
		}
	}
}

// ---- (iii) valid small blob (written by the repository's own Writer) + mutations -----

type baseBlob struct {
	blob, ext      []byte
	tocOff, tocEnd int
}

var baseBlobs = map[string]*baseBlob{}

func sampleTar() []byte {
	var b bytes.Buffer
	tw := tar.NewWriter(&b)
	tw.WriteHeader(&tar.Header{Typeflag: tar.TypeDir, Name: "d/", Mode: 0755})
	data := []byte("0123456789abcdefghij")
	tw.WriteHeader(&tar.Header{Typeflag: tar.TypeReg, Name: "d/f", Mode: 0644, Size: int64(len(data))})
	tw.Write(data)
	tw.WriteHeader(&tar.Header{Typeflag: tar.TypeReg, Name: "g", Mode: 0644, Size: 3})
	tw.Write([]byte("xyz"))
	tw.WriteHeader(&tar.Header{Typeflag: tar.TypeSymlink, Name: "s", Linkname: "g"})
	tw.WriteHeader(&tar.Header{Typeflag: tar.TypeLink, Name: "h", Linkname: "g"})
	tw.Close()
	return b.Bytes()
}

func getBaseBlob(kind string) *baseBlob {
	if bb, ok := baseBlobs[kind]; ok {
		return bb
	}
	var buf bytes.Buffer
	var comp estargz.Compressor
	var extc *externaltoc.GzipCompressor
	switch kind {
	case kindGz:
		comp = estargz.NewGzipCompressorWithLevel(gzip.BestSpeed)
	case kindZstd:
		comp = &zstdchunked.Compressor{CompressionLevel: zstd.SpeedDefault}
	case kindExt:
		extc = externaltoc.NewGzipCompressorWithLevel(gzip.BestSpeed)
		comp = extc
	}
	w := estargz.NewWriterWithCompressor(&buf, comp)
	w.ChunkSize = 8
	if err := w.AppendTar(bytes.NewReader(sampleTar())); err != nil {
		panic(err)
	}
	if _, err := w.Close(); err != nil {
		panic(err)
	}
	bb := &baseBlob{blob: buf.Bytes(), tocOff: -1, tocEnd: -1}
	n := len(bb.blob)
	switch kind {
	case kindGz:
		var off int
		fmt.Sscanf(string(bb.blob[n-51+16:n-51+32]), "%x", &off)
		bb.tocOff, bb.tocEnd = off, n-51
	case kindZstd:
		bb.tocOff = int(binary.LittleEndian.Uint64(bb.blob[n-40:]))
		bb.tocEnd = bb.tocOff + int(binary.LittleEndian.Uint64(bb.blob[n-32:]))
	case kindExt:
		var tb bytes.Buffer
		if _, err := extc.WriteTOCTo(&tb); err != nil {
			panic(err)
		}
		bb.ext = tb.Bytes()
	}
	// sanity: the base blob must open with the repository's reader
	sr := io.NewSectionReader(bytes.NewReader(bb.blob), 0, int64(n))
	if _, err := estargz.Open(sr, estargz.WithDecompressors(new(zstdchunked.Decompressor), externaltoc.NewGzipDecompressor(func() ([]byte, error) { return bb.ext, nil }))); err != nil {
		panic(fmt.Sprintf("base blob %s does not open: %v", kind, err))
	}
	baseBlobs[kind] = bb
	return bb
}

func enumMut(kind, tier string, yield func(func() *Input)) {
	bb := getBaseBlob(kind)
	mut := func(which string, src []byte) {
		for pos := 0; pos < len(src); pos++ {
			vals := []byte{src[pos] ^ 0x01, src[pos] ^ 0x80}
			if kind == kindZstd {
				vals = vals[:1] // every read of a zstd:chunked blob sets up a new decoder: ~10x the cost per input
			}
			if tier == "thorough" {
				vals = []byte{src[pos] ^ 1, src[pos] ^ 2, src[pos] ^ 4, src[pos] ^ 8, src[pos] ^ 16, src[pos] ^ 32, src[pos] ^ 64, src[pos] ^ 128, 0, 0xff, src[pos] + 1, src[pos] - 1}
			}
			seen := map[byte]bool{src[pos]: true}
			for _, v := range vals {
				if seen[v] {
					continue
				}
				seen[v] = true
				pos, v := pos, v
				yield(func() *Input {
					m := append([]byte{}, src...)
					m[pos] = v
					desc := fmt.Sprintf("valid %s blob (%d bytes, written by estargz.Writer), %s byte %d: 0x%02x->0x%02x", kind, len(bb.blob), which, pos, src[pos], v)
					if which == "blob" {
						return blobInput(desc, m, bb.ext, bb.tocOff, bb.tocEnd, false)
					}
					return blobInput(desc, bb.blob, m, -1, -1, false)
				})
			}
		}
		for cut := 0; cut < len(src); cut++ {
			cut := cut
			yield(func() *Input {
				m := append([]byte{}, src[:cut]...)
				desc := fmt.Sprintf("valid %s blob (%d bytes), %s truncated to %d bytes", kind, len(bb.blob), which, cut)
				if which == "blob" {
					to, te := bb.tocOff, bb.tocEnd
					if te > cut {
						to, te = -1, -1
					}
					return blobInput(desc, m, bb.ext, to, te, false)
				}
				return blobInput(desc, bb.blob, m, -1, -1, false)
			})
		}
	}
	mut("blob", bb.blob)
	if kind == kindExt {
		mut("external-TOC", bb.ext)
	}
}
