// C04: untrusted layer bytes and registry replies cause errors, never a crash or a hang.
//
// Bounded-exhaustive hostile inputs (footers, TOC JSON, single-byte mutations,
// registry replies, builder inputs) are pushed through every public pipeline of
// the repository. Inputs run in batches inside a child process (64 MiB max
// stack, 4 GiB address-space limit); the child reports (input, stage) progress
// so that a process death or a CPU-budget overrun is attributed to one input
// and one stage. Verdict per (input, stage) in {ok, error, PANIC, FATAL, HANG}.
package main

import (
	"bufio"
	"bytes"
	"encoding/json"
	"fmt"
	"os"
	"os/exec"
	"path/filepath"
	"sort"
	"strconv"
	"strings"
	"syscall"
	"time"

	"verif/lib/runner"
)

const memLimit = 4 << 30

func envSeconds(name string, def float64) float64 {
	if v, err := strconv.ParseFloat(os.Getenv(name), 64); err == nil && v > 0 {
		return v
	}
	return def
}

var (
	hangScreenCPU  = envSeconds("C04_HANG_SCREEN_S", 30)  // in-batch screening only; never a verdict
	hangConfirmCPU = envSeconds("C04_HANG_CPU_S", 30)     // verdict budget: alone, 3 times
	blockedWall    = envSeconds("C04_BLOCKED_WALL_S", 90) // no CPU use and no progress for this long, alone, 3 times
)

// ---- child process handling ---------------------------------------------------------------

type exitInfo struct {
	clean    bool   // "E" received
	capMsg   string // child stopped at the deadline
	idx      int    // input in flight when the process died (-1: none)
	stage    string // stage in flight
	tag      string // reference-model tag of the stage in flight
	kind     string // "crash" | "cpu" | "blocked" | "broken"
	stderr   string
	exitDesc string
}

type inputResult struct {
	idx  int
	res  []stageRes
	desc string
	deep bool
	ops  int
	hash string
	leak int
}

func procCPU(pid int) float64 {
	b, err := os.ReadFile(fmt.Sprintf("/proc/%d/stat", pid))
	if err != nil {
		return 0
	}
	s := string(b)
	i := strings.LastIndexByte(s, ')')
	if i < 0 {
		return 0
	}
	f := strings.Fields(s[i+1:])
	if len(f) < 13 {
		return 0
	}
	ut, _ := strconv.ParseFloat(f[11], 64)
	st, _ := strconv.ParseFloat(f[12], 64)
	return (ut + st) / 100 // USER_HZ
}

type limitedBuf struct {
	head, tail []byte
	total      int
}

func (l *limitedBuf) Write(p []byte) (int, error) {
	l.total += len(p)
	if room := 96<<10 - len(l.head); room > 0 {
		n := len(p)
		if n > room {
			n = room
		}
		l.head = append(l.head, p[:n]...)
		p2 := p[n:]
		l.tail = append(l.tail, p2...)
	} else {
		l.tail = append(l.tail, p...)
	}
	if len(l.tail) > 64<<10 {
		l.tail = l.tail[len(l.tail)-(64<<10):]
	}
	return len(p), nil
}

func (l *limitedBuf) String() string {
	if len(l.tail) == 0 {
		return string(l.head)
	}
	return string(l.head) + "\n...[stderr elided]...\n" + string(l.tail)
}

// runChild runs one child until it exits. cpuBudget applies per input.
func runChild(spec childSpec, cpuBudget float64, onSlow func(idx int, stage string) bool, onResult func(inputResult)) exitInfo {
	self, _ := os.Executable()
	js, _ := json.Marshal(spec)
	cmd := exec.Command(self)
	cmd.Env = append(os.Environ(), "C04_CHILD="+string(js), "GOMAXPROCS=1", "GOTRACEBACK=all", "C04_CLAIMS="+spec.ClaimsDir)
	pr, pw, err := os.Pipe()
	if err != nil {
		return exitInfo{kind: "broken", exitDesc: err.Error(), idx: -1}
	}
	cmd.ExtraFiles = []*os.File{pw}
	cmd.SysProcAttr = &syscall.SysProcAttr{Pdeathsig: syscall.SIGKILL}
	errBuf := &limitedBuf{}
	cmd.Stderr = errBuf
	cmd.Stdout = errBuf
	os.MkdirAll(spec.Scratch, 0o755)
	if err := cmd.Start(); err != nil {
		pr.Close()
		pw.Close()
		return exitInfo{kind: "broken", exitDesc: err.Error(), idx: -1}
	}
	pw.Close()
	msgs := make(chan childMsg, 4096)
	go func() {
		sc := bufio.NewScanner(pr)
		sc.Buffer(make([]byte, 1<<20), 64<<20)
		for sc.Scan() {
			var m childMsg
			if json.Unmarshal(sc.Bytes(), &m) == nil {
				msgs <- m
			}
		}
		close(msgs)
	}()
	exited := make(chan error, 1)
	go func() { exited <- cmd.Wait() }()

	info := exitInfo{idx: -1}
	curIdx, curStage, curTag := -1, "", ""
	var cpuAtStart float64
	var wallAtStart time.Time
	tick := time.NewTicker(200 * time.Millisecond)
	defer tick.Stop()
	killedFor := ""
	waiting := false
	slowAsked := -1
	guardStage := ""
	open := true
	for open {
		select {
		case m, ok := <-msgs:
			if !ok {
				open = false
				break
			}
			switch m.T {
			case "S":
				curIdx, curStage, curTag = m.I, "", ""
				cpuAtStart, wallAtStart = procCPU(cmd.Process.Pid), time.Now()
			case "W": // waiting for its turn on a stage that is predicted to kill the process
				waiting = true
			case "T":
				curStage, curTag = m.St, m.Tag
				if waiting {
					waiting = false
					wallAtStart = time.Now()
				}
			case "R":
				onResult(inputResult{idx: m.I, res: m.Res, desc: m.Desc, deep: m.Deep, ops: m.Ops, hash: m.Hash, leak: m.Leak})
				curIdx, curStage, curTag = -1, "", ""
			case "G":
				guardStage = m.St
			case "E":
				info.clean, info.capMsg = true, m.Cap
			}
		case <-tick.C:
			if curIdx >= 0 && killedFor == "" && !waiting {
				cpu := procCPU(cmd.Process.Pid) - cpuAtStart
				wall := time.Since(wallAtStart).Seconds()
				if cpu > 12 && onSlow != nil && slowAsked != curIdx {
					slowAsked = curIdx
					if !onSlow(curIdx, curStage) {
						killedFor = "yield"
						info.idx, info.stage, info.tag = curIdx, curStage, curTag
						cmd.Process.Kill()
						continue
					}
				}
				if cpu > cpuBudget {
					killedFor = "cpu"
				} else if wall > blockedWall && cpu < 0.05*wall {
					killedFor = "blocked"
				}
				if killedFor != "" && killedFor != "yield" {
					info.idx, info.stage, info.tag = curIdx, curStage, curTag
					cmd.Process.Signal(syscall.SIGQUIT) // goroutine dump, then exit
					go func() { time.Sleep(5 * time.Second); cmd.Process.Kill() }()
				}
			}
		}
	}
	werr := <-exited
	pr.Close()
	info.stderr = errBuf.String()
	if killedFor != "" {
		info.kind = killedFor
		return info
	}
	if info.clean {
		return info
	}
	info.idx, info.stage, info.tag = curIdx, curStage, curTag
	info.kind = "crash"
	if guardStage != "" {
		info.kind, info.stage = "guard", guardStage
	}
	info.exitDesc = fmt.Sprint(werr)
	return info
}

// crashFromStderr classifies a process death.
func crashFromStderr(stderr string) (verdict, msg, trace string, ok bool) {
	lines := strings.Split(stderr, "\n")
	for i, l := range lines {
		if strings.HasPrefix(l, "fatal error: ") {
			msg = strings.TrimPrefix(l, "fatal error: ")
			if i > 0 && strings.HasPrefix(lines[i-1], "runtime: ") {
				msg = lines[i-1] + "; " + msg
			}
			if i > 1 && strings.HasPrefix(lines[i-2], "runtime: goroutine stack exceeds") {
				msg = lines[i-2] + "; " + msg
			}
			return vFatal, trunc(msg, 300), strings.Join(lines[i:], "\n"), true
		}
		if strings.HasPrefix(l, "panic: ") {
			return vPanic, trunc(strings.TrimPrefix(l, "panic: "), 300), strings.Join(lines[i:], "\n"), true
		}
	}
	return "", "", "", false
}

// ---- cross-job hang claims ------------------------------------------------------------------

func claimsDir() string {
	return fmt.Sprintf("/dev/shm/verif-c04-claims-%d", os.Getppid())
}

type hangClaim struct {
	Stage string `json:"stage"`
	Key   string `json:"key"`
	Part  string `json:"part"`
	Idx   int    `json:"idx"`
}

func cleanStaleClaims() {
	m, _ := filepath.Glob("/dev/shm/verif-c04-claims-*")
	for _, d := range m {
		pid, err := strconv.Atoi(strings.TrimPrefix(filepath.Base(d), "verif-c04-claims-"))
		if err != nil || pid == os.Getppid() {
			continue
		}
		if syscall.Kill(pid, 0) != nil {
			os.RemoveAll(d)
		}
	}
}

func claimFile(stage string) string {
	r := strings.NewReplacer("/", "_", "[", "_", "]", "_", "(", "_", ")", "_", ",", "_", "=", "_")
	return filepath.Join(claimsDir(), r.Replace(stage)+".json")
}

func readClaims() []hangClaim {
	var out []hangClaim
	m, _ := filepath.Glob(filepath.Join(claimsDir(), "hang-*.json"))
	sort.Strings(m)
	for _, f := range m {
		var c hangClaim
		if b, err := os.ReadFile(f); err == nil && json.Unmarshal(b, &c) == nil {
			out = append(out, c)
		}
	}
	return out
}

func writeClaim(c hangClaim) {
	os.MkdirAll(claimsDir(), 0o755)
	f, err := os.OpenFile(claimFile("hang-"+c.Stage), os.O_CREATE|os.O_EXCL|os.O_WRONLY, 0o644)
	if err != nil {
		return
	}
	b, _ := json.Marshal(c)
	f.Write(b)
	f.Close()
}

// ---- cross-job learning of predicted process deaths ------------------------------------------------
// A "stage|tag" is pruned once two tagged inputs died there with the same key, and no tagged input ever survived it.

type deathRec struct {
	StageTag string `json:"stage_tag"`
	Key      string `json:"key"`
	Part     string `json:"part"`
	Idx      int    `json:"idx"`
}

func sanitize(s string) string {
	r := strings.NewReplacer("/", "_", "[", "_", "]", "_", "(", "_", ")", "_", ",", "_", "=", "_", "|", "_", "*", "_", ":", "_", " ", "_")
	return r.Replace(s)
}

func prunedIn(dir string) map[string]string {
	out := map[string]string{}
	count := map[string]int{}
	keys := map[string]string{}
	mixed := map[string]bool{}
	m, _ := filepath.Glob(filepath.Join(dir, "death-*.json"))
	for _, f := range m {
		var c deathRec
		if b, err := os.ReadFile(f); err == nil && json.Unmarshal(b, &c) == nil {
			count[c.StageTag]++
			if k, ok := keys[c.StageTag]; ok && k != c.Key {
				mixed[c.StageTag] = true
			}
			keys[c.StageTag] = c.Key
		}
	}
	for st, n := range count {
		if n >= 2 && !mixed[st] {
			if _, err := os.Stat(filepath.Join(dir, "veto-"+sanitize(st))); err != nil {
				out[st] = keys[st]
			}
		}
	}
	return out
}

func deathsOf(dir, stageTag string) int {
	m, _ := filepath.Glob(filepath.Join(dir, "death-"+sanitize(stageTag)+".*.json"))
	return len(m)
}

var deathSeq int

func writeDeath(c deathRec) {
	os.MkdirAll(claimsDir(), 0o755)
	deathSeq++
	b, _ := json.Marshal(c)
	tmp := filepath.Join(claimsDir(), fmt.Sprintf(".tmp-%d-%d", os.Getpid(), deathSeq))
	os.WriteFile(tmp, b, 0o644)
	os.Rename(tmp, filepath.Join(claimsDir(), fmt.Sprintf("death-%s.%d.%d.json", sanitize(c.StageTag), os.Getpid(), deathSeq)))
}

func vetoPrune(stageTag string) {
	os.MkdirAll(claimsDir(), 0o755)
	os.WriteFile(filepath.Join(claimsDir(), "veto-"+sanitize(stageTag)), []byte("mispredicted"), 0o644)
}

// lockLearning serialises, across all jobs of a run, the execution of a stage that is predicted to kill the process.
func lockLearning(stageTag string, wait bool) (func(), bool) {
	dir := os.Getenv("C04_CLAIMS")
	if dir == "" {
		return func() {}, true
	}
	os.MkdirAll(dir, 0o755)
	f, err := os.OpenFile(filepath.Join(dir, "learn-"+sanitize(stageTag)+".lock"), os.O_CREATE|os.O_RDWR, 0o644)
	if err != nil {
		return func() {}, true
	}
	how := syscall.LOCK_EX
	if !wait {
		how |= syscall.LOCK_NB
	}
	if err := syscall.Flock(int(f.Fd()), how); err != nil {
		f.Close()
		return nil, false
	}
	return func() { syscall.Flock(int(f.Fd()), syscall.LOCK_UN); f.Close() }, true
}

// confirmedOnce: true for exactly one job per key and run (that job reproduces the death alone).
func confirmOwner(key string) bool {
	os.MkdirAll(claimsDir(), 0o755)
	f, err := os.OpenFile(filepath.Join(claimsDir(), "confirm-"+sanitize(key)), os.O_CREATE|os.O_EXCL|os.O_WRONLY, 0o644)
	if err != nil {
		return false
	}
	f.Close()
	return true
}

type tagStat struct {
	deaths   map[string]int
	survived int
}

// disableName maps a stage to the group that shares hang handling: all remote operations; and for fs/reader the
// memory/db variants (and read/verified-read) of one operation, which run the same loop.
// siteOfKey: "C04/hang/<site>" or "C04/fatal/<site>:<kind>" -> "<site>".
func siteOfKey(key string) string {
	s := strings.TrimPrefix(strings.TrimPrefix(strings.TrimPrefix(key, "C04/hang-blocked/"), "C04/hang/"), "C04/fatal/")
	s = strings.TrimPrefix(s, "C04/panic/")
	if i := strings.LastIndex(s, ":"); i >= 0 && !strings.Contains(s[i:], "/") {
		s = s[:i]
	}
	return s
}

func disableName(stage string) string {
	if strings.HasPrefix(stage, "remote.op") {
		return "remote.op"
	}
	c := stageClass(stage)
	if c == "fsreader.verified-read" {
		c = "fsreader.read"
	}
	if strings.HasPrefix(c, "fsreader.") {
		return c
	}
	return stage
}

// ---- the part driver ----------------------------------------------------------------------------

type driver struct {
	fam         family
	ctx         *runner.Ctx
	res         *runner.Result
	hashes      map[string]struct{}
	seenKeys    map[string]bool
	keyVia      map[string]map[string]bool
	disabled    []string
	guarded     map[string][]string // stage group -> sites
	guardHits   int
	skip        map[int][]string
	tags        map[string]*tagStat
	pruned      int
	prunedBy    map[string]int
	bigStack    bool
	deathsAt    map[string]int
	cacheDeaths int
	stageUs     map[string]int64
	deferred    map[int]map[string]bool // input -> stages executed in the first pass (inputs with a deferred stage only)
	pass2       bool
}

func (d *driver) tagStat(stageTag string) *tagStat {
	t := d.tags[stageTag]
	if t == nil {
		t = &tagStat{deaths: map[string]int{}}
		d.tags[stageTag] = t
	}
	return t
}

func (d *driver) spec(from int, only []int) childSpec {
	maxIdx, _ := strconv.Atoi(os.Getenv("C04_MAXIDX"))
	if v := os.Getenv("C04_ONLY"); v != "" && only == nil { // debugging aid: run only these input indices
		for _, f := range strings.Split(v, ",") {
			if n, err := strconv.Atoi(f); err == nil {
				only = append(only, n)
			}
		}
	}
	stackMB := 16
	if d.bigStack {
		stackMB = 64
	}
	return childSpec{MaxStackMB: stackMB, DeepSeen: 5 * d.cacheDeaths, Part: d.fam.name, Tier: d.ctx.Tier, Shard: d.ctx.Shard, Of: d.ctx.Of, From: from, Only: only, MaxIdx: maxIdx, Pruned: prunedIn(claimsDir()), ClaimsDir: claimsDir(),
		Skip: d.skip, Disabled: d.disabled, Guarded: d.guarded, Scratch: filepath.Join(d.ctx.Scratch, "child"), Deadline: d.ctx.Deadline.Unix(), MemLimit: memLimit}
}

func descOf(fam family, tier string, idx int) string {
	i := -1
	out := ""
	fam.enum(tier, func(mk func() *Input) {
		i++
		if i == idx {
			defer func() {
				if r := recover(); r != nil {
					out = fmt.Sprintf("(input #%d: description unavailable: %v)", idx, r)
				}
			}()
			out = mk().Desc
		}
	})
	return out
}

func (d *driver) outcome(k string) { d.res.Outcomes[k]++ }

func (d *driver) violation(idx int, desc string, r stageRes, extra string) {
	if d.keyVia[r.Key] == nil {
		d.keyVia[r.Key] = map[string]bool{}
	}
	d.keyVia[r.Key][r.St] = true
	if d.seenKeys[r.Key] {
		return
	}
	d.seenKeys[r.Key] = true
	if desc == "" {
		desc = descOf(d.fam, d.ctx.Tier, idx)
	}
	msg := fmt.Sprintf("verdict %s at stage %s (expected: ok or error)\ninput #%d of part %s: %s\n%s: %s\ntop of stack:\n  %s%s",
		r.V, r.St, idx, d.fam.name, trunc(desc, 6000), strings.ToLower(r.V), r.Msg, strings.ReplaceAll(r.Top, "\n", "\n  "), extra)
	d.res.Violations = append(d.res.Violations, runner.Violation{Key: r.Key, Msg: msg,
		Replay: map[string]any{"part": d.fam.name, "tier": d.ctx.Tier, "idx": idx, "stage": r.St}})
}

func (d *driver) record(ir inputResult) {
	d.res.States += func() int64 {
		if _, ok := d.hashes[ir.hash]; ok {
			return 0
		}
		d.hashes[ir.hash] = struct{}{}
		return 1
	}()
	crashed := false
	deferredHere := false
	if seen, second := d.deferred[ir.idx]; second && d.pass2 {
		// second pass: only what the first pass did not execute counts
		var fresh []stageRes
		for _, r := range ir.res {
			if !seen[r.St] {
				fresh = append(fresh, r)
			}
		}
		ir.res, ir.ops = fresh, 0
	}
	d.res.Evaluations += int64(len(ir.res))
	d.res.Transitions += int64(ir.ops)
	for _, r := range ir.res {
		d.stageUs[strings.TrimSuffix(r.St, "/settle")] += r.Us
		if strings.HasSuffix(r.St, "/settle") {
			continue
		}
		k := stageClass(r.St) + ": " + r.V
		if r.V == vErr {
			k += " (" + r.Err + ")"
		}
		if r.V == vPruned {
			d.pruned++
			d.prunedBy[r.St+"|"+r.Tag]++
			d.res.Caps = appendUniq(d.res.Caps, fmt.Sprintf("inputs for which the reference model predicts %q are not pushed through stage %s once %s has been confirmed (the model is checked against every executed input)", r.Tag, r.St, r.Key))
			d.outcome(k + " " + r.Key)
			continue
		}
		if r.V == vImplied {
			d.outcome(k)
			continue
		}
		if r.V == vDeferred {
			if d.deferred[ir.idx] == nil {
				d.deferred[ir.idx] = map[string]bool{}
			}
			deferredHere = true
			continue
		}
		if r.V == vSkippedSlow {
			d.outcome(k)
			d.res.Caps = appendUniq(d.res.Caps, "stage "+r.St+" is exercised only on the first 5 cycle-visible/very deep trees of every child process (it descends to maxWalkDepth=10000, bounded but ~1 s each)")
			continue
		}
		if r.Tag != "" && !r.Died && (r.V == vOK || r.V == vErr || r.V == vPanic || r.V == vWrong) {
			ts := d.tagStat(r.St + "|" + r.Tag)
			ts.survived++
			if len(ts.deaths) > 0 || deathsOf(claimsDir(), r.St+"|"+r.Tag) > 0 {
				// the prediction is not reliable (any more): nothing is skipped on it from now on
				vetoPrune(r.St + "|" + r.Tag)
				d.res.Caps = appendUniq(d.res.Caps, fmt.Sprintf("the reference-model prediction %q for stage %s came true on some inputs and not on others: no input is skipped on it", r.Tag, r.St))
				if d.prunedBy[r.St+"|"+r.Tag] > 0 {
					// harness inconsistency (not a property violation): inputs have already been skipped on a prediction that does not hold
					d.res.Broken = fmt.Sprintf("harness bookkeeping: %d inputs of part %s were skipped at stage %s on the prediction %q, but input #%d with the same prediction survived that stage", d.prunedBy[r.St+"|"+r.Tag], d.fam.name, r.St, r.Tag, ir.idx)
				}
			}
		}
		if r.V == vPanic || r.V == vFatal || r.V == vHang || r.V == vWrong {
			crashed = true
			k += " " + r.Key
			if r.NoRepo {
				d.res.Broken = fmt.Sprintf("panic without a repository frame (harness bug?) at input #%d stage %s: %s\n%s\n%s", ir.idx, r.St, r.Msg, r.Top, ir.desc)
			}
			d.violation(ir.idx, ir.desc, r, "")
		}
		d.outcome(k)
	}
	if deferredHere {
		for _, r := range ir.res {
			if r.V != vDeferred {
				d.deferred[ir.idx][r.St] = true
			}
		}
	}
	if (ir.deep || crashed) && !(d.pass2 && d.deferred[ir.idx] != nil) {
		d.res.Nontrivial++
	}
	if ir.leak > 0 {
		d.outcome("goroutines still alive 0.2 s after a stage")
	}
	if len(d.res.Samples) < 2 && ir.desc != "" {
		var vs []string
		for _, r := range ir.res {
			vs = append(vs, r.St+"="+r.V)
		}
		d.res.Samples = append(d.res.Samples, map[string]any{"part": d.fam.name, "input": trunc(ir.desc, 400), "verdicts": strings.Join(vs, " ")})
	}
}

// alone runs one input alone and returns what happened.
func (d *driver) alone(idx int, budget float64) (exitInfo, *inputResult) {
	var got *inputResult
	sp := d.spec(idx, []int{idx})
	sp.NoPrune = true
	sp.MaxStackMB = 64
	sp.Guarded = nil
	info := runChild(sp, budget, nil, func(ir inputResult) { got = &ir })
	return info, got
}

func fileExists(p string) bool { _, err := os.Stat(p); return err == nil }

// confirmDeath makes sure that a process death seen in a batch (16 MiB stack) is real: one job per key and run
// re-runs the input alone in a fresh process with the full 64 MiB stack. Returns "yes", "no: ..." or "finite"
// (a stack overflow at 16 MiB that completes at 64 MiB: deep but finite recursion, not a finding).
func (d *driver) confirmDeath(idx int, key string) string {
	base := filepath.Join(claimsDir(), "confirm-"+sanitize(key))
	read := func() string {
		if b, err := os.ReadFile(base + ".verdict"); err == nil {
			return string(b)
		}
		return ""
	}
	if v := read(); v != "" {
		return v
	}
	if !confirmOwner(key) {
		for i := 0; i < 600; i++ { // the owner is busy reproducing it
			if v := read(); v != "" {
				return v
			}
			time.Sleep(200 * time.Millisecond)
		}
		return "pending (another shard of this run reproduces it alone)"
	}
	ai, _ := d.alone(idx, hangConfirmCPU)
	verdict := "no: the process survived with this input alone"
	if ai.kind == "crash" {
		if v2, m2, t2, ok2 := crashFromStderr(ai.stderr); ok2 {
			k2, _, _ := classifyTrace(v2, m2, t2, false)
			if k2 == key {
				verdict = "yes"
			} else {
				verdict = "no: died differently alone: " + k2
			}
		}
	} else if ai.clean && strings.HasSuffix(key, ":stack-overflow") {
		verdict = "finite"
	}
	os.WriteFile(base+".verdict", []byte(verdict), 0o644)
	return verdict
}

func (d *driver) run() {
	cleanStaleClaims()
	from := 0
	restarts := map[int]int{}
	pending := map[int][]stageRes{} // crash results of an input whose remaining stages are re-run
	defer func() {
		for idx, rs := range pending {
			d.record(inputResult{idx: idx, res: rs, hash: fmt.Sprintf("pending-%d", idx)})
		}
	}()
	var hangUnlock func()
	defer func() {
		if hangUnlock != nil {
			hangUnlock()
		}
	}()
	for {
		if time.Now().After(d.ctx.Deadline) {
			d.res.Caps = appendUniq(d.res.Caps, fmt.Sprintf("time budget reached before input #%d", from))
			return
		}
		for _, c := range readClaims() { // stage groups with a confirmed hang / huge allocation (in any job of this run) run under the watchdog
			d.guarded[c.Stage] = appendUniq(d.guarded[c.Stage], siteOfKey(c.Key))
		}
		trace("spawn child from=%d pass2=%v pruned=%v guarded=%v disabled=%v", from, d.pass2, prunedIn(claimsDir()), d.guarded, d.disabled)
		sp := d.spec(from, nil)
		if d.pass2 {
			sp.Pass2 = true
			for i := range d.deferred {
				sp.Only = append(sp.Only, i)
			}
			sort.Ints(sp.Only)
		}
		// An input that has used 12 s CPU is a hang suspect. Exactly one job per stage follows a suspect up (30 s
		// budget, then 3 alone runs); a job that meets a suspect while another job is busy with one in the same
		// stage stops its child at once and goes on without that stage.
		type confRes struct {
			ai  exitInfo
			got *inputResult
		}
		var confCh chan confRes
		onSlow := func(idx int, stage string) bool {
			if hangUnlock != nil {
				hangUnlock()
				hangUnlock = nil
			}
			os.MkdirAll(claimsDir(), 0o755)
			f, err := os.OpenFile(claimFile("hanglock-"+disableName(stage)), os.O_CREATE|os.O_RDWR, 0o644)
			if err != nil {
				return true
			}
			if syscall.Flock(int(f.Fd()), syscall.LOCK_EX|syscall.LOCK_NB) != nil {
				f.Close()
				return false
			}
			hangUnlock = func() { syscall.Flock(int(f.Fd()), syscall.LOCK_UN); f.Close() }
			// start the three alone runs right away, in parallel with the batch child
			confCh = make(chan confRes, 3)
			for i := 0; i < 3; i++ {
				go func(i int) {
					sp := d.spec(idx, []int{idx})
					sp.NoPrune, sp.MaxStackMB, sp.Guarded = true, 64, nil
					sp.Scratch = filepath.Join(d.ctx.Scratch, fmt.Sprintf("confirm%d", i))
					var got *inputResult
					ai := runChild(sp, hangConfirmCPU, nil, func(ir inputResult) { got = &ir })
					confCh <- confRes{ai, got}
				}(i)
			}
			return true
		}
		info := runChild(sp, hangScreenCPU, onSlow, func(ir inputResult) {
			if p, ok := pending[ir.idx]; ok {
				ir.res = append(p, ir.res...)
				delete(pending, ir.idx)
			}
			d.record(ir)
		})
		drainConf := func() []confRes {
			var out []confRes
			if confCh != nil {
				for i := 0; i < 3; i++ {
					out = append(out, <-confCh)
				}
			}
			return out
		}
		if info.clean {
			drainConf()
			if info.capMsg != "" {
				d.res.Caps = appendUniq(d.res.Caps, info.capMsg)
				return
			}
			if !d.pass2 && len(d.deferred) > 0 {
				trace("second pass over %d deferred inputs", len(d.deferred))
				d.pass2, from = true, 0
				continue
			}
			return
		}
		if info.kind == "broken" || info.idx < 0 {
			drainConf()
			d.res.Broken = fmt.Sprintf("child of part %s died outside any input (%s %s):\n%s", d.fam.name, info.kind, info.exitDesc, tail(info.stderr, 3000))
			return
		}
		idx := info.idx
		trace("child ended: kind=%s idx=%d stage=%s tag=%s %s", info.kind, info.idx, info.stage, info.tag, info.exitDesc)
		restarts[idx]++
		if restarts[idx] > 60 {
			d.res.Broken = fmt.Sprintf("input #%d of part %s killed the child more than 60 times", idx, d.fam.name)
			return
		}
		switch info.kind {
		case "crash":
			drainConf()
			verdict, msg, trace, ok := crashFromStderr(info.stderr)
			if !ok {
				d.res.Broken = fmt.Sprintf("child of part %s died at input #%d stage %s without a Go crash report (%s):\n%s", d.fam.name, idx, info.stage, info.exitDesc, tail(info.stderr, 3000))
				return
			}
			key, top, noRepo := classifyTrace(verdict, msg, trace, false)
			r := stageRes{St: info.stage, V: verdict, Key: key, Msg: msg, Top: top, NoRepo: noRepo, Tag: info.tag, Died: true}
			if stageClass(info.stage) == "fsreader.Cache" {
				d.cacheDeaths++
			}
			rep := d.confirmDeath(idx, key)
			if rep == "finite" {
				// deep but finite recursion: fine with the full stack; run the rest of this job with it
				d.outcome(stageClass(info.stage) + ": recursion deeper than 16 MiB of stack but finite (completes with 64 MiB)")
				d.bigStack = true
				from = idx
				continue
			}
			d.violation(idx, "", r, "\nprocess death reproduced with an input alone in a fresh process (64 MiB stack): "+rep)
			if strings.HasSuffix(key, ":out-of-memory") {
				// an allocation of attacker-chosen size: sizes just below the limit do not kill the process but take
				// minutes to clear; from now on the stage runs under the 1 s watchdog
				writeClaim(hangClaim{Stage: disableName(info.stage), Key: key, Part: d.fam.name, Idx: idx})
			}
			if info.tag != "" {
				st := info.stage + "|" + info.tag
				ts := d.tagStat(st)
				ts.deaths[key]++
				if ts.survived > 0 {
					// a death is always reported (above); the prediction is merely useless for skipping
					vetoPrune(st)
					d.res.Caps = appendUniq(d.res.Caps, fmt.Sprintf("the reference-model prediction %q for stage %s came true on some inputs and not on others: no input is skipped on it", info.tag, info.stage))
				} else {
					writeDeath(deathRec{StageTag: st, Key: key, Part: d.fam.name, Idx: idx})
				}
			}
			// an optional stage that keeps killing the process with one key is switched off for the rest of the job
			if g := disableName(info.stage); strings.HasPrefix(g, "fsreader.") && info.tag == "" {
				d.deathsAt[g+"|"+key]++
				if d.deathsAt[g+"|"+key] >= 3 {
					d.disabled = appendUniq(d.disabled, g)
					d.res.Caps = appendUniq(d.res.Caps, fmt.Sprintf("stage group %s is switched off for the rest of a shard after 3 process deaths there with %s", g, key))
				}
			}
			pending[idx] = append(pending[idx], r)
			d.skip[idx] = append(d.skip[idx], info.stage)
			from = idx
		case "yield", "guard":
			// a suspected hang that is not followed up: another job is following one up in the same stage group right now
			// ("yield", after 5 s CPU), or a hang in this group is already confirmed ("guard", after 1 s CPU)
			stage := disableName(info.stage)
			d.outcome(stageClass(info.stage) + ": suspected hang, not followed up (a hang in this stage group is confirmed / being confirmed on another input)")
			d.res.Caps = appendUniq(d.res.Caps, "inputs that spend more than 1 s CPU inside a function where a hang (30 s x 3) or an attacker-sized allocation has already been confirmed in this run are given up as suspected repeats of it (no second 30 s x 3 confirmation), and are not pushed through the other guarded fs/reader stages either")
			if info.kind == "yield" {
				d.guarded[stage] = appendUniq(d.guarded[stage], "*") // until the other job's verdict is in
			}
			d.guardHits++
			pending[idx] = append(pending[idx], stageRes{St: info.stage, V: "suspected-hang"})
			d.skip[idx] = append(d.skip[idx], info.stage)
			for g := range d.guarded { // the same pathology usually hits the other guarded fs/reader loops as well
				if strings.HasPrefix(g, "fsreader.") && strings.HasPrefix(stage, "fsreader.") {
					d.skip[idx] = appendUniq(d.skip[idx], "group:"+g)
				}
			}
			if d.guardHits > 8 {
				// the optional stages are switched off; the gateway stages (Open, NewReader, ...) stay guarded
				for g := range d.guarded {
					if strings.HasPrefix(g, "fsreader.") {
						d.disabled = appendUniq(d.disabled, g)
					}
				}
				d.res.Caps = appendUniq(d.res.Caps, "after 8 suspected hangs in one shard the guarded fs/reader stages are switched off for the rest of that shard")
			}
			from = idx
		case "cpu", "blocked":
			stage := disableName(info.stage)
			confs := drainConf()
			if confs == nil { // (blocked candidates have no early follow-up)
				for i := 0; i < 3; i++ {
					ai, got := d.alone(idx, hangConfirmCPU)
					confs = append(confs, confRes{ai, got})
				}
			}
			dumps := []string{info.stderr}
			confirmed := 0
			var last *inputResult
			for _, c := range confs {
				if c.ai.kind == info.kind && disableName(c.ai.stage) == stage {
					confirmed++
					dumps = append(dumps, c.ai.stderr)
				} else if c.got != nil {
					last = c.got
				}
			}
			if confirmed < 3 {
				d.outcome(stageClass(info.stage) + ": slow input (over the budget in a batch, not 3 times out of 3 alone)")
				if last != nil {
					d.record(*last)
				}
				from = idx + 1
				continue
			}
			site, top, allocating := hangSite(dumps[1:], info.kind == "blocked")
			kind := "hang"
			what := fmt.Sprintf("more than %.0f s CPU", hangConfirmCPU)
			if info.kind == "blocked" {
				kind = "hang-blocked"
				what = fmt.Sprintf("no progress and no CPU use for %.0f s", blockedWall)
			}
			r := stageRes{St: info.stage, V: vHang, Key: "C04/" + kind + "/" + site, Msg: what + " on this input alone, 3 times out of 3 (median input: milliseconds)", Top: top}
			if allocating && info.kind == "cpu" {
				// the time goes into allocating/clearing one attacker-sized buffer below the 4 GiB limit: same defect class as an out-of-memory death
				r.V, r.Key = vFatal, "C04/fatal/"+site+":huge-allocation"
				r.Msg = "allocation of an attacker-chosen size just below the address-space limit (the process spends more than " + fmt.Sprintf("%.0f", hangConfirmCPU) + " s CPU allocating and clearing it), 3 times out of 3"
			}
			d.violation(idx, "", r, "")
			pending[idx] = append(pending[idx], r)
			writeClaim(hangClaim{Stage: stage, Key: r.Key, Part: d.fam.name, Idx: idx})
			d.guarded[stage] = appendUniq(d.guarded[stage], siteOfKey(r.Key))
			d.skip[idx] = append(d.skip[idx], info.stage)
			from = idx
		}
	}
}

var traceOn = os.Getenv("C04_TRACE") != ""
var traceStart = time.Now()

func trace(f string, a ...any) {
	if traceOn {
		fmt.Fprintf(os.Stderr, "[%7.2fs pid %d] %s\n", time.Since(traceStart).Seconds(), os.Getpid(), fmt.Sprintf(f, a...))
	}
}

func tail(s string, n int) string {
	if len(s) > n {
		return s[len(s)-n:]
	}
	return s
}

func appendUniq(l []string, s string) []string {
	for _, x := range l {
		if x == s {
			return l
		}
	}
	return append(l, s)
}

func partOf(fam family, tier string) runner.Part {
	return runner.Part{
		Name:   fam.name,
		Shards: fam.shards[tier],
		Run: func(c *runner.Ctx) *runner.Result {
			d := &driver{fam: fam, ctx: c, res: &runner.Result{Outcomes: map[string]int{}}, hashes: map[string]struct{}{}, seenKeys: map[string]bool{}, keyVia: map[string]map[string]bool{}, deathsAt: map[string]int{}, prunedBy: map[string]int{}, guarded: map[string][]string{}, skip: map[int][]string{}, tags: map[string]*tagStat{}, deferred: map[int]map[string]bool{}, stageUs: map[string]int64{}}
			d.run()
			// reachability: which stages reached each crash site
			for i := range d.res.Violations {
				v := &d.res.Violations[i]
				var via []string
				for s := range d.keyVia[v.Key] {
					via = append(via, s)
				}
				sort.Strings(via)
				v.Msg += "\nstages that reached this site in this shard: " + strings.Join(via, ", ")
			}
			if c.Shard == 0 {
				n := 0
				fam.enum(c.Tier, func(func() *Input) { n++ })
				ms := map[string]int64{}
				for k, v := range d.stageUs {
					if v >= 1000 {
						ms[k] = v / 1000
					}
				}
				d.res.Extra = map[string]any{"inputs_enumerated": n, "shard0_stage_ms": ms}
			}
			return d.res
		},
		Replay: func(c *runner.Ctx, raw json.RawMessage) (string, error) {
			var r struct {
				Part string `json:"part"`
				Tier string `json:"tier"`
				Idx  int    `json:"idx"`
			}
			if err := json.Unmarshal(raw, &r); err != nil {
				return "", err
			}
			spec := childSpec{Part: fam.name, Tier: r.Tier, Shard: 0, Of: 1, Only: []int{r.Idx}, Scratch: filepath.Join(c.Scratch, "child"), MemLimit: memLimit, Verbose: true, NoPrune: true, MaxStackMB: 64}
			var out bytes.Buffer
			var bad []string
			skip := map[int][]string{}
			for n := 0; n < 60; n++ {
				spec.Skip = skip
				info := runChild(spec, hangConfirmCPU, nil, func(ir inputResult) {
					fmt.Fprintf(&out, "input #%d: %s\n", ir.idx, ir.desc)
					for _, s := range ir.res {
						fmt.Fprintf(&out, "  %-34s %s %s%s\n", s.St, s.V, s.Err, s.Key)
						if s.V == vPanic || s.V == vWrong {
							bad = append(bad, s.Key)
							fmt.Fprintf(&out, "    %s\n    %s\n", s.Msg, strings.ReplaceAll(s.Top, "\n", "\n    "))
						}
					}
				})
				if info.clean {
					break
				}
				if info.kind == "crash" {
					v, m, t, _ := crashFromStderr(info.stderr)
					k, top, _ := classifyTrace(v, m, t, false)
					fmt.Fprintf(&out, "  %-34s %s %s\n    %s\n    %s\n", info.stage, v, k, m, strings.ReplaceAll(top, "\n", "\n    "))
					bad = append(bad, k)
				} else {
					fmt.Fprintf(&out, "  %-34s exceeded %s budget\n", info.stage, info.kind)
					bad = append(bad, "hang at "+info.stage)
				}
				if info.idx < 0 {
					break
				}
				skip[info.idx] = append(skip[info.idx], info.stage)
			}
			if len(bad) > 0 {
				return out.String(), fmt.Errorf("crash/hang verdicts: %s", strings.Join(bad, "; "))
			}
			return out.String(), nil
		},
	}
}

func main() {
	if os.Getenv("C04_CHILD") != "" {
		childMain()
		return
	}
	if f := os.Getenv("C04_HANGSITE"); f != "" { // debugging aid: classify goroutine dumps
		var dumps []string
		for _, p := range strings.Split(f, ",") {
			b, _ := os.ReadFile(p)
			dumps = append(dumps, string(b))
		}
		fmt.Println(hangSite(dumps, false))
		return
	}
	runner.Main(runner.Check{
		ID:    "C04",
		Level: "exploration",
		Rule: "every input of the stated finite families — (i) footers: every blob length 0..120 x 3 fillers, every prefix/suffix of the 4 footer kinds, every single-byte mutation x value menu of each footer, every XLEN x subfield-LEN x SI inconsistency, every footer numeric field from a menu; " +
			"(ii) TOC JSON: all TOCs with <=2 entries over 7 names x 7 types x linkName x (3 containers), all 3-entry TOCs over the 3 path-clean classes (thorough: full alphabet, 4 entries pruned), numeric fields {-1,0,1,2^62,2^63-1} one or two at a time on 3 base structures, all digest combinations, a menu of malformed documents; " +
			"(iii) every single-byte mutation x value menu and every truncation of a valid gzip / zstd:chunked / external-TOC blob; (iv) registry reply scripts from a grammar of status / Content-Range / Content-Length / Content-Type / multipart layouts / every truncation of a multipart body; (v) all tars with <=3 entries incl. hardlink cycles/self links/links to dirs x prioritized lists, truncated and mutated tar/gzip/zstd inputs; (vi) FUSE passthrough on pristine blobs: files of 1..2cs+3 bytes for chunk size cs in {3,8} (and a 2-file blob) x mergeBufferSize 1..2cs+2 x mergeWorkerCount 1..3 through GetPassthroughFd with a directory cache, also comparing the bytes behind the fd — " +
			"pushed through every applicable stage (ParseFooter/ParseTOC/DecompressTOC of each decompressor, estargz.Open+walk+VerifyTOC, memory and db metadata readers+walk, fs/reader Cache/read/verified read/passthrough, Unpack, remote Resolve/ReadAt/Cache/Check/Refresh, Build/AppendTar). evaluations = (input, stage) executions; non-trivial = distinct inputs that got past the format gate (a reader/blob/builder object was obtained) or crashed",
		Assumptions: []string{
			"child processes run with RLIMIT_AS 4 GiB; batches use debug.SetMaxStack(16 MiB) and every process death is re-run alone in a fresh process with SetMaxStack(64 MiB) before it is believed (a stack overflow that completes with 64 MiB is recorded as deep-but-finite recursion, not as a finding)",
			"HANG = the input alone exceeds 30 s CPU (or 90 s without progress and without CPU use), in 3 fresh processes out of 3; in a batch an input is only a suspect after 12 s CPU",
			"after a confirmed hang (or an out-of-memory death from an attacker-sized allocation) the stage group runs under a 1 s CPU watchdog for later inputs: inputs over it are counted as suspected hangs, not as verdicts (reported as a cap)",
			"a process death that the harness' reference model of the TOC/tar structure predicts (hardlink cycle, children-graph cycle, prioritized-file cycle) is executed until two predicted deaths with one key have been observed in the run; later inputs with the same prediction are not pushed through that stage (reported as a cap); any misprediction makes the check BROKEN",
			"fs/layer FUSE nodes are not constructed; reads are issued against fs/reader the way node.go's file.Read does (offset < attr.Size)",
		},
		QuickBudget: 225 * time.Second, ThoroughBudget: 28 * time.Minute,
		Parts: func(tier string) []runner.Part {
			order := []string{"footer-len", "toc-struct", "toc-num", "build", "toc-misc", "footer-xlen", "footer-num", "footer-mut", "mut-gz", "mut-zstd", "mut-ext", "http", "passthrough-merge"}
			byName := map[string]family{}
			for _, f := range families() {
				byName[f.name] = f
			}
			var ps []runner.Part
			for _, n := range order {
				ps = append(ps, partOf(byName[n], tier))
			}
			return ps
		},
	})
}
