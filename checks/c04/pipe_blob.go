package main

// Pipelines for blob inputs: every Decompressor entry point, estargz.Open +
// walk, both metadata stores + walk, fs/reader prefetch (Cache) + reads,
// estargz.Unpack. Walkers are depth-guarded so that only repository code can
// overflow the stack.

import (
	"bytes"
	"errors"
	"fmt"
	"io"
	"os"
	"path/filepath"
	"sort"
	"strings"

	"github.com/containerd/stargz-snapshotter/cache"
	dbmeta "github.com/containerd/stargz-snapshotter/cmd/containerd-stargz-grpc/db"
	"github.com/containerd/stargz-snapshotter/estargz"
	"github.com/containerd/stargz-snapshotter/estargz/externaltoc"
	"github.com/containerd/stargz-snapshotter/estargz/zstdchunked"
	fsreader "github.com/containerd/stargz-snapshotter/fs/reader"
	"github.com/containerd/stargz-snapshotter/metadata"
	memorymeta "github.com/containerd/stargz-snapshotter/metadata/memory"
	digest "github.com/opencontainers/go-digest"
	bolt "go.etcd.io/bbolt"
)

const (
	maxWalkDepthHarness = 64
	maxVisit            = 400
	maxReadBuf          = 4096
)

func extProvider(in *Input) func() ([]byte, error) {
	return func() ([]byte, error) {
		if in.Ext == nil {
			return nil, errors.New("no external TOC available")
		}
		return in.Ext, nil
	}
}

type namedDecomp struct {
	name string
	d    metadata.Decompressor
}

func decomps(in *Input) []namedDecomp {
	return []namedDecomp{
		{"gzip", new(estargz.GzipDecompressor)},
		{"legacy", new(estargz.LegacyGzipDecompressor)},
		{"zstdchunked", new(zstdchunked.Decompressor)},
		{"externaltoc", externaltoc.NewGzipDecompressor(extProvider(in))},
	}
}

func sectionOf(b []byte) *io.SectionReader {
	return io.NewSectionReader(bytes.NewReader(b), 0, int64(len(b)))
}

// read offsets/lengths a FUSE client can produce for a file whose attr says `size`.
type rd struct {
	l   int
	off int64
}

func readPlan(size int64) []rd {
	first := int64(maxReadBuf)
	if size >= 0 && size < first {
		first = size
	}
	plan := []rd{{int(first), 0}, {1, 0}, {8, 4}}
	if size > 1 {
		plan = append(plan, rd{1, size - 1}, rd{maxReadBuf, size - 1}, rd{16, size / 2})
	}
	plan = append(plan, rd{1, size})
	return plan
}

func probeOffsets(size int64) []int64 {
	o := []int64{0, 1, 7, 8, 9, 1 << 62}
	if size > 1 {
		o = append(o, size-1, size, size/2)
	}
	return o
}

func drain(r io.Reader) error {
	_, err := io.CopyN(io.Discard, r, 16<<20)
	if err == io.EOF {
		return nil
	}
	return err
}

func runBlob(c *childCtx, in *Input) {
	blob := in.Blob
	// ---- 1. footers -----------------------------------------------------------
	for _, nd := range decomps(in) {
		nd := nd
		fs := int(nd.d.FooterSize())
		c.stage("ParseFooter["+nd.name+"]", func() error {
			c.ops++
			tail := blob
			if len(tail) > fs {
				tail = tail[len(tail)-fs:]
			}
			_, _, _, err := nd.d.ParseFooter(append([]byte{}, tail...))
			return err
		})
		if in.Light && len(blob) != fs && len(blob) <= 130 {
			c.stage("ParseFooter-whole["+nd.name+"]", func() error {
				c.ops++
				_, _, _, err := nd.d.ParseFooter(append([]byte{}, blob...))
				return err
			})
		}
	}
	// ---- 2. TOC parsers ---------------------------------------------------------
	var region []byte
	if in.TocOff >= 0 && in.TocEnd <= len(blob) && in.TocOff <= in.TocEnd {
		region = blob[in.TocOff:in.TocEnd]
	} else if in.Light && len(blob) <= 130 {
		region = blob
	}
	for _, nd := range decomps(in) {
		nd := nd
		if nd.name == "legacy" {
			continue // same code as gzip
		}
		var mk func() io.Reader
		if nd.name == "externaltoc" {
			mk = func() io.Reader { return nil }
		} else if region != nil {
			mk = func() io.Reader { return bytes.NewReader(region) }
		} else {
			continue
		}
		c.stage("ParseTOC["+nd.name+"]", func() error {
			c.ops++
			var err error
			if r := mk(); r == nil {
				_, _, err = nd.d.ParseTOC(nil)
			} else {
				_, _, err = nd.d.ParseTOC(r)
			}
			return err
		})
		c.stage("DecompressTOC["+nd.name+"]", func() error {
			c.ops++
			var rc io.ReadCloser
			var err error
			if r := mk(); r == nil {
				rc, err = nd.d.DecompressTOC(nil)
			} else {
				rc, err = nd.d.DecompressTOC(r)
			}
			if err != nil {
				return err
			}
			defer rc.Close()
			return drain(rc)
		})
	}
	// ---- 3. estargz.Open --------------------------------------------------------
	c.stage("estargz.OpenFooter", func() error {
		c.ops++
		_, _, err := estargz.OpenFooter(sectionOf(blob))
		return err
	})
	if in.Light {
		c.stage("estargz.Open[default]", func() error {
			c.ops++
			r, err := estargz.Open(sectionOf(blob))
			if err == nil {
				c.deep = true
				return esWalk(c, r)
			}
			return err
		})
	}
	var er *estargz.Reader
	c.stage("estargz.Open[daemon]", func() error {
		c.ops++
		ds := decomps(in)
		r, err := estargz.Open(sectionOf(blob), estargz.WithDecompressors(ds[2].d, ds[3].d))
		if err == nil {
			er = r
			c.deep = true
		}
		return err
	})
	if er != nil {
		if c.pred["estargz.walk"] == "" { // (the root lookup itself is predicted to diverge otherwise)
			c.stage("estargz.children-graph", func() error {
				// the harness' own cycle detection (visited set) on the tree the reader built
				if root, ok := er.Lookup(""); ok && childrenCycle(root) {
					c.pred["memory.NewReader"] = "children-cycle"
					return errors.New("the children graph built by Open has a cycle")
				}
				return nil
			})
		}
		c.stage("estargz.walk", func() error { return esWalk(c, er) })
		c.stage("estargz.VerifyTOC", func() error { return esVerify(c, er) })
	}
	// ---- 4. metadata stores -------------------------------------------------------
	mopts := func() []metadata.Option {
		ds := decomps(in)
		return []metadata.Option{metadata.WithDecompressors(ds[2].d, ds[3].d)}
	}
	var mr metadata.Reader
	c.stage("memory.NewReader", func() error {
		c.ops++
		r, err := memorymeta.NewReader(sectionOf(blob), mopts()...)
		if err == nil {
			mr = r
			c.deep = true
		}
		return err
	})
	if mr != nil {
		metaStages(c, in, "memory", mr, func() (metadata.Reader, func(), error) {
			r, err := memorymeta.NewReader(sectionOf(blob), mopts()...)
			return r, func() {}, err
		})
	}
	// One bolt file per child process, re-created after every input that panicked inside a db stage
	// (and every 300 inputs); every NewReader gets its own filesystem bucket in it.
	openDB := func() *bolt.DB {
		if c.bdb != nil && (c.bdbDirty || c.bdbUses > 300) {
			c.bdb.Close()
			c.bdb = nil
		}
		if c.bdb == nil {
			p := filepath.Join(c.scratch, "meta.db")
			os.Remove(p)
			bdb, err := bolt.Open(p, 0600, &bolt.Options{NoSync: true, NoFreelistSync: true, NoGrowSync: true})
			if err != nil {
				panic("harness: cannot open bolt db: " + err.Error())
			}
			bdb.MaxBatchSize = 0 // no batching delay: every Batch runs at once
			bdb.MaxBatchDelay = 0
			c.bdb, c.bdbDirty, c.bdbUses = bdb, false, 0
		}
		c.bdbUses++
		return c.bdb
	}
	var dr metadata.Reader
	c.stage("db.NewReader", func() error {
		c.ops++
		r, err := dbmeta.NewReader(openDB(), sectionOf(blob), mopts()...)
		if err != nil {
			return err
		}
		// the TOC is parsed in a background goroutine; wait for it inside this stage
		if _, e2 := r.GetOffset(r.RootID()); e2 != nil && strings.Contains(e2.Error(), "initialization failed") {
			r.Close()
			return e2
		}
		dr = r
		c.deep = true
		return nil
	})
	if dr != nil {
		metaStages(c, in, "db", dr, func() (metadata.Reader, func(), error) {
			r, err := dbmeta.NewReader(openDB(), sectionOf(blob), mopts()...)
			return r, func() {}, err
		})
		c.stage("db.Close", func() error { return dr.Close() })
	}
	for _, r := range c.res {
		if r.V == vPanic && (strings.HasPrefix(r.St, "db.") || strings.HasSuffix(r.St, "[db]")) {
			c.bdbDirty = true
		}
	}
	// ---- 5. Unpack ------------------------------------------------------------------
	for _, nd := range decomps(in) {
		nd := nd
		if nd.name == "legacy" {
			continue
		}
		c.stage("estargz.Unpack["+nd.name+"]", func() error {
			c.ops++
			rc, err := estargz.Unpack(sectionOf(blob), nd.d)
			if err != nil {
				return err
			}
			defer rc.Close()
			return drain(rc)
		})
	}
}

// ---- estargz.Reader walk -------------------------------------------------------------

func childrenCycle(root *estargz.TOCEntry) bool {
	state := map[*estargz.TOCEntry]int{}
	var rec func(e *estargz.TOCEntry) bool
	rec = func(e *estargz.TOCEntry) bool {
		switch state[e] {
		case 1:
			return true
		case 2:
			return false
		}
		state[e] = 1
		cyc := false
		e.ForeachChild(func(_ string, ce *estargz.TOCEntry) bool {
			if rec(ce) {
				cyc = true
				return false
			}
			return true
		})
		state[e] = 2
		return cyc
	}
	return rec(root)
}

func esFileOps(c *childCtx, r *estargz.Reader, name string) {
	for _, pre := range []bool{false, true} {
		var sr *io.SectionReader
		var err error
		c.ops++
		if pre {
			sr, err = r.OpenFileWithPreReader(name, func(e *estargz.TOCEntry, rr io.Reader) error { return drain(rr) })
		} else {
			sr, err = r.OpenFile(name)
		}
		if err != nil {
			continue
		}
		for _, p := range readPlan(sr.Size()) {
			c.ops++
			sr.ReadAt(make([]byte, p.l), p.off)
		}
	}
	e, _ := r.Lookup(name)
	size := int64(0)
	if e != nil {
		size = e.Size
	}
	for _, off := range probeOffsets(size) {
		c.ops++
		if ce, ok := r.ChunkEntryForOffset(name, off); ok && ce != nil {
			_ = ce.NextOffset()
		}
	}
}

func esWalk(c *childCtx, r *estargz.Reader) error {
	root, ok := r.Lookup("")
	if !ok {
		return errors.New("no root entry")
	}
	visited, capped := 0, false
	var rec func(e *estargz.TOCEntry, depth int)
	rec = func(e *estargz.TOCEntry, depth int) {
		if depth > maxWalkDepthHarness || visited > maxVisit {
			capped = true // cycle-visible (or very deep) tree: the harness does not recurse further
			return
		}
		visited++
		c.ops += 3
		_ = e.Stat().Mode()
		_ = e.Stat().Name()
		_ = e.ModTime()
		type ch struct {
			n string
			e *estargz.TOCEntry
		}
		var children []ch
		e.ForeachChild(func(n string, ce *estargz.TOCEntry) bool {
			children = append(children, ch{n, ce})
			return len(children) < 200
		})
		sort.Slice(children, func(i, j int) bool { return children[i].n < children[j].n })
		for _, x := range children {
			c.ops++
			e.LookupChild(x.n)
		}
		if e.Type == "reg" {
			esFileOps(c, r, e.Name)
		}
		for _, x := range children {
			rec(x.e, depth+1)
		}
	}
	rec(root, 0)
	for _, n := range append(append([]string{}, nameAlphabet...), "a/b/c", "b", "stargz.index.json", "l200") {
		c.ops++
		if e, ok := r.Lookup(n); ok && e != nil {
			_ = e.Stat().Mode()
		}
		esFileOps(c, r, n)
	}
	if capped {
		return errors.New("walk capped by the harness depth/visit guard (cycle-visible or deep tree)")
	}
	return nil
}

func esVerify(c *childCtx, r *estargz.Reader) error {
	c.ops += 2
	if _, err := r.VerifyTOC(digest.Digest("sha256:0000000000000000000000000000000000000000000000000000000000000000")); err == nil {
		return errors.New("VerifyTOC accepted a wrong digest")
	}
	v, err := r.VerifyTOC(r.TOCDigest())
	if err != nil {
		return err
	}
	for _, n := range []string{"a", "a/b", "d/f", "g"} {
		for _, off := range []int64{0, 8, 16} {
			if ce, ok := r.ChunkEntryForOffset(n, off); ok && ce != nil {
				c.ops++
				if vf, err := v.Verifier(ce); err == nil {
					vf.Write([]byte("x"))
					vf.Verified()
				}
			}
		}
	}
	return nil
}

// ---- metadata.Reader walk --------------------------------------------------------------

type metaNode struct {
	id   uint32
	attr metadata.Attr
}

// metaWalk visits the tree (depth-guarded) and returns the regular files found.
func metaWalk(c *childCtx, r metadata.Reader, fileOps func(id uint32, attr metadata.Attr)) (files []metaNode, err error) {
	visited, capped := 0, false
	var rec func(id uint32, depth int)
	rec = func(id uint32, depth int) {
		if depth > maxWalkDepthHarness || visited > maxVisit {
			capped = true
			return
		}
		visited++
		c.ops += 3
		attr, aerr := r.GetAttr(id)
		if aerr != nil && err == nil {
			err = aerr
		}
		r.GetOffset(id)
		type ch struct {
			n  string
			id uint32
			m  os.FileMode
		}
		var children []ch
		if ferr := r.ForeachChild(id, func(n string, cid uint32, m os.FileMode) bool {
			children = append(children, ch{n, cid, m})
			return len(children) < 200
		}); ferr != nil && err == nil {
			err = ferr
		}
		sort.Slice(children, func(i, j int) bool { return children[i].n < children[j].n })
		for _, x := range children {
			c.ops++
			r.GetChild(id, x.n)
		}
		for _, n := range []string{".", "..", "a", "zz"} { // never "": the kernel does not look up empty names
			c.ops++
			r.GetChild(id, n)
		}
		if aerr == nil && attr.Mode.IsRegular() {
			files = append(files, metaNode{id, attr})
			if fileOps != nil {
				fileOps(id, attr)
			}
		}
		for _, x := range children {
			rec(x.id, depth+1)
		}
	}
	rec(r.RootID(), 0)
	c.ops++
	r.GetAttr(0xfffffff0) // an id that does not exist
	if capped && err == nil {
		err = errors.New("walk capped by the harness depth/visit guard (cycle-visible or deep tree)")
	}
	return
}

func metaFileOps(c *childCtx, r metadata.Reader) func(id uint32, attr metadata.Attr) {
	return func(id uint32, attr metadata.Attr) {
		for _, pre := range []bool{false, true} {
			var f metadata.File
			var err error
			c.ops++
			if pre {
				f, err = r.OpenFileWithPreReader(id, func(nid uint32, co, cs int64, dg string, rr io.Reader) error { return drain(rr) })
			} else {
				f, err = r.OpenFile(id)
			}
			if err != nil {
				continue
			}
			for _, off := range probeOffsets(attr.Size) {
				c.ops++
				f.ChunkEntryForOffset(off)
			}
			for _, p := range readPlan(attr.Size) {
				c.ops++
				f.ReadAt(make([]byte, p.l), p.off)
			}
		}
	}
}

// metaStages: walk, clone, prefetch (Cache), on-demand reads (unverified and verified), passthrough.
func metaStages(c *childCtx, in *Input, store string, r metadata.Reader, fresh func() (metadata.Reader, func(), error)) {
	tag := "[" + store + "]"
	var files []metaNode
	walkCapped := false
	c.stage(store+".walk", func() error {
		var err error
		files, err = metaWalk(c, r, metaFileOps(c, r))
		walkCapped = err != nil && strings.Contains(err.Error(), "walk capped by the harness")
		return err
	})
	c.stage(store+".Clone", func() error {
		c.ops++
		cl, err := r.Clone(sectionOf(in.Blob))
		if err != nil {
			return err
		}
		_, err = metaWalk(c, cl, nil)
		return err
	})
	layerDgst := digest.FromBytes(in.Blob)
	// each fs/reader stage gets its own metadata reader + cache so that the stages are independent
	withVR := func(fn func(vr *fsreader.VerifiableReader, m metadata.Reader) error) error {
		m, done, err := fresh()
		if err != nil {
			done()
			return fmt.Errorf("fresh metadata reader: %w", err)
		}
		defer done()
		vr, err := fsreader.NewReader(m, cache.NewMemoryCache(), layerDgst)
		if err != nil {
			return err
		}
		defer vr.Close()
		return fn(vr, m)
	}
	// A tree in which the harness' own walk hit its depth guard makes the prefetch walk descend to its
	// own limit (maxWalkDepth = 10000 levels, ~1 s with the db store): bounded, so it is exercised on the
	// first few such inputs of every child process only.
	slowCache := false
	if walkCapped {
		c.deepTrees++
		slowCache = c.deepTrees > 5
	}
	if slowCache {
		c.res = append(c.res, stageRes{St: "fsreader.Cache" + tag, V: vSkippedSlow})
	} else {
		c.stage("fsreader.Cache"+tag, func() error {
			return withVR(func(vr *fsreader.VerifiableReader, m metadata.Reader) error {
				c.ops++
				return vr.Cache()
			})
		})
	}
	reads := func(rdr fsreader.Reader, m metadata.Reader) error {
		fs, err := metaWalk(c, m, nil)
		var firstErr error
		for _, f := range fs {
			c.ops++
			ra, oerr := rdr.OpenFile(f.id)
			if oerr != nil {
				if firstErr == nil {
					firstErr = oerr
				}
				continue
			}
			for _, p := range readPlan(f.attr.Size) {
				if p.off < 0 || (f.attr.Size >= 0 && p.off >= f.attr.Size && p.off != 0) {
					continue // the kernel never reads at or beyond i_size
				}
				c.ops++
				if _, rerr := ra.ReadAt(make([]byte, p.l), p.off); rerr != nil && firstErr == nil {
					firstErr = rerr
				}
			}
		}
		if firstErr != nil {
			return firstErr
		}
		return err
	}
	c.stage("fsreader.read"+tag, func() error {
		return withVR(func(vr *fsreader.VerifiableReader, m metadata.Reader) error {
			return reads(vr.SkipVerify(), m)
		})
	})
	c.stage("fsreader.verified-read"+tag, func() error {
		return withVR(func(vr *fsreader.VerifiableReader, m metadata.Reader) error {
			c.ops++
			rdr, err := vr.VerifyTOC(m.TOCDigest())
			if err != nil {
				return err
			}
			return reads(rdr, m)
		})
	})
	c.stage("fsreader.passthrough"+tag, func() error {
		return withVR(func(vr *fsreader.VerifiableReader, m metadata.Reader) error {
			rdr := vr.SkipVerify()
			fs, _ := metaWalk(c, m, nil)
			var firstErr error
			for _, f := range fs {
				ra, err := rdr.OpenFile(f.id)
				if err != nil {
					continue
				}
				if pg, ok := ra.(fsreader.PassthroughFdGetter); ok {
					c.ops++
					if _, cr, err := pg.GetPassthroughFd(1<<20, 2); err != nil {
						if firstErr == nil {
							firstErr = err
						}
					} else if cr != nil {
						cr.Close()
					}
				}
			}
			return firstErr
		})
	})
	_ = files
}
