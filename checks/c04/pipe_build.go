package main

// Family (v): builder inputs — tars with hardlink cycles / self links / links to
// directories, truncated tar / gzip / zstd input, tar headers with single-byte
// mutations (checksum re-computed) — handed to estargz.Build and Writer.AppendTar.

import (
	"archive/tar"
	"bytes"
	"compress/gzip"
	"fmt"
	"io"
	"path"
	"strings"

	"github.com/containerd/stargz-snapshotter/estargz"
	"github.com/containerd/stargz-snapshotter/estargz/zstdchunked"
	"github.com/klauspost/compress/zstd"
)

type buildCase struct {
	In          []byte
	Prioritized []string
	AllowMiss   bool
	Variant     string // "", "zstd", "minchunk"
	Writer      bool   // also feed the input to Writer.AppendTar / AppendTarLossLess directly
}

type tEnt struct {
	name, typ, link string
}

func (t tEnt) String() string {
	if t.link != "" {
		return t.typ + " " + t.name + " -> " + t.link
	}
	return t.typ + " " + t.name
}

func mkTar(ents []tEnt) []byte {
	var b bytes.Buffer
	tw := tar.NewWriter(&b)
	for _, e := range ents {
		switch e.typ {
		case "reg":
			tw.WriteHeader(&tar.Header{Typeflag: tar.TypeReg, Name: e.name, Mode: 0644, Size: 3})
			tw.Write([]byte("abc"))
		case "dir":
			tw.WriteHeader(&tar.Header{Typeflag: tar.TypeDir, Name: e.name, Mode: 0755})
		case "hardlink":
			tw.WriteHeader(&tar.Header{Typeflag: tar.TypeLink, Name: e.name, Linkname: e.link})
		case "symlink":
			tw.WriteHeader(&tar.Header{Typeflag: tar.TypeSymlink, Name: e.name, Linkname: e.link})
		}
	}
	tw.Close()
	return b.Bytes()
}

func tarVariants() []tEnt {
	names := []string{"a", "a/b", "b"}
	var out []tEnt
	for _, n := range names {
		out = append(out, tEnt{n, "reg", ""})
	}
	for _, n := range names {
		out = append(out, tEnt{n + "/", "dir", ""})
	}
	out = append(out, tEnt{"./", "dir", ""})
	for _, n := range names {
		for _, l := range names {
			out = append(out, tEnt{n, "hardlink", l})
		}
	}
	for _, n := range names {
		out = append(out, tEnt{n, "symlink", "a"})
	}
	return out
}

func fixTarChecksum(h []byte) {
	for i := 148; i < 156; i++ {
		h[i] = ' '
	}
	var sum int
	for _, c := range h[:512] {
		sum += int(c)
	}
	copy(h[148:156], fmt.Sprintf("%06o\x00 ", sum))
}

func enumBuild(tier string, yield func(func() *Input)) {
	var curEnts []tEnt // set for structured tars: lets the reference model look at the entries
	emit := func(desc string, mk func() []byte, prio []string, allowMiss bool, variant string) {
		ents := curEnts
		yield(func() *Input {
			in := mk()
			inp := &Input{Desc: fmt.Sprintf("estargz.Build(%s; prioritized=%q allowNotFound=%v variant=%q) input=%d bytes", desc, prio, allowMiss, variant, len(in)),
				Build: &buildCase{In: in, Prioritized: prio, AllowMiss: allowMiss, Variant: variant, Writer: ents == nil || len(ents) <= 1}}
			if ents != nil && predictMoveRec(ents, prio, allowMiss) {
				inp.Pred = map[string]string{"estargz.Build": "prioritized-hardlink-cycle"}
			}
			return inp
		})
	}
	vs := tarVariants()
	prios := [][]string{nil, {"a"}, {"a/b"}, {"b"}, {"a", "b"}, {"missing"}}
	structured := func(ents []tEnt, prios [][]string) {
		ents = append([]tEnt{}, ents...)
		var ds []string
		for _, e := range ents {
			ds = append(ds, e.String())
		}
		desc := "tar[" + strings.Join(ds, "; ") + "]"
		curEnts = ents
		if curEnts == nil {
			curEnts = []tEnt{}
		}
		for _, p := range prios {
			emit(desc, func() []byte { return mkTar(ents) }, p, false, "")
		}
		curEnts = nil
	}
	structured(nil, prios)
	for _, a := range vs {
		structured([]tEnt{a}, prios)
		curEnts = []tEnt{a}
		emit("tar["+a.String()+"]", func() []byte { return mkTar([]tEnt{a}) }, []string{"missing", "a"}, true, "")
		emit("tar["+a.String()+"]", func() []byte { return mkTar([]tEnt{a}) }, nil, false, "zstd")
		emit("tar["+a.String()+"]", func() []byte { return mkTar([]tEnt{a}) }, []string{"a"}, false, "minchunk")
		curEnts = nil
	}
	for _, a := range vs {
		for _, b := range vs {
			structured([]tEnt{a, b}, prios)
		}
	}
	// 3 entries: thorough = everything; quick = the variants that matter to the prioritized-file sorter
	// (files and dirs "a", "a/b", every hardlink) with a prioritized file
	p3, v3 := prios, vs
	if tier != "thorough" {
		p3 = [][]string{{"a"}, {"a/b"}}
		v3 = nil
		for _, v := range vs {
			if v.typ == "hardlink" || ((v.typ == "reg" || v.typ == "dir") && !strings.HasPrefix(v.name, "b") && v.name != "./") {
				v3 = append(v3, v)
			}
		}
	}
	for _, a := range v3 {
		for _, b := range v3 {
			for _, c := range v3 {
				structured([]tEnt{a, b, c}, p3)
			}
		}
	}
	// truncated inputs
	st := sampleTar()
	var gz bytes.Buffer
	gw := gzip.NewWriter(&gz)
	gw.Write(st)
	gw.Close()
	zs := zstdFrame(st)
	for cut := 0; cut <= len(st); cut++ {
		if tier != "thorough" && cut > 1100 && cut%64 > 1 && cut%512 != 511 {
			continue
		}
		cut := cut
		for _, p := range [][]string{nil, {"g"}} {
			emit(fmt.Sprintf("plain tar (5 entries, %d bytes) truncated to %d", len(st), cut), func() []byte { return append([]byte{}, st[:cut]...) }, p, false, "")
		}
	}
	for cut := 0; cut <= gz.Len(); cut++ {
		cut := cut
		for _, p := range [][]string{nil, {"g"}} {
			emit(fmt.Sprintf("tar.gz (%d bytes) truncated to %d", gz.Len(), cut), func() []byte { return append([]byte{}, gz.Bytes()[:cut]...) }, p, false, "")
		}
	}
	for cut := 0; cut <= len(zs); cut++ {
		cut := cut
		for _, p := range [][]string{nil, {"g"}} {
			emit(fmt.Sprintf("tar.zst (%d bytes) truncated to %d", len(zs), cut), func() []byte { return append([]byte{}, zs[:cut]...) }, p, false, "")
		}
	}
	// single-byte mutations of the compressed forms
	for pos := 0; pos < gz.Len(); pos++ {
		for _, x := range []byte{0x01, 0x80} {
			pos, x := pos, x
			emit(fmt.Sprintf("tar.gz (%d bytes) byte %d ^= 0x%02x", gz.Len(), pos, x), func() []byte { m := append([]byte{}, gz.Bytes()...); m[pos] ^= x; return m }, nil, false, "")
		}
	}
	for pos := 0; pos < len(zs); pos++ {
		for _, x := range []byte{0x01, 0x80} {
			pos, x := pos, x
			emit(fmt.Sprintf("tar.zst (%d bytes) byte %d ^= 0x%02x", len(zs), pos, x), func() []byte { m := append([]byte{}, zs...); m[pos] ^= x; return m }, nil, false, "")
		}
	}
	// header mutations with a valid checksum
	one := mkTar([]tEnt{{"a", "reg", ""}, {"b", "hardlink", "a"}})
	vals := []byte{0x00, '9'}
	hprios := [][]string{nil}
	nhdr := 1
	if tier == "thorough" {
		hprios, nhdr = [][]string{nil, {"b"}}, 2
		vals = []byte{0x00, 0x20, '0', '1', '2', '5', '7', '9', 0xff, 0x80, 'x', '/', '.', 'L', 'K', 'g', 'S'}
	}
	for hdr := 0; hdr < nhdr; hdr++ {
		base := hdr * 1024
		for pos := 0; pos < 512; pos++ {
			for _, v := range vals {
				if one[base+pos] == v {
					continue
				}
				base, pos, v := base, pos, v
				for _, p := range hprios {
					emit(fmt.Sprintf("tar[reg a; hardlink b -> a] header@%d byte %d: 0x%02x->0x%02x (checksum fixed)", base, pos, one[base+pos], v), func() []byte {
						m := append([]byte{}, one...)
						m[base+pos] = v
						if pos < 148 || pos >= 156 {
							fixTarChecksum(m[base : base+512])
						}
						return m
					}, p, false, "")
				}
			}
		}
	}
}

func runBuild(c *childCtx, in *Input) {
	bc := in.Build
	c.stage("estargz.Build", func() error {
		c.ops++
		opts := []estargz.Option{estargz.WithChunkSize(4), estargz.WithCompressionLevel(gzip.BestSpeed)}
		if bc.Prioritized != nil {
			opts = append(opts, estargz.WithPrioritizedFiles(bc.Prioritized))
		}
		var missed []string
		if bc.AllowMiss {
			opts = append(opts, estargz.WithAllowPrioritizeNotFound(&missed))
		}
		switch bc.Variant {
		case "zstd":
			opts = append(opts, estargz.WithCompression(&zstdCompression{&zstdchunked.Compressor{CompressionLevel: zstd.SpeedDefault}, &zstdchunked.Decompressor{}}))
		case "minchunk":
			opts = append(opts, estargz.WithMinChunkSize(64))
		}
		blob, err := estargz.Build(sectionOf(bc.In), opts...)
		if err != nil {
			return err
		}
		c.deep = true
		defer blob.Close()
		if err := drain(blob); err != nil {
			return err
		}
		_ = blob.TOCDigest()
		_ = blob.DiffID()
		_, err = blob.UncompressedSize()
		return err
	})
	for _, lossless := range []bool{false, true} {
		if !bc.Writer {
			break
		}
		name := "Writer.AppendTar"
		if lossless {
			name = "Writer.AppendTarLossLess"
		}
		c.stage(name, func() error {
			c.ops++
			w := estargz.NewWriterLevel(io.Discard, gzip.BestSpeed)
			w.ChunkSize = 4
			var err error
			if lossless {
				err = w.AppendTarLossLess(bytes.NewReader(bc.In))
			} else {
				err = w.AppendTar(bytes.NewReader(bc.In))
			}
			if err != nil {
				return err
			}
			_, err = w.Close()
			_ = w.DiffID()
			return err
		})
	}
}

type zstdCompression struct {
	*zstdchunked.Compressor
	*zstdchunked.Decompressor
}

// predictMoveRec is the harness' reference model of the prioritized-file sorter's walk (a file is moved after its
// parent directories and, for a hardlink, after its target): it tells whether a walk without an on-stack check
// comes back to a name it is still working on. Only used to avoid re-running an already confirmed process death.
func predictMoveRec(ents []tEnt, prio []string, allowMiss bool) bool {
	clean := func(n string) string { return strings.TrimPrefix(path.Clean("/"+n), "/") }
	m := map[string]tEnt{}
	for _, e := range ents {
		m[clean(e.name)] = e
	}
	cycle := false
	var visit func(name string, stack map[string]bool) bool // false: not found
	visit = func(name string, stack map[string]bool) bool {
		name = clean(name)
		if name == "" || cycle {
			return true
		}
		if _, ok := m[name]; !ok {
			return false
		}
		if stack[name] {
			cycle = true
			return true
		}
		stack[name] = true
		defer delete(stack, name)
		parent, _ := path.Split(strings.TrimSuffix(name, "/"))
		for clean(parent) != "" { // a directory without a tar entry of its own is skipped
			if _, ok := m[clean(parent)]; ok {
				break
			}
			parent, _ = path.Split(strings.TrimSuffix(clean(parent), "/"))
		}
		if !visit(parent, stack) {
			return false
		}
		if e, ok := m[name]; ok && e.typ == "hardlink" {
			if !visit(e.link, stack) {
				return false
			}
		}
		return true
	}
	for _, p := range prio {
		if !visit(p, map[string]bool{}) && !allowMiss {
			return false // Build fails with "not found" before anything else
		}
		if cycle {
			return true
		}
	}
	return false
}
