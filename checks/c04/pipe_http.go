package main

// Family (iv): hostile registry replies for fs/remote. A scripted
// http.RoundTripper answers the resolver's probe/HEAD/range requests from a
// small grammar of status codes, Content-Range / Content-Length /
// Content-Type headers, multipart layouts and body truncations.

import (
	"bytes"
	"context"
	"encoding/json"
	"fmt"
	"io"
	"net/http"
	"strconv"
	"strings"

	"github.com/containerd/containerd/v2/core/remotes/docker"
	"github.com/containerd/containerd/v2/pkg/reference"
	"github.com/containerd/stargz-snapshotter/cache"
	"github.com/containerd/stargz-snapshotter/fs/config"
	"github.com/containerd/stargz-snapshotter/fs/remote"
	digest "github.com/opencontainers/go-digest"
	ocispec "github.com/opencontainers/image-spec/specs-go/v1"
)

var httpContent = []byte("0123456789")

const httpChunk = 4

type fetchSpec struct {
	Mode   string `json:"mode"`             // benign | single | multi | status
	Status int    `json:"status,omitempty"` // status mode
	CT     string `json:"ct,omitempty"`     // content-type variant
	CR     string `json:"cr,omitempty"`     // single: Content-Range template
	CL     string `json:"cl,omitempty"`     // status 200: Content-Length variant
	Body   string `json:"body,omitempty"`   // exact | empty | short | long
	Parts  string `json:"parts,omitempty"`  // multipart layout
	Trunc  int    `json:"trunc"`            // multipart body cut to this length (-1: whole)
	Then   string `json:"then,omitempty"`   // "benign": only the first fetch is hostile
}

type httpSc struct {
	Redirect string    `json:"redirect"`
	Head     string    `json:"head"`
	SizeGet  string    `json:"size_get,omitempty"`
	Probe    string    `json:"probe,omitempty"` // reply to later "bytes=0-1" probes (check / URL refresh)
	Fetch    fetchSpec `json:"fetch"`
	Ops      string    `json:"ops"`
	Cfg      string    `json:"cfg"`
}

type region struct{ b, e int64 }

type fakeRT struct {
	sc      *httpSc
	hostile bool
	probes  int
	fetches int
	reqs    int
}

func resp(status int, h http.Header, body []byte) *http.Response {
	if h == nil {
		h = http.Header{}
	}
	return &http.Response{StatusCode: status, Status: fmt.Sprintf("%d %s", status, http.StatusText(status)), Header: h, Body: io.NopCloser(bytes.NewReader(body)), ContentLength: int64(len(body))}
}

// "<status>[:<header value>]"
func splitReply(s string) (int, string) {
	st, v, _ := strings.Cut(s, ":")
	n, _ := strconv.Atoi(st)
	return n, v
}

func (f *fakeRT) RoundTrip(req *http.Request) (*http.Response, error) {
	f.reqs++
	if f.reqs > 10000 {
		return nil, fmt.Errorf("fake registry: more than 10000 requests in one scenario")
	}
	size := int64(len(httpContent))
	rng := req.Header.Get("Range")
	switch {
	case req.Method == "HEAD":
		st, v := splitReply(f.sc.Head)
		h := http.Header{}
		if st == 200 {
			h.Set("Content-Length", v)
		}
		return resp(st, h, nil), nil
	case rng == "bytes=0-1":
		f.probes++
		spec := f.sc.Probe
		switch {
		case f.probes == 1:
			spec = f.sc.Redirect
		case f.probes == 2 && !strings.HasPrefix(f.sc.Head, "200:"):
			spec = f.sc.SizeGet
		}
		if spec == "" {
			spec = "206:bytes 0-1/10"
		}
		st, v := splitReply(spec)
		h := http.Header{}
		switch st {
		case 200:
			if v == "" {
				v = "10"
			}
			h.Set("Content-Length", v)
			return resp(200, h, httpContent), nil
		case 206:
			h.Set("Content-Range", v)
			return resp(206, h, httpContent[:2]), nil
		case 301, 302, 307:
			if v != "" {
				h.Set("Location", v)
			}
			return resp(st, h, nil), nil
		}
		return resp(st, h, nil), nil
	}
	// a range fetch
	var regs []region
	for _, p := range strings.Split(strings.TrimPrefix(rng, "bytes="), ",") {
		bs, es, _ := strings.Cut(p, "-")
		b, _ := strconv.ParseInt(bs, 10, 64)
		e, _ := strconv.ParseInt(es, 10, 64)
		regs = append(regs, region{b, e})
	}
	f.fetches++
	fs := f.sc.Fetch
	if !f.hostile || fs.Mode == "benign" || (fs.Then == "benign" && f.fetches > 1) {
		return benignFetch(regs, size), nil
	}
	return hostileFetch(fs, regs, size), nil
}

func slice(b, e int64) []byte {
	n := int64(len(httpContent))
	if b < 0 {
		b = 0
	}
	if e >= n {
		e = n - 1
	}
	if b > e {
		return nil
	}
	return append([]byte{}, httpContent[b:e+1]...)
}

func bodyVariant(v string, exact []byte) []byte {
	switch v {
	case "empty":
		return nil
	case "short":
		if len(exact) > 0 {
			return exact[:len(exact)-1]
		}
		return nil
	case "long":
		return append(append([]byte{}, exact...), "XXXXXXXXXXXX"...)
	}
	return exact
}

const goodBoundary = "BOUNDARYxyz"

func multipartBody(boundary string, parts []struct {
	cr   string
	body []byte
}) []byte {
	var b bytes.Buffer
	for _, p := range parts {
		fmt.Fprintf(&b, "--%s\r\nContent-Type: application/octet-stream\r\n", boundary)
		if p.cr != "-" {
			fmt.Fprintf(&b, "Content-Range: %s\r\n", p.cr)
		}
		b.WriteString("\r\n")
		b.Write(p.body)
		b.WriteString("\r\n")
	}
	fmt.Fprintf(&b, "--%s--\r\n", boundary)
	return b.Bytes()
}

func benignFetch(regs []region, size int64) *http.Response {
	h := http.Header{}
	if len(regs) == 1 {
		r := regs[0]
		if r.e >= size {
			r.e = size - 1
		}
		h.Set("Content-Type", "application/octet-stream")
		h.Set("Content-Range", fmt.Sprintf("bytes %d-%d/%d", r.b, r.e, size))
		return resp(206, h, slice(r.b, r.e))
	}
	var parts []struct {
		cr   string
		body []byte
	}
	for _, r := range regs {
		if r.e >= size {
			r.e = size - 1
		}
		parts = append(parts, struct {
			cr   string
			body []byte
		}{fmt.Sprintf("bytes %d-%d/%d", r.b, r.e, size), slice(r.b, r.e)})
	}
	h.Set("Content-Type", "multipart/byteranges; boundary="+goodBoundary)
	return resp(206, h, multipartBody(goodBoundary, parts))
}

func crToken(tok string, r region, size int64) string {
	switch tok {
	case "b":
		return fmt.Sprint(r.b)
	case "b+1":
		return fmt.Sprint(r.b + 1)
	case "b-1":
		return fmt.Sprint(r.b - 1)
	case "e":
		return fmt.Sprint(r.e)
	case "e+1":
		return fmt.Sprint(r.e + 1)
	case "e-1":
		return fmt.Sprint(r.e - 1)
	case "size":
		return fmt.Sprint(size)
	case "size-1":
		return fmt.Sprint(size - 1)
	case "size+chunk":
		return fmt.Sprint(size + httpChunk)
	case "max":
		return "9223372036854775807"
	case "over":
		return "9223372036854775808"
	}
	return tok // literal
}

// template "B E S" (space separated tokens) or "raw:<literal header>"
func renderCR(tpl string, r region, size int64) (string, bool) {
	if strings.HasPrefix(tpl, "raw:") {
		return strings.TrimPrefix(tpl, "raw:"), true
	}
	if tpl == "-" {
		return "", false
	}
	t := strings.Split(tpl, " ")
	s := "bytes " + crToken(t[0], r, size) + "-" + crToken(t[1], r, size)
	if t[2] != "none" {
		s += "/" + crToken(t[2], r, size)
	}
	return s, true
}

func hostileFetch(fs fetchSpec, regs []region, size int64) *http.Response {
	h := http.Header{}
	first := regs[0]
	switch fs.Mode {
	case "status":
		var body []byte
		if fs.Status == 200 {
			switch fs.CL {
			case "size":
				h.Set("Content-Length", fmt.Sprint(size))
			case "none":
			default:
				h.Set("Content-Length", fs.CL)
			}
			body = bodyVariant(fs.Body, httpContent)
		}
		if fs.Status/100 == 3 {
			h.Set("Location", "https://elsewhere.example/blob")
		}
		return resp(fs.Status, h, body)
	case "single":
		switch fs.CT {
		case "none":
		case "garbage":
			h.Set("Content-Type", "multipart/;;;=")
		default:
			h.Set("Content-Type", "application/octet-stream")
		}
		if cr, ok := renderCR(fs.CR, first, size); ok {
			h.Set("Content-Range", cr)
		}
		return resp(206, h, bodyVariant(fs.Body, slice(first.b, first.e)))
	case "multi":
		type part = struct {
			cr   string
			body []byte
		}
		mk := func(r region) part {
			return part{fmt.Sprintf("bytes %d-%d/%d", r.b, r.e, size), bodyVariant(fs.Body, slice(r.b, r.e))}
		}
		var parts []part
		for _, r := range regs {
			parts = append(parts, mk(r))
		}
		last := regs[len(regs)-1]
		switch fs.Parts {
		case "exact":
		case "dup-first":
			parts = append([]part{mk(first)}, parts...)
		case "swapped":
			for i, j := 0, len(parts)-1; i < j; i, j = i+1, j-1 {
				parts[i], parts[j] = parts[j], parts[i]
			}
		case "first-covers-all":
			parts[0] = mk(region{first.b, last.e})
		case "shift+1":
			for i, r := range regs {
				parts[i].cr = fmt.Sprintf("bytes %d-%d/%d", r.b+1, r.e+1, size)
			}
		case "begin>end":
			parts[0].cr = fmt.Sprintf("bytes %d-%d/%d", first.e, first.b, size)
		case "end>=size":
			parts[len(parts)-1].cr = fmt.Sprintf("bytes %d-%d/%d", last.b, size+3, size)
		case "no-cr":
			parts[0].cr = "-"
		case "garbage-cr":
			parts[0].cr = "bytes x-y/z"
		case "extra-unrequested":
			parts = append(parts, mk(region{4, 7}))
		case "zero-parts":
			parts = nil
		case "huge-range":
			parts[0].cr = "bytes 0-9223372036854775807/10"
		case "unaligned-begin":
			parts[0].cr = fmt.Sprintf("bytes %d-%d/%d", first.b+1, first.e, size)
		case "all-twice":
			parts = append(parts, parts...)
		}
		boundary := goodBoundary
		switch fs.CT {
		case "multipart-ok":
			h.Set("Content-Type", "multipart/byteranges; boundary="+goodBoundary)
		case "multipart-noboundary":
			h.Set("Content-Type", "multipart/byteranges")
		case "multipart-wrongboundary":
			h.Set("Content-Type", "multipart/byteranges; boundary=OTHER")
		case "multipart-emptyboundary":
			h.Set("Content-Type", `multipart/byteranges; boundary=""`)
			boundary = ""
		case "multipart-longboundary":
			boundary = strings.Repeat("b", 80)
			h.Set("Content-Type", "multipart/byteranges; boundary="+boundary)
		case "octet":
			h.Set("Content-Type", "application/octet-stream")
		case "none":
		}
		body := multipartBody(boundary, parts)
		if fs.Trunc >= 0 && fs.Trunc < len(body) {
			body = body[:fs.Trunc]
		}
		return resp(206, h, body)
	}
	return resp(500, h, nil)
}

// ---- enumeration ---------------------------------------------------------------------

var httpOps = []string{"reads", "readall-after-mid", "cache"}

func enumHTTP(tier string, yield func(func() *Input)) {
	emit := func(sc httpSc) {
		sc2 := sc
		yield(func() *Input {
			j, _ := json.Marshal(sc2)
			return &Input{Desc: "registry script " + string(j), HTTP: &sc2}
		})
	}
	base := httpSc{Redirect: "206:bytes 0-1/10", Head: "200:10", Cfg: "chunk4", Fetch: fetchSpec{Mode: "benign", Trunc: -1}}
	// A. resolve phase: redirect x HEAD x fallback GET
	heads := []string{"200:10", "200:", "200:-1", "200:0", "200:9223372036854775807", "200:99999999999999999999", "200:abc", "200:4", "200:11", "200:3", "404", "405"}
	gets := []string{"200:10", "200:abc", "200:-5", "206:bytes 0-1/10", "206:bytes 0-1/*", "206:bytes 0-1/0", "206:bytes 0-1/9223372036854775807", "206:bytes 0-1/99999999999999999999",
		"206:", "206:garbage", "206:bytes 1-0/10", "206:bytes 0-1/", "416", "500", "302:https://x.example/"}
	for _, red := range []string{"200:10", "206:bytes 0-1/10", "302:https://cdn.example/blob", "302:", "301:/relative", "404", "500", "401"} {
		for _, hd := range heads {
			sgs := []string{""}
			if !strings.HasPrefix(hd, "200:") {
				sgs = gets
			}
			for _, sg := range sgs {
				for _, ops := range httpOps {
					sc := base
					sc.Redirect, sc.Head, sc.SizeGet, sc.Ops = red, hd, sg, ops
					emit(sc)
				}
			}
		}
	}
	cfgs := []string{"chunk4", "chunk4+single-range-mode", "chunk4+prefetch8"}
	// B. single-range replies: Content-Range grammar x body
	var crs []string
	for _, b := range []string{"b", "b+1", "e+1", "0", "size", "b-1"} {
		for _, e := range []string{"e", "e-1", "e+1", "size-1", "size", "size+chunk", "b-1", "max", "over"} {
			for _, s := range []string{"size", "0", "*", "none"} {
				crs = append(crs, b+" "+e+" "+s)
			}
		}
	}
	crs = append(crs, "-", "raw:", "raw:bytes", "raw:bytes -/", "raw:bytes 0-", "raw:bits 0-3/10", "raw:bytes 0-3", "raw:bytes=0-3/10", "raw:bytes  0-3/10", "raw:0-3/10",
		"raw:bytes 00000000000000000000000-3/10", "raw:xbytes 4-7/10 bytes 0-3/10", "raw:bytes -1-3/10", "raw:bytes 0--3/10")
	for _, cr := range crs {
		for _, body := range []string{"exact", "empty", "short", "long"} {
			for _, cfg := range cfgs {
				for _, ops := range httpOps {
					sc := base
					sc.Cfg, sc.Ops = cfg, ops
					sc.Fetch = fetchSpec{Mode: "single", CT: "octet", CR: cr, Body: body, Trunc: -1}
					emit(sc)
				}
			}
		}
	}
	for _, ct := range []string{"none", "garbage"} {
		for _, ops := range httpOps {
			sc := base
			sc.Ops = ops
			sc.Fetch = fetchSpec{Mode: "single", CT: ct, CR: "b e size", Body: "exact", Trunc: -1}
			emit(sc)
		}
	}
	// C. multipart replies
	layouts := []string{"exact", "dup-first", "swapped", "first-covers-all", "shift+1", "begin>end", "end>=size", "no-cr", "garbage-cr", "extra-unrequested", "zero-parts", "huge-range", "unaligned-begin", "all-twice"}
	for _, lay := range layouts {
		for _, body := range []string{"exact", "empty", "short", "long"} {
			for _, ct := range []string{"multipart-ok", "multipart-noboundary", "multipart-wrongboundary", "multipart-emptyboundary", "multipart-longboundary", "octet", "none"} {
				for _, cfg := range cfgs[:2] {
					for _, ops := range httpOps {
						sc := base
						sc.Cfg, sc.Ops = cfg, ops
						sc.Fetch = fetchSpec{Mode: "multi", CT: ct, Parts: lay, Body: body, Trunc: -1}
						emit(sc)
					}
				}
			}
		}
	}
	for cut := 0; cut <= 260; cut++ { // the two-part body is ~250 bytes; every truncation point
		for _, ops := range []string{"readall-after-mid", "reads"} {
			sc := base
			sc.Ops = ops
			sc.Fetch = fetchSpec{Mode: "multi", CT: "multipart-ok", Parts: "exact", Body: "exact", Trunc: cut}
			emit(sc)
		}
	}
	// D. status codes / Content-Length lies
	for _, st := range []int{200, 204, 301, 400, 403, 404, 416, 429, 500, 0, 999} {
		cls := []string{"size"}
		bodies := []string{"exact"}
		if st == 200 {
			cls = []string{"size", "none", "", "0", "-1", "3", "11", "9223372036854775807", "-9223372036854775808", "abc"}
			bodies = []string{"exact", "empty", "short", "long"}
		}
		for _, cl := range cls {
			for _, body := range bodies {
				for _, then := range []string{"", "benign"} {
					for _, probe := range []string{"", "200:10", "302:https://cdn.example/blob2", "404"} {
						if probe != "" && st != 403 {
							continue
						}
						for _, cfg := range cfgs[:2] {
							for _, ops := range httpOps {
								sc := base
								sc.Cfg, sc.Ops, sc.Probe = cfg, ops, probe
								sc.Fetch = fetchSpec{Mode: "status", Status: st, CL: cl, Body: body, Trunc: -1, Then: then}
								emit(sc)
							}
						}
					}
				}
			}
		}
	}
}

// ---- pipeline ------------------------------------------------------------------------------

func runHTTP(c *childCtx, in *Input) {
	sc := in.HTTP
	rt := &fakeRT{sc: sc, hostile: true}
	cfg := config.BlobConfig{ChunkSize: httpChunk, CheckAlways: true, FetchTimeoutSec: 600, MaxRetries: 1}
	if strings.Contains(sc.Cfg, "prefetch8") {
		cfg.PrefetchChunkSize = 8
	}
	if strings.Contains(sc.Cfg, "single-range-mode") {
		cfg.ForceSingleRangeMode = true
	}
	hosts := func(reference.Spec) ([]docker.RegistryHost, error) {
		return []docker.RegistryHost{{Client: &http.Client{Transport: rt}, Host: "reg.example", Scheme: "https", Path: "/v2", Capabilities: docker.HostCapabilityPull}}, nil
	}
	refspec, err := reference.Parse("reg.example/repo/img:latest")
	if err != nil {
		panic("harness: " + err.Error())
	}
	desc := ocispec.Descriptor{Digest: digest.FromBytes(httpContent), Size: int64(len(httpContent)), MediaType: ocispec.MediaTypeImageLayerGzip}
	var blob remote.Blob
	resolver := remote.NewResolver(cfg, nil)
	c.stage("remote.Resolve", func() error {
		c.ops++
		b, err := resolver.Resolve(context.Background(), hosts, refspec, desc, cache.NewMemoryCache())
		if err == nil {
			blob = b
			c.deep = true
		}
		return err
	})
	if blob == nil {
		return
	}
	readAt := func(l int, off int64) {
		c.stage(fmt.Sprintf("remote.op[ReadAt(len=%d,off=%d)]", l, off), func() error {
			c.ops++
			_, err := blob.ReadAt(make([]byte, l), off)
			return err
		})
	}
	cacheOp := func(off, size int64) {
		c.stage(fmt.Sprintf("remote.op[Cache(off=%d,size=%d)]", off, size), func() error {
			c.ops++
			return blob.Cache(off, size)
		})
	}
	size := blob.Size()
	switch sc.Ops {
	case "reads":
		readAt(1, 5)
		readAt(4, 8)
		readAt(11, 0)
		readAt(10, 0)
		readAt(3, 9)
		readAt(1, 10)
		readAt(1, 11)
		if size != int64(len(httpContent)) {
			c.stage("remote.op[ReadAt(len=1,off=size-1)]", func() error { _, err := blob.ReadAt(make([]byte, 1), size-1); return err })
			c.stage("remote.op[ReadAt(len=8,off=size-2)]", func() error { _, err := blob.ReadAt(make([]byte, 8), size-2); return err })
			c.stage("remote.op[ReadAt(len=8,off=size)]", func() error { _, err := blob.ReadAt(make([]byte, 8), size); return err })
		}
	case "readall-after-mid":
		rt.hostile = false
		readAt(4, 4)
		rt.hostile = true
		rt.fetches = 0
		readAt(10, 0)
		readAt(10, 0)
		readAt(2, 3)
	case "cache":
		cacheOp(0, 10)
		cacheOp(4, 4)
		cacheOp(0, 11)
		cacheOp(8, 100)
		cacheOp(0, 0)
		readAt(10, 0)
	}
	c.stage("remote.op[Check]", func() error { c.ops++; return blob.Check() })
	c.stage("remote.op[Refresh]", func() error {
		c.ops++
		return blob.Refresh(context.Background(), hosts, refspec, desc)
	})
	c.stage("remote.op[FetchedSize]", func() error { c.ops++; _ = blob.FetchedSize(); _ = blob.Size(); return nil })
	readAt(4, 0)
	c.stage("remote.op[Close]", func() error { return blob.Close() })
}
