package main

// Part passthrough-merge: FUSE passthrough on PRISTINE blobs. GetPassthroughFd merges the chunks of a file into
// one cache entry, batch by batch (mergeBufferSize bytes of file offsets per batch, mergeWorkerCount workers).
// Inputs: tiny valid eStargz blobs built by estargz.Build x mergeBufferSize x mergeWorkerCount; oracle: no crash,
// no hang, and the bytes behind the returned fd are the file's bytes.

import (
	"archive/tar"
	"bytes"
	"compress/gzip"
	"fmt"
	"io"
	"os"
	"path/filepath"

	"github.com/containerd/stargz-snapshotter/cache"
	"github.com/containerd/stargz-snapshotter/estargz"
	fsreader "github.com/containerd/stargz-snapshotter/fs/reader"
	memorymeta "github.com/containerd/stargz-snapshotter/metadata/memory"
	digest "github.com/opencontainers/go-digest"
)

type ptCase struct {
	CS      int   // estargz chunk size
	Sizes   []int // file sizes (files f0, f1, ...)
	MBS     int64 // mergeBufferSize
	Workers int   // mergeWorkerCount
}

type wrongBytes struct{ msg string }

func (w wrongBytes) Error() string { return w.msg }

func ptContent(file, size int) []byte {
	b := make([]byte, size)
	for i := range b {
		b[i] = byte('A' + (i*7+file*13)%50)
	}
	return b
}

var ptBlobs = map[string][]byte{}

func ptBlob(cs int, sizes []int) []byte {
	key := fmt.Sprint(cs, sizes)
	if b, ok := ptBlobs[key]; ok {
		return b
	}
	var tb bytes.Buffer
	tw := tar.NewWriter(&tb)
	for i, s := range sizes {
		tw.WriteHeader(&tar.Header{Typeflag: tar.TypeReg, Name: fmt.Sprintf("f%d", i), Mode: 0644, Size: int64(s)})
		tw.Write(ptContent(i, s))
	}
	tw.Close()
	blob, err := estargz.Build(sectionOf(tb.Bytes()), estargz.WithChunkSize(cs), estargz.WithCompressionLevel(gzip.BestSpeed))
	if err != nil {
		panic("harness: estargz.Build of a valid tar failed: " + err.Error())
	}
	defer blob.Close()
	b, err := io.ReadAll(blob)
	if err != nil {
		panic("harness: reading the built blob failed: " + err.Error())
	}
	ptBlobs[key] = b
	return b
}

func enumPassthrough(tier string, yield func(func() *Input)) {
	emit := func(cs int, sizes []int, mbs int64, w int) {
		sizes = append([]int{}, sizes...)
		yield(func() *Input {
			return &Input{Desc: fmt.Sprintf("pristine eStargz blob built by estargz.Build(chunkSize=%d) with files of %v bytes; GetPassthroughFd(mergeBufferSize=%d, mergeWorkerCount=%d)", cs, sizes, mbs, w),
				PT: &ptCase{CS: cs, Sizes: sizes, MBS: mbs, Workers: w}}
		})
	}
	for _, cs := range []int{3, 8} {
		for size := 1; size <= 2*cs+3; size++ {
			for mbs := 1; mbs <= 2*cs+2; mbs++ {
				for w := 1; w <= 3; w++ {
					emit(cs, []int{size}, int64(mbs), w)
				}
			}
		}
	}
	for _, cs := range []int{3, 8} {
		for mbs := 1; mbs <= 2*cs+2; mbs++ {
			for w := 1; w <= 3; w++ {
				emit(cs, []int{2*cs + 1, cs + 2}, int64(mbs), w)
			}
		}
	}
}

func runPassthrough(c *childCtx, in *Input) {
	pt := in.PT
	blob := ptBlob(pt.CS, pt.Sizes)
	mr, err := memorymeta.NewReader(sectionOf(blob))
	if err != nil {
		panic("harness: the pristine blob does not open: " + err.Error())
	}
	c.deep = true
	// The harness' reading of the chunk layout (through the public metadata API): the merge works on batches of
	// mergeBufferSize bytes of file offsets; a chunk that lies across a batch boundary does not fit into the batch
	// buffer when it is copied as a whole. Only used to avoid re-running an already confirmed process death.
	ids := make([]uint32, len(pt.Sizes))
	straddles := false
	for i, size := range pt.Sizes {
		id, _, err := mr.GetChild(mr.RootID(), fmt.Sprintf("f%d", i))
		if err != nil {
			panic("harness: file missing in the pristine blob: " + err.Error())
		}
		ids[i] = id
		f, err := mr.OpenFile(id)
		if err != nil {
			panic("harness: " + err.Error())
		}
		large := false
		type ch struct{ off, size int64 }
		var chunks []ch
		for off := int64(0); off < int64(size); {
			co, cs, _, ok := f.ChunkEntryForOffset(off)
			if !ok || cs <= 0 {
				break
			}
			chunks = append(chunks, ch{co, cs})
			if cs > pt.MBS {
				large = true
			}
			off = co + cs
		}
		if !large {
			for _, k := range chunks {
				if k.off/pt.MBS != (k.off+k.size-1)/pt.MBS {
					straddles = true
				}
			}
		}
	}
	if straddles {
		c.pred["fsreader.passthrough-merge"] = "chunk-across-merge-buffer-boundary"
	}
	c.stage("fsreader.passthrough-merge", func() error {
		dir := filepath.Join(c.caseDir, "cache")
		dc, err := cache.NewDirectoryCache(dir, cache.DirectoryCacheConfig{Direct: true, SyncAdd: true})
		if err != nil {
			panic("harness: directory cache: " + err.Error())
		}
		vr, err := fsreader.NewReader(mr, dc, digest.FromBytes(blob))
		if err != nil {
			return err
		}
		defer vr.Close()
		rdr := vr.SkipVerify()
		for i, size := range pt.Sizes {
			c.ops++
			ra, err := rdr.OpenFile(ids[i])
			if err != nil {
				return err
			}
			pg, ok := ra.(fsreader.PassthroughFdGetter)
			if !ok {
				panic("harness: file does not implement PassthroughFdGetter")
			}
			_, cr, err := pg.GetPassthroughFd(pt.MBS, pt.Workers)
			if err != nil {
				return err
			}
			got := make([]byte, size+8)
			n, rerr := cr.GetReaderAt().(*os.File).ReadAt(got, 0)
			cr.Close()
			if rerr != nil && rerr != io.EOF {
				return rerr
			}
			if want := ptContent(i, size); !bytes.Equal(got[:n], want) {
				return wrongBytes{fmt.Sprintf("file f%d: the passthrough fd holds %d bytes %q, the file is %d bytes %q", i, n, got[:n], size, want)}
			}
		}
		return nil
	})
}
