package main

// Two small additional families:
//
//   A-large-chunks : files of a few hundred bytes with chunk sizes >= 50, so that a file has
//                    several chunks at chunk offsets >= 64 (the db store keys the 2nd.. chunks by a
//                    varint of the chunk offset; from 64 on the key needs two bytes and bolt's
//                    byte order is no longer the numeric order).
//   C-clone-first  : the call sequence NewReader -> Clone -> use the CLONE first, with no call on
//                    the original in between (fs/reader Cache(WithReader(..))), on a DB opened the
//                    way production opens it (default MaxBatchDelay), incl. a TOC with hundreds of
//                    entries whose background initialisation takes a while.

import (
	"archive/tar"
	"fmt"
	"path/filepath"
	"runtime/debug"
	"strings"
	"time"

	bolt "go.etcd.io/bbolt"

	"verif/lib/runner"
)

func patternData(n int) string {
	b := make([]byte, n)
	for i := range b {
		b[i] = byte('A' + (i*31+i/50)%57)
	}
	return string(b)
}

type builtCase struct {
	ents []tEnt
	o    bopt
}

func largeCases() []builtCase {
	var l []builtCase
	mk := func(size int) []tEnt {
		return []tEnt{
			{Label: fmt.Sprintf("large%d", size), Name: "big", Type: tar.TypeReg, Data: patternData(size), Mode: 0o644},
			{Label: "small", Name: "f", Type: tar.TypeReg, Data: "hello", Mode: 0o644},
		}
	}
	for _, size := range []int{130, 330, 700} {
		for _, chunk := range []int{50, 64, 129} {
			l = append(l, builtCase{mk(size), bopt{Via: "build", Comp: "gzip", Chunk: chunk}})
		}
	}
	l = append(l,
		builtCase{mk(330), bopt{Via: "build", Comp: "zstd", Chunk: 50}},
		builtCase{mk(330), bopt{Via: "build", Comp: "gzip", Chunk: 50, MinChunk: 100}},
		builtCase{mk(700), bopt{Via: "writer", Comp: "gzip", Chunk: 64, MinChunk: 100}},
	)
	return l
}

func builtCaseIn(bc builtCase) (caseIn, error) {
	label := describeTar(bc.ents) + " built " + bc.o.String()
	blob, dg, err := buildBlob(makeTar(bc.ents), bc.ents, bc.o)
	if err != nil {
		return caseIn{Label: label}, err
	}
	grid := gridFull
	if bc.o.Comp == "zstd" {
		grid = gridReduced
	}
	return caseIn{Label: label, Blob: blob, BuilderDigest: dg, Truth: truthOf(bc.ents), Grid: grid}, nil
}

func partLarge() runner.Part {
	return runner.Part{
		Name:   "A-large-chunks",
		Shards: 1,
		Run: func(c *runner.Ctx) *runner.Result {
			debug.SetMaxStack(64 << 20)
			useScratch(c)
			t := newTally()
			db, err := openDB(c.Scratch)
			if err != nil {
				return &runner.Result{Broken: err.Error()}
			}
			defer db.Close()
			cases := largeCases()
			for idx, bc := range cases {
				in, err := builtCaseIn(bc)
				if err != nil {
					t.res.Broken = fmt.Sprintf("builder refused %s: %v", in.Label, err)
					return t.res
				}
				out := runCase(db, in, map[string]any{"part": "A-large-chunks", "index": idx})
				if out.Broken == "" && !out.Feat["observed: multi-chunk file"] && out.Outcome != "both reject" {
					t.res.Broken = "large-chunk input without a multi-chunk file: " + in.Label
					return t.res
				}
				if !t.add(in, out) {
					break
				}
			}
			t.res.Extra = map[string]any{"cases": len(cases), "file_sizes": []int{130, 330, 700}, "chunk_sizes": []int{50, 64, 129}}
			return t.res
		},
		Replay: replayFn,
	}
}

// ---------------------------------------------------------------- clone first

func cloneFirstCases() []builtCase {
	a := tarAlphabet()
	by := func(l string) tEnt {
		for _, e := range a {
			if e.Label == l {
				return e
			}
		}
		panic(l)
	}
	var many []tEnt
	for d := 0; d < 24; d++ {
		dn := fmt.Sprintf("dir%02d/", d)
		many = append(many, tEnt{Label: "dir", Name: dn, Type: tar.TypeDir, Mode: 0o755, UID: d})
		for f := 0; f < 12; f++ {
			e := tEnt{Label: "file", Name: fmt.Sprintf("%sfile%02d", dn, f), Type: tar.TypeReg, Data: fmt.Sprintf("payload-%d-%d", d, f), Mode: 0o644, MTime: int64(1600000000 + d*100 + f)}
			if f%5 == 0 {
				e.Xattrs = map[string]string{"user.k": fmt.Sprint(d, f)}
			}
			many = append(many, e)
		}
		many = append(many, tEnt{Label: "symlink", Name: dn + "link", Type: tar.TypeSymlink, Link: "file00", Mode: 0o777},
			tEnt{Label: "hardlink", Name: dn + "hl", Type: tar.TypeLink, Link: dn + "file01", Mode: 0o644})
	}
	return []builtCase{
		{[]tEnt{by("small")}, bopt{Via: "build", Comp: "gzip", Chunk: 8}},
		{[]tEnt{by("dir"), by("big-nested"), by("small"), by("hardlink")}, bopt{Via: "build", Comp: "gzip", Chunk: 3}},
		{[]tEnt{by("small"), by("xattr-file"), by("symlink"), by("chardev")}, bopt{Via: "build", Comp: "gzip", Chunk: 8, MinChunk: 100}},
		{[]tEnt{by("dir"), by("big-nested"), by("empty")}, bopt{Via: "build", Comp: "zstd", Chunk: 8}},
		{[]tEnt{by("big-nested"), by("dir-again"), by("hardlink2-nested"), by("small"), by("hardlink")}, bopt{Via: "writer", Comp: "gzip", Chunk: 3}},
		{many, bopt{Via: "build", Comp: "gzip", Chunk: 8}},
	}
}

// openProdDB opens bolt the way fusemanager/service.go does: in particular with the
// default MaxBatchDelay, so db.Batch commits of the background init are delayed as in production.
func openProdDB(dir string, zeroDelay bool) (*bolt.DB, error) {
	db, err := bolt.Open(filepath.Join(dir, "metadata-prod.db"), 0o600, &bolt.Options{
		NoFreelistSync: true, FreelistType: bolt.FreelistMapType, NoSync: true,
	})
	if err != nil {
		return nil, err
	}
	if zeroDelay {
		db.MaxBatchDelay = 0
	}
	return db, nil
}

// cloneFirst: open both stores, clone at once, observe the clones before anything is
// asked of the originals, then the originals.
func cloneFirst(db *bolt.DB, in caseIn, grid int, replay any) (out caseOut) {
	out.Feat = map[string]bool{}
	toc, _ := extractTOC(in.Blob)
	viol := func(kind, p, mem, dbv, note string) {
		key := "C05/clone-before-init/" + kind
		_ = toc
		msg := fmt.Sprintf("call sequence NewReader -> Clone -> observe the clone first (nothing asked of the original)\ninput: %s\n%s\nobservation %q at path %q\n  memory store clone: %s\n  db store clone:     %s",
			clip(in.Label, 400), clip(showBlobTOC(in.Blob), 600), kind, "/"+p, clip(mem, 700), clip(dbv, 700))
		if note != "" {
			msg += "\n" + note
		}
		out.Viol = append(out.Viol, runner.Violation{Key: key, Msg: msg, Replay: replay})
	}
	if n := len(fsBuckets(db)); n != 0 {
		out.Broken = fmt.Sprintf("DB not empty before case: %d filesystem buckets", n)
		return
	}
	m := openMemNoProbe(in.Blob)
	d := openDBNoProbe(db, in.Blob)
	defer func() {
		if d.r != nil {
			d.r.Close()
		}
		dropAllFS(db)
	}()
	if !m.accept || !d.accept {
		out.Outcome = "NewReader failed (not an input of this part)"
		out.Broken = fmt.Sprintf("clone-first input not accepted: mem=%q db=%q (%s)", m.why, d.why, in.Label)
		return
	}
	mc, merr := m.r.Clone(sectionOf(in.Blob))
	dc, derr := d.r.Clone(sectionOf(in.Blob))
	if merr != nil || derr != nil {
		out.Outcome = "Clone failed"
		viol("clone-error", "", fmt.Sprint(merr), fmt.Sprint(derr), "")
		return
	}
	dco := observe(dc, grid) // the db clone first: its original is still initialising in the background
	mco := observe(mc, grid)
	out.ObsDigest = mco.digest()
	out.Nontrivial = mco.nodes > 1
	known := map[string]bool{}
	diffs := compare(mco, dco)
	if len(diffs) > 0 {
		// is it a disagreement the originals have as well (then it is not about the call sequence)?
		for _, df := range compare(observe(m.r, grid), observe(d.r, grid)) {
			known[df.Kind] = true
		}
	}
	for _, df := range diffs {
		if known[df.Kind] {
			out.Feat["clone-first: disagreement also present on the originals ("+df.Kind+"), reported by the other parts"] = true
			continue
		}
		viol(df.Kind, df.Path, df.Mem, df.DB, "")
	}
	// afterwards the clone must still equal its original
	if len(out.Viol) == 0 {
		for _, df := range compare(observe(d.r, grid), observe(dc, grid)) {
			viol("self-"+df.Kind, df.Path, "db original: "+df.Mem, "db clone: "+df.DB, "(db clone differs from its own original)")
			break
		}
	}
	out.Outcome = "clone used first: same observations in both stores"
	if len(out.Viol) > 0 {
		out.Outcome = "clone used first: observations differ"
	}
	out.Sample = map[string]any{"sequence": "NewReader, Clone, walk(clone), walk(original)", "input": clip(in.Label, 300), "nodes": mco.nodes, "observation_keys": len(mco.keys)}
	return
}

func openMemNoProbe(blob []byte) opened { return openMem(blob) }

// openDBNoProbe is openDBStore without the GetOffset(root) call that waits for the init.
func openDBNoProbe(db *bolt.DB, blob []byte) (o opened) {
	defer func() {
		if p := recover(); p != nil {
			o = opened{why: fmt.Sprintf("panic: %v", p)}
		}
	}()
	r, err := newDBReader(db, blob)
	if err != nil {
		return opened{why: err.Error()}
	}
	return opened{r: r, accept: true}
}

func cloneFirstRun(c *runner.Ctx, idx int, replay any) (caseIn, []caseOut, error) {
	cases := cloneFirstCases()
	if idx < 0 || idx >= len(cases) {
		return caseIn{}, nil, fmt.Errorf("no such case")
	}
	in, err := builtCaseIn(cases[idx])
	if err != nil {
		return in, nil, err
	}
	grid := gridReduced
	if len(cases[idx].ents) > 50 || cases[idx].o.Comp == "zstd" {
		grid = gridNone // metadata only: tree walk, attrs, TOC digest
	}
	var outs []caseOut
	for _, zero := range []bool{false, true} {
		dir := filepath.Join(c.Scratch, fmt.Sprintf("prod-%d-%v", idx, zero))
		if err := mkdirAll(dir); err != nil {
			return in, nil, err
		}
		db, err := openProdDB(dir, zero)
		if err != nil {
			return in, nil, err
		}
		in2 := in
		in2.Label = fmt.Sprintf("%s [bolt MaxBatchDelay=%v]", clip(in.Label, 300), db.MaxBatchDelay)
		outs = append(outs, cloneFirst(db, in2, grid, replay))
		db.Close()
		removeAll(dir)
	}
	return in, outs, nil
}

func partCloneFirst() runner.Part {
	return runner.Part{
		Name:   "C-clone-first",
		Shards: 1,
		Run: func(c *runner.Ctx) *runner.Result {
			debug.SetMaxStack(64 << 20)
			useScratch(c)
			t := newTally()
			n := len(cloneFirstCases())
			for idx := 0; idx < n; idx++ {
				if time.Now().After(c.Deadline) {
					t.res.Caps = append(t.res.Caps, fmt.Sprintf("time budget: stopped at case %d of %d", idx, n))
					break
				}
				in, outs, err := cloneFirstRun(c, idx, map[string]any{"part": "C-clone-first", "index": idx})
				if err != nil {
					t.res.Broken = fmt.Sprintf("clone-first case %d (%s): %v", idx, clip(in.Label, 200), err)
					return t.res
				}
				for _, out := range outs {
					t.res.Transitions += 2 // the two Clone calls
					if !t.add(in, out) {
						return t.res
					}
				}
			}
			t.res.Extra = map[string]any{"cases": n, "db_configs": "production MaxBatchDelay (10ms) and 0", "largest_toc_entries": len(cloneFirstCases()[n-1].ents)}
			return t.res
		},
		Replay: replayFn,
	}
}

func replayExtra(c *runner.Ctx, part string, idx int) (string, error) {
	useScratch(c)
	switch part {
	case "A-large-chunks":
		cases := largeCases()
		if idx < 0 || idx >= len(cases) {
			return "", fmt.Errorf("no such case")
		}
		in, err := builtCaseIn(cases[idx])
		if err != nil {
			return "", err
		}
		db, err := openDB(c.Scratch)
		if err != nil {
			return "", err
		}
		defer db.Close()
		out := runCase(db, in, nil)
		return in.Label, violErr(out)
	case "C-clone-first":
		in, outs, err := cloneFirstRun(c, idx, nil)
		if err != nil {
			return "", err
		}
		for _, out := range outs {
			if e := violErr(out); e != nil {
				return in.Label, e
			}
		}
		return clip(in.Label, 300), nil
	}
	return "", fmt.Errorf("unknown part %q", part)
}

func violErr(out caseOut) error {
	if out.Broken != "" {
		return fmt.Errorf("broken: %s", out.Broken)
	}
	if len(out.Viol) == 0 {
		return nil
	}
	var s []string
	for _, v := range out.Viol {
		s = append(s, v.Key+"\n"+v.Msg)
	}
	return fmt.Errorf("%s", strings.Join(s, "\n"))
}
