package main

// Input generation for C05: (A) tars fed to the real builder, (B) hand-assembled
// TOCs wrapped into a valid eStargz gzip blob, plus a from-the-spec TOC
// extractor used to classify the shape of an input (for violation keys).

import (
	"archive/tar"
	"bytes"
	"compress/gzip"
	"crypto/sha256"
	"encoding/binary"
	"encoding/hex"
	"encoding/json"
	"fmt"
	"io"
	"sort"
	"strconv"
	"strings"
	"time"

	"github.com/containerd/stargz-snapshotter/estargz"
	"github.com/containerd/stargz-snapshotter/estargz/zstdchunked"
	"github.com/klauspost/compress/zstd"
)

// ---------------------------------------------------------------- part A: tars

type tEnt struct {
	Label  string            `json:"label"`
	Name   string            `json:"name"`
	Type   byte              `json:"type"`
	Link   string            `json:"link,omitempty"`
	Data   string            `json:"data,omitempty"`
	Mode   int64             `json:"mode"`
	UID    int               `json:"uid,omitempty"`
	GID    int               `json:"gid,omitempty"`
	MTime  int64             `json:"mtime,omitempty"`
	Xattrs map[string]string `json:"xattrs,omitempty"`
	Maj    int64             `json:"maj,omitempty"`
	Min    int64             `json:"min,omitempty"`
}

// tarAlphabet is the entry alphabet of part A. Sequences over it (with
// repetition, order significant) are enumerated shortest first.
func tarAlphabet() []tEnt {
	return []tEnt{
		{Label: "dir", Name: "d/", Type: tar.TypeDir, Mode: 0o755},
		{Label: "empty", Name: "e", Type: tar.TypeReg, Mode: 0o644},
		{Label: "small", Name: "f", Type: tar.TypeReg, Data: "hello", Mode: 0o644},
		{Label: "big-nested", Name: "d/g", Type: tar.TypeReg, Data: "0123456789abcdefg", Mode: 0o600, MTime: 1700000000},
		{Label: "symlink", Name: "s", Type: tar.TypeSymlink, Link: "d/g", Mode: 0o777},
		{Label: "hardlink", Name: "l", Type: tar.TypeLink, Link: "f", Mode: 0o644},
		{Label: "hardlink2-nested", Name: "d/m", Type: tar.TypeLink, Link: "l", Mode: 0o644},
		{Label: "chardev", Name: "c", Type: tar.TypeChar, Mode: 0o620, Maj: 1, Min: 5},
		{Label: "xattr-file", Name: "x", Type: tar.TypeReg, Data: "xy", Mode: 0o4755, UID: 1000, GID: 1001, MTime: 1600000000,
			Xattrs: map[string]string{"user.a": "v", "user.e": "", "security.capability": "\x01\x00\x00\x02"}},
		{Label: "dir-again", Name: "d/", Type: tar.TypeDir, Mode: 0o1700, UID: 7, GID: 8, MTime: 1000, Xattrs: map[string]string{"user.d": "1"}},
		{Label: "small-again", Name: "f", Type: tar.TypeReg, Data: "HELLOWORLD", Mode: 0o600, UID: 3},
		{Label: "root", Name: "./", Type: tar.TypeDir, Mode: 0o750, UID: 9, MTime: 5000},
		// (block devices and fifos: part B, baseline/mixed)
	}
}

func makeTar(ents []tEnt) []byte {
	var buf bytes.Buffer
	tw := tar.NewWriter(&buf)
	for _, e := range ents {
		h := &tar.Header{Name: e.Name, Typeflag: e.Type, Linkname: e.Link, Mode: e.Mode, Uid: e.UID, Gid: e.GID,
			Devmajor: e.Maj, Devminor: e.Min, Format: tar.FormatPAX}
		if e.MTime != 0 {
			h.ModTime = time.Unix(e.MTime, 0).UTC()
		}
		if e.Type == tar.TypeReg {
			h.Size = int64(len(e.Data))
		}
		if len(e.Xattrs) > 0 {
			h.PAXRecords = map[string]string{}
			for k, v := range e.Xattrs {
				h.PAXRecords["SCHILY.xattr."+k] = v
			}
		}
		if err := tw.WriteHeader(h); err != nil {
			panic(fmt.Sprintf("tar header %+v: %v", e, err))
		}
		if e.Type == tar.TypeReg {
			tw.Write([]byte(e.Data))
		}
	}
	tw.Close()
	return buf.Bytes()
}

// bopt selects how the real builder is driven.
type bopt struct {
	Via      string `json:"via"`  // "build" (estargz.Build) | "writer" (estargz.Writer.AppendTar)
	Comp     string `json:"comp"` // gzip | zstd
	Chunk    int    `json:"chunk"`
	MinChunk int    `json:"minchunk"`
	Prio     bool   `json:"prio,omitempty"` // prioritize the first regular file / hardlink
}

func (o bopt) String() string {
	return fmt.Sprintf("%s/%s/chunk%d/min%d/prio=%v", o.Via, o.Comp, o.Chunk, o.MinChunk, o.Prio)
}

type zstdCompression struct {
	*zstdchunked.Compressor
	*zstdchunked.Decompressor
}

var sharedZstd = &zstdCompression{&zstdchunked.Compressor{CompressionLevel: zstd.SpeedFastest}, &zstdchunked.Decompressor{}}

func buildBlob(tarBytes []byte, ents []tEnt, o bopt) (blob []byte, builderTOCDigest string, err error) {
	defer func() {
		if r := recover(); r != nil {
			err = fmt.Errorf("builder panic: %v", r)
		}
	}()
	switch o.Via {
	case "build":
		opts := []estargz.Option{estargz.WithChunkSize(o.Chunk), estargz.WithMinChunkSize(o.MinChunk), estargz.WithParallelism(1)}
		if o.Comp == "zstd" {
			opts = append(opts, estargz.WithCompression(sharedZstd))
		} else {
			opts = append(opts, estargz.WithCompressionLevel(gzip.BestSpeed))
		}
		if o.Prio {
			var p []string
			for _, e := range ents {
				if e.Type == tar.TypeReg || e.Type == tar.TypeLink {
					p = append(p, e.Name)
					break
				}
			}
			if len(p) == 0 {
				return nil, "", fmt.Errorf("nothing to prioritize")
			}
			opts = append(opts, estargz.WithPrioritizedFiles(p))
		}
		b, err := estargz.Build(io.NewSectionReader(bytes.NewReader(tarBytes), 0, int64(len(tarBytes))), opts...)
		if err != nil {
			return nil, "", err
		}
		defer b.Close()
		out, err := io.ReadAll(b)
		if err != nil {
			return nil, "", err
		}
		return out, b.TOCDigest().String(), nil
	case "writer":
		var buf bytes.Buffer
		var w *estargz.Writer
		if o.Comp == "zstd" {
			w = estargz.NewWriterWithCompressor(&buf, sharedZstd)
		} else {
			w = estargz.NewWriterLevel(&buf, gzip.BestSpeed)
		}
		w.ChunkSize = o.Chunk
		w.MinChunkSize = o.MinChunk
		if err := w.AppendTar(bytes.NewReader(tarBytes)); err != nil {
			return nil, "", err
		}
		d, err := w.Close()
		if err != nil {
			return nil, "", err
		}
		return buf.Bytes(), d.String(), nil
	}
	return nil, "", fmt.Errorf("unknown via %q", o.Via)
}

// ---------------------------------------------------------------- part B: hand-made TOCs

type hEnt struct {
	Name     string            `json:"name"`
	Type     string            `json:"type"`
	Data     string            `json:"data,omitempty"`  // payload of a reg entry
	Chunk    int               `json:"chunk,omitempty"` // split Data into chunks of this size (0: one chunk)
	Join     bool              `json:"join,omitempty"`  // first chunk continues the previous gzip member (innerOffset>0)
	JoinAll  bool              `json:"joinall,omitempty"`
	Mode     int64             `json:"mode,omitempty"`
	UID      int               `json:"uid,omitempty"`
	GID      int               `json:"gid,omitempty"`
	ModTime  string            `json:"modtime,omitempty"`
	LinkName string            `json:"linkName,omitempty"`
	Xattrs   map[string]string `json:"xattrs,omitempty"`
	DevMajor int               `json:"devMajor,omitempty"`
	DevMinor int               `json:"devMinor,omitempty"`
	NoDigest bool              `json:"nodigest,omitempty"`
	Extra    string            `json:"extra,omitempty"` // raw `"k":v` JSON appended to the entry object
}

type hTOC struct {
	Family        string `json:"family"`
	Name          string `json:"name"`
	Ents          []hEnt `json:"ents"`
	Leading       string `json:"leading,omitempty"`
	Trailing      string `json:"trailing,omitempty"`
	PadTo         int    `json:"padto,omitempty"`          // pad the JSON value with inner whitespace up to this many bytes
	EntriesFirst  bool   `json:"entries_first,omitempty"`  // emit "entries" before "version"
	NonConforming string `json:"non_conforming,omitempty"` // reason; only accept/reject is compared
}

func jstr(s string) string {
	b, _ := json.Marshal(s)
	return string(b)
}

func sha(b []byte) string {
	h := sha256.Sum256(b)
	return "sha256:" + hex.EncodeToString(h[:])
}

func gzMember(data []byte) []byte {
	var b bytes.Buffer
	zw, _ := gzip.NewWriterLevel(&b, gzip.BestSpeed)
	zw.Write(data)
	zw.Close()
	return b.Bytes()
}

// footer51 writes the eStargz footer exactly as docs/estargz.md lays it out.
func footer51(tocOff int64) []byte {
	var b bytes.Buffer
	zw, _ := gzip.NewWriterLevel(&b, gzip.NoCompression)
	sub := []byte(fmt.Sprintf("%016xSTARGZ", tocOff))
	extra := []byte{'S', 'G'}
	var l [2]byte
	binary.LittleEndian.PutUint16(l[:], uint16(len(sub)))
	extra = append(extra, l[:]...)
	extra = append(extra, sub...)
	zw.Header.Extra = extra
	zw.Close()
	if b.Len() != 51 {
		panic(fmt.Sprintf("footer is %d bytes", b.Len()))
	}
	return b.Bytes()
}

// assemble renders the TOC JSON of t and wraps it, with synthesized payload
// members, into an eStargz gzip blob.
func assemble(t hTOC) (blob []byte, tocJSON []byte) {
	var out bytes.Buffer
	// first member: stands for the leading tar header so that payload offsets are > 0
	out.Write(gzMember(make([]byte, 512)))

	type piece struct {
		ent, idx         int
		data             []byte
		newMember        bool
		offset, inner    int64
		chunkOff, chunkS int64
	}
	var pieces []*piece
	for i, e := range t.Ents {
		if e.Type != "reg" || len(e.Data) == 0 {
			continue
		}
		cs := e.Chunk
		if cs <= 0 {
			cs = len(e.Data)
		}
		for off, k := 0, 0; off < len(e.Data); off, k = off+cs, k+1 {
			end := off + cs
			if end > len(e.Data) {
				end = len(e.Data)
			}
			p := &piece{ent: i, idx: k, data: []byte(e.Data[off:end]), chunkOff: int64(off), chunkS: int64(end - off)}
			p.newMember = !((k == 0 && e.Join) || (k > 0 && e.JoinAll))
			if len(pieces) == 0 {
				p.newMember = true
			}
			pieces = append(pieces, p)
		}
	}
	for i := 0; i < len(pieces); {
		j := i + 1
		for j < len(pieces) && !pieces[j].newMember {
			j++
		}
		var member []byte
		start := int64(out.Len())
		for _, p := range pieces[i:j] {
			p.offset = start
			p.inner = int64(len(member))
			member = append(member, p.data...)
		}
		// a real member continues with tar padding and the next header
		member = append(member, make([]byte, 16)...)
		out.Write(gzMember(member))
		i = j
	}

	var ents []string
	for i, e := range t.Ents {
		var f []string
		add := func(k, v string) { f = append(f, jstr(k)+":"+v) }
		add("name", jstr(e.Name))
		if e.Type != "" {
			add("type", jstr(e.Type))
		}
		if e.Type == "reg" && len(e.Data) > 0 {
			add("size", strconv.Itoa(len(e.Data)))
		}
		if e.ModTime != "" {
			add("modtime", jstr(e.ModTime))
		}
		if e.LinkName != "" {
			add("linkName", jstr(e.LinkName))
		}
		add("mode", strconv.FormatInt(e.Mode, 10))
		add("uid", strconv.Itoa(e.UID))
		add("gid", strconv.Itoa(e.GID))
		if e.DevMajor != 0 || e.DevMinor != 0 || e.Type == "char" || e.Type == "block" {
			add("devMajor", strconv.Itoa(e.DevMajor))
			add("devMinor", strconv.Itoa(e.DevMinor))
		}
		if e.Xattrs != nil {
			keys := make([]string, 0, len(e.Xattrs))
			for k := range e.Xattrs {
				keys = append(keys, k)
			}
			sort.Strings(keys)
			var xs []string
			for _, k := range keys {
				b, _ := json.Marshal([]byte(e.Xattrs[k])) // base64 string, "" for empty
				xs = append(xs, jstr(k)+":"+string(b))
			}
			add("xattrs", "{"+strings.Join(xs, ",")+"}")
		}
		if e.Type == "reg" && !e.NoDigest {
			add("digest", jstr(sha([]byte(e.Data))))
		}
		var chunks []*piece
		for _, p := range pieces {
			if p.ent == i {
				chunks = append(chunks, p)
			}
		}
		if len(chunks) > 0 {
			p := chunks[0]
			add("offset", strconv.FormatInt(p.offset, 10))
			if p.inner != 0 {
				add("innerOffset", strconv.FormatInt(p.inner, 10))
			}
			if len(chunks) > 1 {
				add("chunkSize", strconv.FormatInt(p.chunkS, 10))
			}
			add("chunkDigest", jstr(sha(p.data)))
		}
		if e.Extra != "" {
			f = append(f, e.Extra)
		}
		ents = append(ents, "{"+strings.Join(f, ",")+"}")
		for k, p := range chunks {
			if k == 0 {
				continue
			}
			var c []string
			c = append(c, `"name":`+jstr(e.Name), `"type":"chunk"`, `"offset":`+strconv.FormatInt(p.offset, 10),
				`"chunkOffset":`+strconv.FormatInt(p.chunkOff, 10))
			if k < len(chunks)-1 {
				c = append(c, `"chunkSize":`+strconv.FormatInt(p.chunkS, 10))
			} else {
				c = append(c, `"chunkSize":0`)
			}
			if p.inner != 0 {
				c = append(c, `"innerOffset":`+strconv.FormatInt(p.inner, 10))
			}
			c = append(c, `"chunkDigest":`+jstr(sha(p.data)))
			ents = append(ents, "{"+strings.Join(c, ",")+"}")
		}
	}
	var js string
	if t.EntriesFirst {
		js = `{"entries":[` + strings.Join(ents, ",") + `],"version":1`
	} else {
		js = `{"version":1,"entries":[` + strings.Join(ents, ",") + `]`
	}
	if pad := t.PadTo - len(js) - 1; pad > 0 {
		js += strings.Repeat(" ", pad)
	}
	js += "}"
	tocJSON = []byte(t.Leading + js + t.Trailing)

	tocOff := int64(out.Len())
	var tb bytes.Buffer
	zw, _ := gzip.NewWriterLevel(&tb, gzip.BestSpeed)
	tw := tar.NewWriter(zw)
	tw.WriteHeader(&tar.Header{Typeflag: tar.TypeReg, Name: "stargz.index.json", Size: int64(len(tocJSON))})
	tw.Write(tocJSON)
	tw.Close()
	zw.Close()
	out.Write(tb.Bytes())
	out.Write(footer51(tocOff))
	return out.Bytes(), tocJSON
}

const t1 = "2020-01-02T03:04:05Z"

func handmadeTOCs() []hTOC {
	var l []hTOC
	add := func(fam, name string, ents ...hEnt) *hTOC {
		l = append(l, hTOC{Family: fam, Name: name, Ents: ents})
		return &l[len(l)-1]
	}
	reg := func(name, data string) hEnt { return hEnt{Name: name, Type: "reg", Data: data, Mode: 0o644} }
	dir := func(name string) hEnt { return hEnt{Name: name, Type: "dir", Mode: 0o755} }
	hl := func(name, to string) hEnt { return hEnt{Name: name, Type: "hardlink", LinkName: to} }
	with := func(e hEnt, f func(*hEnt)) hEnt { f(&e); return e }

	// ---- baseline: what the builder emits, hand-assembled (validates the assembler)
	add("baseline", "empty-toc")
	add("baseline", "one-dir", dir("a/"))
	add("baseline", "one-reg", reg("f", "hello"))
	add("baseline", "empty-reg", reg("e", ""))
	add("baseline", "multichunk-reg", with(reg("f", "01234567"), func(e *hEnt) { e.Chunk = 3 }))
	add("baseline", "dir-without-slash", hEnt{Name: "a", Type: "dir", Mode: 0o755}, reg("a/f", "x"))
	add("baseline", "mixed", dir("a/"), with(reg("a/f", "hello"), func(e *hEnt) { e.UID = 5; e.GID = 6; e.ModTime = t1; e.Mode = 0o4755 }),
		hEnt{Name: "s", Type: "symlink", LinkName: "a/f", Mode: 0o777}, hl("l", "a/f"),
		hEnt{Name: "c", Type: "char", Mode: 0o600, DevMajor: 1, DevMinor: 5}, hEnt{Name: "b", Type: "block", Mode: 0o600, DevMajor: 8},
		hEnt{Name: "p", Type: "fifo", Mode: 0o600})
	add("baseline", "tar-mode-bits-and-NumLink-field-as-in-spec-example",
		hEnt{Name: "bin/", Type: "dir", Mode: 16877, ModTime: t1, Extra: `"NumLink":0`},
		with(reg("bin/busybox", "ELF"), func(e *hEnt) { e.Mode = 33261; e.Extra = `"NumLink":0` }))
	add("baseline", "xattrs", with(reg("f", "x"), func(e *hEnt) { e.Xattrs = map[string]string{"user.a": "1", "user.b": "22", "user.c": "\x00\xff"} }))
	add("baseline", "entries-before-version", reg("f", "hello")).EntriesFirst = true
	add("baseline", "leading-whitespace", reg("f", "hello")).Leading = " \n"

	// ---- inner-offset streams
	add("inner-offset-stream", "two-regs-one-member", reg("f", "hello"), with(reg("g", "world!"), func(e *hEnt) { e.Join = true }))
	add("inner-offset-stream", "all-chunks-one-member", with(reg("f", "0123456789"), func(e *hEnt) { e.Chunk = 4; e.JoinAll = true }))
	add("inner-offset-stream", "chunks-and-next-file-one-member", with(reg("f", "0123456789"), func(e *hEnt) { e.Chunk = 4; e.JoinAll = true }),
		with(reg("g", "abc"), func(e *hEnt) { e.Join = true }), reg("h", "zz"))
	add("inner-offset-stream", "empty-file-between", reg("f", "hello"), reg("e", ""), with(reg("g", "world!"), func(e *hEnt) { e.Join = true }))
	add("inner-offset-stream", "member-split-mid-file", reg("a", "AA"), with(reg("f", "0123456789"), func(e *hEnt) { e.Chunk = 4; e.Join = true }),
		with(reg("g", "abc"), func(e *hEnt) { e.Join = true }))

	// ---- implicit parent directories
	add("implicit-parent-dir", "reg-a/b", reg("a/b", "x"))
	add("implicit-parent-dir", "reg-a/b/c", reg("a/b/c", "x"))
	add("implicit-parent-dir", "dir-a/b/", dir("a/b/"))
	add("implicit-parent-dir", "symlink-a/s", hEnt{Name: "a/s", Type: "symlink", LinkName: "x", Mode: 0o777})
	add("implicit-parent-dir", "two-children", reg("a/b", "x"), reg("a/c", "y"), dir("a/d/"))
	add("dir-entry-after-child", "a/b-then-a/", reg("a/b", "x"), with(dir("a/"), func(e *hEnt) { e.Mode = 0o700; e.UID = 4; e.ModTime = t1 }))
	add("dir-entry-after-child", "a/b/-then-a/", dir("a/b/"), with(dir("a/"), func(e *hEnt) { e.Mode = 0o700; e.UID = 4 }))

	// ---- repeated directory entries
	add("repeated-dir-entry", "identical", dir("a/"), dir("a/"))
	add("repeated-dir-entry", "mode-differs", dir("a/"), with(dir("a/"), func(e *hEnt) { e.Mode = 0o700 }))
	add("repeated-dir-entry", "second-uid-zero", with(dir("a/"), func(e *hEnt) { e.UID = 5; e.GID = 6 }), dir("a/"))
	add("repeated-dir-entry", "second-no-modtime", with(dir("a/"), func(e *hEnt) { e.ModTime = t1 }), dir("a/"))
	add("repeated-dir-entry", "second-no-xattrs", with(dir("a/"), func(e *hEnt) { e.Xattrs = map[string]string{"user.a": "1"} }), dir("a/"))
	add("repeated-dir-entry", "second-other-xattrs", with(dir("a/"), func(e *hEnt) { e.Xattrs = map[string]string{"user.a": "1", "user.b": "2"} }),
		with(dir("a/"), func(e *hEnt) { e.Xattrs = map[string]string{"user.c": "3"} }))
	add("repeated-dir-entry", "child-between", dir("a/"), reg("a/f", "x"), with(dir("a/"), func(e *hEnt) { e.Mode = 0o700 }))
	add("repeated-dir-entry", "subdir-between", dir("a/"), dir("a/b/"), dir("a/"))
	add("repeated-dir-entry", "three-times", dir("a/"), with(dir("a/"), func(e *hEnt) { e.UID = 1 }), with(dir("a/"), func(e *hEnt) { e.GID = 2 }))

	// ---- repeated non-directory entries (a tar may contain the same name twice)
	add("repeated-reg-entry", "single-single", reg("f", "hello"), reg("f", "WORLD!!"))
	add("repeated-reg-entry", "multi-single", with(reg("f", "0123456789"), func(e *hEnt) { e.Chunk = 3 }), reg("f", "ab"))
	add("repeated-reg-entry", "single-multi", reg("f", "ab"), with(reg("f", "0123456789"), func(e *hEnt) { e.Chunk = 3 }))
	add("repeated-reg-entry", "multi-multi", with(reg("f", "0123456789"), func(e *hEnt) { e.Chunk = 3 }), with(reg("f", "abcdefg"), func(e *hEnt) { e.Chunk = 4 }))
	add("repeated-reg-entry", "attrs-differ", with(reg("f", "x"), func(e *hEnt) { e.UID = 5; e.Xattrs = map[string]string{"user.a": "1"} }), reg("f", "x"))
	add("repeated-entry-type-change", "reg-then-symlink", reg("f", "hello"), hEnt{Name: "f", Type: "symlink", LinkName: "t", Mode: 0o777})
	add("repeated-entry-type-change", "symlink-then-reg", hEnt{Name: "f", Type: "symlink", LinkName: "t", Mode: 0o777}, reg("f", "hello"))

	// ---- hardlinks
	add("hardlink-to-hardlink", "chain2", reg("f", "hello"), hl("l1", "f"), hl("l2", "l1"))
	add("hardlink-to-hardlink", "chain3-nested", reg("f", "hello"), hl("l1", "f"), dir("d/"), hl("d/l2", "l1"), hl("l3", "d/l2"))
	add("hardlink-forward-reference", "link-then-target", hl("l", "f"), reg("f", "hello"))
	add("hardlink-forward-reference", "nested-link-then-target", hl("d/l", "f"), reg("f", "hello"))
	add("hardlink-forward-reference", "forward-chain", hl("l2", "l1"), hl("l1", "f"), reg("f", "hello"))
	add("hardlink-forward-reference", "target-replaced-later", reg("f", "old"), hl("l", "f"), reg("f", "newer"))
	add("hardlink-missing-target", "dangling", hl("l", "nope")).NonConforming = "hardlink without a target entry"

	// ---- entries without per-file digest (optional property)
	add("no-file-digest", "single-chunk", with(reg("f", "hello"), func(e *hEnt) { e.NoDigest = true }))
	add("no-file-digest", "multi-chunk", with(reg("f", "0123456789"), func(e *hEnt) { e.NoDigest = true; e.Chunk = 4 }))
	add("no-file-digest", "empty", with(reg("e", ""), func(e *hEnt) { e.NoDigest = true }))

	// ---- names as stored in the tar: "./", "/", "../"
	add("dot-slash-name", "reg", reg("./a", "x"))
	add("dot-slash-name", "dir-and-child", dir("./d/"), reg("./d/f", "x"))
	add("dot-slash-name", "absolute", reg("/a", "x"), dir("/d/"), reg("/d/f", "y"))
	add("dot-slash-name", "double-slash-and-dot", dir("d/"), reg("d//f", "x"), reg("d/./g", "y"))
	add("dot-slash-name", "hardlink-target-prefixed", reg("./f", "hello"), hl("./l", "./f"), hl("m", "/f"))
	add("dotdot-name", "leading", reg("../a", "x"))
	add("dotdot-name", "inner", dir("d/"), reg("d/../a", "x"))
	add("dotdot-name", "deep", reg("../../x/y", "x"))
	add("dotdot-name", "symlink-target-kept", hEnt{Name: "s", Type: "symlink", LinkName: "../x", Mode: 0o777})
	add("root-dir-entry", "dot-slash", with(dir("./"), func(e *hEnt) { e.Mode = 0o750 }))
	add("root-dir-entry", "dot-slash-attrs-child", with(dir("./"), func(e *hEnt) { e.Mode = 0o700; e.UID = 3; e.ModTime = t1; e.Xattrs = map[string]string{"user.r": "1"} }), reg("./f", "x"))
	add("root-dir-entry", "slash", with(dir("/"), func(e *hEnt) { e.Mode = 0o750 }), dir("/d/"))
	add("root-dir-entry", "dot", with(dir("."), func(e *hEnt) { e.Mode = 0o750 }), reg("f", "x"))

	// ---- xattrs with empty values
	add("empty-xattr-value", "only", with(reg("f", "x"), func(e *hEnt) { e.Xattrs = map[string]string{"user.a": ""} }))
	add("empty-xattr-value", "two-empty", with(reg("f", "x"), func(e *hEnt) { e.Xattrs = map[string]string{"user.a": "", "user.b": ""} }))
	add("empty-xattr-value", "empty-and-value", with(reg("f", "x"), func(e *hEnt) { e.Xattrs = map[string]string{"user.a": "", "user.b": "v"} }))
	add("empty-xattr-value", "dir-two-empty", with(dir("a/"), func(e *hEnt) { e.Xattrs = map[string]string{"user.a": "", "user.b": ""} }))

	// ---- entries of unknown type: the spec enumerates the types => non-conforming
	add("unknown-type", "whiteout", hEnt{Name: "w", Type: "whiteout", Mode: 0o600}).NonConforming = "type is not one of the enumerated values"
	add("unknown-type", "missing-type", hEnt{Name: "w", Mode: 0o600}, reg("f", "x")).NonConforming = "type is REQUIRED"
	add("unknown-type", "socket-with-children", hEnt{Name: "w", Type: "socket", Mode: 0o600}, reg("w/f", "x")).NonConforming = "type is not one of the enumerated values"

	// ---- bytes after the TOC JSON value inside the tar entry (a JSON text may be followed by whitespace)
	for _, tr := range []string{"\n", " ", "\r\n", "\n\n\n\n"} {
		for pad := 0; pad <= 560; pad++ {
			if pad != 0 && pad < 480 {
				continue
			}
			t := add("trailing-bytes-after-json", fmt.Sprintf("trailing=%q/json-bytes=%d", tr, pad), reg("f", "hello"))
			t.Trailing, t.PadTo = tr, pad
		}
	}
	for _, pad := range []int{1500, 1535, 1536, 1537, 3583, 3584, 3585} {
		t := add("trailing-bytes-after-json", fmt.Sprintf("trailing=%q/json-bytes=%d", "\n", pad), reg("f", "hello"))
		t.Trailing, t.PadTo = "\n", pad
	}
	return l
}

// ---------------------------------------------------------------- from-the-spec TOC extraction (shape classification only)

type specEnt struct {
	Name        string            `json:"name"`
	Type        string            `json:"type"`
	LinkName    string            `json:"linkName"`
	Size        int64             `json:"size"`
	Xattrs      map[string][]byte `json:"xattrs"`
	Digest      string            `json:"digest"`
	Offset      int64             `json:"offset"`
	InnerOffset int64             `json:"innerOffset"`
	ChunkSize   int64             `json:"chunkSize"`
}

type specTOC struct {
	Entries  []specEnt `json:"entries"`
	Trailing int       // bytes following the JSON value
}

func extractTOC(blob []byte) (*specTOC, error) {
	var raw []byte
	if len(blob) >= 51 {
		if zr, err := gzip.NewReader(bytes.NewReader(blob[len(blob)-51:])); err == nil && len(zr.Extra) == 26 && zr.Extra[0] == 'S' && zr.Extra[1] == 'G' {
			off, err := strconv.ParseInt(string(zr.Extra[4:20]), 16, 64)
			if err != nil || off < 0 || off > int64(len(blob)-51) {
				return nil, fmt.Errorf("bad footer offset")
			}
			tz, err := gzip.NewReader(bytes.NewReader(blob[off : len(blob)-51]))
			if err != nil {
				return nil, err
			}
			tz.Multistream(false)
			tr := tar.NewReader(tz)
			h, err := tr.Next()
			if err != nil || h.Name != "stargz.index.json" {
				return nil, fmt.Errorf("toc tar entry: %v", err)
			}
			raw, err = io.ReadAll(tr)
			if err != nil {
				return nil, err
			}
		}
	}
	if raw == nil && len(blob) >= 40 {
		f := blob[len(blob)-40:]
		off := int64(binary.LittleEndian.Uint64(f[0:8]))
		n := int64(binary.LittleEndian.Uint64(f[8:16]))
		if off < 0 || n < 0 || off+n > int64(len(blob)) {
			return nil, fmt.Errorf("bad zstd footer")
		}
		dec, err := zstd.NewReader(bytes.NewReader(blob[off:off+n]), zstd.WithDecoderConcurrency(1))
		if err != nil {
			return nil, err
		}
		defer dec.Close()
		raw, err = io.ReadAll(dec)
		if err != nil {
			return nil, err
		}
	}
	if raw == nil {
		return nil, fmt.Errorf("no footer recognised")
	}
	t := &specTOC{}
	d := json.NewDecoder(bytes.NewReader(raw))
	if err := d.Decode(t); err != nil {
		return nil, err
	}
	t.Trailing = len(raw) - int(d.InputOffset())
	return t, nil
}
