package main

// Multi-layer isolation as an explicit-state search: all operation histories up
// to a depth over several layers living in ONE bolt DB.

import (
	"encoding/json"
	"fmt"
	"os"
	"path/filepath"
	"runtime/debug"
	"sort"
	"strings"
	"time"

	"archive/tar"

	dbmeta "github.com/containerd/stargz-snapshotter/cmd/containerd-stargz-grpc/db"
	"github.com/containerd/stargz-snapshotter/metadata"

	"verif/lib/runner"
)

type isoBlob struct {
	name string
	desc string
	blob []byte
	solo map[int]*obs // per payload grid
}

// isoLayers: quick 2 layers; thorough: depth 6 over 2 layers (iso-sync), depth 5 over 3
// layers incl. a zstd:chunked one (iso-lazy).
func isoLayers(tier string, lazy bool) int {
	if tier == "thorough" && lazy {
		return 3
	}
	return 2
}

func isoBlobs(nlayers int, scratch string) ([]isoBlob, error) {
	a := tarAlphabet()
	byLabel := func(l string) tEnt {
		for _, e := range a {
			if e.Label == l {
				return e
			}
		}
		panic(l)
	}
	specs := []struct {
		name string
		ents []tEnt
		o    bopt
	}{
		{"A", []tEnt{byLabel("dir"), byLabel("big-nested"), byLabel("small"), byLabel("hardlink")}, bopt{Via: "build", Comp: "gzip", Chunk: 3}},
		// (no empty-valued xattr here: the db store keeps or drops those depending on map
		// iteration order, which the differential parts report on their own)
		{"B", []tEnt{byLabel("small"), {Label: "xattr-file", Name: "x", Type: tar.TypeReg, Data: "xy", Mode: 0o4755, UID: 1000, GID: 1001, MTime: 1600000000,
			Xattrs: map[string]string{"user.a": "v", "security.capability": "\x01\x00\x00\x02"}}, byLabel("symlink"), {Label: "other-g", Name: "d/g", Type: tar.TypeReg, Data: "completely different", Mode: 0o640, UID: 42}},
			bopt{Via: "build", Comp: "gzip", Chunk: 8, MinChunk: 16}},
		{"C", []tEnt{byLabel("chardev"), byLabel("empty"), byLabel("big-nested"), byLabel("root")}, bopt{Via: "build", Comp: "zstd", Chunk: 8}},
	}
	specs = specs[:nlayers]
	var out []isoBlob
	for _, s := range specs {
		blob, _, err := buildBlob(makeTar(s.ents), s.ents, s.o)
		if err != nil {
			return nil, err
		}
		dir := filepath.Join(scratch, "solo-"+s.name)
		os.MkdirAll(dir, 0o755)
		db, err := openDB(dir)
		if err != nil {
			return nil, err
		}
		d := openDBStore(db, blob)
		if !d.accept {
			db.Close()
			return nil, fmt.Errorf("layer %s not accepted solo: %s", s.name, d.why)
		}
		solo := map[int]*obs{gridFull: observe(d.r, gridFull), gridReduced: observe(d.r, gridReduced)}
		if solo[gridFull].digest() != observe(d.r, gridFull).digest() {
			return nil, fmt.Errorf("solo observation of %s is not repeatable", s.name)
		}
		d.r.Close()
		db.Close()
		os.RemoveAll(dir)
		out = append(out, isoBlob{name: s.name, desc: describeTar(s.ents) + " built " + s.o.String(), blob: blob, solo: solo})
	}
	if out[0].solo[gridFull].digest() == out[1].solo[gridFull].digest() {
		return nil, fmt.Errorf("layers are not distinct")
	}
	return out, nil
}

const isoMaxOpen = 3

// isoOps lists the operations enabled when the given layers are open (by handle position).
func isoOps(open []string, blobs []isoBlob) []string {
	var ops []string
	if len(open) < isoMaxOpen {
		for _, b := range blobs {
			ops = append(ops, "open("+b.name+")")
		}
	}
	for i := range open {
		ops = append(ops, fmt.Sprintf("walk(%d)", i))
	}
	for i := range open {
		ops = append(ops, fmt.Sprintf("close(%d)", i))
	}
	return ops
}

func applyModel(open []string, op string) []string {
	var name string
	var i int
	if n, _ := fmt.Sscanf(op, "open(%1s)", &name); n == 1 {
		return append(append([]string{}, open...), name)
	}
	if n, _ := fmt.Sscanf(op, "close(%d)", &i); n == 1 {
		out := append([]string{}, open[:i]...)
		return append(out, open[i+1:]...)
	}
	return open
}

// isoHistories enumerates all maximal histories (depth-first, deterministic).
func isoHistories(blobs []isoBlob, depth int, visit func(h []string)) {
	var rec func(h []string, open []string)
	rec = func(h []string, open []string) {
		if len(h) == depth {
			visit(h)
			return
		}
		for _, op := range isoOps(open, blobs) {
			rec(append(append([]string{}, h...), op), applyModel(open, op))
		}
	}
	rec(nil, nil)
}

type isoHandle struct {
	layer string
	r     metadata.Reader
	fsID  string
}

type isoViolation struct{ key, msg string }

// runIsoHistory executes one history on a fresh DB. checkFrom: invariants are
// verified after step j only for j >= checkFrom (earlier prefixes were verified
// by a previous history with the same prefix).
func runIsoHistory(dir string, blobs []isoBlob, hist []string, lazy bool, checkFrom int, states map[string]bool, edges map[string]bool) (v *isoViolation, broken string, ops int64) {
	os.MkdirAll(dir, 0o755)
	defer os.RemoveAll(dir)
	db, err := openDB(dir)
	if err != nil {
		return nil, err.Error(), 0
	}
	defer db.Close()
	blobOf := map[string]isoBlob{}
	for _, b := range blobs {
		blobOf[b.name] = b
	}
	var open []*isoHandle
	stateOf := func() string {
		var s []string
		for _, h := range open {
			s = append(s, h.layer)
		}
		return "[" + strings.Join(s, ",") + "]"
	}
	fail := func(step int, key, format string, a ...any) *isoViolation {
		return &isoViolation{key: "C05/isolation/" + key, msg: fmt.Sprintf("history %v (lazy-init=%v), after step %d %s, open layers %s:\n%s", hist, lazy, step, hist[step], stateOf(), fmt.Sprintf(format, a...))}
	}
	checkLayer := func(step int, h *isoHandle, why string, grid int) *isoViolation {
		// GetAttr(root) deliberately does not wait for the background init (db/reader.go:693),
		// so wait for THIS layer's init before observing it; other layers keep racing.
		if _, err := h.r.GetOffset(h.r.RootID()); err != nil {
			return fail(step, "open-error", "init of layer %s: %v", h.layer, err)
		}
		o := observe(h.r, grid)
		if o.digest() == blobOf[h.layer].solo[grid].digest() {
			return nil
		}
		ds := compare(blobOf[h.layer].solo[grid], o)
		d := diff{Kind: "?"}
		if len(ds) > 0 {
			d = ds[0]
		}
		var prev string
		if step >= 0 {
			prev = strings.SplitN(hist[step], "(", 2)[0]
		}
		return fail(step, "observation-changed-after-"+prev, "layer %s (%s) no longer gives its solo observation (%s): %s at %q solo=%s now=%s", h.layer, blobOf[h.layer].desc, why, d.Kind, "/"+d.Path, d.Mem, d.DB)
	}
	states[stateOf()] = true
	for step, op := range hist {
		before := stateOf()
		ops++
		var name string
		var i int
		switch {
		case strings.HasPrefix(op, "open("):
			fmt.Sscanf(op, "open(%1s)", &name)
			pre := map[string]bool{}
			for _, k := range fsBuckets(db) {
				pre[k] = true
			}
			r, err := dbmeta.NewReader(db, sectionOf(blobOf[name].blob), storeOpts()...)
			if err != nil {
				return fail(step, "open-error", "NewReader: %v", err), "", ops
			}
			h := &isoHandle{layer: name, r: r}
			var fresh []string
			for _, k := range fsBuckets(db) {
				if !pre[k] {
					fresh = append(fresh, k)
				}
			}
			if len(fresh) != 1 {
				return fail(step, "bucket-accounting", "open created %d buckets under filesystems/ (want 1): %v", len(fresh), fresh), "", ops
			}
			h.fsID = fresh[0]
			open = append(open, h)
			if !lazy {
				if _, err := r.GetOffset(r.RootID()); err != nil {
					return fail(step, "open-error", "init: %v", err), "", ops
				}
			}
		case strings.HasPrefix(op, "walk("):
			fmt.Sscanf(op, "walk(%d)", &i)
			if v := checkLayer(step, open[i], "walk", gridFull); v != nil {
				return v, "", ops
			}
		case strings.HasPrefix(op, "close("):
			fmt.Sscanf(op, "close(%d)", &i)
			h := open[i]
			if err := h.r.Close(); err != nil {
				return fail(step, "close-error", "Close of layer %s: %v", h.layer, err), "", ops
			}
			open = append(open[:i:i], open[i+1:]...)
			for _, k := range fsBuckets(db) {
				if k == h.fsID {
					return fail(step, "bucket-not-removed", "filesystems/%s of the closed layer %s still exists", h.fsID, h.layer), "", ops
				}
			}
			// a closed reader must not serve data any more
			if _, err := h.r.GetAttr(h.r.RootID()); err == nil {
				return fail(step, "closed-reader-still-serves", "GetAttr(root) on the closed layer %s succeeded", h.layer), "", ops
			}
		}
		states[stateOf()] = true
		edges[before+" --"+strings.SplitN(op, "(", 2)[0]+"--> "+stateOf()] = true
		if step < checkFrom {
			continue
		}
		// invariant: exactly the open layers' buckets exist ...
		have := fsBuckets(db)
		want := map[string]bool{}
		for _, h := range open {
			want[h.fsID] = true
		}
		if len(have) != len(want) {
			return fail(step, "bucket-accounting", "filesystems/ holds %v, open layers own %v", have, sortedKeys(want)), "", ops
		}
		for _, k := range have {
			if !want[k] {
				return fail(step, "bucket-accounting", "filesystems/ holds %v, open layers own %v", have, sortedKeys(want)), "", ops
			}
		}
		// ... and every open layer still gives exactly its solo observation
		if lazy && strings.HasPrefix(op, "open(") {
			continue // keep the background init racing with the next call
		}
		for _, h := range open {
			if v := checkLayer(step, h, "invariant", gridReduced); v != nil {
				return v, "", ops
			}
		}
	}
	for _, h := range open {
		if err := h.r.Close(); err != nil {
			return fail(len(hist)-1, "close-error", "final Close of layer %s: %v", h.layer, err), "", ops
		}
	}
	if left := fsBuckets(db); len(left) != 0 {
		return fail(len(hist)-1, "bucket-not-removed", "after closing everything filesystems/ still holds %v", left), "", ops
	}
	return nil, "", ops
}

func isoDepth(tier string, lazy bool) int {
	switch {
	case tier == "thorough" && lazy:
		return 5
	case tier == "thorough":
		return 6
	}
	return 4
}

func isoPart(name, tier string, lazy bool) runner.Part {
	return runner.Part{
		Name:   name,
		Shards: 16,
		Run: func(c *runner.Ctx) *runner.Result {
			debug.SetMaxStack(64 << 20)
			res := &runner.Result{Outcomes: map[string]int{}}
			useScratch(c)
			blobs, err := isoBlobs(isoLayers(tier, lazy), c.Scratch)
			if err != nil {
				res.Broken = err.Error()
				return res
			}
			depth := isoDepth(tier, lazy)
			states, edges := map[string]bool{}, map[string]bool{}
			var prev []string
			n, mine := 0, 0
			seenKeys := map[string]bool{}
			stop := false
			isoHistories(blobs, depth, func(h []string) {
				idx := n
				n++
				if stop || idx%c.Of != c.Shard {
					return
				}
				if time.Now().After(c.Deadline) {
					res.Caps = append(res.Caps, fmt.Sprintf("time budget: stopped at history %d", idx))
					stop = true
					return
				}
				common := 0
				for common < len(prev) && common < len(h) && prev[common] == h[common] {
					common++
				}
				prev = append([]string{}, h...)
				mine++
				v, broken, ops := runIsoHistory(filepath.Join(c.Scratch, "h"), blobs, h, lazy, common, states, edges)
				res.Evaluations++
				res.Transitions += ops
				if broken != "" {
					res.Broken = broken
					stop = true
					return
				}
				if v != nil {
					res.Outcomes["violation "+v.key]++
					if !seenKeys[v.key] {
						seenKeys[v.key] = true
						res.Violations = append(res.Violations, runner.Violation{Key: v.key, Msg: v.msg, Replay: map[string]any{"part": name, "tier": tier, "hist": h, "lazy": lazy}})
					}
				} else {
					res.Outcomes["history held: every open layer kept its solo observation, buckets accounted"]++
				}
				if len(res.Samples) == 0 && mine == 3 {
					res.Samples = append(res.Samples, map[string]any{"history": h, "layers": []string{blobs[0].desc, blobs[1].desc}, "lazy_init": lazy})
				}
			})
			if c.Shard == 0 { // every shard walks the same small state space; count it once
				res.States = int64(len(states))
				res.Nontrivial = int64(len(states))
			}
			var es []string
			for e := range edges {
				es = append(es, e)
			}
			sort.Strings(es)
			res.Extra = map[string]any{"depth_completed": depth, "histories_total": n, "layers": len(blobs), "distinct_state_edges_in_shard0": len(es), "max_open_layers": isoMaxOpen}
			return res
		},
		Replay: replayFn,
	}
}

func replayIso(c *runner.Ctx, raw json.RawMessage) (string, error) {
	var r struct {
		Tier string   `json:"tier"`
		Hist []string `json:"hist"`
		Lazy bool     `json:"lazy"`
	}
	if err := json.Unmarshal(raw, &r); err != nil {
		return "", err
	}
	useScratch(c)
	blobs, err := isoBlobs(isoLayers(r.Tier, r.Lazy), c.Scratch)
	if err != nil {
		return "", err
	}
	v, broken, _ := runIsoHistory(filepath.Join(c.Scratch, "h"), blobs, r.Hist, r.Lazy, 0, map[string]bool{}, map[string]bool{})
	if broken != "" {
		return "", fmt.Errorf("broken: %s", broken)
	}
	if v != nil {
		return fmt.Sprint(r.Hist), fmt.Errorf("%s\n%s", v.key, v.msg)
	}
	return fmt.Sprint(r.Hist), nil
}
