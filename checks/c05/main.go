// C05: the memory and the DB metadata store expose the same filesystem for the same blob.
//
// Differential, bounded-exhaustive: every input of a stated finite family is
// opened with both stores and everything observable through metadata.Reader is
// compared. No hand-written expectations.
package main

import (
	"archive/tar"
	"bytes"
	"encoding/json"
	"fmt"
	"io"
	"os"
	"path"
	"path/filepath"
	"regexp"
	"runtime/debug"
	"sort"
	"strings"
	"time"

	dbmeta "github.com/containerd/stargz-snapshotter/cmd/containerd-stargz-grpc/db"
	"github.com/containerd/stargz-snapshotter/estargz/zstdchunked"
	"github.com/containerd/stargz-snapshotter/metadata"
	memmeta "github.com/containerd/stargz-snapshotter/metadata/memory"
	bolt "go.etcd.io/bbolt"

	"verif/lib/runner"
)

// ---------------------------------------------------------------- stores

func openDB(dir string) (*bolt.DB, error) {
	db, err := bolt.Open(filepath.Join(dir, "metadata.db"), 0o600, &bolt.Options{
		NoFreelistSync: true, FreelistType: bolt.FreelistMapType, // as fusemanager/service.go opens it
		NoSync: true, // tmpfs scratch; durability is not part of C05
	})
	if err != nil {
		return nil, err
	}
	db.MaxBatchDelay = 0 // db.Batch otherwise sleeps 10ms per transaction
	return db, nil
}

// useScratch keeps every temp file (db.NewReader spools the TOC with
// os.CreateTemp("", ""), estargz.Build uses temp files too) on the tmpfs scratch.
func useScratch(c *runner.Ctx) { os.Setenv("TMPDIR", c.Scratch) }

func sectionOf(b []byte) *io.SectionReader {
	return io.NewSectionReader(bytes.NewReader(b), 0, int64(len(b)))
}

func storeOpts() []metadata.Option {
	// fs/layer/layer.go always offers the zstd:chunked decompressor next to gzip
	return []metadata.Option{metadata.WithDecompressors(new(zstdchunked.Decompressor))}
}

type opened struct {
	r      metadata.Reader
	accept bool
	why    string
}

func openMem(blob []byte) (o opened) {
	defer func() {
		if p := recover(); p != nil {
			o = opened{why: fmt.Sprintf("panic: %v", p)}
		}
	}()
	r, err := memmeta.NewReader(sectionOf(blob), storeOpts()...)
	if err != nil {
		return opened{why: err.Error()}
	}
	return opened{r: r, accept: true}
}

// openDBStore opens the blob in the DB store and waits for the background
// initialisation: a reader whose init failed answers every non-root call with
// an error, i.e. it rejected the blob.
func openDBStore(db *bolt.DB, blob []byte) (o opened) {
	defer func() {
		if p := recover(); p != nil {
			o = opened{why: fmt.Sprintf("panic: %v", p)}
		}
	}()
	r, err := dbmeta.NewReader(db, sectionOf(blob), storeOpts()...)
	if err != nil {
		return opened{why: err.Error()}
	}
	if _, err := r.GetOffset(r.RootID()); err != nil {
		return opened{r: r, why: "NewReader returned nil error, then: " + err.Error()}
	}
	return opened{r: r, accept: true}
}

func newDBReader(db *bolt.DB, blob []byte) (metadata.Reader, error) {
	return dbmeta.NewReader(db, sectionOf(blob), storeOpts()...)
}

func mkdirAll(d string) error { return os.MkdirAll(d, 0o755) }
func removeAll(d string)      { os.RemoveAll(d) }

func fsBuckets(db *bolt.DB) []string {
	var out []string
	db.View(func(tx *bolt.Tx) error {
		b := tx.Bucket([]byte("filesystems"))
		if b == nil {
			return nil
		}
		return b.ForEach(func(k, v []byte) error {
			if v == nil {
				out = append(out, string(k))
			}
			return nil
		})
	})
	return out
}

func dropAllFS(db *bolt.DB) {
	db.Update(func(tx *bolt.Tx) error {
		if tx.Bucket([]byte("filesystems")) != nil {
			return tx.DeleteBucket([]byte("filesystems"))
		}
		return nil
	})
}

// ---------------------------------------------------------------- comparison

type diff struct {
	Kind, Path, Mem, DB string
}

var attrKinds = map[string]bool{"mode": true, "size": true, "mtime": true, "uid": true, "gid": true, "dev": true, "linkname": true}

func splitKey(k string) (kind, p string) {
	k = strings.TrimSuffix(k, "#dup")
	i := strings.IndexByte(k, ':')
	return k[:i], k[i+1:]
}

func basePath(p string) string {
	if i := strings.IndexByte(p, '#'); i >= 0 {
		return p[:i]
	}
	return p
}

// firstDifferingChild turns a "tree" difference at directory p into the path of
// the first child name only one store lists.
func firstDifferingChild(p, a, b string) string {
	set := func(v string) map[string]bool {
		m := map[string]bool{}
		for _, f := range strings.Fields(strings.Trim(v, "[]")) {
			m[strings.Trim(f, `"`)] = true
		}
		return m
	}
	sa, sb := set(a), set(b)
	var names []string
	for n := range sa {
		if !sb[n] {
			names = append(names, n)
		}
	}
	for n := range sb {
		if !sa[n] {
			names = append(names, n)
		}
	}
	if len(names) == 0 {
		return p
	}
	sort.Strings(names)
	return joinPath(p, names[0])
}

// compare returns the first difference per observation kind, in walk order.
func compare(a, b *obs) []diff {
	var all []diff
	for _, k := range a.keys {
		bv, ok := b.m[k]
		if !ok {
			bv = "<no such observation>"
		}
		if av := a.m[k]; av != bv {
			kind, p := splitKey(k)
			all = append(all, diff{kind, p, av, bv})
		}
	}
	for _, k := range b.keys {
		if _, ok := a.m[k]; !ok {
			kind, p := splitKey(k)
			all = append(all, diff{kind, p, "<no such observation>", b.m[k]})
		}
	}
	absent := func(d diff) bool { return strings.HasPrefix(d.Mem, "<no such") || strings.HasPrefix(d.DB, "<no such") }
	treeDiffers, identDiffers, structural := false, false, false
	for _, d := range all {
		if absent(d) {
			continue
		}
		switch d.Kind {
		case "tree":
			treeDiffers, structural = true, true
		case "ident":
			identDiffers, structural = true, true
		case "getattr":
			structural = true
		}
	}
	seen := map[string]bool{}
	payloadDiffers := map[string]bool{} // path -> an earlier link of the chain size -> chunk -> readat -> preread differs
	var out []diff
	for _, d := range all {
		if structural && absent(d) {
			continue // the walks diverged (names or node identity): missing observations are a consequence
		}
		if treeDiffers && d.Kind != "tree" && d.Kind != "tocdigest" {
			continue // one defect, one key: everything below a differing name set is a consequence
		}
		if !treeDiffers && identDiffers && d.Kind != "ident" && d.Kind != "tocdigest" {
			continue // names bound to different nodes: link counts, payload etc. follow from that
		}
		bp := basePath(d.Path)
		switch d.Kind {
		case "size", "chunk", "readat", "preread", "open":
			if payloadDiffers[bp] {
				continue
			}
			payloadDiffers[bp] = true
		}
		if d.Kind == "tree" {
			if d.Mem == "foreach-error" || d.DB == "foreach-error" {
				d.Path = "\x00whole-toc"
			} else {
				d.Path = firstDifferingChild(d.Path, d.Mem, d.DB)
			}
		}
		field := d.Kind
		if attrKinds[d.Kind] {
			d.Kind = "attr"
			d.Mem, d.DB = field+"="+d.Mem, field+"="+d.DB
		}
		if seen[d.Kind] {
			continue
		}
		seen[d.Kind] = true
		out = append(out, d)
	}
	return out
}

// ---------------------------------------------------------------- input shape (for violation keys)

func cleanName(n string) string { return strings.TrimPrefix(path.Clean("/"+n), "/") }

var knownTypes = map[string]bool{"dir": true, "reg": true, "symlink": true, "hardlink": true, "char": true, "block": true, "fifo": true, "chunk": true}

func entShape(t *specTOC, i int) string {
	e := t.Entries[i]
	name := cleanName(e.Name)
	if !knownTypes[e.Type] {
		return "unknown-type"
	}
	firstIdx := func(n string) int {
		for j, x := range t.Entries {
			if x.Type != "chunk" && cleanName(x.Name) == n {
				return j
			}
		}
		return -1
	}
	if e.Type == "hardlink" {
		ti := firstIdx(cleanName(e.LinkName))
		switch {
		case ti < 0:
			return "hardlink-missing-target"
		case ti > i:
			return "hardlink-forward-reference"
		case t.Entries[ti].Type == "hardlink":
			return "hardlink-to-hardlink"
		}
		n := 0
		for _, x := range t.Entries {
			if x.Type != "chunk" && cleanName(x.Name) == cleanName(e.LinkName) {
				n++
			}
		}
		if n > 1 {
			return "hardlink-to-repeated-entry"
		}
		return "hardlink"
	}
	for j, x := range t.Entries {
		if x.Type == "hardlink" && cleanName(x.LinkName) == name && j < i {
			return "hardlink-forward-reference"
		}
	}
	for _, v := range e.Xattrs {
		if len(v) == 0 {
			return "empty-xattr-value"
		}
	}
	raw := strings.TrimSuffix(e.Name, "/")
	if raw != name {
		for _, c := range strings.Split(e.Name, "/") {
			if c == ".." {
				return "dotdot-name"
			}
		}
		return "dot-slash-name"
	}
	if s := regStructure(t, i); s != "" {
		return s
	}
	return e.Type
}

// regStructure describes how the payload of regular file entry i is laid out.
func regStructure(t *specTOC, i int) string {
	e := t.Entries[i]
	if e.Type != "reg" {
		return ""
	}
	nchunks, inner := 0, e.InnerOffset > 0
	for j := i + 1; j < len(t.Entries) && t.Entries[j].Type == "chunk"; j++ {
		nchunks++
		inner = inner || t.Entries[j].InnerOffset > 0
	}
	for j, x := range t.Entries {
		if j != i && x.Type != "chunk" && x.Offset == e.Offset && e.Size > 0 && x.Size > 0 {
			inner = true
		}
	}
	switch {
	case e.Size > 0 && e.Digest == "":
		return "no-file-digest"
	case inner:
		return "reg-inner-offset"
	case nchunks > 0:
		return "reg-multichunk"
	case e.Size == 0:
		return "reg-empty"
	}
	return ""
}

// streamShape refines "reg-inner-offset" for pre-read observations: what else
// lives in the gzip/zstd stream of regular file entry i.
func streamShape(t *specTOC, i int) string {
	off := t.Entries[i].Offset
	first, last := -1, -1
	for j, e := range t.Entries {
		if (e.Type == "reg" || e.Type == "chunk") && e.Offset == off && (e.Type == "chunk" || e.Size > 0) {
			if first < 0 {
				first = j
			}
			last = j
		}
	}
	for j := first; j >= 0 && j <= last; j++ {
		if e := t.Entries[j]; e.Type == "reg" && e.Offset != off {
			return "inner-offset-stream-with-empty-file-inside"
		}
	}
	own := 0
	if t.Entries[i].Offset == off {
		own++
	}
	for j := i + 1; j < len(t.Entries) && t.Entries[j].Type == "chunk"; j++ {
		if t.Entries[j].Offset == off {
			own++
		}
	}
	if own > 1 {
		return "inner-offset-stream-with-several-chunks-of-one-file"
	}
	return "reg-inner-offset"
}

var payloadKinds = map[string]bool{"chunk": true, "readat": true, "preread": true, "open": true, "offset": true, "payload-vs-source": true}

func shapeOf(t *specTOC, kind, p string) string {
	if t == nil {
		return "toc-not-extractable"
	}
	kind = strings.TrimPrefix(kind, "clone-")
	if kind == "tocdigest" {
		if t.Trailing > 0 {
			return "trailing-bytes-after-json"
		}
		return "plain"
	}
	if kind == "accept" || kind == "panic" || p == "\x00whole-toc" {
		if t.Entries == nil {
			return "entries-null"
		}
		for _, want := range []string{"unknown-type", "hardlink-missing-target", "hardlink-forward-reference"} {
			for i, e := range t.Entries {
				if e.Type != "chunk" && entShape(t, i) == want {
					return want
				}
			}
		}
		for _, e := range t.Entries {
			if e.Type != "chunk" && cleanName(e.Name) == "" {
				return "root-dir-entry"
			}
		}
		return "plain"
	}
	p = cleanName(strings.TrimSuffix(p, "/..."))
	var idx []int
	for i, e := range t.Entries {
		if e.Type != "chunk" && cleanName(e.Name) == p {
			idx = append(idx, i)
		}
	}
	if kind == "numlink" {
		if s := childDirShape(t, p); s != "" {
			return s
		}
	}
	if kind == "xattrs" {
		for _, i := range idx {
			for _, v := range t.Entries[i].Xattrs {
				if len(v) == 0 {
					return "empty-xattr-value"
				}
			}
		}
	}
	if payloadKinds[kind] {
		// what is read is the payload of the link target, laid out as its reg entry says
		q, qidx := p, idx
		for hop := 0; hop < 8 && len(qidx) > 0 && t.Entries[qidx[len(qidx)-1]].Type == "hardlink"; hop++ {
			q = cleanName(t.Entries[qidx[len(qidx)-1]].LinkName)
			qidx = nil
			for i, e := range t.Entries {
				if e.Type != "chunk" && cleanName(e.Name) == q {
					qidx = append(qidx, i)
				}
			}
		}
		nreg := 0
		for _, i := range qidx {
			if t.Entries[i].Type == "reg" {
				nreg++
				if kind == "preread" && regStructure(t, i) == "reg-inner-offset" {
					return streamShape(t, i)
				}
			}
		}
		if nreg > 1 {
			return "repeated-reg-entry"
		}
		if len(qidx) == 1 {
			if s := regStructure(t, qidx[0]); s != "" {
				return s
			}
			return t.Entries[qidx[0]].Type // payload observations do not depend on how the name is spelled
		}
	}
	if p == "" {
		if len(idx) > 0 {
			return "root-dir-entry"
		}
		if len(t.Entries) == 0 {
			return "empty-toc"
		}
		return "root-implicit"
	}
	switch {
	case len(idx) == 0:
		// an implicit directory: what matters is the entry that made it necessary
		for i, e := range t.Entries {
			if e.Type != "chunk" && strings.HasPrefix(cleanName(e.Name), p+"/") {
				if s := entShape(t, i); strings.HasPrefix(s, "hardlink-") {
					return s
				}
				break
			}
		}
		return "implicit-parent-dir"
	case len(idx) > 1:
		for _, x := range t.Entries {
			if x.Type == "hardlink" && cleanName(x.LinkName) == p {
				return "hardlink-to-repeated-entry"
			}
		}
		types := map[string]bool{}
		for _, i := range idx {
			types[t.Entries[i].Type] = true
			if s := entShape(t, i); s == "hardlink-forward-reference" {
				return s
			}
		}
		switch {
		case len(types) > 1:
			return "repeated-entry-type-change"
		case types["dir"]:
			return "repeated-dir-entry"
		case types["reg"]:
			return "repeated-reg-entry"
		}
		return "repeated-entry"
	}
	return entShape(t, idx[0])
}

// childDirShape: a directory's link count depends on its sub-directory entries.
func childDirShape(t *specTOC, p string) string {
	seen := map[string]bool{}
	for i, e := range t.Entries {
		if e.Type != "dir" {
			continue
		}
		n := cleanName(e.Name)
		if n == "" || path.Dir("/"+n) != "/"+p {
			continue
		}
		if seen[n] {
			return "repeated-dir-entry"
		}
		seen[n] = true
		for _, x := range t.Entries[:i] {
			if x.Type != "chunk" && strings.HasPrefix(cleanName(x.Name), n+"/") {
				return "dir-entry-after-child"
			}
		}
	}
	return ""
}

func conformance(t *specTOC) string {
	if t == nil {
		return "TOC not extractable by the from-the-spec reader"
	}
	if t.Entries == nil {
		return `"entries" is null or missing, the spec requires an array`
	}
	for i, e := range t.Entries {
		if e.Type == "chunk" {
			continue
		}
		switch entShape(t, i) {
		case "unknown-type":
			return "entry type is not one of the values the spec enumerates"
		case "hardlink-missing-target":
			return "hardlink without a target entry"
		}
	}
	return ""
}

// ---------------------------------------------------------------- one differential case

type caseIn struct {
	Label         string // human readable input
	Blob          []byte
	BuilderDigest string            // TOC digest announced by the builder ("" for hand-made)
	Truth         map[string]string // path -> expected payload where unambiguous
	NonConforming string
	Grid          int
}

type caseOut struct {
	Outcome    string
	Viol       []runner.Violation
	Broken     string
	ObsDigest  string
	Nontrivial bool
	Feat       map[string]bool
	Sample     map[string]any
}

func showBlobTOC(blob []byte) string {
	t, err := extractTOC(blob)
	if err != nil {
		return "(toc: " + err.Error() + ")"
	}
	var s []string
	for _, e := range t.Entries {
		x := fmt.Sprintf("%s %q", e.Type, e.Name)
		if e.LinkName != "" {
			x += "->" + e.LinkName
		}
		if e.Type == "reg" {
			x += fmt.Sprintf(" size=%d off=%d", e.Size, e.Offset)
			if e.InnerOffset > 0 {
				x += fmt.Sprintf(" inner=%d", e.InnerOffset)
			}
		}
		if e.Type == "chunk" {
			x = fmt.Sprintf("chunk off=%d inner=%d", e.Offset, e.InnerOffset)
		}
		if len(e.Xattrs) > 0 {
			x += " xattrs=" + xattrString(e.Xattrs)
		}
		s = append(s, x)
	}
	return fmt.Sprintf("TOC entries [%s], %d byte(s) after the JSON value", strings.Join(s, "; "), t.Trailing)
}

func runCase(db *bolt.DB, in caseIn, replay any) (out caseOut) {
	out.Feat = map[string]bool{}
	toc, _ := extractTOC(in.Blob)
	nonconf := in.NonConforming
	if nonconf == "" {
		nonconf = conformance(toc)
	}
	addViol := func(kind, p, mem, dbv, extra string) {
		mem, dbv = focus(mem, dbv)
		shape := shapeOf(toc, kind, basePath(p))
		key := fmt.Sprintf("C05/%s/%s", kind, shape)
		if strings.HasPrefix(kind, "clone-tocdigest") && dbv == "" {
			key = "C05/clone/tocdigest-empty"
		}
		msg := fmt.Sprintf("input: %s\n%s\nobservation %q at path %q\n  memory store: %s\n  db store:     %s", in.Label, showBlobTOC(in.Blob), kind, "/"+p, clip(mem, 900), clip(dbv, 900))
		if extra != "" {
			msg += "\n" + extra
		}
		out.Viol = append(out.Viol, runner.Violation{Key: key, Msg: msg, Replay: replay})
	}

	if n := len(fsBuckets(db)); n != 0 {
		out.Broken = fmt.Sprintf("DB not empty before case: %d filesystem buckets", n)
		return
	}
	m := openMem(in.Blob)
	d := openDBStore(db, in.Blob)
	defer func() {
		if d.r != nil {
			d.r.Close()
		}
		if left := fsBuckets(db); len(left) > 0 {
			if d.accept {
				out.Feat["db: Close() left a filesystem bucket behind"] = true
				if out.Broken == "" && len(out.Viol) == 0 {
					addViol("close", "", "n/a", fmt.Sprintf("%d bucket(s) under filesystems/ after Close()", len(left)), "")
				}
			} else {
				out.Feat["db: bucket of a reader whose init failed is never removed (Close returns the init error)"] = true
			}
			dropAllFS(db)
		}
	}()
	switch {
	case strings.HasPrefix(m.why, "panic") || strings.HasPrefix(d.why, "panic"):
		out.Outcome = "panic"
		addViol("panic", "", m.why, d.why, "")
		return
	case !m.accept && !d.accept:
		out.Outcome = "both reject"
		return
	case m.accept != d.accept:
		out.Outcome = "accept/reject differs"
		mv, dv := "accepts", "accepts"
		if !m.accept {
			mv = "rejects: " + m.why
		}
		if !d.accept {
			dv = "rejects: " + d.why
		}
		addViol("accept", "", mv, dv, "")
		return
	}
	if nonconf != "" {
		out.Outcome = "non-conforming input, both accept (not compared further)"
		return
	}
	mo := observe(m.r, in.Grid)
	do := observe(d.r, in.Grid)
	out.ObsDigest = mo.digest()
	out.Nontrivial = mo.nodes > 1
	for name, n := range map[string]int{"multi-chunk file": mo.multichunk, "hardlink": mo.hardlinks, "xattrs": mo.xattrs, "pre-read callbacks (inner-offset stream)": mo.preread, "regular file": mo.regs} {
		if n > 0 {
			out.Feat["observed: "+name] = true
		}
	}
	diffs := compare(mo, do)
	for _, df := range diffs {
		addViol(df.Kind, df.Path, df.Mem, df.DB, "")
	}
	out.Outcome = "both accept, same observations"
	if len(diffs) > 0 {
		out.Outcome = "both accept, observations differ"
	}
	// independent anchors for builder-made blobs
	if in.BuilderDigest != "" && mo.m["tocdigest:"] == do.m["tocdigest:"] && mo.m["tocdigest:"] != in.BuilderDigest {
		addViol("tocdigest-vs-builder", "", mo.m["tocdigest:"], do.m["tocdigest:"], "builder announced "+in.BuilderDigest)
	}
	if len(diffs) == 0 && in.Truth != nil {
		got := fileContents(m.r)
		for p, want := range in.Truth {
			if g, ok := got[p]; ok && g != want {
				addViol("payload-vs-source", p, fmt.Sprintf("%q", g), "(same)", fmt.Sprintf("the tar holds %q", want))
			}
		}
	}

	// Clone: same observations through the clone, in both stores
	mc, merr := m.r.Clone(sectionOf(in.Blob))
	dc, derr := d.r.Clone(sectionOf(in.Blob))
	switch {
	case merr != nil || derr != nil:
		if (merr != nil) != (derr != nil) {
			addViol("clone-accept", "", fmt.Sprint(merr), fmt.Sprint(derr), "")
		}
	default:
		// the clone shares the metadata and reads payload through the new section
		// reader: the reduced payload grid is enough to see both
		mco, dco := observe(mc, gridReduced), observe(dc, gridReduced)
		if in.Grid == gridFull {
			mo, do = observe(m.r, gridReduced), observe(d.r, gridReduced)
		}
		reported := map[string]bool{}
		for _, df := range diffs {
			reported[df.Kind] = true
		}
		for _, df := range compare(mco, dco) {
			if reported[df.Kind] {
				continue // same disagreement as on the original
			}
			reported[df.Kind] = true
			addViol("clone-"+df.Kind, df.Path, df.Mem, df.DB, "(the originals agree on this observation)")
		}
		for _, pr := range []struct {
			name  string
			o, co *obs
		}{{"memory", mo, mco}, {"db", do, dco}} {
			for _, df := range compare(pr.o, pr.co) {
				if reported[df.Kind] {
					continue
				}
				reported[df.Kind] = true
				addViol("clone-"+df.Kind, df.Path, pr.name+" original: "+df.Mem, pr.name+" clone: "+df.DB, "(clone differs from its own original)")
			}
		}
		if mc.RootID() != m.r.RootID() || dc.RootID() != d.r.RootID() {
			addViol("clone-rootid", "", fmt.Sprintf("%d vs %d", m.r.RootID(), mc.RootID()), fmt.Sprintf("%d vs %d", d.r.RootID(), dc.RootID()), "")
		}
	}
	if len(out.Viol) > 0 && out.Outcome == "both accept, same observations" {
		out.Outcome = "both accept, clone/anchor observations differ"
	}
	out.Sample = map[string]any{"input": in.Label, "toc": showBlobTOC(in.Blob), "observation_keys": len(mo.keys), "nodes": mo.nodes,
		"memory_observation_excerpt": excerpt(mo, 14)}
	return
}

// focus shortens two long space-separated tables to the neighbourhood of their first difference.
func focus(a, b string) (string, string) {
	if len(a) < 400 && len(b) < 400 {
		return a, b
	}
	ta, tb := strings.Fields(a), strings.Fields(b)
	i := 0
	for i < len(ta) && i < len(tb) && ta[i] == tb[i] {
		i++
	}
	cut := func(t []string) string {
		lo, hi := max(i-1, 0), min(i+5, len(t))
		if lo >= hi {
			return fmt.Sprintf("(%d elements, ends before element %d)", len(t), i)
		}
		return fmt.Sprintf("(%d elements; first difference at element %d) … %s …", len(t), i, strings.Join(t[lo:hi], " "))
	}
	return cut(ta), cut(tb)
}

func clip(s string, n int) string {
	if len(s) > n {
		return s[:n] + fmt.Sprintf(" …(%d more bytes)", len(s)-n)
	}
	return s
}

func excerpt(o *obs, n int) []string {
	var s []string
	for i, k := range o.keys {
		if i >= n {
			break
		}
		v := o.m[k]
		if len(v) > 160 {
			v = v[:160] + "..."
		}
		s = append(s, k+" = "+v)
	}
	return s
}

// ---------------------------------------------------------------- part A enumeration

func seqLen(tier string) int {
	if tier == "thorough" {
		return 4
	}
	return 3
}

// tarSeq decodes the idx-th sequence (shortest first, then lexicographic).
func tarSeq(alpha []tEnt, maxLen int, idx int64) ([]tEnt, bool) {
	n := int64(len(alpha))
	cnt := int64(1)
	for l := 0; l <= maxLen; l++ {
		if idx < cnt {
			out := make([]tEnt, l)
			for i := l - 1; i >= 0; i-- {
				out[i] = alpha[idx%n]
				idx /= n
			}
			return out, true
		}
		idx -= cnt
		cnt *= n
	}
	return nil, false
}

func numSeqs(n, maxLen int) int64 {
	t, c := int64(0), int64(1)
	for l := 0; l <= maxLen; l++ {
		t += c
		c *= int64(n)
	}
	return t
}

func partAOptions(name string) []bopt {
	var o []bopt
	switch name {
	// min-chunk-size: 16 compressed bytes gives inner-offset streams with zstd only (a
	// gzip member header alone exceeds it); 100 makes gzip share streams too, within and across files.
	case "A-build-gzip":
		for _, c := range []int{3, 8} {
			for _, m := range []int{0, 100} {
				o = append(o, bopt{Via: "build", Comp: "gzip", Chunk: c, MinChunk: m})
			}
		}
		o = append(o, bopt{Via: "build", Comp: "gzip", Chunk: 3, MinChunk: 0, Prio: true}, bopt{Via: "build", Comp: "gzip", Chunk: 8, MinChunk: 100, Prio: true})
	case "A-build-zstdchunked":
		o = append(o, bopt{Via: "build", Comp: "zstd", Chunk: 3, MinChunk: 0}, bopt{Via: "build", Comp: "zstd", Chunk: 3, MinChunk: 16},
			bopt{Via: "build", Comp: "zstd", Chunk: 8, MinChunk: 16}, bopt{Via: "build", Comp: "zstd", Chunk: 3, MinChunk: 100})
	case "A-writer-gzip":
		for _, c := range []int{3, 8} {
			for _, m := range []int{0, 16, 100} {
				o = append(o, bopt{Via: "writer", Comp: "gzip", Chunk: c, MinChunk: m})
			}
		}
	}
	return o
}

func describeTar(ents []tEnt) string {
	var s []string
	for _, e := range ents {
		x := fmt.Sprintf("%s(%q", e.Label, e.Name)
		if e.Link != "" {
			x += "->" + e.Link
		}
		if e.Type == tar.TypeReg {
			x += fmt.Sprintf(",%dB", len(e.Data))
		}
		s = append(s, x+")")
	}
	return "tar[" + strings.Join(s, ", ") + "]"
}

func truthOf(ents []tEnt) map[string]string {
	cnt := map[string]int{}
	for _, e := range ents {
		cnt[cleanName(e.Name)]++
	}
	out := map[string]string{}
	for _, e := range ents {
		if e.Type == tar.TypeReg && cnt[cleanName(e.Name)] == 1 {
			out[cleanName(e.Name)] = e.Data
		}
	}
	return out
}

// partALen: zstd:chunked differs from gzip in footer/TOC framing and payload
// decompression only (every ReadAt spins up a zstd decoder, ~100x the cost of
// gzip), so it gets tars one entry shorter and the reduced payload grid.
func partALen(name, tier string) int {
	if name == "A-build-zstdchunked" {
		return seqLen(tier) - 1
	}
	return seqLen(tier)
}

func partACase(name, tier string, idx int64) (caseIn, bool, error) {
	opts := partAOptions(name)
	alpha := tarAlphabet()
	si, oi := idx/int64(len(opts)), idx%int64(len(opts))
	ents, ok := tarSeq(alpha, partALen(name, tier), si)
	if !ok {
		return caseIn{}, false, nil
	}
	o := opts[oi]
	label := describeTar(ents) + " built " + o.String()
	tb := makeTar(ents)
	blob, dg, err := buildBlob(tb, ents, o)
	if err != nil {
		return caseIn{Label: label}, true, err
	}
	grid := gridFull
	if o.Comp == "zstd" {
		grid = gridReduced
	}
	return caseIn{Label: label, Blob: blob, BuilderDigest: dg, Truth: truthOf(ents), Grid: grid}, true, nil
}

type tally struct {
	res      *runner.Result
	blobs    map[string]bool
	obsSeen  map[string]bool
	violKeys map[string]bool

	sampleScore int
}

func newTally() *tally {
	return &tally{res: &runner.Result{Outcomes: map[string]int{}}, blobs: map[string]bool{}, obsSeen: map[string]bool{}, violKeys: map[string]bool{}}
}

func (t *tally) add(in caseIn, out caseOut) bool {
	r := t.res
	r.Evaluations++
	r.Transitions += 2 // one open per store
	if out.Broken != "" {
		r.Broken = out.Broken
		return false
	}
	h := sha(in.Blob)
	if !t.blobs[h] {
		t.blobs[h] = true
		r.States++
		if out.Nontrivial && out.ObsDigest != "" && !t.obsSeen[out.ObsDigest] {
			t.obsSeen[out.ObsDigest] = true
			r.Nontrivial++
		}
	}
	r.Outcomes[out.Outcome]++
	for f := range out.Feat {
		r.Outcomes[f]++
	}
	for _, v := range out.Viol {
		r.Outcomes["disagreement "+v.Key]++
		if !t.violKeys[v.Key] {
			t.violKeys[v.Key] = true
			r.Violations = append(r.Violations, v)
		}
	}
	if out.Sample != nil && out.Nontrivial {
		// keep the sample that exercises most features (the runner publishes the first one)
		score := 1
		for f := range out.Feat {
			if strings.HasPrefix(f, "observed: ") {
				score++
			}
		}
		if score > t.sampleScore {
			t.sampleScore = score
			r.Samples = []any{out.Sample}
		}
	}
	return true
}

func partA(name, tier string) runner.Part {
	return runner.Part{
		Name:   name,
		Shards: 16,
		Run: func(c *runner.Ctx) *runner.Result {
			debug.SetMaxStack(64 << 20)
			useScratch(c)
			t := newTally()
			db, err := openDB(c.Scratch)
			if err != nil {
				return &runner.Result{Broken: err.Error()}
			}
			defer db.Close()
			total := numSeqs(len(tarAlphabet()), partALen(name, tier)) * int64(len(partAOptions(name)))
			buildErrs := 0
			for idx := int64(c.Shard); idx < total; idx += int64(c.Of) {
				if time.Now().After(c.Deadline) {
					t.res.Caps = append(t.res.Caps, fmt.Sprintf("time budget: stopped at case %d of %d", idx, total))
					break
				}
				in, ok, err := partACase(name, tier, idx)
				if !ok {
					break
				}
				if err != nil {
					buildErrs++
					t.res.Outcomes["builder refused the tar (not an input)"]++
					continue
				}
				if t.blobs[sha(in.Blob)] {
					t.res.Outcomes["same blob as an earlier case of this shard (not re-evaluated)"]++
					continue
				}
				out := runCase(db, in, map[string]any{"part": name, "tier": tier, "index": idx})
				if !t.add(in, out) {
					break
				}
			}
			t.res.Extra = map[string]any{"cases": total, "tar_alphabet": len(tarAlphabet()), "max_tar_entries": partALen(name, tier), "builder_options": fmt.Sprint(partAOptions(name))}
			return t.res
		},
		Replay: replayFn,
	}
}

// ---------------------------------------------------------------- part B

func partBCase(idx int64) (caseIn, hTOC, bool) {
	l := handmadeTOCs()
	if idx < 0 || idx >= int64(len(l)) {
		return caseIn{}, hTOC{}, false
	}
	t := l[idx]
	blob, tocJSON := assemble(t)
	js := string(tocJSON)
	js = digestRE.ReplaceAllString(js, "sha256:$1…")
	if len(js) > 600 {
		js = js[:420] + " …(" + fmt.Sprint(len(js)) + " bytes)… " + js[len(js)-60:]
	}
	label := fmt.Sprintf("hand-assembled TOC %s/%s: %q", t.Family, t.Name, js)
	return caseIn{Label: label, Blob: blob, NonConforming: t.NonConforming}, t, true
}

var digestRE = regexp.MustCompile(`sha256:([0-9a-f]{8})[0-9a-f]{56}`)

func partB() runner.Part {
	return runner.Part{
		Name:   "B-handmade-toc",
		Shards: 1, // small; one shard keeps "first = simplest" global
		Run: func(c *runner.Ctx) *runner.Result {
			debug.SetMaxStack(64 << 20)
			useScratch(c)
			t := newTally()
			db, err := openDB(c.Scratch)
			if err != nil {
				return &runner.Result{Broken: err.Error()}
			}
			defer db.Close()
			fam := map[string]int{}
			n := int64(len(handmadeTOCs()))
			for idx := int64(0); idx < n; idx++ {
				if time.Now().After(c.Deadline) {
					t.res.Caps = append(t.res.Caps, fmt.Sprintf("time budget: stopped at TOC %d of %d", idx, n))
					break
				}
				in, ht, _ := partBCase(idx)
				// the assembler itself is checked against the from-the-spec reader
				if st, err := extractTOC(in.Blob); err != nil {
					t.res.Broken = fmt.Sprintf("assembler produced a blob the from-the-spec reader cannot parse (%s/%s): %v", ht.Family, ht.Name, err)
					return t.res
				} else if st.Trailing != len(ht.Trailing) {
					t.res.Broken = fmt.Sprintf("assembler: trailing %d != %d (%s/%s)", st.Trailing, len(ht.Trailing), ht.Family, ht.Name)
					return t.res
				}
				fam[ht.Family]++
				// map-iteration order inside the stores is randomised by the Go
				// runtime: repeat inputs whose outcome may depend on it
				reps := 1
				if ht.Family == "empty-xattr-value" || ht.Family == "repeated-dir-entry" {
					reps = 12
				}
				var out caseOut
				for i := 0; i < reps; i++ {
					out = runCase(db, in, map[string]any{"part": "B-handmade-toc", "index": idx})
					if len(out.Viol) > 0 || out.Broken != "" {
						break
					}
				}
				if ht.NonConforming != "" {
					t.res.Outcomes["family "+ht.Family+" (non-conforming, accept/reject only): "+out.Outcome]++
				} else {
					t.res.Outcomes["family "+ht.Family+": "+out.Outcome]++
				}
				if !t.add(in, out) {
					break
				}
			}
			t.res.Extra = map[string]any{"families": fam, "tocs": n}
			return t.res
		},
		Replay: replayFn,
	}
}

func replayFn(c *runner.Ctx, raw json.RawMessage) (string, error) {
	var r struct {
		Part  string `json:"part"`
		Tier  string `json:"tier"`
		Index int64  `json:"index"`
		Hist  []string
	}
	if err := json.Unmarshal(raw, &r); err != nil {
		return "", err
	}
	if strings.HasPrefix(r.Part, "iso") {
		return replayIso(c, raw)
	}
	if r.Part == "A-large-chunks" || r.Part == "C-clone-first" {
		return replayExtra(c, r.Part, int(r.Index))
	}
	useScratch(c)
	db, err := openDB(c.Scratch)
	if err != nil {
		return "", err
	}
	defer db.Close()
	var in caseIn
	if r.Part == "B-handmade-toc" {
		var ok bool
		in, _, ok = partBCase(r.Index)
		if !ok {
			return "", fmt.Errorf("no such TOC index")
		}
	} else {
		var ok bool
		in, ok, err = partACase(r.Part, r.Tier, r.Index)
		if !ok || err != nil {
			return "", fmt.Errorf("cannot rebuild case: %v", err)
		}
	}
	var out caseOut
	for i := 0; i < 12 && len(out.Viol) == 0; i++ {
		out = runCase(db, in, nil)
	}
	if len(out.Viol) > 0 {
		var s []string
		for _, v := range out.Viol {
			s = append(s, v.Key+"\n"+v.Msg)
		}
		return in.Label, fmt.Errorf("%s", strings.Join(s, "\n"))
	}
	return in.Label + ": " + out.Outcome, nil
}

func sortedKeys(m map[string]bool) []string {
	var l []string
	for k := range m {
		l = append(l, k)
	}
	sort.Strings(l)
	return l
}

func main() {
	runner.Main(runner.Check{
		ID:    "C05",
		Level: "exploration",
		Rule: "differential: every input blob is opened with memory.NewReader and db.NewReader (one shared bolt file) and TOCDigest, the RootID-rooted name tree (ForeachChild+GetChild), GetAttr of every node, GetOffset, ChunkEntryForOffset for every offset in [-1,size+1], ReadAt on the chunk-boundary grid, OpenFileWithPreReader callback sequences (drain/ignore/fail), and the same through Clone() must be equal. " +
			"Inputs A: every tar of <=3 (quick) / <=4 (thorough) entries over a 12-symbol entry alphabet, built by estargz.Build (gzip, zstd:chunked) and estargz.Writer.AppendTar with chunk size 3|8 x min-chunk-size 0|16 (+prioritized files). A-large-chunks: files of 130/330/700 bytes with chunk sizes 50/64/129 (chunk offsets >= 64; gzip, one zstd, two inner-offset cases). Inputs B: hand-assembled spec-conforming TOCs by family. C-clone-first: the call sequence NewReader -> Clone -> observe the clone before anything is asked of the original, on a bolt DB with the production MaxBatchDelay and with 0, 6 blobs incl. a TOC of 360 entries. " +
			"states = distinct blobs; non-trivial = distinct observed filesystems (hash of the full observation) with at least one node besides the root. " +
			"isolation: all histories over {open(A),open(B)[,open(C)],walk(h),close(h)} (at most 3 layers open at once; opening a layer that is already open = a second instance) in one bolt DB: quick depth 4 over 2 layers; thorough depth 6 over 2 layers (iso-sync) and depth 5 over 3 layers incl. a zstd:chunked one (iso-lazy); after every operation every open layer must give its solo observation and filesystems/ must hold exactly the open layers' buckets.",
		Assumptions: []string{
			"bolt opened with NoSync and MaxBatchDelay=0 (speed only; transactions and their order are unchanged)",
			"conformance is judged from docs/estargz.md: unknown entry types and hardlinks without a target entry are non-conforming (accept/reject compared only)",
			"isolation is explored at API-call granularity: bolt serialises write transactions, so finer interleavings add no orderings the DB does not already impose; the lazy variant lets the real background init goroutine race with the next call",
			"map-iteration-order dependent behaviour inside the stores is sampled by repeating the affected hand-made inputs 12 times",
		},
		QuickBudget: 3 * time.Minute, ThoroughBudget: 25 * time.Minute,
		Parts: func(tier string) []runner.Part {
			return []runner.Part{
				partB(), partLarge(), partCloneFirst(),
				isoPart("iso-sync", tier, false), isoPart("iso-lazy", tier, true),
				partA("A-build-zstdchunked", tier), partA("A-build-gzip", tier), partA("A-writer-gzip", tier),
			}
		},
	})
}
