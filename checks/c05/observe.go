package main

// Store-independent observation of a metadata.Reader: everything a consumer can
// learn through the interface, keyed by path instead of by node id.

import (
	"bytes"
	"encoding/hex"
	"errors"
	"fmt"
	"io"
	"os"
	"sort"
	"strings"

	"github.com/containerd/stargz-snapshotter/metadata"
)

type obs struct {
	keys []string
	m    map[string]string
	// features measured on the way (for coverage reporting)
	nodes, regs, multichunk, hardlinks, xattrs, preread int
}

func newObs() *obs { return &obs{m: map[string]string{}} }

func (o *obs) put(kind, path, v string) {
	k := kind + ":" + path
	if _, dup := o.m[k]; dup {
		k = k + "#dup"
	}
	o.keys = append(o.keys, k)
	o.m[k] = v
}

func (o *obs) digest() string {
	var b strings.Builder
	for _, k := range o.keys {
		b.WriteString(k)
		b.WriteByte('=')
		b.WriteString(o.m[k])
		b.WriteByte('\n')
	}
	return sha([]byte(b.String()))
}

func errClass(err error) string {
	switch {
	case err == nil:
		return "nil"
	case errors.Is(err, io.EOF):
		return "EOF"
	case errors.Is(err, io.ErrUnexpectedEOF):
		return "UnexpectedEOF"
	}
	return "error"
}

const maxDepth = 12
const maxNodes = 4000

type walker struct {
	r     metadata.Reader
	o     *obs
	canon map[uint32]string // id -> first path that reached it
	paths map[uint32][]string
	grid  int // how densely file payload is read
}

func joinPath(dir, base string) string {
	if dir == "" {
		return base
	}
	return dir + "/" + base
}

func xattrString(x map[string][]byte) string {
	keys := make([]string, 0, len(x))
	for k := range x {
		keys = append(keys, k)
	}
	sort.Strings(keys)
	var s []string
	for _, k := range keys {
		s = append(s, fmt.Sprintf("%q=%s", k, hex.EncodeToString(x[k])))
	}
	return "{" + strings.Join(s, ",") + "}"
}

func attrFields(a metadata.Attr) [][2]string {
	mt := "zero"
	if !a.ModTime.IsZero() {
		mt = fmt.Sprintf("%d.%09d", a.ModTime.Unix(), a.ModTime.Nanosecond())
	}
	return [][2]string{
		{"mode", fmt.Sprintf("%v(%#o)", a.Mode, uint32(a.Mode))},
		{"size", fmt.Sprint(a.Size)},
		{"mtime", mt},
		{"uid", fmt.Sprint(a.UID)},
		{"gid", fmt.Sprint(a.GID)},
		{"dev", fmt.Sprintf("%d,%d", a.DevMajor, a.DevMinor)},
		// metadata.Attr/TOCEntry contract: "zero means one name references this
		// entry" (fs/layer/node.go maps 0 to st_nlink 1), so 0 and 1 are the same observation
		{"numlink", fmt.Sprint(max(a.NumLink, 1))},
		{"linkname", fmt.Sprintf("%q", a.LinkName)},
		{"xattrs", xattrString(a.Xattrs)},
	}
}

func attrString(a metadata.Attr) string {
	var s []string
	for _, f := range attrFields(a) {
		s = append(s, f[0]+"="+f[1])
	}
	return strings.Join(s, " ")
}

// observe walks the whole reader. blobLen is only used for labelling.
const (
	gridFull    = iota // ReadAt: every chunk boundary -1/0/+1 x 5 lengths; pre-reader: whole grid (drain) + chunk starts (ignore, fail)
	gridReduced        // ReadAt: every chunk start x {1 byte, across the boundary}, whole file; pre-reader: chunk starts (drain)
	gridNone           // metadata only
)

func observe(r metadata.Reader, grid int) (o *obs) {
	o = newObs()
	defer func() {
		if p := recover(); p != nil {
			o.put("panic", "", fmt.Sprint(p))
		}
	}()
	w := &walker{r: r, o: o, canon: map[uint32]string{}, paths: map[uint32][]string{}, grid: grid}
	o.put("tocdigest", "", r.TOCDigest().String())
	w.node(r.RootID(), "", 0)
	return o
}

func (w *walker) node(id uint32, p string, depth int) {
	o := w.o
	o.nodes++
	if first, seen := w.canon[id]; seen {
		// second name of the same node (hardlink) or a cycle: record identity only
		o.put("ident", p, "same-node-as:"+first)
		o.hardlinks++
		return
	}
	w.canon[id] = p
	o.put("ident", p, "new-node")
	attr, err := w.r.GetAttr(id)
	if err != nil {
		o.put("getattr", p, "error")
		return
	}
	for _, f := range attrFields(attr) {
		o.put(f[0], p, f[1])
	}
	if len(attr.Xattrs) > 0 {
		o.xattrs++
	}
	off, err := w.r.GetOffset(id)
	if err != nil {
		o.put("offset", p, "error")
	} else {
		o.put("offset", p, fmt.Sprint(off))
	}

	type child struct {
		name string
		id   uint32
		mode os.FileMode
	}
	var children []child
	err = w.r.ForeachChild(id, func(name string, cid uint32, mode os.FileMode) bool {
		children = append(children, child{name, cid, mode})
		return true
	})
	sort.Slice(children, func(i, j int) bool { return children[i].name < children[j].name })
	var names []string
	for _, c := range children {
		names = append(names, fmt.Sprintf("%q", c.name))
	}
	if err != nil {
		o.put("tree", p, "foreach-error")
	} else {
		o.put("tree", p, "["+strings.Join(names, " ")+"]")
	}
	// early stop must be honoured
	calls := 0
	w.r.ForeachChild(id, func(string, uint32, os.FileMode) bool { calls++; return false })
	want := 0
	if len(children) > 0 {
		want = 1
	}
	if calls == want {
		o.put("foreach-stop", p, "honoured")
	} else {
		o.put("foreach-stop", p, fmt.Sprintf("not honoured: %d calls after returning false, %d children", calls, len(children)))
	}
	if _, _, err := w.r.GetChild(id, "\x01no-such-child"); err == nil {
		o.put("getchild-missing", p, "found")
	} else {
		o.put("getchild-missing", p, "error")
	}
	for _, c := range children {
		cp := joinPath(p, c.name)
		gid, gattr, err := w.r.GetChild(id, c.name)
		switch {
		case err != nil:
			o.put("getchild", cp, "error")
		case gid != c.id:
			o.put("getchild", cp, "id differs from ForeachChild")
		default:
			cattr, err := w.r.GetAttr(gid)
			if err != nil {
				o.put("getchild", cp, "GetAttr(child) error")
			} else if attrString(cattr) != attrString(gattr) {
				o.put("getchild", cp, "attr differs from GetAttr: "+attrString(gattr)+" vs "+attrString(cattr))
			} else if cattr.Mode != c.mode {
				o.put("getchild", cp, fmt.Sprintf("ForeachChild mode %v differs from GetAttr mode %v", c.mode, cattr.Mode))
			} else {
				o.put("getchild", cp, "consistent")
			}
		}
	}
	if attr.Mode.IsRegular() {
		o.regs++
		if w.grid != gridNone {
			w.file(id, p, attr.Size)
		}
	} else {
		if _, err := w.r.OpenFile(id); err == nil {
			o.put("open", p, "non-regular node opened")
		} else {
			o.put("open", p, "error")
		}
	}
	if depth >= maxDepth || o.nodes > maxNodes {
		if len(children) > 0 {
			o.put("tree", p+"/...", "depth guard hit")
		}
		return
	}
	for _, c := range children {
		w.node(c.id, joinPath(p, c.name), depth+1)
	}
}

func (w *walker) file(id uint32, p string, size int64) {
	o := w.o
	f, err := w.r.OpenFile(id)
	if err != nil {
		o.put("open", p, "error")
		return
	}
	o.put("open", p, "ok")
	// chunk table: every offset in [0, size+1]
	var tab []string
	bounds := map[int64]bool{0: true, size: true}
	nchunks := map[int64]bool{}
	for x := int64(0); x <= size+1; x++ {
		off, sz, dg, ok := f.ChunkEntryForOffset(x)
		tab = append(tab, fmt.Sprintf("%d->(%d,%d,%s,%v)", x, off, sz, short(dg), ok))
		if ok {
			bounds[off] = true
			bounds[off+sz] = true
			nchunks[off] = true
		}
	}
	if len(nchunks) > 1 {
		o.multichunk++
	}
	o.put("chunk", p, strings.Join(tab, " "))

	// ReadAt on the boundary grid
	var offs []int64
	for b := range bounds {
		for _, d := range []int64{-1, 0, 1} {
			if x := b + d; x >= 0 && x <= size+1 {
				offs = append(offs, x)
			}
		}
	}
	if w.grid == gridReduced {
		offs = offs[:0]
		for b := range bounds {
			if b < size || size == 0 {
				offs = append(offs, b)
			}
		}
	}
	sort.Slice(offs, func(i, j int) bool { return offs[i] < offs[j] })
	offs = uniq(offs)
	var reads []string
	for _, x := range offs {
		// lengths: one byte, up to and across the next chunk boundary, up to and beyond EOF
		lens := map[int64]bool{1: true, size - x: true, size - x + 1: true}
		next := size
		for b := range bounds {
			if b > x && b < next {
				next = b
			}
		}
		lens[next-x] = true
		lens[next-x+1] = true
		if w.grid == gridReduced {
			lens = map[int64]bool{1: true, next - x + 1: true}
			if x == 0 {
				lens[size+1] = true
			}
		}
		var ll []int64
		for l := range lens {
			if l >= 0 {
				ll = append(ll, l)
			}
		}
		sort.Slice(ll, func(i, j int) bool { return ll[i] < ll[j] })
		for _, l := range ll {
			buf := make([]byte, l)
			n, err := f.ReadAt(buf, x)
			reads = append(reads, fmt.Sprintf("%d+%d->(%d,%s,%s)", x, l, n, errClass(err), hex.EncodeToString(buf[:n])))
		}
	}
	o.put("readat", p, strings.Join(reads, " "))

	// OpenFileWithPreReader: the callback sequence is part of the observation
	for _, mode := range []string{"drain", "ignore", "fail"} {
		if w.grid == gridReduced && mode != "drain" {
			continue
		}
		var seqs []string
		for _, x := range offs {
			if x >= size || (mode != "drain" && !bounds[x]) {
				continue // drain: whole grid; ignore/fail: chunk starts
			}
			var calls []string
			pf, err := w.r.OpenFileWithPreReader(id, func(cid uint32, chunkOffset, chunkSize int64, chunkDigest string, cr io.Reader) error {
				who, known := w.canon[cid]
				if !known {
					who = fmt.Sprintf("?unvisited")
				}
				var data []byte
				switch mode {
				case "drain":
					data, _ = io.ReadAll(cr)
				case "fail":
					calls = append(calls, fmt.Sprintf("[%s@%d+%d]", who, chunkOffset, chunkSize))
					return errors.New("preRead refuses")
				}
				calls = append(calls, fmt.Sprintf("[%s@%d+%d %s %s]", who, chunkOffset, chunkSize, short(chunkDigest), hex.EncodeToString(data)))
				return nil
			})
			if err != nil {
				seqs = append(seqs, fmt.Sprintf("%d:open-error", x))
				continue
			}
			buf := make([]byte, 2)
			n, err := pf.ReadAt(buf, x)
			// the set of pre-read chunks is the observation; their order within one
			// stream follows the inner offsets in both stores
			if len(calls) > 0 {
				o.preread++
			}
			seqs = append(seqs, fmt.Sprintf("%d:%s->(%d,%s,%s)", x, strings.Join(calls, ""), n, errClass(err), hex.EncodeToString(buf[:n])))
			// the pre-reader file must also answer chunk queries identically
			if mode == "drain" {
				a1, a2, a3, a4 := pf.ChunkEntryForOffset(x)
				b1, b2, b3, b4 := f.ChunkEntryForOffset(x)
				if a1 != b1 || a2 != b2 || a3 != b3 || a4 != b4 {
					seqs = append(seqs, fmt.Sprintf("%d:chunk-entry-differs-from-OpenFile", x))
				}
			}
		}
		o.put("preread", p+"#"+mode, strings.Join(seqs, " "))
	}
}

func short(d string) string {
	if i := strings.IndexByte(d, ':'); i >= 0 && len(d) > i+9 {
		return d[:i+9]
	}
	return d
}

func uniq(l []int64) []int64 {
	var out []int64
	for i, x := range l {
		if i == 0 || x != l[i-1] {
			out = append(out, x)
		}
	}
	return out
}

// fileContents returns path -> payload as the reader serves it (used to compare
// against the tar the blob was built from).
func fileContents(r metadata.Reader) map[string]string {
	out := map[string]string{}
	seen := map[uint32]bool{}
	var rec func(id uint32, p string, depth int)
	rec = func(id uint32, p string, depth int) {
		if depth > maxDepth {
			return
		}
		a, err := r.GetAttr(id)
		if err != nil {
			return
		}
		if a.Mode.IsRegular() {
			f, err := r.OpenFile(id)
			if err != nil {
				out[p] = "<open error>"
				return
			}
			buf := make([]byte, a.Size)
			n, err := f.ReadAt(buf, 0)
			if a.Size > 0 && (err != nil && err != io.EOF || int64(n) != a.Size) {
				out[p] = fmt.Sprintf("<read error n=%d err=%v>", n, err)
				return
			}
			out[p] = string(buf)
			return
		}
		if seen[id] {
			return
		}
		seen[id] = true
		type ch struct {
			n  string
			id uint32
		}
		var cs []ch
		r.ForeachChild(id, func(name string, cid uint32, _ os.FileMode) bool { cs = append(cs, ch{name, cid}); return true })
		for _, c := range cs {
			rec(c.id, joinPath(p, c.n), depth+1)
		}
	}
	rec(r.RootID(), "", 0)
	return out
}

var _ = bytes.NewReader
