//go:build verif

package remote

// VerifRegionSetAdd applies add() for each [b,e] in seq to a fresh regionSet
// and returns the resulting regions and totalSize().
func VerifRegionSetAdd(seq [][2]int64) (regions [][2]int64, total int64) {
	var rs regionSet
	for _, r := range seq {
		rs.add(region{r[0], r[1]})
	}
	for _, r := range rs.rs {
		regions = append(regions, [2]int64{r.b, r.e})
	}
	return regions, rs.totalSize()
}
