// C06: remote blob reads are byte-exact under any server behaviour and concurrency.
package main

import (
	"context"
	"crypto/sha256"
	"encoding/json"
	"fmt"
	"os"
	"sort"
	"strings"
	"time"

	"github.com/containerd/containerd/v2/pkg/reference"
	"github.com/containerd/stargz-snapshotter/cache"
	"github.com/containerd/stargz-snapshotter/estargz/vrt"
	"github.com/containerd/stargz-snapshotter/fs/config"
	"github.com/containerd/stargz-snapshotter/fs/remote"
	digest "github.com/opencontainers/go-digest"
	ocispec "github.com/opencontainers/image-spec/specs-go/v1"

	"verif/lib/memreg"
	"verif/lib/runner"
	"verif/lib/vexp"
)

const repoName = "img/x"

func content(size int) []byte {
	b := make([]byte, size)
	for i := range b {
		b[i] = byte(i*7 + 3)
	}
	return b
}

// ---- recording / lossy cache wrapper --------------------------------------------

type recCache struct {
	inner     cache.BlobCache
	committed map[string]bool
	// lose, when set, is asked on every Get; true = pretend the entry is gone.
	lose func(key string) bool
}

type recWriter struct {
	cache.Writer
	c   *recCache
	key string
}

func (w *recWriter) Commit() error {
	err := w.Writer.Commit()
	if err == nil {
		w.c.committed[w.key] = true
	}
	return err
}

func (c *recCache) Add(key string, opts ...cache.Option) (cache.Writer, error) {
	w, err := c.inner.Add(key, opts...)
	if err != nil {
		return nil, err
	}
	return &recWriter{Writer: w, c: c, key: key}, nil
}

func (c *recCache) Get(key string, opts ...cache.Option) (cache.Reader, error) {
	if c.lose != nil && c.lose(key) {
		return nil, fmt.Errorf("injected cache miss")
	}
	return c.inner.Get(key, opts...)
}

func (c *recCache) Close() error { return c.inner.Close() }

// ---- world ----------------------------------------------------------------------------

type cfg struct {
	Size     int    `json:"size"`
	Chunk    int    `json:"chunk"`
	Prefetch int    `json:"prefetch_chunk"`
	Cache    string `json:"cache"`               // memory | dir
	ReadSize int    `json:"read_size,omitempty"` // registry bodies arrive in pieces of this many bytes (0 = at once)
}

type world struct {
	cfg     cfg
	reg     *memreg.Registry
	data    []byte
	dgst    digest.Digest
	rc      *recCache
	blob    remote.Blob
	res     *remote.Resolver
	refspec reference.Spec
	desc    ocispec.Descriptor
	dir     string
	lastFS  int64
	idToReg map[string][2]int64
}

func newWorld(c cfg, scratch string, script func(r *memreg.Req) memreg.Action) (*world, error) {
	w := &world{cfg: c, reg: memreg.New(), data: content(c.Size)}
	w.dgst = digest.FromBytes(w.data)
	w.reg.AddBlob(w.dgst.String(), w.data)
	w.reg.Script = script
	w.reg.ReadSize = c.ReadSize
	var inner cache.BlobCache
	if c.Cache == "dir" {
		d, err := os.MkdirTemp(scratch, "c06-")
		if err != nil {
			return nil, err
		}
		w.dir = d
		inner, err = cache.NewDirectoryCache(d, cache.DirectoryCacheConfig{MaxLRUCacheEntry: 1, MaxCacheFds: 1, SyncAdd: true})
		if err != nil {
			return nil, err
		}
	} else {
		inner = cache.NewMemoryCache()
	}
	w.rc = &recCache{inner: inner, committed: map[string]bool{}}
	w.res = remote.NewResolver(config.BlobConfig{ChunkSize: int64(c.Chunk), PrefetchChunkSize: int64(c.Prefetch), ValidInterval: 1 << 30, MaxRetries: 1, MinWaitMSec: 1, MaxWaitMSec: 1}, nil)
	var err error
	w.refspec, err = reference.Parse(w.reg.Host + "/" + repoName + ":latest")
	if err != nil {
		return nil, err
	}
	w.desc = ocispec.Descriptor{Digest: w.dgst, Size: int64(c.Size), MediaType: ocispec.MediaTypeImageLayerGzip}
	w.blob, err = w.res.Resolve(context.Background(), w.reg.Hosts(nil), w.refspec, w.desc, w.rc)
	if err != nil {
		return w, err
	}
	// expected cache ids of every chunk (sha256 of "<blobURL>-<b>-<e>")
	w.idToReg = map[string][2]int64{}
	blobURL := fmt.Sprintf("https://%s/v2/%s/blobs/%s", w.reg.Host, repoName, w.dgst)
	for b := 0; b < c.Size; b += c.Chunk {
		e := b + c.Chunk - 1
		if e >= c.Size {
			e = c.Size - 1
		}
		w.idToReg[fmt.Sprintf("%x", sha256.Sum256([]byte(fmt.Sprintf("%s-%d-%d", blobURL, b, e))))] = [2]int64{int64(b), int64(e)}
	}
	return w, nil
}

func (w *world) close() {
	if w.blob != nil {
		w.blob.Close()
	}
	if w.dir != "" {
		os.RemoveAll(w.dir)
	}
}

// checkRead compares a ReadAt result with the truth.
func (w *world) checkRead(o, n int, got []byte, gn int, err error) error {
	if err != nil {
		return nil // "or an error"
	}
	want := 0
	if o <= w.cfg.Size {
		want = w.cfg.Size - o
		if n < want {
			want = n
		}
	}
	if gn != want {
		return fmt.Errorf("ReadAt(off=%d,len=%d) on a %d-byte blob returned n=%d, want %d", o, n, w.cfg.Size, gn, want)
	}
	for i := 0; i < gn; i++ {
		if got[i] != w.data[o+i] {
			return fmt.Errorf("ReadAt(off=%d,len=%d) on a %d-byte blob (chunk %d): byte %d is %#x, blob has %#x", o, n, w.cfg.Size, w.cfg.Chunk, o+i, got[i], w.data[o+i])
		}
	}
	return nil
}

// checkFetched compares FetchedSize with the union of committed chunks.
func (w *world) checkFetched(strict bool) error {
	fs := w.blob.FetchedSize()
	if fs > int64(w.cfg.Size) {
		return fmt.Errorf("FetchedSize %d exceeds blob size %d", fs, w.cfg.Size)
	}
	if fs < w.lastFS {
		return fmt.Errorf("FetchedSize decreased from %d to %d", w.lastFS, fs)
	}
	w.lastFS = fs
	if !strict {
		return nil
	}
	covered := make([]bool, w.cfg.Size)
	for id := range w.rc.committed {
		r, ok := w.idToReg[id]
		if !ok {
			return fmt.Errorf("cache holds an entry %s that is not a chunk of the blob", id[:8])
		}
		for i := r[0]; i <= r[1]; i++ {
			covered[i] = true
		}
	}
	var n int64
	for _, c := range covered {
		if c {
			n++
		}
	}
	if n != fs {
		return fmt.Errorf("FetchedSize=%d but %d distinct blob bytes are committed in the cache", fs, n)
	}
	return nil
}

// ---- part (c): regionSet ------------------------------------------------------------

func regionPart(tier string) runner.Part {
	maxLen, universe := 4, 7
	if tier == "thorough" {
		maxLen, universe = 5, 7
	}
	var regs [][2]int64
	for b := 0; b < universe; b++ {
		for e := b; e < universe; e++ {
			regs = append(regs, [2]int64{int64(b), int64(e)})
		}
	}
	return runner.Part{Name: "regionset", Shards: len(regs), Run: func(c *runner.Ctx) *runner.Result {
		res := &runner.Result{Outcomes: map[string]int{}}
		states := map[string]struct{}{}
		seq := [][2]int64{regs[c.Shard]}
		var rec func()
		rec = func() {
			got, total := remote.VerifRegionSetAdd(seq)
			res.Evaluations++
			res.Transitions += int64(len(seq))
			bm := make([]bool, universe+1)
			for _, r := range seq {
				for i := r[0]; i <= r[1]; i++ {
					bm[i] = true
				}
			}
			var want [][2]int64
			pop := int64(0)
			for i := 0; i < universe; i++ {
				if bm[i] {
					pop++
					if len(want) > 0 && want[len(want)-1][1] == int64(i-1) {
						want[len(want)-1][1] = int64(i)
					} else {
						want = append(want, [2]int64{int64(i), int64(i)})
					}
				}
			}
			if fmt.Sprint(got) != fmt.Sprint(want) || total != pop {
				if len(res.Violations) < 3 {
					res.Violations = append(res.Violations, runner.Violation{Key: "C06/regionset/merge", Msg: fmt.Sprintf("regionSet.add sequence %v gives %v total=%d; sorted disjoint non-adjacent cover is %v popcount=%d", seq, got, total, want, pop), Replay: map[string]any{"seq": seq}})
				}
				return
			}
			states[fmt.Sprint(got)] = struct{}{}
			if len(seq) == maxLen {
				return
			}
			for _, r := range regs {
				seq = append(seq, r)
				rec()
				seq = seq[:len(seq)-1]
			}
		}
		rec()
		res.States = int64(len(states))
		res.Nontrivial = int64(len(states))
		res.Samples = []any{map[string]any{"regionSet_add_sequences_starting_with": regs[c.Shard], "max_len": maxLen, "universe": universe}}
		return res
	}}
}

// ---- part (a): sequential histories x server deviations -------------------------------

type op struct {
	Kind string `json:"k"` // R read, C cache, K check, F refresh
	O, N int    `json:"o,omitempty"`
}

func (o op) String() string {
	switch o.Kind {
	case "R":
		return fmt.Sprintf("ReadAt(%d,%d)", o.O, o.N)
	case "C":
		return fmt.Sprintf("Cache(%d,%d)", o.O, o.N)
	case "K":
		return "Check"
	}
	return "Refresh"
}

var devActions = []memreg.Action{memreg.Squash, memreg.Whole, memreg.BadRequest, memreg.Forbidden, memreg.Transient, memreg.Redirect, memreg.Truncated, memreg.ServerError}

type seqCase struct {
	Cfg  cfg            `json:"cfg"`
	Hist []op           `json:"hist"`
	Devs map[int]string `json:"devs"` // request number -> action name
}

func actionByName(n string) memreg.Action {
	for _, a := range append([]memreg.Action{memreg.Perfect}, devActions...) {
		if a.String() == n {
			return a
		}
	}
	return memreg.Perfect
}

// runSeq executes one history under one deviation assignment; returns #requests and an outcome class.
func runSeq(sc seqCase, scratch string) (nreq int, outcome string, err error) {
	script := func(r *memreg.Req) memreg.Action {
		if a, ok := sc.Devs[r.N]; ok {
			return actionByName(a)
		}
		return memreg.Perfect
	}
	w, rerr := newWorld(sc.Cfg, scratch, script)
	defer w.close()
	if rerr != nil {
		return w.reg.Count(), "resolve-error", nil
	}
	var outs []string
	for _, o := range sc.Hist {
		switch o.Kind {
		case "R":
			buf := make([]byte, o.N)
			for i := range buf {
				buf[i] = 0xEE
			}
			n, e := w.blob.ReadAt(buf, int64(o.O))
			if cerr := w.checkRead(o.O, o.N, buf, n, e); cerr != nil {
				return w.reg.Count(), "", cerr
			}
			if e != nil {
				outs = append(outs, "err")
			} else {
				outs = append(outs, "ok")
			}
		case "C":
			if e := w.blob.Cache(int64(o.O), int64(o.N)); e != nil {
				outs = append(outs, "err")
			} else {
				outs = append(outs, "ok")
			}
		case "K":
			if e := w.blob.Check(); e != nil {
				outs = append(outs, "err")
			} else {
				outs = append(outs, "ok")
			}
		case "F":
			if e := w.blob.Refresh(context.Background(), w.reg.Hosts(nil), w.refspec, w.desc); e != nil {
				outs = append(outs, "err")
			} else {
				outs = append(outs, "ok")
			}
		}
		if cerr := w.checkFetched(true); cerr != nil {
			return w.reg.Count(), "", cerr
		}
	}
	return w.reg.Count(), strings.Join(outs, ","), nil
}

func seqConfigs(tier string) []cfg {
	chunks := []int{2, 3}
	if tier == "thorough" {
		chunks = []int{1, 2, 3, 5}
	}
	var out []cfg
	for _, c := range chunks {
		sizes := map[int]bool{}
		for _, s := range []int{0, 1, c - 1, c, c + 1, 2 * c, 2*c + 1, 3*c - 1} {
			if s >= 0 {
				sizes[s] = true
			}
		}
		var ss []int
		for s := range sizes {
			ss = append(ss, s)
		}
		sort.Ints(ss)
		for _, s := range ss {
			for _, pf := range []int{0, 2 * c} {
				for _, ca := range []string{"memory", "dir"} {
					if tier != "thorough" && ca == "dir" && pf != 0 {
						continue
					}
					out = append(out, cfg{Size: s, Chunk: c, Prefetch: pf, Cache: ca})
					if ca == "memory" && pf == 0 && c >= 3 {
						// fragmented bodies: chunk data reaches the writers in several Write calls
						out = append(out, cfg{Size: s, Chunk: c, Prefetch: pf, Cache: ca, ReadSize: 2})
					}
				}
			}
		}
	}
	return out
}

func opsFor(c cfg, full bool) []op {
	var ops []op
	for o := 0; o <= c.Size+1; o++ {
		for n := 0; n <= c.Size+2; n++ {
			if !full && n > 0 && n < c.Size+2 && o+n != c.Size && n%c.Chunk != 0 && n != 1 && (o+n)%c.Chunk != 0 && (o+n)%c.Chunk != 1 {
				continue
			}
			ops = append(ops, op{"R", o, n})
		}
	}
	for o := 0; o <= c.Size; o += maxInt(1, c.Chunk-1) {
		for _, n := range []int{1, c.Chunk, c.Size} {
			if n > 0 {
				ops = append(ops, op{"C", o, n})
			}
		}
	}
	ops = append(ops, op{Kind: "K"}, op{Kind: "F"})
	return ops
}

func maxInt(a, b int) int {
	if a > b {
		return a
	}
	return b
}

func seqPart(tier string) runner.Part {
	cfgs := seqConfigs(tier)
	depth, maxDev := 2, 1
	if tier == "thorough" {
		depth, maxDev = 2, 2
	}
	return runner.Part{Name: "seq", Shards: 32, Run: func(c *runner.Ctx) *runner.Result {
		res := &runner.Result{Outcomes: map[string]int{}}
		nontriv := map[string]struct{}{}
		idx := 0
		for _, cf := range cfgs {
			ops1 := opsFor(cf, true)
			ops2 := opsFor(cf, false)
			var hists [][]op
			for _, a := range ops1 {
				hists = append(hists, []op{a})
			}
			if depth >= 2 {
				for _, a := range ops2 {
					for _, b := range ops1 {
						hists = append(hists, []op{a, b})
					}
				}
			}
			for _, h := range hists {
				idx++
				if idx%c.Of != c.Shard {
					continue
				}
				if time.Now().After(c.Deadline) {
					res.Caps = appendUniq(res.Caps, "time budget")
					goto done
				}
				base := seqCase{Cfg: cf, Hist: h, Devs: map[int]string{}}
				// deviation enumeration: default, then every single request x every action, then pairs
				var explore func(sc seqCase, from int, left int)
				explore = func(sc seqCase, from int, left int) {
					nreq, out, err := runSeq(sc, c.Scratch)
					res.Evaluations++
					res.Transitions += int64(len(sc.Hist))
					if err != nil {
						key := "C06/seq/" + classify(err.Error())
						if !hasKey(res.Violations, key) {
							res.Violations = append(res.Violations, runner.Violation{Key: key, Msg: fmt.Sprintf("config %+v history %v server deviations %v: %v", sc.Cfg, sc.Hist, sc.Devs, err), Replay: sc})
						}
						return
					}
					res.Outcomes[fmt.Sprintf("devs=%d:%s", len(sc.Devs), out)]++
					if len(sc.Devs) == 0 && sc.Cfg.Size > 0 && (strings.Contains(out, "err") || out == "resolve-error") {
						key := "C06/seq/error-with-healthy-registry"
						if !hasKey(res.Violations, key) {
							res.Violations = append(res.Violations, runner.Violation{Key: key, Msg: fmt.Sprintf("config %+v history %v: operation failed although the registry answered every request perfectly: %s", sc.Cfg, sc.Hist, out), Replay: sc})
						}
						return
					}
					if len(sc.Devs) > 0 && strings.Contains(out, "ok") {
						nontriv[fmt.Sprintf("%+v%v%v", sc.Cfg, sc.Hist, sc.Devs)] = struct{}{}
					}
					if left == 0 {
						return
					}
					for k := from; k <= nreq; k++ {
						for _, a := range devActions {
							nd := map[int]string{}
							for kk, vv := range sc.Devs {
								nd[kk] = vv
							}
							nd[k] = a.String()
							explore(seqCase{Cfg: sc.Cfg, Hist: sc.Hist, Devs: nd}, k+1, left-1)
						}
					}
				}
				explore(base, 1, maxDev)
				res.States++
				if len(res.Samples) == 0 {
					res.Samples = append(res.Samples, map[string]any{"config": cf, "history": fmt.Sprint(h), "deviation_menu": fmt.Sprint(devActions)})
				}
			}
		}
	done:
		res.Nontrivial = int64(len(nontriv))
		res.Extra = map[string]any{"history_depth": depth, "deviation_bound_completed": maxDev, "configs": len(cfgs)}
		return res
	}, Replay: func(c *runner.Ctx, raw json.RawMessage) (string, error) {
		var sc seqCase
		if err := json.Unmarshal(raw, &sc); err != nil {
			return "", err
		}
		_, out, err := runSeq(sc, c.Scratch)
		return out, err
	}}
}

func hasKey(vs []runner.Violation, k string) bool {
	for _, v := range vs {
		if v.Key == k {
			return true
		}
	}
	return false
}

func appendUniq(l []string, s string) []string {
	for _, x := range l {
		if x == s {
			return l
		}
	}
	return append(l, s)
}

func classify(msg string) string {
	switch {
	case strings.Contains(msg, "returned n="):
		return "wrong-length"
	case strings.Contains(msg, "blob has"):
		return "wrong-bytes"
	case strings.Contains(msg, "exceeds blob size"):
		return "fetchedsize-exceeds"
	case strings.Contains(msg, "decreased"):
		return "fetchedsize-decreased"
	case strings.Contains(msg, "distinct blob bytes"):
		return "fetchedsize-mismatch"
	case strings.Contains(msg, "not a chunk"):
		return "foreign-cache-entry"
	case strings.Contains(msg, "deadlock"):
		return "deadlock"
	case strings.Contains(msg, "panic"):
		return "panic"
	}
	return "other"
}

// ---- part (b): concurrent readers under the scheduler -------------------------------------

type concCase struct {
	Cfg     cfg    `json:"cfg"`
	Threads [][]op `json:"threads"`
	Lossy   bool   `json:"lossy"`
	ServDev bool   `json:"server_deviations"`
}

func (cc concCase) String() string {
	var t []string
	for _, th := range cc.Threads {
		var o []string
		for _, x := range th {
			o = append(o, x.String())
		}
		t = append(t, strings.Join(o, ";"))
	}
	return fmt.Sprintf("size=%d chunk=%d pf=%d lossy=%v servdev=%v: %s", cc.Cfg.Size, cc.Cfg.Chunk, cc.Cfg.Prefetch, cc.Lossy, cc.ServDev, strings.Join(t, " || "))
}

func concScenario(cc concCase, scratch string) *vexp.Scenario {
	return &vexp.Scenario{
		Name:          cc.String(),
		LockDominance: true,
		StateCache:    true,
		MaxSteps:      20000,
		New: func() (func(), func(vrt.Result) (string, error)) {
			var w *world
			var errs []string
			var outs []string
			body := func() {
				script := func(r *memreg.Req) memreg.Action {
					if !cc.ServDev || len(r.Ranges) == 0 || r.Method != "GET" {
						return memreg.Perfect
					}
					menu := []memreg.Action{memreg.Perfect, memreg.Squash, memreg.Whole, memreg.BadRequest, memreg.Forbidden, memreg.Transient}
					return menu[vrt.Choose("server-reply", len(menu))]
				}
				var err error
				vrt.Quiet(func() { w, err = newWorld(cc.Cfg, scratch, script) })
				if err != nil {
					outs = []string{"resolve-failed"}
					return
				}
				if cc.Lossy {
					w.rc.lose = func(string) bool { return vrt.Choose("cache-lost", 2) == 1 }
				}
				done := make([]bool, len(cc.Threads))
				outs = make([]string, len(cc.Threads))
				for i, prog := range cc.Threads {
					i, prog := i, prog
					vrt.GoNamed(fmt.Sprintf("r%d", i), func() {
						var o []string
						for _, x := range prog {
							switch x.Kind {
							case "R":
								buf := make([]byte, x.N)
								for j := range buf {
									buf[j] = 0xEE
								}
								n, e := w.blob.ReadAt(buf, int64(x.O))
								if cerr := w.checkRead(x.O, x.N, buf, n, e); cerr != nil {
									errs = append(errs, cerr.Error())
								}
								if e != nil {
									o = append(o, "err")
								} else {
									o = append(o, "ok")
								}
							case "C":
								if e := w.blob.Cache(int64(x.O), int64(x.N)); e != nil {
									o = append(o, "err")
								} else {
									o = append(o, "ok")
								}
							case "K":
								w.blob.Check()
							case "F":
								w.blob.Refresh(context.Background(), w.reg.Hosts(nil), w.refspec, w.desc)
							}
							if fs := w.blob.FetchedSize(); fs > int64(w.cfg.Size) {
								errs = append(errs, fmt.Sprintf("FetchedSize %d exceeds blob size %d", fs, w.cfg.Size))
							}
						}
						outs[i] = strings.Join(o, ",")
						done[i] = true
					})
				}
				for i := range done {
					i := i
					for !done[i] {
						vrt.Block("join", func() bool { return done[i] })
					}
				}
			}
			check := func(vrt.Result) (string, error) {
				defer func() {
					if w != nil {
						w.close()
					}
				}()
				if len(errs) > 0 {
					return "", fmt.Errorf("%s", strings.Join(errs, "; "))
				}
				if w != nil && w.blob != nil {
					if err := w.checkFetched(!cc.Lossy); err != nil {
						return "", err
					}
				}
				return strings.Join(outs, "|"), nil
			}
			return body, check
		},
	}
}

func concCases(tier string) []concCase {
	var out []concCase
	c := cfg{Size: 7, Chunk: 3, Prefetch: 0, Cache: "memory"}
	r := func(o, n int) op { return op{"R", o, n} }
	ca := func(o, n int) op { return op{"C", o, n} }
	progs := [][][]op{
		{{r(0, 7)}, {r(0, 7)}},             // identical reads share one flight
		{{r(0, 4)}, {r(2, 5)}},             // overlapping, different key sets
		{{r(1, 3)}, {r(3, 3)}, {ca(0, 7)}}, // two readers + prefetcher
		{{r(0, 7)}, {ca(0, 7)}},
		{{r(0, 3), r(3, 4)}, {r(2, 2)}},
		{{r(0, 7)}, {r(0, 7)}, {r(0, 7)}},
		{{r(5, 9)}, {r(6, 1)}},     // beyond EOF
		{{r(0, 7)}, {{Kind: "F"}}}, // read racing with Refresh
		{{r(0, 7)}, {{Kind: "K"}}},
	}
	for _, p := range progs {
		out = append(out, concCase{Cfg: c, Threads: p})
		out = append(out, concCase{Cfg: c, Threads: p, Lossy: true})
		out = append(out, concCase{Cfg: c, Threads: p, ServDev: true})
	}
	if tier == "thorough" {
		c2 := cfg{Size: 7, Chunk: 3, Prefetch: 6, Cache: "memory"}
		for _, p := range progs {
			out = append(out, concCase{Cfg: c2, Threads: p})
			out = append(out, concCase{Cfg: c2, Threads: p, Lossy: true, ServDev: true})
		}
	}
	return out
}

func concPart(tier string) runner.Part {
	cases := concCases(tier)
	pb, db := 2, 1
	if tier == "thorough" {
		pb, db = 3, 2
	}
	return runner.Part{Name: "conc", Shards: len(cases), Run: func(c *runner.Ctx) *runner.Result {
		res := &runner.Result{Outcomes: map[string]int{}}
		cc := cases[c.Shard]
		sc := concScenario(cc, c.Scratch)
		st := vexp.Explore(sc, vexp.Options{PB: pb, DB: db, DetChecks: 10, Deadline: c.Deadline})
		res.Evaluations = st.Executions
		res.States = int64(st.StateKeys)
		res.Transitions = st.Transitions
		for o, n := range st.Outcomes {
			res.Outcomes[o] += n
		}
		if len(st.Outcomes) > 1 {
			res.Nontrivial = int64(len(st.Outcomes))
		}
		if st.Broken != "" {
			res.Broken = cc.String() + ": " + st.Broken
			return res
		}
		if st.Capped {
			res.Caps = append(res.Caps, cc.String()+": "+st.CapReason)
		}
		for _, v := range st.Violations {
			key := "C06/conc/" + classify(v.Msg)
			if hasKey(res.Violations, key) {
				continue
			}
			res.Violations = append(res.Violations, runner.Violation{Key: key,
				Msg:    fmt.Sprintf("%s\nchoices=%v\n%s\ntrace:\n  %s", cc.String(), v.Choices, v.Msg, strings.Join(v.Trace, "\n  ")),
				Replay: map[string]any{"case": cc, "choices": v.Choices}})
		}
		if len(st.SampleTraces) > 0 {
			res.Samples = append(res.Samples, map[string]any{"case": cc.String(), "executions": st.Executions, "schedule_trace_head": head(st.SampleTraces[0], 25)})
		}
		res.Extra = map[string]any{"preemption_bound_completed": pb, "deviation_bound_completed": db}
		return res
	}, Replay: func(c *runner.Ctx, raw json.RawMessage) (string, error) {
		var r struct {
			Case    concCase `json:"case"`
			Choices []int    `json:"choices"`
		}
		if err := json.Unmarshal(raw, &r); err != nil {
			return "", err
		}
		out, err, trace, broken := vexp.Replay(concScenario(r.Case, c.Scratch), r.Choices)
		if broken != "" {
			return "", fmt.Errorf("replay broken: %s", broken)
		}
		return strings.Join(trace, "\n") + "\n" + out, err
	}}
}

func head(t []string, n int) []string {
	if len(t) > n {
		return t[:n]
	}
	return t
}

func main() {
	runner.Main(runner.Check{
		RacePass: func(n int, scratch string) (int, []string) {
			total, ps := 0, []string(nil)
			for _, cc := range concCases("quick") {
				d, p := vexp.RacePass(concScenario(cc, scratch), n)
				total += d
				ps = append(ps, p...)
			}
			return total, ps
		},
		ID:          "C06",
		Level:       "model_checking",
		Rule:        "seq: every (blob size, chunk size, prefetch chunk, cache) config x every ReadAt(off,len)/Cache/Check/Refresh history up to the depth x every assignment of a non-default server reply (squash, whole body, 400, 403, transport error, redirect, truncated multipart, 500) to up to N requests, on the real Resolver/Blob over an in-memory registry; non-trivial = a history with an injected deviation that still had a successful operation. conc: 2-3 threads of overlapping ReadAt/Cache/Refresh under the cooperative scheduler, all schedules within the preemption bound x cache-loss / server-reply deviations. regionset: all add sequences vs a bitmap",
		Assumptions: []string{"in-memory registry (lib/memreg) stands in for the network; HTTP transport itself is not explored", "sequential consistency at instrumented sync operations; unsynchronised fields httpFetcher.header/url are watched (scheduling point before each access)", "map iteration order: sorted (one legal order)"},
		QuickBudget: 4 * time.Minute, ThoroughBudget: 40 * time.Minute,
		Parts: func(tier string) []runner.Part {
			return []runner.Part{regionPart(tier), seqPart(tier), concPart(tier)}
		},
	})
}
