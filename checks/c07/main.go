// C07: each layer is served as a correct overlayfs lower directory of the OCI layer.
package main

import (
	"archive/tar"
	"bytes"
	"context"
	"encoding/json"
	"fmt"
	"io"
	"os"
	"path"
	"path/filepath"
	"runtime"
	"sort"
	"strings"
	"syscall"
	"time"

	"github.com/containerd/containerd/v2/pkg/reference"
	"github.com/containerd/stargz-snapshotter/cache"
	dbmeta "github.com/containerd/stargz-snapshotter/cmd/containerd-stargz-grpc/db"
	"github.com/containerd/stargz-snapshotter/estargz"
	"github.com/containerd/stargz-snapshotter/estargz/zstdchunked"
	"github.com/containerd/stargz-snapshotter/fs/layer"
	"github.com/containerd/stargz-snapshotter/fs/reader"
	"github.com/containerd/stargz-snapshotter/fs/remote"
	"github.com/containerd/stargz-snapshotter/fs/source"
	"github.com/containerd/stargz-snapshotter/metadata"
	memmeta "github.com/containerd/stargz-snapshotter/metadata/memory"
	digest "github.com/opencontainers/go-digest"
	ocispec "github.com/opencontainers/image-spec/specs-go/v1"
	"github.com/sirupsen/logrus"
	bolt "go.etcd.io/bbolt"

	"verif/lib/fusedrv"
	"verif/lib/reftar"
	"verif/lib/runner"
)

// ---------------------------------------------------------------- inputs

// alphabet of layer members (the property's quantifier). A name ending in "/" is a
// directory, everything else a regular file. The last two are used only by the
// fixed hard-link layers.
var alphabet = []string{
	"a", "d/", "d/a", ".wh.a", "d/.wh.a", "d/.wh..wh..opq", ".wh..wh..opq", ".wh.d", ".wh.",
	".prefetch.landmark", "d/.prefetch.landmark", ".no.prefetch.landmark",
	"h=>a", "d/h=>d/a",
	// second family (real character devices, directories whose own tar header carries an overlay
	// opaque xattr as an archived overlayfs upper directory does):
	"c", ".wh.c", "o/", "o/a", "p/", "p/a",
}

const (
	nBase  = 12 // alphabet[:nBase] is the property's alphabet, enumerated exhaustively
	x2From = 14 // alphabet[x2From:] is the second family, enumerated exhaustively on its own
)

// member attributes of the second family
var (
	charDevs  = map[string]bool{"c": true} // character device 1:3, mode 0666 (a real device, not a whiteout)
	dirXattrs = map[string]map[string]string{
		"o/": {reftar.XattrOpaqueTrusted: "y", "user.other": "1"},
		"p/": {reftar.XattrOpaqueUser: "y"},
	}
)

// extraLayers are hand-picked layers with hard links (inode sharing, clause 3).
var extraLayers = []spec{{0, 12}, {2, 13}, {0, 2, 12}, {0, 3, 12}, {2, 5, 13}}

// spec is a layer: sorted alphabet indices.
type spec []int

func (s spec) String() string {
	var n []string
	for _, i := range s {
		n = append(n, alphabet[i])
	}
	return "[" + strings.Join(n, " ") + "]"
}

func (s spec) special() bool {
	for _, i := range s {
		if strings.Contains(alphabet[i], ".wh.") || strings.Contains(alphabet[i], "landmark") || charDevs[alphabet[i]] || dirXattrs[alphabet[i]] != nil {
			return true
		}
	}
	return false
}

// allSpecs enumerates subsets of alphabet[:nBase] of size <= max, smallest first.
func allSpecs(max int) []spec { return subsets(0, nBase, max) }

// family2Specs enumerates the non-empty subsets of the second family of size <= max.
func family2Specs(max int) []spec { return subsets(x2From, len(alphabet), max)[1:] }

func subsets(from, to, max int) []spec {
	var out []spec
	for size := 0; size <= max; size++ {
		var rec func(start int, cur spec)
		rec = func(start int, cur spec) {
			if len(cur) == size {
				out = append(out, append(spec{}, cur...))
				return
			}
			for i := start; i < to; i++ {
				rec(i+1, append(cur, i))
			}
		}
		rec(from, nil)
	}
	return out
}

// buildTar serialises a layer. pos (0 = lower, 1 = upper) makes the payloads and
// attributes of the two layers of a stack differ.
func buildTar(s spec, pos int) []byte {
	var buf bytes.Buffer
	tw := tar.NewWriter(&buf)
	for _, i := range s {
		name := alphabet[i]
		h := &tar.Header{Name: name, Uid: 10 + pos, Gid: 20 + i, ModTime: time.Unix(int64(1_000_000_000+100*pos+i), 0), Format: tar.FormatPAX}
		var data []byte
		switch {
		case strings.Contains(name, "=>"):
			p := strings.SplitN(name, "=>", 2)
			h.Name, h.Linkname, h.Typeflag = p[0], p[1], tar.TypeLink
		case charDevs[name]:
			h.Typeflag, h.Mode, h.Devmajor, h.Devminor = tar.TypeChar, 0o666, 1, 3
		case strings.HasSuffix(name, "/"):
			h.Typeflag, h.Mode = tar.TypeDir, 0o750
			h.PAXRecords = map[string]string{"SCHILY.xattr.user.dirattr": fmt.Sprintf("L%d", pos)}
			for k, v := range dirXattrs[name] {
				h.PAXRecords["SCHILY.xattr."+k] = v
			}
		default:
			h.Typeflag, h.Mode = tar.TypeReg, 0o640
			if !strings.HasPrefix(path.Base(name), ".wh.") {
				data = []byte(fmt.Sprintf("L%d:%s", pos, name))
			}
			h.Size = int64(len(data))
		}
		if err := tw.WriteHeader(h); err != nil {
			panic(err)
		}
		if len(data) > 0 {
			tw.Write(data)
		}
	}
	tw.Close()
	return buf.Bytes()
}

// ---------------------------------------------------------------- serving a layer

var (
	modes     = []layer.OverlayOpaqueType{layer.OverlayOpaqueTrusted, layer.OverlayOpaqueUser, layer.OverlayOpaqueAll}
	modeNames = map[layer.OverlayOpaqueType]string{layer.OverlayOpaqueTrusted: "trusted", layer.OverlayOpaqueUser: "user", layer.OverlayOpaqueAll: "all"}
	modeXattr = map[layer.OverlayOpaqueType][]string{
		layer.OverlayOpaqueTrusted: {reftar.XattrOpaqueTrusted},
		layer.OverlayOpaqueUser:    {reftar.XattrOpaqueUser},
		layer.OverlayOpaqueAll:     {reftar.XattrOpaqueTrusted, reftar.XattrOpaqueUser},
	}
	stores = []string{"memory", "db"}
)

const (
	baseInode   = 7
	stateDir    = ".stargz-snapshotter"
	stubFetched = 5
)

// stubBlob is the blob behind the state file (the check serves layers from memory).
type stubBlob struct{ size int64 }

func (b *stubBlob) Check() error       { return nil }
func (b *stubBlob) Size() int64        { return b.size }
func (b *stubBlob) FetchedSize() int64 { return stubFetched }
func (b *stubBlob) ReadAt(p []byte, o int64, _ ...remote.Option) (int, error) {
	return 0, fmt.Errorf("stub")
}
func (b *stubBlob) Cache(int64, int64, ...remote.Option) error { return nil }
func (b *stubBlob) Refresh(context.Context, source.RegistryHosts, reference.Spec, ocispec.Descriptor) error {
	return nil
}
func (b *stubBlob) Close() error { return nil }

type world struct {
	db    *bolt.DB
	built map[string]*built
}

type built struct {
	tarb     []byte
	blob     []byte
	dgst     digest.Digest
	toc      digest.Digest
	expected reftar.Tree
	info     reftar.LayerInfo
	readers  map[string]reader.Reader // per store
}

func newWorld(c *runner.Ctx) (*world, error) {
	os.Setenv("TMPDIR", c.Scratch)
	db, err := bolt.Open(filepath.Join(c.Scratch, "metadata.db"), 0o600, &bolt.Options{NoFreelistSync: true, FreelistType: bolt.FreelistMapType, NoSync: true})
	if err != nil {
		return nil, err
	}
	db.MaxBatchDelay = 0
	return &world{db: db, built: map[string]*built{}}, nil
}

func (w *world) get(s spec, pos int) (*built, error) {
	key := fmt.Sprintf("%d%v", pos, []int(s))
	if b, ok := w.built[key]; ok {
		return b, nil
	}
	tarb := buildTar(s, pos)
	eb, err := estargz.Build(io.NewSectionReader(bytes.NewReader(tarb), 0, int64(len(tarb))), estargz.WithParallelism(1))
	if err != nil {
		return nil, fmt.Errorf("estargz.Build %v: %w", s, err)
	}
	blob, err := io.ReadAll(eb)
	if err != nil {
		return nil, err
	}
	eb.Close()
	b := &built{tarb: tarb, blob: blob, dgst: digest.FromBytes(blob), toc: eb.TOCDigest(), readers: map[string]reader.Reader{}}
	b.expected, b.info, err = reftar.Translate(tarb)
	if err != nil {
		return nil, fmt.Errorf("reference refuses layer %v: %w", s, err)
	}
	w.built[key] = b
	return b, nil
}

func (w *world) reader(b *built, store string) (reader.Reader, error) {
	if r, ok := b.readers[store]; ok {
		return r, nil
	}
	sr := io.NewSectionReader(bytes.NewReader(b.blob), 0, int64(len(b.blob)))
	opts := []metadata.Option{metadata.WithDecompressors(new(zstdchunked.Decompressor))}
	var mr metadata.Reader
	var err error
	if store == "db" {
		mr, err = dbmeta.NewReader(w.db, sr, opts...)
	} else {
		mr, err = memmeta.NewReader(sr, opts...)
	}
	if err != nil {
		return nil, fmt.Errorf("%s metadata reader: %w", store, err)
	}
	vr, err := reader.NewReader(mr, cache.NewMemoryCache(), b.dgst)
	if err != nil {
		return nil, err
	}
	rr, err := vr.VerifyTOC(b.toc)
	if err != nil {
		return nil, fmt.Errorf("VerifyTOC: %w", err)
	}
	b.readers[store] = rr
	return rr, nil
}

// release closes the readers of a layer (frees the db buckets).
func (w *world) release(b *built) {
	for k, r := range b.readers {
		r.Close()
		delete(b.readers, k)
	}
}

// fresh returns a driver over a NEW root node of the layer (nothing memoised).
func (w *world) fresh(b *built, store string, mode layer.OverlayOpaqueType) (*fusedrv.Driver, error) {
	rr, err := w.reader(b, store)
	if err != nil {
		return nil, err
	}
	root, err := layer.VerifNewLayerRoot(b.dgst, rr, &stubBlob{int64(len(b.blob))}, baseInode, mode)
	if err != nil {
		return nil, err
	}
	return fusedrv.New(root), nil
}

// ---------------------------------------------------------------- expectations

// expectedServed turns the reference translation into the exact served tree of a mode.
func expectedServed(b *built, mode layer.OverlayOpaqueType) reftar.Tree {
	out := reftar.Tree{}
	for p, e := range b.expected {
		c := *e
		if e.Opaque {
			c.Xattrs = map[string]string{}
			for k, v := range e.Xattrs {
				c.Xattrs[k] = v
			}
			for _, x := range modeXattr[mode] {
				c.Xattrs[x] = "y"
			}
		}
		out[p] = &c
	}
	return out
}

// candidates are the names looked up in directory dir of a layer.
func candidates(b *built, dir string) []string {
	set := map[string]bool{"zz": true, ".wh.a": true, ".wh.zz": true, reftar.OpaqueMarker: true, ".wh.": true,
		".prefetch.landmark": true, ".no.prefetch.landmark": true, "stargz.index.json": true, stateDir: true}
	for _, n := range b.expected.Children(dir) {
		set[n] = true
	}
	ents, _ := reftar.Parse(b.tarb)
	for _, re := range ents {
		p := reftar.Clean(re.Hdr.Name)
		if p != "/" && reftar.Parent(p) == dir {
			base := path.Base(p)
			set[base] = true
			if strings.HasPrefix(base, reftar.WhiteoutPrefix) && base != reftar.OpaqueMarker && base != reftar.WhiteoutPrefix {
				set[base[len(reftar.WhiteoutPrefix):]] = true
			}
		}
	}
	var out []string
	for n := range set {
		out = append(out, n)
	}
	sort.Strings(out)
	return out
}

func stateIno() uint64    { return uint64(baseInode)<<32 | 1 }
func statFileIno() uint64 { return uint64(baseInode)<<32 | 2 }

// lookupSig is the canonical rendering of a LOOKUP reply.
func lookupSig(e fusedrv.Entry, en syscall.Errno) string {
	if en != 0 {
		return "errno=" + en.Error()
	}
	if e.Attr.Mode&reftar.SIFMT == reftar.SIFCHR && e.Attr.Rdev == 0 {
		// a whiteout: the statement defines type, device number (and a stable inode number) only.
		// (The real code answers a repeated LOOKUP of a whiteout with the permission bits/owner of
		// the ".wh." member instead of the zeroed ones of the first answer; overlayfs ignores them.)
		return fmt.Sprintf("whiteout ino=%d rdev=0", e.Attr.Ino)
	}
	return fmt.Sprintf("%s ino=%d mode=%o rdev=%d nlink=%d size=%d uid=%d gid=%d mtime=%d", reftar.TypeName(e.Attr.Mode), e.Attr.Ino, e.Attr.Mode, e.Attr.Rdev, e.Attr.Nlink, e.Attr.Size, e.Attr.Uid, e.Attr.Gid, int64(e.Attr.Mtime))
}

func listSig(ds []fusedrv.Dirent, en syscall.Errno) string {
	if en != 0 {
		return "errno=" + en.Error()
	}
	var s []string
	for _, d := range ds {
		if d.Name == "." || d.Name == ".." {
			continue
		}
		s = append(s, fmt.Sprintf("%q:%s:%d", d.Name, reftar.TypeName(d.Type), d.Ino))
	}
	return strings.Join(s, " ")
}

// ---------------------------------------------------------------- violations

type vset struct {
	res  *runner.Result
	seen map[string]bool
}

func (v *vset) add(class, shape, msg string, replay any) {
	key := "C07/" + class + "/" + shape
	if v.seen[key] {
		return
	}
	v.seen[key] = true
	v.res.Violations = append(v.res.Violations, runner.Violation{Key: key, Msg: msg, Replay: replay})
}

func shapeOf(p string) string {
	if p == "/" || p == "" {
		return "root"
	}
	b := path.Base(strings.Fields(p)[0])
	if b == "" || b == "/" {
		return "empty-name"
	}
	return b
}

// guard runs f and turns a panic of the code under test into a violation.
func guard(v *vset, what string, id caseID, f func()) {
	defer func() {
		if r := recover(); r != nil {
			buf := make([]byte, 1<<14)
			buf = buf[:runtime.Stack(buf, false)]
			frames := ""
			for _, l := range strings.Split(string(buf), "\n") {
				if strings.Contains(l, "/repo/") {
					frames += "\n  " + strings.TrimSpace(l)
				}
			}
			v.add("panic", id.Store, fmt.Sprintf("%s\npanic: %v%s", what, r, frames), id)
		}
	}()
	f()
}

type caseID struct {
	Specs [][]int  `json:"specs"`
	Store string   `json:"store"`
	Mode  string   `json:"mode"`
	Dir   string   `json:"dir,omitempty"`
	Seq   []string `json:"seq,omitempty"`
}

// ---------------------------------------------------------------- clause checks on one served layer

// checkServed walks a fresh root and evaluates clauses (1: translation), (2), (3), (4).
// It returns the served tree (nil when the layer could not be served).
func (w *world) checkServed(s spec, pos int, store string, mode layer.OverlayOpaqueType, v *vset, res *runner.Result) reftar.Tree {
	b, err := w.get(s, pos)
	if err != nil {
		res.Broken = err.Error()
		return nil
	}
	id := caseID{Specs: [][]int{s}, Store: store, Mode: modeNames[mode]}
	ctxs := fmt.Sprintf("layer %v (store %s, opaque mode %s)", s, store, modeNames[mode])
	drv, err := w.fresh(b, store, mode)
	if err != nil {
		v.add("serve-failed", s.String(), fmt.Sprintf("%s cannot be served: %v", ctxs, err), id)
		return nil
	}
	snap := drv.Walk(fusedrv.WalkOpts{})
	res.Evaluations++
	res.Transitions += drv.Ops
	for _, p := range snap.Problems {
		f := strings.SplitN(p, " ", 2)
		v.add(f[0], shapeOf(strings.TrimSuffix(strings.Fields(f[1])[0], ":")), fmt.Sprintf("%s: tar %s\n%s\nserved tree: %s", ctxs, describeTar(b.tarb), p, snap.Tree.Describe()), id)
	}
	// (1) the served tree is the translation the statement defines
	want := expectedServed(b, mode)
	for _, d := range reftar.Diff(want, snap.Tree, reftar.CmpOpts{Attrs: true, DirAttrs: true, Nlink: true, DirNlink: false, HardlinkSets: true}) {
		class := "translation-" + d.Class
		if w2 := want[d.Path]; w2 != nil && w2.Whiteout && (d.Class == "mtime" || d.Class == "owner" || d.Class == "mode") {
			// attributes of the synthesised device other than type/rdev are not defined by the statement
			if d.Class != "mode" || snap.Tree[d.Path].Mode&reftar.SIFMT == reftar.SIFCHR {
				continue
			}
		}
		v.add(class, shapeOf(d.Path), fmt.Sprintf("%s: tar %s\nexpected lower directory %s\nserved %s\n%s", ctxs, describeTar(b.tarb), want.Describe(), snap.Tree.Describe(), d), id)
	}
	// opaque xattr through GETXATTR for names NOT configured must be absent (LISTXATTR side is in the tree diff)
	for p, e := range want {
		if !e.IsDir() || snap.Tree[p] == nil {
			continue
		}
		ent, en := drv.Resolve(p)
		if en != 0 {
			continue
		}
		for _, x := range []string{reftar.XattrOpaqueTrusted, reftar.XattrOpaqueUser} {
			val, en := drv.GetXAttr(ent.NodeID, x)
			wantVal, wantSet := e.Xattrs[x]
			got := "ENODATA"
			if en == 0 {
				got = fmt.Sprintf("%q", val)
			} else if en != syscall.ENODATA {
				got = en.Error()
			}
			exp := "ENODATA"
			if wantSet {
				exp = fmt.Sprintf("%q", wantVal)
			}
			if got != exp {
				v.add("opaque-getxattr", shapeOf(p), fmt.Sprintf("%s: tar %s\nGETXATTR(%s, %s) = %s, want %s", ctxs, describeTar(b.tarb), p, x, got, exp), id)
			}
		}
	}
	// (2) lookups of every candidate in every directory agree with the listing
	for p, e := range snap.Tree {
		if !e.IsDir() {
			continue
		}
		dent, en := drv.Resolve(p)
		if en != 0 {
			continue
		}
		for _, c := range candidates(b, p) {
			if c == "" {
				continue
			}
			le, en := drv.Lookup(dent.NodeID, c)
			res.Transitions++
			cp := reftar.Join(p, c)
			listed := snap.Tree[cp] != nil
			switch {
			case p == "/" && c == stateDir:
				if listed {
					v.add("state-dir-listed", "root", fmt.Sprintf("%s: the state directory is listed", ctxs), id)
				}
				if en != 0 || le.Attr.Mode&reftar.SIFMT != reftar.SIFDIR || le.Attr.Ino != stateIno() {
					v.add("state-dir-lookup", "root", fmt.Sprintf("%s: LOOKUP(/, %s) = %s", ctxs, stateDir, lookupSig(le, en)), id)
				}
			case en == 0 && !listed:
				v.add("lookup-succeeds-but-not-listed", shapeOf(cp), fmt.Sprintf("%s: tar %s\nLOOKUP(%s, %q) = %s but READDIR(%s) = [%s]", ctxs, describeTar(b.tarb), p, c, lookupSig(le, en), p, strings.Join(snap.Tree.Children(p), " ")), id)
			case en != 0 && listed:
				v.add("listed-but-lookup-fails", shapeOf(cp), fmt.Sprintf("%s: tar %s\n%q is listed in %s but LOOKUP = %v", ctxs, describeTar(b.tarb), c, p, en), id)
			case en == 0 && (le.Attr.Ino != snap.Tree[cp].Ino || le.Attr.Mode&reftar.SIFMT != snap.Tree[cp].Mode&reftar.SIFMT || le.Attr.Rdev != snap.Tree[cp].Rdev):
				v.add("unstable-lookup", shapeOf(cp), fmt.Sprintf("%s: repeated LOOKUP(%s) = %s, before ino=%d mode=%o", ctxs, cp, lookupSig(le, en), snap.Tree[cp].Ino, snap.Tree[cp].Mode), id)
			}
		}
	}
	// (3) inode numbers unique per object (hard links are compared through HardlinkSets above)
	byIno := map[uint64][]string{stateIno(): {"<state dir>"}, statFileIno(): {"<state file>"}}
	for _, p := range snap.Tree.Paths() {
		byIno[snap.Tree[p].Ino] = append(byIno[snap.Tree[p].Ino], p)
	}
	for ino, ps := range byIno {
		if len(ps) < 2 {
			continue
		}
		same := true
		for _, p := range ps {
			if want[p] == nil || want[ps[0]] == nil || want[p].Obj != want[ps[0]].Obj {
				same = false
			}
		}
		if !same {
			v.add("inode-collision", shapeOf(ps[len(ps)-1]), fmt.Sprintf("%s: tar %s\ninode %d is reported for distinct objects %v", ctxs, describeTar(b.tarb), ino, ps), id)
		}
	}
	// (4) state file
	w.checkState(drv, b, ctxs, v, id)
	res.Outcomes[fmt.Sprintf("served: entries=%d whiteouts=%d opaque-dirs=%d", len(snap.Tree)-1, countIf(want, func(e *reftar.Entry) bool { return e.Whiteout }), countIf(want, func(e *reftar.Entry) bool { return e.Opaque }))]++
	return snap.Tree
}

func countIf(t reftar.Tree, f func(*reftar.Entry) bool) int {
	n := 0
	for _, e := range t {
		if f(e) {
			n++
		}
	}
	return n
}

func describeTar(tb []byte) string {
	ents, _ := reftar.Parse(tb)
	var s []string
	for _, e := range ents {
		n := e.Hdr.Name
		if e.Hdr.Typeflag == tar.TypeLink {
			n += "=>" + e.Hdr.Linkname
		}
		s = append(s, n)
	}
	return "[" + strings.Join(s, " ") + "]"
}

func (w *world) checkState(drv *fusedrv.Driver, b *built, ctxs string, v *vset, id caseID) {
	fail := func(msg string) { v.add("state-file", "root", ctxs+": "+msg, id) }
	sd, en := drv.Lookup(fusedrv.RootID, stateDir)
	if en != 0 {
		fail(fmt.Sprintf("LOOKUP(/, %s): %v", stateDir, en))
		return
	}
	ds, en := drv.ReadDir(sd.NodeID)
	name := b.dgst.String() + ".json"
	if sig := listSig(ds, en); sig != fmt.Sprintf("%q:reg:%d", name, statFileIno()) {
		fail(fmt.Sprintf("READDIR(state dir) = [%s], want exactly %q ino %d", sig, name, statFileIno()))
	}
	sf, en := drv.Lookup(sd.NodeID, name)
	if en != 0 {
		fail(fmt.Sprintf("LOOKUP(state dir, %s): %v", name, en))
		return
	}
	if _, en := drv.Lookup(sd.NodeID, "zz"); en != syscall.ENOENT {
		fail(fmt.Sprintf("LOOKUP(state dir, zz) = %v, want ENOENT", en))
	}
	data, en := drv.ReadAll(sf.NodeID, 4096)
	if en != 0 {
		fail(fmt.Sprintf("reading the state file: %v", en))
		return
	}
	if int64(len(data)) != int64(sf.Attr.Size) {
		fail(fmt.Sprintf("state file size attribute %d, content %d bytes", sf.Attr.Size, len(data)))
	}
	var j struct {
		Error       string  `json:"error"`
		Digest      *string `json:"digest"`
		Size        *int64  `json:"size"`
		FetchedSize *int64  `json:"fetchedSize"`
	}
	if err := json.Unmarshal(data, &j); err != nil {
		fail(fmt.Sprintf("state file is not JSON: %v: %q", err, data))
		return
	}
	if j.Digest == nil || *j.Digest != b.dgst.String() || j.Size == nil || *j.Size != int64(len(b.blob)) || j.FetchedSize == nil || *j.FetchedSize != stubFetched {
		fail(fmt.Sprintf("state file %q, want digest=%s size=%d fetchedSize=%d", data, b.dgst, len(b.blob), stubFetched))
	}
	if j.Error != "" {
		fail(fmt.Sprintf("the layer reported an error through the state file: %q", j.Error))
	}
}

// ---------------------------------------------------------------- call orders

// runSeq applies one call order to directory dir on a fresh root and compares every
// reply with the canonical one. ops: "R" = READDIR, "L:<name>" = LOOKUP.
func (w *world) runSeq(b *built, store string, mode layer.OverlayOpaqueType, dir string, seq []string, canon map[string]string) (bad string, badStep int, nops int64, err error) {
	drv, err := w.fresh(b, store, mode)
	if err != nil {
		return "", 0, 0, err
	}
	dent, en := drv.Resolve(dir)
	if en != 0 {
		return fmt.Sprintf("resolving %s on a fresh root: %v", dir, en), 0, drv.Ops, nil
	}
	for i, op := range seq {
		var got string
		if op == "R" {
			ds, en := drv.ReadDir(dent.NodeID)
			got = listSig(ds, en)
		} else {
			le, en := drv.Lookup(dent.NodeID, op[2:])
			got = lookupSig(le, en)
		}
		if got != canon[op] {
			return fmt.Sprintf("step %d %s = %s; the same call on a fresh node answers %s", i+1, opName(op, dir), got, canon[op]), i, drv.Ops, nil
		}
	}
	return "", 0, drv.Ops, nil
}

func opName(op, dir string) string {
	if op == "R" {
		return "READDIR(" + dir + ")"
	}
	return fmt.Sprintf("LOOKUP(%s, %q)", dir, op[2:])
}

func seqString(seq []string, dir string) string {
	var s []string
	for _, o := range seq {
		s = append(s, opName(o, dir))
	}
	return strings.Join(s, "; ")
}

// checkOrders enumerates all call orders up to maxLen for every directory of a served layer.
func (w *world) checkOrders(s spec, store string, mode layer.OverlayOpaqueType, maxLen int, deadline time.Time, v *vset, res *runner.Result) {
	b, err := w.get(s, 0)
	if err != nil {
		res.Broken = err.Error()
		return
	}
	want := expectedServed(b, mode)
	ctxs := fmt.Sprintf("layer %v (store %s, opaque mode %s)", s, store, modeNames[mode])
	for _, dir := range want.Paths() {
		if !want[dir].IsDir() {
			continue
		}
		// canonical answers: every op alone on a fresh root; they must also agree with the reference
		var ops []string
		ops = append(ops, "R")
		for _, c := range candidates(b, dir) {
			if c != "" {
				ops = append(ops, "L:"+c)
			}
		}
		canon := map[string]string{}
		okDir := true
		for _, op := range ops {
			drv, err := w.fresh(b, store, mode)
			if err != nil {
				return
			}
			dent, en := drv.Resolve(dir)
			if en != 0 {
				okDir = false
				break
			}
			if op == "R" {
				ds, en := drv.ReadDir(dent.NodeID)
				canon[op] = listSig(ds, en)
			} else {
				le, en := drv.Lookup(dent.NodeID, op[2:])
				canon[op] = lookupSig(le, en)
				// reference: exists iff the translation has it (state dir aside)
				_, exp := want[reftar.Join(dir, op[2:])]
				if dir == "/" && op[2:] == stateDir {
					exp = true
				}
				if exp != (en == 0) {
					v.add("cold-lookup", shapeOf(op[2:]), fmt.Sprintf("%s: tar %s\nLOOKUP(%s, %q) on a fresh node = %s; the lower directory %s has this name: %v", ctxs, describeTar(b.tarb), dir, op[2:], canon[op], want.Describe(), exp), caseID{Specs: [][]int{s}, Store: store, Mode: modeNames[mode], Dir: dir, Seq: []string{op}})
				}
			}
		}
		if !okDir {
			continue // reported by checkServed (missing directory)
		}
		seq := make([]string, 0, maxLen)
		target := 0
		var rec func()
		rec = func() {
			if len(seq) == target {
				bad, badStep, n, err := w.runSeq(b, store, mode, dir, seq, canon)
				res.Evaluations++
				res.Transitions += n
				if err != nil {
					res.Broken = err.Error()
					return
				}
				memo := false
				for i, o := range seq {
					if o == "R" && i < len(seq)-1 {
						memo = true
					}
				}
				if memo {
					res.Nontrivial++
				}
				if bad != "" {
					failing := seq[:badStep+1]
					last := failing[len(failing)-1]
					shape := "readdir"
					if last != "R" {
						shape = "lookup-" + last[2:]
					}
					v.add("order-dependent", shape, fmt.Sprintf("%s: tar %s, directory %s\ncall order: %s\n%s", ctxs, describeTar(b.tarb), dir, seqString(failing, dir), bad), caseID{Specs: [][]int{s}, Store: store, Mode: modeNames[mode], Dir: dir, Seq: append([]string{}, failing...)})
					return
				}
			}
			if len(seq) == target || res.Broken != "" {
				return
			}
			if time.Now().After(deadline) {
				res.Caps = appendUniq(res.Caps, "time budget (call orders)")
				return
			}
			for _, op := range ops {
				seq = append(seq, op)
				rec()
				seq = seq[:len(seq)-1]
			}
		}
		for target = 1; target <= maxLen; target++ { // shortest call orders first
			rec()
		}
		for _, op := range ops {
			k := "lookup:" + strings.SplitN(canon[op], " ", 2)[0]
			if op == "R" {
				k = fmt.Sprintf("readdir:%d entries", len(strings.Fields(canon[op])))
			}
			res.Outcomes[k]++
		}
	}
}

func appendUniq(l []string, s string) []string {
	for _, x := range l {
		if x == s {
			return l
		}
	}
	return append(l, s)
}

// ---------------------------------------------------------------- parts

func excluded(s spec) bool {
	_, infos, err := reftar.ApplyLayers([][]byte{buildTar(s, 0)}, nil)
	return err != nil || infos[0].WhiteoutOfDirInSameLayer
}

func usableSpecs(tier string) []spec {
	max := 3
	if tier == "thorough" {
		max = 4
	}
	var out []spec
	for _, s := range allSpecs(max) {
		if !excluded(s) {
			out = append(out, s)
		}
	}
	return out
}

func layersPart(tier string) runner.Part {
	maxLen := 3
	if tier == "thorough" {
		maxLen = 4
	}
	return runner.Part{Name: "layers", Shards: 64, Run: func(c *runner.Ctx) *runner.Result {
		res := &runner.Result{Outcomes: map[string]int{}}
		v := &vset{res: res, seen: map[string]bool{}}
		w, err := newWorld(c)
		if err != nil {
			res.Broken = err.Error()
			return res
		}
		specs := append(usableSpecs(tier), extraLayers...)
		for _, s := range family2Specs(3) {
			if !excluded(s) {
				specs = append(specs, s)
			}
		}
		for idx, s := range specs {
			if idx%c.Of != c.Shard {
				continue
			}
			if time.Now().After(c.Deadline) {
				res.Caps = appendUniq(res.Caps, "time budget (layers)")
				break
			}
			res.States++
			if s.special() {
				res.Nontrivial++
			}
			for _, st := range stores {
				for _, m := range modes {
					ml := maxLen
					if len(s) > 3 {
						ml = 3 // thorough: call orders of length 4 for layers of <=3 members, length 3 for 4 members
					}
					guard(v, fmt.Sprintf("layer %v (store %s, opaque mode %s)", s, st, modeNames[m]), caseID{Specs: [][]int{s}, Store: st, Mode: modeNames[m]}, func() {
						w.checkServed(s, 0, st, m, v, res)
						if res.Broken == "" {
							w.checkOrders(s, st, m, ml, c.Deadline, v, res)
						}
					})
					if res.Broken != "" {
						return res
					}
				}
			}
			if b, _ := w.get(s, 0); b != nil {
				w.release(b)
			}
			if len(res.Samples) == 0 && len(s) == 3 {
				b, _ := w.get(s, 0)
				res.Samples = append(res.Samples, map[string]any{"layer": s.String(), "expected_lower_dir": b.expected.Describe(), "call_order_length": maxLen, "stores": stores, "modes": []string{"trusted", "user", "all"}})
			}
		}
		// shrink every single-layer violation to a smallest layer that shows the same key
		for i := range res.Violations {
			res.Violations[i] = w.minimize(res.Violations[i], maxLen, c.Deadline)
		}
		res.Extra = map[string]any{"layers": len(specs), "call_order_depth": maxLen}
		return res
	}, Replay: func(c *runner.Ctx, raw json.RawMessage) (string, error) {
		return replay(c, raw)
	}}
}

// minimize drops members of the layer of a violation as long as the same key is still reported.
func (w *world) minimize(viol runner.Violation, maxLen int, deadline time.Time) runner.Violation {
	id, ok := viol.Replay.(caseID)
	if !ok || len(id.Specs) != 1 {
		return viol
	}
	cur := spec(id.Specs[0])
	for changed := true; changed && len(cur) > 0; {
		changed = false
		for drop := range cur {
			cand := append(append(spec{}, cur[:drop]...), cur[drop+1:]...)
			if excluded(cand) {
				continue
			}
			tmp := &runner.Result{Outcomes: map[string]int{}}
			tv := &vset{res: tmp, seen: map[string]bool{}}
			mode := modeByName(id.Mode)
			guard(tv, "minimising", caseID{Specs: [][]int{cand}, Store: id.Store, Mode: id.Mode}, func() {
				w.checkServed(cand, 0, id.Store, mode, tv, tmp)
				w.checkOrders(cand, id.Store, mode, maxLen, deadline, tv, tmp)
			})
			for _, x := range tmp.Violations {
				if x.Key == viol.Key {
					viol, cur, changed = x, cand, true
					break
				}
			}
			if changed {
				break
			}
		}
	}
	return viol
}

func modeByName(n string) layer.OverlayOpaqueType {
	for m, s := range modeNames {
		if s == n {
			return m
		}
	}
	return layer.OverlayOpaqueAll
}

func replay(c *runner.Ctx, raw json.RawMessage) (string, error) {
	var id caseID
	if err := json.Unmarshal(raw, &id); err != nil {
		return "", err
	}
	w, err := newWorld(c)
	if err != nil {
		return "", err
	}
	res := &runner.Result{Outcomes: map[string]int{}}
	v := &vset{res: res, seen: map[string]bool{}}
	mode := modeByName(id.Mode)
	if len(id.Specs) == 1 {
		w.checkServed(spec(id.Specs[0]), 0, id.Store, mode, v, res)
		w.checkOrders(spec(id.Specs[0]), id.Store, mode, len(id.Seq), time.Now().Add(time.Minute), v, res)
	} else {
		w.checkStack(spec(id.Specs[0]), spec(id.Specs[1]), id.Store, mode, v, res)
	}
	var out []string
	for _, x := range res.Violations {
		out = append(out, x.Key+": "+x.Msg)
	}
	if len(out) > 0 {
		return "", fmt.Errorf("%s", strings.Join(out, "\n"))
	}
	return "no violation", nil
}

// served returns the walked tree of a layer (cached per world).
type servedKey struct {
	k     string
	store string
	mode  layer.OverlayOpaqueType
}

var servedCache = map[servedKey]reftar.Tree{}

func (w *world) served(s spec, pos int, store string, mode layer.OverlayOpaqueType) (reftar.Tree, error) {
	k := servedKey{fmt.Sprintf("%d%v", pos, []int(s)), store, mode}
	if t, ok := servedCache[k]; ok {
		return t, nil
	}
	b, err := w.get(s, pos)
	if err != nil {
		return nil, err
	}
	drv, err := w.fresh(b, store, mode)
	if err != nil {
		return nil, err
	}
	t := drv.Walk(fusedrv.WalkOpts{}).Tree
	servedCache[k] = t
	return t, nil
}

// checkStack: overlayfs merge of the served layers == OCI application of the tars.
func (w *world) checkStack(lo, up spec, store string, mode layer.OverlayOpaqueType, v *vset, res *runner.Result) (nontrivial bool) {
	tl, err1 := w.served(lo, 0, store, mode)
	tu, err2 := w.served(up, 1, store, mode)
	if err1 != nil || err2 != nil {
		return false // reported by the layers part
	}
	bl, _ := w.get(lo, 0)
	bu, _ := w.get(up, 1)
	want, _, err := reftar.ApplyLayers([][]byte{bl.tarb, bu.tarb}, modeXattr[mode])
	if err != nil {
		res.Broken = fmt.Sprintf("reference refuses stack %v %v: %v", lo, up, err)
		return false
	}
	got := reftar.MergeLower([]reftar.Tree{tl, tu}, modeXattr[mode])
	res.Evaluations++
	id := caseID{Specs: [][]int{lo, up}, Store: store, Mode: modeNames[mode]}
	for _, d := range reftar.Diff(want, got, reftar.CmpOpts{Attrs: true, DirAttrs: false}) {
		shape := shapeOf(d.Path)
		v.add("stack-"+d.Class, shape, fmt.Sprintf("stack lower %s upper %s (store %s, opaque mode %s)\napplying the layer tars gives   %s\nmerging the served layers gives %s\n  lower served: %s\n  upper served: %s\n%s", describeTar(bl.tarb), describeTar(bu.tarb), store, modeNames[mode], want.Describe(), got.Describe(), tl.Describe(), tu.Describe(), d), id)
	}
	// non-trivial: the upper layer removed or replaced something of the lower layer
	lower, _, _ := reftar.ApplyLayers([][]byte{bl.tarb}, modeXattr[mode])
	for p, e := range lower {
		if g, ok := want[p]; !ok || (g.Mode&reftar.SIFMT != e.Mode&reftar.SIFMT) || !bytes.Equal(g.Content, e.Content) {
			nontrivial = true
		}
	}
	res.Outcomes[fmt.Sprintf("stack: lower=%d upper=%d merged=%d entries", len(tl)-1, len(tu)-1, len(got)-1)]++
	return
}

func stacksPart(tier string) runner.Part {
	return runner.Part{Name: "stacks", Shards: 32, Run: func(c *runner.Ctx) *runner.Result {
		res := &runner.Result{Outcomes: map[string]int{}}
		v := &vset{res: res, seen: map[string]bool{}}
		w, err := newWorld(c)
		if err != nil {
			res.Broken = err.Error()
			return res
		}
		max := 3
		if tier == "thorough" {
			max = 3 // pairs of <=3-entry layers; <=4-entry layers are covered one at a time by "layers"
		}
		// two families of layers; every ordered pair within a family is a stack
		var specs []spec
		family := map[int]int{}
		for _, s := range allSpecs(max) {
			if !excluded(s) {
				specs = append(specs, s)
			}
		}
		for _, s := range family2Specs(3) {
			if !excluded(s) {
				family[len(specs)] = 2
				specs = append(specs, s)
			}
		}
		nstacks := 0
		// this shard owns the lower layers with index%Of == Shard and pairs them with every upper layer
		for li, lo := range specs {
			if li%c.Of != c.Shard {
				continue
			}
			if time.Now().After(c.Deadline) {
				res.Caps = appendUniq(res.Caps, "time budget (stacks)")
				break
			}
			for ui, up := range specs {
				if family[ui] != family[li] {
					continue
				}
				nstacks++
				res.States++
				nt := false
				for _, st := range stores {
					for _, m := range modes {
						guard(v, fmt.Sprintf("stack %v %v (store %s, opaque mode %s)", lo, up, st, modeNames[m]), caseID{Specs: [][]int{lo, up}, Store: st, Mode: modeNames[m]}, func() {
							if w.checkStack(lo, up, st, m, v, res) {
								nt = true
							}
						})
						if res.Broken != "" {
							return res
						}
					}
				}
				if nt {
					res.Nontrivial++
				}
			}
			if len(res.Samples) == 0 {
				res.Samples = append(res.Samples, map[string]any{"lower": lo.String(), "uppers": len(specs)})
			}
		}
		res.Extra = map[string]any{"layers": len(specs), "stacks_in_this_shard": nstacks}
		return res
	}, Replay: func(c *runner.Ctx, raw json.RawMessage) (string, error) { return replay(c, raw) }}
}

func main() {
	logrus.SetOutput(io.Discard)
	runner.Main(runner.Check{
		ID:    "C07",
		Level: "exploration",
		Rule: "layers: every layer of <=3 (thorough 4) members over {a, d/, d/a, .wh.a, d/.wh.a, d/.wh..wh..opq, .wh..wh..opq, .wh.d, '.wh.', .prefetch.landmark, d/.prefetch.landmark, .no.prefetch.landmark} (minus layers with a whiteout and a directory of one name; plus 5 fixed hard-link layers; plus every layer of <=3 members over a second family {c = char device 1:3, .wh.c, o/ with own xattr trusted.overlay.opaque=y + user.other, o/a, p/ with own xattr user.overlay.opaque=y, p/a}) is built with estargz.Build and served by the real node.go over {memory, db} metadata x {trusted,user,all} opaque mode; the served tree (READDIR/LOOKUP/GETATTR/LISTXATTR/GETXATTR/READ through go-fuse's raw bridge) must equal the statement's translation of the tar computed by an archive/tar reference; every call order of {READDIR, LOOKUP(x)} up to length 3 (thorough: 4 for layers of <=3 members) per directory on a fresh root must answer each call like a fresh node does. " +
			"stacks: for every ordered pair of layers within a family, overlayfs-merge(served lower, served upper) must equal OCI-apply(lower tar, upper tar). " +
			"non-trivial = layer with a whiteout/opaque/landmark member; call order in which a LOOKUP follows a READDIR (memoised listing consulted); stack whose upper layer deletes or replaces something of the lower layer",
		Assumptions: []string{
			"layers are served from an in-memory blob with a stub remote.Blob behind the state file (FetchedSize fixed at 5); the remote path is C02/C06 business",
			"the kernel's overlayfs is modelled by lib/reftar.MergeLower (lookup rules of Documentation/filesystems/overlayfs.rst); the model honours the opaque xattr on a layer root as well",
			"OCI application follows the image-layer spec: whiteouts act on lower layers only, whatever the member order; a directory member whose own header carries the configured overlay opaque xattr = y is opaque like a marker directory (archived overlayfs upper dir)",
			"attributes of synthesised whiteout devices other than type and rdev, and attributes of implicit directories, are not compared",
		},
		QuickBudget: 4 * time.Minute, ThoroughBudget: 30 * time.Minute,
		Parts: func(tier string) []runner.Part {
			return []runner.Part{layersPart(tier), stacksPart(tier)}
		},
	})
}
