// C08, concurrent callers: two snapshotter calls racing on the real snapshotter under the
// cooperative scheduler (snapshot.go instrumented: os namespace operations, the bolt write
// transaction and every backend call are scheduling points).
package main

import (
	"context"
	"encoding/json"
	"fmt"
	"os"
	"path/filepath"
	"sort"
	"strings"

	"github.com/containerd/containerd/v2/core/snapshots"
	"github.com/containerd/errdefs"
	"github.com/containerd/stargz-snapshotter/estargz/vrt"
	"github.com/containerd/stargz-snapshotter/snapshot"

	"verif/lib/runner"
	"verif/lib/snapx"
	"verif/lib/vexp"
)

// concFS is a minimal recording backend whose calls are visible operations.
type concFS struct {
	live   map[string]int // mountpoint -> live mounts
	errs   *[]string
	closed *bool
}

func (f *concFS) Mount(ctx context.Context, mp string, labels map[string]string) error {
	vrt.Point("fs.Mount", f)
	if _, err := os.Stat(mp); err != nil {
		return fmt.Errorf("mountpoint missing: %w", err)
	}
	f.live[mp]++
	if f.live[mp] > 1 {
		*f.errs = append(*f.errs, fmt.Sprintf("%s is mounted twice by the backend", rel(mp)))
	}
	return nil
}

func (f *concFS) Check(ctx context.Context, mp string, labels map[string]string) error {
	vrt.Point("fs.Check", f)
	if f.live[mp] == 0 {
		return fmt.Errorf("not mounted")
	}
	return nil
}

func (f *concFS) Unmount(ctx context.Context, mp string) error {
	vrt.Point("fs.Unmount", f)
	if f.live[mp] == 0 {
		return fmt.Errorf("not mounted")
	}
	if _, err := os.Stat(mp); err != nil {
		*f.errs = append(*f.errs, fmt.Sprintf("the directory of live mount %s was deleted before the backend unmount", rel(mp)))
	}
	delete(f.live, mp)
	return nil
}

func rel(p string) string {
	if i := strings.Index(p, "/snapshots/"); i >= 0 {
		return p[i+1:]
	}
	return p
}

type concScen struct {
	Name    string       `json:"name"`
	Pre     []snapx.Op   `json:"pre"`
	Threads [][]snapx.Op `json:"threads"`
}

func concScens() []concScen {
	prepT := func(k, parent, target string) snapx.Op {
		return snapx.Op{Kind: "prepare", Key: k, Parent: parent, Target: target}
	}
	return []concScen{
		{Name: "prepare(target T1) || prepare(target T1)", Threads: [][]snapx.Op{{prepT("k1", "", "T1")}, {prepT("k2", "", "T1")}}},
		{Name: "prepare(target T1) || prepare(target T2)", Threads: [][]snapx.Op{{prepT("k1", "", "T1")}, {prepT("k2", "", "T2")}}},
		{Name: "cleanup || prepare(target T1)", Threads: [][]snapx.Op{{{Kind: "cleanup"}}, {prepT("k1", "", "T1")}}},
		{Name: "cleanup || prepare(plain) ; commit", Threads: [][]snapx.Op{{{Kind: "cleanup"}}, {prepT("k1", "", ""), {Kind: "commit", Key: "k1", Name: "T2"}}}},
		{Name: "remove(T1) || prepare(child of T1)", Pre: []snapx.Op{prepT("k1", "", "T1")}, Threads: [][]snapx.Op{{{Kind: "remove", Key: "T1"}}, {prepT("k2", "T1", "")}}},
		{Name: "remove(T1) || mounts(view of T1)", Pre: []snapx.Op{prepT("k1", "", "T1"), {Kind: "view", Key: "k2", Parent: "T1"}}, Threads: [][]snapx.Op{{{Kind: "remove", Key: "k2"}, {Kind: "remove", Key: "T1"}}, {{Kind: "mounts", Key: "k2"}}}},
		{Name: "remove(T1) ; cleanup || prepare(target T1 again)", Pre: []snapx.Op{prepT("k1", "", "T1")}, Threads: [][]snapx.Op{{{Kind: "remove", Key: "T1"}, {Kind: "cleanup"}}, {prepT("k2", "", "T1")}}},
	}
}

func concScenario(sc concScen, scratch string, async bool) *vexp.Scenario {
	return &vexp.Scenario{
		Name: sc.Name, LockDominance: true, StateCache: true, MaxSteps: 200000,
		New: func() (func(), func(vrt.Result) (string, error)) {
			var errs []string
			var outs []string
			var root string
			var sn snapshots.Snapshotter
			fsb := &concFS{live: map[string]int{}, errs: &errs}
			do := func(o snapx.Op) string {
				ctx := context.Background()
				var err error
				switch o.Kind {
				case "prepare":
					var opts []snapshots.Opt
					if o.Target != "" {
						opts = append(opts, snapshots.WithLabels(snapx.RemoteLabels(o.Target)))
					}
					_, err = sn.Prepare(ctx, o.Key, o.Parent, opts...)
					if o.Target != "" && err != nil && !errdefs.IsAlreadyExists(err) {
						// falling back is signalled by success; any other error is unexpected with a healthy backend
						errs = append(errs, fmt.Sprintf("%s failed with a healthy backend: %v", o, err))
					}
				case "view":
					_, err = sn.View(ctx, o.Key, o.Parent)
				case "commit":
					err = sn.Commit(ctx, o.Name, o.Key)
				case "mounts":
					_, err = sn.Mounts(ctx, o.Key)
				case "remove":
					err = sn.Remove(ctx, o.Key)
				case "cleanup":
					err = sn.(snapshots.Cleaner).Cleanup(ctx)
				}
				return fmt.Sprintf("%s=%s", o, snapx.ErrClass(err))
			}
			body := func() {
				var err error
				root, err = os.MkdirTemp(scratch, "c08c-")
				if err != nil {
					vrt.Broken("mkdtemp: %v", err)
				}
				var opts []snapshot.Opt
				if async {
					opts = append(opts, snapshot.AsynchronousRemove)
				}
				vrt.Quiet(func() {
					sn, err = snapshot.NewSnapshotter(context.Background(), root, fsb, opts...)
					if err == nil {
						for _, o := range sc.Pre {
							do(o)
						}
					}
				})
				if err != nil {
					vrt.Broken("NewSnapshotter: %v", err)
				}
				outs = make([]string, len(sc.Threads))
				done := make([]bool, len(sc.Threads))
				for i, prog := range sc.Threads {
					i, prog := i, prog
					vrt.GoNamed(fmt.Sprintf("c%d", i), func() {
						var o []string
						for _, op := range prog {
							o = append(o, do(op))
						}
						outs[i] = strings.Join(o, ";")
						done[i] = true
					})
				}
				for i := range done {
					i := i
					for !done[i] {
						vrt.Block("join", func() bool { return done[i] })
					}
				}
				vrt.WaitIdle()
				// quiescent invariants
				if err := sn.(snapshots.Cleaner).Cleanup(context.Background()); err != nil {
					errs = append(errs, fmt.Sprintf("final Cleanup failed: %v", err))
				}
				// independent reading of the metadata (copy of metadata.db through containerd's storage package)
				meta, err := snapx.ReadMeta(filepath.Join(root, "metadata.db"), scratch)
				if err != nil {
					vrt.Broken("ReadMeta: %v", err)
				}
				dirs := snapx.LsSnapshots(root)
				var ids []string
				for id := range meta.ByID {
					ids = append(ids, id)
				}
				for i := range dirs {
					dirs[i] = strings.TrimSuffix(dirs[i], "/")
				}
				sort.Strings(ids)
				sort.Strings(dirs)
				if strings.Join(ids, " ") != strings.Join(dirs, " ") {
					errs = append(errs, fmt.Sprintf("after Cleanup snapshots/ holds %v but the live snapshot ids are %v", dirs, ids))
				}
				for _, sp := range meta.ByKey {
					mp := snapx.UpperPath(root, sp.ID)
					if sp.Remote() {
						if sp.Kind != snapshots.KindCommitted {
							errs = append(errs, fmt.Sprintf("snapshot %s carries the remote label but is %v", sp.Key, sp.Kind))
						}
						if fsb.live[mp] != 1 {
							errs = append(errs, fmt.Sprintf("committed remote snapshot %s has %d live backend mount(s) on its directory", sp.Key, fsb.live[mp]))
						}
					}
				}
				for mp := range fsb.live {
					owner := ""
					for _, sp := range meta.ByKey {
						if snapx.UpperPath(root, sp.ID) == mp {
							owner = sp.Key
						}
					}
					if owner == "" {
						errs = append(errs, fmt.Sprintf("live backend mount %s belongs to no snapshot (leaked mount)", rel(mp)))
					}
					if _, err := os.Stat(mp); err != nil {
						errs = append(errs, fmt.Sprintf("live backend mount %s has no directory", rel(mp)))
					}
				}
				sn.Close()
			}
			check := func(vrt.Result) (string, error) {
				if root != "" {
					os.RemoveAll(root)
				}
				if len(errs) > 0 {
					return "", fmt.Errorf("%s", strings.Join(errs, "; "))
				}
				return strings.Join(outs, " | "), nil
			}
			return body, check
		},
	}
}

func mountKeys(m map[string]int) []string {
	var o []string
	for k := range m {
		o = append(o, rel(k))
	}
	sort.Strings(o)
	return o
}

func classifyConc(msg string) string {
	switch {
	case strings.Contains(msg, "mounted twice"):
		return "mounted-twice"
	case strings.Contains(msg, "deleted before the backend unmount"):
		return "directory-deleted-before-unmount"
	case strings.Contains(msg, "after Cleanup snapshots/"):
		return "cleanup-leaves-wrong-directories"
	case strings.Contains(msg, "leaked mount"), strings.Contains(msg, "has no directory"):
		return "leaked-mount"
	case strings.Contains(msg, "live backend mount(s) on its directory"):
		return "remote-snapshot-not-mounted-once"
	case strings.Contains(msg, "carries the remote label"):
		return "remote-label-on-active"
	case strings.Contains(msg, "healthy backend"):
		return "prepare-target-unexpected-error"
	case strings.Contains(msg, "deadlock"):
		return "deadlock"
	case strings.Contains(msg, "panic"):
		return "panic"
	}
	return "other"
}

func concPart(tier string) runner.Part {
	scs := concScens()
	pb := 2
	if tier == "thorough" {
		pb = 3
	}
	return runner.Part{Name: "conc", Shards: len(scs) * 2, Run: func(c *runner.Ctx) *runner.Result {
		res := &runner.Result{Outcomes: map[string]int{}}
		sc := scs[c.Shard/2]
		async := c.Shard%2 == 1
		st := vexp.Explore(concScenario(sc, c.Scratch, async), vexp.Options{PB: pb, DetChecks: 3, Deadline: c.Deadline})
		res.Evaluations, res.States, res.Transitions = st.Executions, int64(st.StateKeys), st.Transitions
		for o, n := range st.Outcomes {
			res.Outcomes[sc.Name+": "+o] += n
		}
		res.Nontrivial = int64(len(st.Outcomes))
		if st.Broken != "" {
			res.Broken = sc.Name + ": " + st.Broken
			return res
		}
		if st.Capped {
			res.Caps = append(res.Caps, sc.Name+": "+st.CapReason)
		}
		seen := map[string]bool{}
		for _, v := range st.Violations {
			k := "C08/conc/" + classifyConc(v.Msg)
			if seen[k] {
				continue
			}
			seen[k] = true
			res.Violations = append(res.Violations, runner.Violation{Key: k, Msg: fmt.Sprintf("%s (async removal=%v)\nchoices=%v\n%s\ntrace:\n  %s", sc.Name, async, v.Choices, v.Msg, strings.Join(v.Trace, "\n  ")), Replay: map[string]any{"scen": sc, "async": async, "choices": v.Choices}})
		}
		if len(st.SampleTraces) > 0 && !async {
			t := st.SampleTraces[0]
			if len(t) > 30 {
				t = t[:30]
			}
			res.Samples = append(res.Samples, map[string]any{"scenario": sc.Name, "executions": st.Executions, "trace_head": t})
		}
		res.Extra = map[string]any{"preemption_bound_completed": pb}
		return res
	}, Replay: func(c *runner.Ctx, raw json.RawMessage) (string, error) {
		var r struct {
			Scen    concScen `json:"scen"`
			Async   bool     `json:"async"`
			Choices []int    `json:"choices"`
		}
		if err := json.Unmarshal(raw, &r); err != nil {
			return "", err
		}
		out, err, trace, broken := vexp.Replay(concScenario(r.Scen, c.Scratch, r.Async), r.Choices)
		if broken != "" {
			return "", fmt.Errorf("replay broken: %s", broken)
		}
		return strings.Join(trace, "\n") + "\n" + out, err
	}}
}

var _ = filepath.Join
