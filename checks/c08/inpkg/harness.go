//go:build verif

package snapshot

import (
	"context"
	"time"

	"github.com/containerd/containerd/v2/core/snapshots/storage"
	vsync "github.com/containerd/stargz-snapshotter/estargz/vrt/vsync"
	bolt "go.etcd.io/bbolt"
)

// bbolt serialises writable transactions with a real mutex held from Begin to
// Commit/Rollback. Under the cooperative scheduler that mutex must be visible,
// otherwise a second writer would block for real while holding the baton. The
// seam below takes a scheduler-visible mutex around every writable transaction
// (read transactions stay concurrent, as in bbolt).
var verifWriteTx vsync.Mutex

type verifTransactor struct {
	storage.Transactor
	unlock func()
}

func (t *verifTransactor) Commit() error {
	defer t.unlock()
	return t.Transactor.Commit()
}

func (t *verifTransactor) Rollback() error {
	defer t.unlock()
	return t.Transactor.Rollback()
}

func verifTx(ms *storage.MetaStore) func(ctx context.Context, writable bool) (context.Context, storage.Transactor, error) {
	return func(ctx context.Context, writable bool) (context.Context, storage.Transactor, error) {
		if !writable {
			return ms.TransactionContext(ctx, false)
		}
		verifWriteTx.Lock()
		ctx2, t, err := ms.TransactionContext(ctx, true)
		if err != nil {
			verifWriteTx.Unlock()
			return ctx2, t, err
		}
		done := false
		return ctx2, &verifTransactor{Transactor: t, unlock: func() {
			if !done {
				done = true
				verifWriteTx.Unlock()
			}
		}}, nil
	}
}

// verifNewMetaStore opens the store with a large initial mmap so that a commit
// never needs to remap (which would wait, for real, for open read transactions).
func verifNewMetaStore(dbfile string, opts ...storage.Opt) (*storage.MetaStore, error) {
	opts = append(opts, func(o *bolt.Options) error {
		o.InitialMmapSize = 8 << 20
		o.Timeout = 5 * time.Second
		o.NoSync = true
		o.NoFreelistSync = true
		return nil
	})
	return storage.NewMetaStore(dbfile, opts...)
}
