// C08: the snapshotter keeps snapshot metadata, directories and FUSE mounts in step.
//
// Explicit-state BFS over operation histories on the real snapshot.NewSnapshotter
// with real bolt metadata, real directories and a recording fake backend (recfs)
// whose every Mount/Check/Unmount answer is chosen by the search.
package main

import (
	"encoding/json"
	"fmt"
	"os"
	"path/filepath"
	"runtime/pprof"
	"sort"
	"strings"
	"time"

	"github.com/containerd/containerd/v2/core/mount"
	"github.com/containerd/containerd/v2/core/snapshots"
	"github.com/containerd/errdefs"

	"verif/lib/recfs"
	"verif/lib/runner"
	"verif/lib/snapx"
	"verif/lib/vexp"
)

type viol struct{ key, msg string }

func isMountOp(k string) bool { return k == "prepare" || k == "view" || k == "mounts" }

func lowerdirOf(m mount.Mount) (string, int) {
	n, v := 0, ""
	for _, o := range m.Options {
		if strings.HasPrefix(o, "lowerdir=") {
			n++
			v = strings.TrimPrefix(o, "lowerdir=")
		}
	}
	return v, n
}

func optionOf(m mount.Mount, name string) string {
	for _, o := range m.Options {
		if strings.HasPrefix(o, name+"=") {
			return strings.TrimPrefix(o, name+"=")
		}
	}
	return ""
}

// check evaluates the invariants of the property statement on one transition.
func check(t *snapx.Trans) []viol {
	var out []viol
	add := func(key, format string, a ...any) {
		out = append(out, viol{"C08/" + key, fmt.Sprintf(format, a...)})
	}
	op := t.Step.Op
	res := t.Res
	if res.Panic != "" {
		add("panic/"+op.Kind, "panic: %s", res.Panic)
		return out
	}
	upper := func(id string) string { return snapx.UpperPath(t.Root, id) }
	norm := func(s string) string { return snapx.NormPaths(t.Root, t.Post, s) }

	// (a) Prepare that names a target (on a free key).
	if op.Kind == "prepare" && op.Target != "" && t.Pre.ByKey[op.Key] == nil {
		T := op.Target
		preT, postT := t.Pre.ByKey[T], t.Post.ByKey[T]
		self := t.Post.ByKey[op.Key]
		switch {
		case errdefs.IsAlreadyExists(res.Err):
			if postT == nil || postT.Kind != snapshots.KindCommitted {
				add("prepare-target/alreadyexists-but-target-not-committed", "expected: AlreadyExists => %s is a committed snapshot; actual: target is %v", T, postT)
			} else if preT == nil { // this call created it
				if !postT.Remote() {
					add("prepare-target/created-target-not-marked-remote", "expected: target %s created by this call carries label %s; actual labels [%s]", T, snapx.RemoteLabel, recfs.LabelString(postT.Labels))
				}
				if n := len(t.PostTable[upper(postT.ID)]); n != 1 {
					add("prepare-target/created-target-live-mounts", "expected: exactly one live backend mount on the fs directory of %s (id %s); actual: %d (backend calls: %s)", T, postT.ID, n, callsString(res.Calls))
				}
			}
		case res.Err == nil:
			if self == nil || self.Kind != snapshots.KindActive {
				add("prepare-target/fallback-not-active", "expected: success => %s is an ordinary active snapshot; actual: %v", op.Key, self)
			} else {
				if self.Remote() {
					add("prepare-target/fallback-marked-remote", "expected: fallback snapshot %s not marked remote; actual labels [%s]", op.Key, recfs.LabelString(self.Labels))
				}
				if n := len(t.PostTable[upper(self.ID)]); n != 0 {
					add("prepare-target/fallback-has-live-mount", "expected: no live backend mount on the ordinary snapshot %s (id %s); actual: %d", op.Key, self.ID, n)
				}
			}
			if len(res.Mounts) == 0 {
				add("prepare-target/fallback-no-mounts", "success without mounts")
			}
		default:
			// neither "already exists" nor success: either nothing was created (bad
			// parent), or the fallback snapshot exists and its parent chain is unavailable.
			if self != nil {
				if !errdefs.IsUnavailable(res.Err) {
					add("prepare-target/unexpected-error", "snapshot %s was created but Prepare failed with %v (class %s)", op.Key, res.Err, snapx.ErrClass(res.Err))
				}
				if self.Remote() {
					add("prepare-target/fallback-marked-remote", "expected: fallback snapshot %s not marked remote; actual labels [%s]", op.Key, recfs.LabelString(self.Labels))
				}
				if n := len(t.PostTable[upper(self.ID)]); n != 0 && self.Kind == snapshots.KindActive && errdefs.IsUnavailable(res.Err) {
					add("prepare-target/fallback-has-live-mount", "expected: no live backend mount on the ordinary snapshot %s (id %s); actual: %d", op.Key, self.ID, n)
				}
			}
			if preT == nil && postT != nil {
				add("prepare-target/target-created-but-error", "Prepare returned %v (class %s) although it created target %s", res.Err, snapx.ErrClass(res.Err), T)
			}
		}
	}

	// (b) no mounts for a chain containing a remote layer whose Check fails.
	if isMountOp(op.Kind) {
		var failed []string
		okCheck := map[string]bool{}
		for _, c := range res.Calls {
			if c.Method != "Check" {
				continue
			}
			if c.OK() {
				okCheck[c.Mountpoint] = true
			} else {
				failed = append(failed, c.Rel)
			}
		}
		if len(failed) > 0 {
			if !errdefs.IsUnavailable(res.Err) {
				add("unavailable/wrong-error-class", "Check failed for %v; expected an Unavailable error, actual: %v (class %s)", failed, res.Err, snapx.ErrClass(res.Err))
			}
			if len(res.Mounts) > 0 {
				add("unavailable/mounts-returned", "Check failed for %v; expected no mounts, actual: %s", failed, norm(fmt.Sprint(res.Mounts)))
			}
		}
		if res.Err == nil && len(res.Mounts) > 0 {
			start := op.Parent
			if op.Kind == "mounts" {
				start = op.Key
			}
			for _, s := range t.Post.Chain(start) {
				if s.Remote() && !okCheck[upper(s.ID)] {
					add("unavailable/remote-layer-not-checked", "mounts were returned for a chain containing remote snapshot %s (id %s) without a successful connectivity check of it (backend calls: %s)", s.Key, s.ID, callsString(res.Calls))
				}
			}
		}
	}

	// (c) unmount only after removal from metadata (or while closing), and before the directory is deleted.
	for _, u := range t.Unmounts {
		if !u.DirExists {
			add("unmount/directory-deleted-before-unmount", "Unmount(%s) of a live mount was called when its directory was already gone", u.Call.Rel)
		}
		if u.InMeta && op.Kind != "close" {
			add("unmount/while-snapshot-in-metadata", "Unmount(%s) took down the live mount of snapshot %s (id %s) which is still recorded in metadata.db, during %s", u.Call.Rel, u.Owner, u.ID, op)
		}
	}
	for _, mp := range t.MissingMP {
		add("unmount/directory-deleted-while-mounted", "after the operation %s has a live backend mount but its directory is gone (backend calls: %s)", mp, callsString(res.Calls))
	}

	// (d) shape of the returned mounts; lower directories nearest parent first.
	if isMountOp(op.Kind) && res.Err == nil && len(res.Mounts) > 0 {
		if s := t.Post.ByKey[op.Key]; s == nil {
			add("mounts/for-unknown-snapshot", "mounts returned for %s which is not in metadata", op.Key)
		} else {
			var lowers []string
			for _, p := range t.Post.Chain(s.Parent) {
				lowers = append(lowers, upper(p.ID))
			}
			if len(res.Mounts) != 1 {
				add("mounts/shape", "expected one mount, got %d", len(res.Mounts))
			} else {
				m := res.Mounts[0]
				want, n := lowerdirOf(m)
				switch {
				case len(lowers) == 0:
					if m.Type != "bind" || m.Source != upper(s.ID) {
						add("mounts/shape", "snapshot without parent: expected bind of its own fs dir, got %s", norm(fmt.Sprint(m)))
					}
				case s.Kind == snapshots.KindView && len(lowers) == 1:
					if m.Type != "bind" || m.Source != lowers[0] {
						add("mounts/shape", "view on a single parent: expected bind of the parent's fs dir %s, got %s", norm(lowers[0]), norm(fmt.Sprint(m)))
					}
				default:
					if m.Type != "overlay" || n != 1 {
						add("mounts/shape", "expected an overlay mount with one lowerdir option, got %s", norm(fmt.Sprint(m)))
					} else if exp := strings.Join(lowers, ":"); want != exp {
						add("lowerdir/order", "expected lowerdir=%s (nearest parent first: %s), actual lowerdir=%s", norm(exp), chainKeys(t.Post, s.Parent), norm(want))
					}
					if s.Kind == snapshots.KindActive {
						if optionOf(m, "upperdir") != upper(s.ID) || optionOf(m, "workdir") != snapx.WorkPath(t.Root, s.ID) {
							add("mounts/shape", "active snapshot: upperdir/workdir do not point into its own directory: %s", norm(fmt.Sprint(m)))
						}
					}
				}
			}
		}
	}

	// (e) after Cleanup the directories are exactly those of live snapshots.
	if op.Kind == "cleanup" {
		var ids []string
		for id := range t.Post.ByID {
			ids = append(ids, id)
		}
		sort.Strings(ids)
		if strings.Join(ids, ",") != strings.Join(t.PostDirs, ",") {
			add("cleanup/dirs-differ-from-live-ids", "after Cleanup (err=%v): ls snapshots/ = %v, ids of live snapshots = %v", res.Err, t.PostDirs, ids)
		}
	}

	// Walk / Stat agree with the independently read metadata.
	switch op.Kind {
	case "walk":
		if res.Err == nil || len(t.Post.ByKey) > 0 {
			got := map[string]string{}
			for _, i := range res.Infos {
				got[i.Name] = fmt.Sprintf("%s parent=%s [%s]", i.Kind, i.Parent, recfs.LabelString(i.Labels))
			}
			want := map[string]string{}
			for k, s := range t.Post.ByKey {
				want[k] = fmt.Sprintf("%s parent=%s [%s]", s.Kind, s.Parent, recfs.LabelString(s.Labels))
			}
			if fmt.Sprint(got) != fmt.Sprint(want) || res.Err != nil {
				add("walk/differs-from-metadata", "Walk err=%v reported %v, metadata.db holds %v", res.Err, got, want)
			}
		}
	case "stat":
		s := t.Post.ByKey[op.Key]
		if (s != nil) != (res.Err == nil) {
			add("stat/differs-from-metadata", "Stat(%s) err=%v, metadata.db holds %v", op.Key, res.Err, s)
		} else if s != nil && (res.Info.Kind != s.Kind || res.Info.Parent != s.Parent || recfs.LabelString(res.Info.Labels) != recfs.LabelString(s.Labels)) {
			add("stat/differs-from-metadata", "Stat(%s) = %v, metadata.db holds %v", op.Key, res.Info, s)
		}
	}
	return out
}

func chainKeys(m *snapx.Meta, key string) string {
	var ks []string
	for _, s := range m.Chain(key) {
		ks = append(ks, s.Key)
	}
	return strings.Join(ks, ">")
}

func callsString(calls []recfs.Call) string {
	var parts []string
	for _, c := range calls {
		r := "ok"
		if !c.OK() {
			r = "fail"
		}
		parts = append(parts, fmt.Sprintf("%s(%s)=%s", c.Method, c.Rel, r))
	}
	return "[" + strings.Join(parts, " ") + "]"
}

// outcome is the observation class of a transition (for the histogram).
func outcome(t *snapx.Trans) string {
	op := t.Step.Op
	k := op.Kind
	if op.Kind == "prepare" && op.Target != "" {
		k = "prepare+target"
		if errdefs.IsAlreadyExists(t.Res.Err) && t.Pre.ByKey[op.Key] == nil {
			if t.Pre.ByKey[op.Target] == nil {
				k += "(created)"
			} else {
				k += "(pre-existing)"
			}
		}
	}
	var f []string
	for _, x := range t.Step.Fails {
		f = append(f, strings.SplitN(x, "|", 2)[0])
	}
	s := fmt.Sprintf("%s -> %s", k, snapx.ErrClass(t.Res.Err))
	if len(f) > 0 {
		s += " [fail " + strings.Join(f, "+") + "]"
	}
	return s
}

func msgFor(t *snapx.Trans, v viol) string {
	mode := "sync removal"
	if t.Async {
		mode = "AsynchronousRemove"
	}
	return fmt.Sprintf("%s\nconfiguration: %s\nhistory: [%s]\nthen: %s -> err=%v\nbackend calls during the step: %s\nmetadata before:\n%smetadata after:\n%sls snapshots/ after: %v",
		v.msg, mode, snapx.HistString(t.Hist), t.Step, t.Res.Err, callsString(t.Res.Calls), indent(t.Pre.String()), indent(t.Post.String()), t.PostDirs)
}

func indent(s string) string {
	if s == "" {
		return "  (empty)\n"
	}
	return "  " + strings.ReplaceAll(strings.TrimRight(s, "\n"), "\n", "\n  ") + "\n"
}

type replayRec struct {
	Async bool         `json:"async"`
	Hist  []snapx.Step `json:"hist"`
	Step  snapx.Step   `json:"step"`
	Devs  int          `json:"devs"`
}

func part(async bool, tier string) runner.Part {
	name := "sync"
	if async {
		name = "async"
	}
	depth, maxDev := 4, 1
	if tier == "thorough" {
		depth, maxDev = 5, 2
	}
	if v := os.Getenv("C08_DEPTH"); v != "" {
		fmt.Sscan(v, &depth)
	}
	return runner.Part{
		Name:   name,
		Shards: 8,
		Run: func(c *runner.Ctx) *runner.Result {
			res := &runner.Result{Outcomes: map[string]int{}}
			seenViol := map[string]bool{}
			obsByHash := map[string]string{}
			histByHash := map[string]string{}
			var lastLevel []string // states first reached at the depth bound by this shard
			maxDepth := 0
			on := func(t *snapx.Trans, owner, isNew bool) {
				// differential: same canonical state => same observations (checked on every shard's own view)
				if prev, ok := obsByHash[t.Hash]; !ok {
					obsByHash[t.Hash] = snapx.HashString(t.Obs)
					if t.Depth <= 3 {
						histByHash[t.Hash] = snapx.HistString(append(append([]snapx.Step(nil), t.Hist...), t.Step))
					}
				} else if prev != snapx.HashString(t.Obs) && owner && !seenViol["obs"] {
					seenViol["obs"] = true
					res.Violations = append(res.Violations, runner.Violation{Key: "C08/canonical-state/observations-differ",
						Msg:    fmt.Sprintf("two histories reach the same canonical state but Mounts() answers differ\nA: [%s] (observation hash %s)\nB: [%s ; %s]\n%s\ncanonical state:\n%s", histByHash[t.Hash], prev, snapx.HistString(t.Hist), t.Step, t.Obs, t.Canon),
						Replay: replayRec{async, t.Hist, t.Step, t.Devs - len(t.Step.Fails)}})
				}
				if !owner {
					// levels below the depth bound are executed identically by every shard: report their
					// violations everywhere so that the smallest counterexample wins whichever shard is listed first
					for _, v := range check(t) {
						if !seenViol[v.key] {
							seenViol[v.key] = true
							res.Violations = append(res.Violations, runner.Violation{Key: v.key, Msg: msgFor(t, v), Replay: replayRec{async, t.Hist, t.Step, t.Devs - len(t.Step.Fails)}})
						}
					}
					return
				}
				res.Evaluations++
				res.Transitions++
				if t.Depth > maxDepth {
					maxDepth = t.Depth
				}
				if isNew {
					if !t.LastLevel {
						res.States++
					} else {
						lastLevel = append(lastLevel, t.Hash)
					}
				}
				if len(t.Res.Calls) > 0 || t.Hash != t.FromHash {
					res.Nontrivial++
				}
				res.Outcomes[outcome(t)]++
				// informational classes
				op := t.Step.Op
				if op.Kind == "prepare" && op.Target != "" && errdefs.IsAlreadyExists(t.Res.Err) && t.Pre.ByKey[op.Key] == nil && t.Pre.ByKey[op.Target] != nil {
					if s := t.Post.ByKey[op.Key]; s != nil && len(t.PostTable[snapx.UpperPath(t.Root, s.ID)]) > 0 {
						res.Outcomes["info: AlreadyExists on a pre-existing target leaves the key as an active snapshot with a live backend mount"]++
					}
				}
				if op.Kind == "close" && len(t.PostTable) > 0 {
					res.Outcomes["info: Close leaves live backend mounts behind"]++
				}
				for _, u := range t.Unmounts {
					if u.Scripted {
						res.Outcomes["info: Unmount failed and the directory was removed regardless (a real busy mountpoint would refuse rmdir)"]++
					}
				}
				for _, v := range check(t) {
					if seenViol[v.key] {
						continue
					}
					seenViol[v.key] = true
					res.Violations = append(res.Violations, runner.Violation{Key: v.key, Msg: msgFor(t, v), Replay: replayRec{async, t.Hist, t.Step, t.Devs - len(t.Step.Fails)}})
				}
				if len(res.Samples) < 2 && len(t.Step.Fails) > 0 && len(t.Hist) >= 2 {
					res.Samples = append(res.Samples, map[string]any{"config": name, "history": snapx.HistString(t.Hist), "step": t.Step.String(), "result": snapx.ErrClass(t.Res.Err),
						"backend_calls": callsString(t.Res.Calls), "canonical_state_after": strings.Split(strings.TrimSpace(t.Canon), "\n")})
				}
			}
			_, st, err := snapx.Explore(snapx.ExploreOpts{Async: async, Depth: depth, MaxDev: maxDev, Shard: c.Shard, Of: c.Of, ShardLast: true,
				Scratch: c.Scratch, Deadline: c.Deadline, OnTrans: on})
			if err != nil {
				res.Broken = err.Error()
				return res
			}
			if st.Capped {
				res.Caps = append(res.Caps, fmt.Sprintf("time budget reached at depth %d of %d", maxDepth, depth))
			}
			if c.Shard == 0 {
				res.States++ // the initial state
			}
			// states at the depth bound: exact union over the shards (a state reached by two shards counts once)
			if n, merged := snapx.SharedCount(c.Scratch, "c08-"+name, c.Shard, c.Of, lastLevel); merged {
				res.States += int64(n)
			}
			res.Extra = map[string]any{"depth_bound": depth, "deviation_bound": maxDev, "alphabet_size": len(snapx.Alphabet()),
				"states_by_depth_seen_by_shard0": st.StatesByDepth, "transitions_executed_by_shard0_incl_shared_levels": st.Executed,
				"note": "states = distinct canonical states x failures used, exact (union over the shards)"}
			return res
		},
		Replay: func(c *runner.Ctx, raw json.RawMessage) (string, error) {
			var r replayRec
			if err := json.Unmarshal(raw, &r); err != nil {
				return "", err
			}
			t, err := snapx.RunTransition(c.Scratch, r.Async, r.Hist, r.Step, r.Devs)
			if err != nil {
				return "", err
			}
			out := fmt.Sprintf("history: [%s]\nstep: %s -> err=%v\ncalls: %s\ncanonical state after:\n%s", snapx.HistString(r.Hist), r.Step, t.Res.Err, callsString(t.Res.Calls), t.Canon)
			vs := check(t)
			if len(vs) > 0 {
				var sb strings.Builder
				for _, v := range vs {
					fmt.Fprintf(&sb, "%s: %s\n", v.key, v.msg)
				}
				return out, fmt.Errorf("%s", sb.String())
			}
			return out, nil
		},
	}
}

// budget lets a developer stretch the time budget (VERIF_BUDGET_S) on a busy machine.
func budget(d time.Duration) time.Duration {
	var s int
	if _, err := fmt.Sscan(os.Getenv("VERIF_BUDGET_S"), &s); err == nil && s > 0 {
		return time.Duration(s) * time.Second
	}
	return d
}

func main() {
	if os.Getenv("C08_DEBUG") != "" {
		debug()
		return
	}
	runner.Main(runner.Check{
		RacePass: func(n int, scratch string) (int, []string) {
			total, ps := 0, []string(nil)
			for _, sc := range concScens() {
				d, p := vexp.RacePass(concScenario(sc, scratch, false), n)
				total += d
				ps = append(ps, p...)
			}
			return total, ps
		},
		ID:    "C08",
		Level: "model_checking",
		Rule:  "breadth-first search over all histories (depth <= 4 quick / 5 thorough) of {Prepare(k,parent[,target]), View, Commit, Mounts, Remove, Stat, Update(+label), Cleanup, Walk, Close} over keys {k1,k2}, names/targets {T1,T2}, parents {\"\",T1,T2} on the real snapshotter (real bolt metadata, real directories), sync and AsynchronousRemove; every backend Mount/Check/Unmount answer ok|fail with <= 1 (quick) / 2 (thorough) failures per history; states deduplicated on (metadata without timestamps, snapshots/ listing, backend mount table, failures used) with ids abstracted; invariants (a)-(e) of the statement evaluated on every transition. non-trivial = executed transition that made at least one backend call or changed the canonical state",
		Assumptions: []string{
			"the backend is the recording fake recfs: a failed Mount leaves nothing mounted, a failed Unmount leaves the mount live, Check/Unmount of a path that is not mounted fail by themselves, Mount on a missing directory fails",
			"rmdir of a busy mountpoint cannot be reproduced by the fake: a directory removed after a *failed* Unmount is not counted as 'deleted before unmount'",
			"metadata is read independently of snapshot.go through containerd's storage package on a copy of metadata.db",
			"ids are abstracted in the canonical state (behaviour is symmetric in ids); the observation vector (Mounts of every key) is compared between histories reaching the same canonical state",
			"every step conceptually runs on a fresh replay of the history; the replayed world is reused for the next step only when the step left the root directory tree byte-identical (incl. metadata.db), the mount table identical, the snapshotter not closed and did not panic (SNAPX_NO_REUSE=1 replays always)",
			"concurrent callers (part conc): pairs of calls racing under the cooperative scheduler; the bolt write transaction is made scheduler-visible by a seam (verifTx), read transactions stay concurrent, os namespace operations and backend calls are scheduling points",
		},
		QuickBudget: budget(220 * time.Second), ThoroughBudget: budget(28 * time.Minute),
		Parts: func(tier string) []runner.Part {
			return []runner.Part{part(false, tier), part(true, tier), concPart(tier)}
		},
	})
}

func debug() {
	scratch := filepath.Join("/dev/shm", fmt.Sprintf("c08dbg-%d", os.Getpid()))
	os.MkdirAll(scratch, 0o755)
	defer os.RemoveAll(scratch)
	depth := 3
	fmt.Sscan(os.Getenv("C08_DEBUG"), &depth)
	if pf := os.Getenv("C08_PROF"); pf != "" {
		f, _ := os.Create(pf)
		pprof.StartCPUProfile(f)
		defer pprof.StopCPUProfile()
	}
	for _, async := range []bool{false, true} {
		t0 := time.Now()
		n := 0
		viols := map[string]string{}
		nodes, st, err := snapx.Explore(snapx.ExploreOpts{Async: async, Depth: depth, MaxDev: 1, Of: 1, Scratch: scratch, OnTrans: func(t *snapx.Trans, owner, isNew bool) {
			n++
			for _, v := range check(t) {
				if _, ok := viols[v.key]; !ok {
					viols[v.key] = msgFor(t, v)
				}
			}
		}})
		fmt.Printf("async=%v depth=%d states=%d byDepth=%v transitions=%d err=%v in %v\n", async, depth, len(nodes), st.StatesByDepth, n, err, time.Since(t0))
		for k, m := range viols {
			fmt.Printf("VIOL %s\n%s\n\n", k, m)
		}
	}
}
