//go:build verif

package snapshot

import (
	"os"
	"path/filepath"

	"github.com/containerd/stargz-snapshotter/estargz/vrt"
)

// verifRemoveAll stands in for os.RemoveAll inside snapshot.go (inst.json seam):
// same effect, but the tree is removed entry by entry with a crash point before
// every unlink/rmdir, so that half-deleted directories appear as crash images.
func verifRemoveAll(dir string) error {
	ents, err := os.ReadDir(dir)
	if err != nil {
		if os.IsNotExist(err) {
			return nil
		}
		return os.RemoveAll(dir)
	}
	for _, e := range ents {
		p := filepath.Join(dir, e.Name())
		if e.IsDir() {
			if err := verifRemoveAll(p); err != nil {
				return err
			}
			continue
		}
		vrt.Crash("snapshot/snapshot.go:RemoveAll")
		if err := os.Remove(p); err != nil && !os.IsNotExist(err) {
			return err
		}
	}
	vrt.Crash("snapshot/snapshot.go:RemoveAll")
	if err := os.Remove(dir); err != nil && !os.IsNotExist(err) {
		return err
	}
	return nil
}
