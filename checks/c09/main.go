// C09: after a crash at any point the snapshotter restarts consistent and re-mounted.
//
// Every BFS history of C08 (depth <= 2 quick / 3 thorough) is replayed on the real
// snapshotter and followed by one more operation executed with a crash hook before
// every statement of snapshot.go (plus entry-by-entry RemoveAll and the backend
// Mount/Unmount effects). Whenever the on-disk state changes, the root directory is
// copied as a crash image. Every distinct image is restarted under every restart
// configuration and every ok/fail assignment to the restore Mount calls, on a copy,
// with a fresh backend fake, and the recovery oracle of the statement is evaluated.
package main

import (
	"context"
	"encoding/json"
	"fmt"
	"os"
	"path/filepath"
	"regexp"
	"sort"
	"strings"
	"sync"
	"syscall"
	"time"

	"github.com/containerd/containerd/v2/core/mount"
	"github.com/containerd/containerd/v2/core/snapshots"
	"github.com/containerd/errdefs"
	"github.com/containerd/stargz-snapshotter/estargz/vrt"
	"github.com/containerd/stargz-snapshotter/snapshot"

	"verif/lib/recfs"
	"verif/lib/runner"
	"verif/lib/snapx"
)

type viol struct{ key, msg string }

var tmpName = regexp.MustCompile(`new-[0-9]+`)

// ---- crash images ----------------------------------------------------------------------

type image struct {
	dir    string
	label  string // crash point at which the image was taken
	hash   string // tree hash (bytes)
	acked  bool   // taken after the operation returned
	meta   *snapx.Meta
	dirs   string // recursive listing of snapshots/
	canon  string // meta (with ids) + dirs: identity of the image for the restart oracle
	labels []string
}

type crashRun struct {
	async  bool
	hist   []snapx.Step
	step   snapx.Step
	pre    *snapx.Meta
	res    *snapx.Result
	images []*image
	hooks  int
}

func labelsPlus(l map[string]string, k, v string) map[string]string {
	out := map[string]string{}
	for a, b := range l {
		out[a] = b
	}
	if k != "" {
		out[k] = v
	}
	return out
}

// runCrash replays hist on a fresh root and executes step with the crash hooks armed.
func runCrash(sess *snapx.Session, step snapx.Step, seq *int) (*crashRun, error) {
	scratch, async, hist := sess.Scratch, sess.Async, sess.Hist
	w, err := sess.World()
	if err != nil {
		return nil, err
	}
	cr := &crashRun{async: async, hist: hist, step: step, pre: sess.Pre()}
	defer func() { sess.Done(cr.res == nil || cr.res.Panic != "") }()
	var mu sync.Mutex
	last := ""
	var capErr error
	wt := newWatcher(w.Root)
	defer wt.close()
	capture := func(label string, acked bool) {
		mu.Lock()
		defer mu.Unlock()
		if last != "" && !acked && !wt.changed() {
			// no file-system event below the root since the last look: same image
			if n := len(cr.images); n > 0 && len(cr.images[n-1].labels) < 4 {
				cr.images[n-1].labels = append(cr.images[n-1].labels, label)
			}
			return
		}
		h := snapx.TreeHash(w.Root)
		if h == last && !acked {
			if n := len(cr.images); n > 0 && len(cr.images[n-1].labels) < 4 {
				cr.images[n-1].labels = append(cr.images[n-1].labels, label)
			}
			return
		}
		last = h
		*seq++
		dir := filepath.Join(scratch, fmt.Sprintf("img%d", *seq))
		os.RemoveAll(dir)
		if err := snapx.CopyTree(w.Root, dir); err != nil && capErr == nil {
			capErr = err
		}
		cr.images = append(cr.images, &image{dir: dir, label: label, hash: h, acked: acked, labels: []string{label}})
	}
	vrt.CrashHook = func(l string) {
		mu.Lock()
		cr.hooks++
		mu.Unlock()
		capture(l, false)
	}
	w.FS.Before = func(c *recfs.Call) { capture("backend "+c.Method+"("+c.Rel+") before", false) }
	w.FS.After = func(c *recfs.Call) { capture("backend "+c.Method+"("+c.Rel+") after", false) }
	cr.res = w.Exec(step)
	vrt.CrashHook = nil
	w.FS.Before, w.FS.After = nil, nil
	capture("after the operation returned", true)
	if capErr != nil {
		return nil, capErr
	}
	for _, im := range cr.images {
		if im.meta, err = snapx.ReadMeta(filepath.Join(im.dir, "metadata.db"), scratch); err != nil {
			return nil, fmt.Errorf("crash image at %s: metadata.db unreadable: %w", im.label, err)
		}
		im.dirs = strings.Join(snapx.Listing(filepath.Join(im.dir, "snapshots")), " ")
		// identity of the image for the restart oracle: temp directory names are random
		im.canon = im.meta.String() + "|" + tmpName.ReplaceAllString(im.dirs, "new-*")
	}
	return cr, nil
}

// watcher tells cheaply whether anything below a directory tree changed since
// the last call (inotify on every directory of the tree). It is only a filter
// in front of TreeHash: "no event" means "no change"; any event triggers the
// full hash and a re-scan for new directories. A directory can only be unwatched
// if it was created after the last scan, and its creation is itself an event in
// its (watched) parent.
type watcher struct {
	fd   int
	root string
	buf  []byte
}

const watchMask = syscall.IN_MODIFY | syscall.IN_ATTRIB | syscall.IN_MOVED_FROM | syscall.IN_MOVED_TO | syscall.IN_CREATE | syscall.IN_DELETE | syscall.IN_DELETE_SELF | syscall.IN_MOVE_SELF | syscall.IN_CLOSE_WRITE

func newWatcher(root string) *watcher {
	fd, err := syscall.InotifyInit1(syscall.IN_NONBLOCK | syscall.IN_CLOEXEC)
	if err != nil || os.Getenv("C09_NO_INOTIFY") != "" {
		if err == nil {
			syscall.Close(fd)
		}
		return &watcher{fd: -1}
	}
	wt := &watcher{fd: fd, root: root, buf: make([]byte, 64<<10)}
	wt.scan()
	return wt
}

func (wt *watcher) scan() {
	filepath.Walk(wt.root, func(p string, fi os.FileInfo, err error) error {
		if err == nil && fi.IsDir() {
			syscall.InotifyAddWatch(wt.fd, p, watchMask)
		}
		return nil
	})
}

// changed drains the event queue; true if there was any event (or no inotify).
func (wt *watcher) changed() bool {
	if wt.fd < 0 {
		return true
	}
	any := false
	for {
		n, err := syscall.Read(wt.fd, wt.buf)
		if n <= 0 || err != nil {
			break
		}
		any = true
	}
	if any {
		wt.scan()
	}
	return any
}

func (wt *watcher) close() {
	if wt.fd >= 0 {
		syscall.Close(wt.fd)
	}
}

func (cr *crashRun) cleanup() {
	for _, im := range cr.images {
		os.RemoveAll(im.dir)
	}
}

// ---- image-level oracle: acknowledged snapshots, atomicity of the interrupted operation ----

func sameSnap(a, b *snapx.Snap) bool { return a != nil && b != nil && a.Same(b) && a.ID == b.ID }

// checkImageMeta compares the metadata of a crash image with the metadata before
// the interrupted operation: everything the operation does not name must be
// unchanged (acknowledged snapshots stay), what it names is in its old or new form.
func checkImageMeta(cr *crashRun, im *image) []viol {
	var out []viol
	add := func(key, f string, a ...any) { out = append(out, viol{"C09/" + key, fmt.Sprintf(f, a...)}) }
	pre, img := cr.pre, im.meta
	op := cr.step.Op
	touched := map[string]bool{}
	okRet := im.acked && cr.res.Err == nil
	switch op.Kind {
	case "prepare", "view":
		k, T := op.Key, op.Target
		if pre.ByKey[k] != nil {
			break // duplicate key: the operation must not change anything
		}
		touched[k] = true
		wantKind := snapshots.KindActive
		if op.Kind == "view" {
			wantKind = snapshots.KindView
		}
		wantLabels := map[string]string{}
		if T != "" {
			wantLabels = snapx.RemoteLabels(T)
		}
		created := false
		if s := img.ByKey[k]; s != nil {
			if s.Kind != wantKind || s.Parent != op.Parent || recfs.LabelString(s.Labels) != recfs.LabelString(wantLabels) {
				add("image/interrupted-op-left-unexpected-record", "%s in flight: record %v is neither absent nor the new %s snapshot (parent %q, labels [%s])", op, s, wantKind, op.Parent, recfs.LabelString(wantLabels))
			}
		}
		if T != "" && pre.ByKey[T] == nil {
			touched[T] = true
			if s := img.ByKey[T]; s != nil {
				created = true
				want := labelsPlus(snapx.RemoteLabels(T), snapx.RemoteLabel, "remote snapshot")
				if s.Kind != snapshots.KindCommitted || s.Parent != op.Parent || img.ByKey[k] != nil {
					add("image/interrupted-op-left-unexpected-record", "%s in flight: target record %v (key record %v) is not the committed form of the prepared snapshot", op, s, img.ByKey[k])
				}
				if !s.Remote() {
					add("image/remote-snapshot-recorded-without-remote-label", "%s in flight: target %s is committed (it was created through the remote path, its fs directory is the backend mountpoint) but metadata.db does not mark it remote: labels [%s]; nothing will re-mount it after a restart", op, T, recfs.LabelString(s.Labels))
				} else if recfs.LabelString(s.Labels) != recfs.LabelString(want) {
					add("image/remote-snapshot-labels", "%s in flight: target %s recorded with labels [%s], expected the creation labels [%s]", op, T, recfs.LabelString(s.Labels), recfs.LabelString(want))
				}
			}
		}
		if okRet && img.ByKey[k] == nil {
			add("image/acknowledged-snapshot-missing", "%s returned success but %s is not in metadata.db", op, k)
		}
		if im.acked && T != "" && errdefs.IsAlreadyExists(cr.res.Err) && pre.ByKey[T] == nil && !created {
			add("image/acknowledged-snapshot-missing", "%s returned AlreadyExists (target prepared) but %s is not in metadata.db", op, T)
		}
	case "commit":
		k, n := op.Key, op.Name
		ks := pre.ByKey[k]
		if ks == nil || ks.Kind != snapshots.KindActive || pre.ByKey[n] != nil {
			break
		}
		touched[k], touched[n] = true, true
		a, b := img.ByKey[k], img.ByKey[n]
		old := sameSnap(a, ks) && b == nil
		neu := a == nil && b != nil && b.Kind == snapshots.KindCommitted && b.Parent == ks.Parent && b.ID == ks.ID && len(b.Labels) == 0
		if !old && !neu {
			add("image/interrupted-op-left-unexpected-record", "%s in flight: %s=%v %s=%v is neither the state before nor after the commit", op, k, a, n, b)
		}
		if okRet && !neu {
			add("image/acknowledged-snapshot-missing", "%s returned success but the committed snapshot is not in metadata.db (%s=%v)", op, n, b)
		}
	case "remove":
		if s := pre.ByKey[op.Key]; s != nil {
			touched[op.Key] = true
			a := img.ByKey[op.Key]
			if a != nil && !sameSnap(a, s) {
				add("image/interrupted-op-left-unexpected-record", "%s in flight: record %v is neither the old record nor absent", op, a)
			}
			if okRet && a != nil {
				add("image/acknowledged-removal-undone", "%s returned success but %s is still in metadata.db", op, op.Key)
			}
		}
	case "update":
		if s := pre.ByKey[op.Key]; s != nil {
			touched[op.Key] = true
			a := img.ByKey[op.Key]
			upd := &snapx.Snap{Key: s.Key, ID: s.ID, Kind: s.Kind, Parent: s.Parent, Labels: labelsPlus(s.Labels, snapx.UpdateLabel, "1")}
			if !sameSnap(a, s) && !sameSnap(a, upd) {
				add("image/interrupted-op-left-unexpected-record", "%s in flight: record %v is neither the old nor the updated record", op, a)
			}
			if okRet && !sameSnap(a, upd) {
				add("image/acknowledged-update-lost", "%s returned success but the label is not in metadata.db: %v", op, a)
			}
		}
	}
	for k, s := range pre.ByKey {
		if touched[k] {
			continue
		}
		if a := img.ByKey[k]; !sameSnap(a, s) {
			add("image/acknowledged-snapshot-changed", "snapshot %v was acknowledged before %s started; the crash image holds %v", s, op, a)
		}
	}
	for k, s := range img.ByKey {
		if !touched[k] && pre.ByKey[k] == nil {
			add("image/unexpected-snapshot", "crash image holds %v which neither existed before %s nor is created by it", s, op)
		}
	}
	return out
}

// ---- restart oracle -----------------------------------------------------------------------

type restartCfg struct {
	NoRestore bool     `json:"no_restore"`
	Allow     bool     `json:"allow_invalid"`
	Fails     []string `json:"fails,omitempty"`
}

func (c restartCfg) String() string {
	s := "restore"
	if c.NoRestore {
		s = "NoRestore"
	}
	s += fmt.Sprintf(",allow_invalid_mounts_on_restart=%v", c.Allow)
	if len(c.Fails) > 0 {
		s += ",failing " + strings.Join(c.Fails, ";")
	}
	return s
}

func callsString(calls []recfs.Call) string {
	var parts []string
	for _, c := range calls {
		r := "ok"
		if !c.OK() {
			r = "fail"
		}
		parts = append(parts, fmt.Sprintf("%s(%s)=%s", c.Method, c.Rel, r))
	}
	return "[" + strings.Join(parts, " ") + "]"
}

var restartSeq int

// mountPaths extracts every directory a mount refers to.
func mountPaths(ms []mount.Mount) []string {
	var out []string
	for _, m := range ms {
		if m.Type == "bind" {
			out = append(out, m.Source)
		}
		for _, o := range m.Options {
			for _, p := range []string{"lowerdir=", "upperdir=", "workdir="} {
				if strings.HasPrefix(o, p) {
					out = append(out, strings.Split(strings.TrimPrefix(o, p), ":")...)
				}
			}
		}
	}
	return out
}

// restart starts a new snapshotter on a copy of the image and evaluates the oracle.
// It returns the Mount calls made while starting (for the enumeration of failure
// assignments), the outcome class and the violations.
func restart(scratch string, im *image, cfg restartCfg) (startCalls []recfs.Call, outcome string, out []viol, broken error) {
	add := func(key, f string, a ...any) { out = append(out, viol{"C09/" + key, fmt.Sprintf(f, a...)}) }
	restartSeq++
	root := filepath.Join(scratch, fmt.Sprintf("r%d", restartSeq))
	os.RemoveAll(root)
	if err := snapx.CopyTree(im.dir, root); err != nil {
		return nil, "", nil, err
	}
	defer os.RemoveAll(root)
	img := im.meta
	upper := func(id string) string { return snapx.UpperPath(root, id) }
	before := map[string]string{}
	for id := range img.ByID {
		before[id] = strings.Join(snapx.Listing(filepath.Join(root, "snapshots", id)), " ")
	}
	missingBefore := map[string]bool{}
	for id := range img.ByID {
		if !snapx.IsDir(filepath.Join(root, "snapshots", id)) {
			missingBefore[id] = true
		}
	}
	// recorded remote snapshots, by fs directory
	remote := map[string]*snapx.Snap{}
	for _, s := range img.ByKey {
		if s.Remote() {
			remote[upper(s.ID)] = s
		}
	}

	fs := recfs.New(root)
	var opts []snapshot.Opt
	if cfg.NoRestore {
		opts = append(opts, snapshot.NoRestore)
	}
	if cfg.Allow {
		opts = append(opts, snapshot.AllowInvalidMountsOnRestart)
	}
	fs.Begin("start", cfg.Fails)
	var sn snapshots.Snapshotter
	var err error
	var pan string
	func() {
		defer func() {
			if r := recover(); r != nil {
				pan = fmt.Sprint(r)
			}
		}()
		sn, err = snapshot.NewSnapshotter(context.Background(), root, fs, opts...)
	}()
	startCalls, unused := fs.End()
	if len(unused) > 0 {
		if cfg.Allow && !cfg.NoRestore && err == nil && pan == "" {
			// every recorded remote snapshot must be attempted when invalid mounts are tolerated: a scripted
			// mount failure that was never asked for means restore skipped a snapshot it had to re-mount
			add("restart/restore-skipped-recorded-remote-snapshot", "restore tolerated a failing mount and then did not attempt to re-mount %v although the start succeeded", unused)
			return startCalls, "restore-incomplete", out, nil
		}
		return startCalls, "", nil, fmt.Errorf("restart %s: scripted failures %v not consumed", cfg, unused)
	}
	if pan != "" {
		add("restart/panic", "NewSnapshotter panicked: %s", pan)
		return startCalls, "panic", out, nil
	}

	// --- start result and the calls made while starting
	failed := map[string]bool{}
	anyFailed := false
	seenMP := map[string]int{}
	for i, c := range startCalls {
		if c.Method != "Mount" {
			add("restart/unexpected-backend-call", "start made %s(%s); only Mount of recorded remote snapshots is expected (%s)", c.Method, c.Rel, callsString(startCalls))
			continue
		}
		s := remote[c.Mountpoint]
		if s == nil || cfg.NoRestore {
			add("restart/mount-of-unrecorded-directory", "start mounted %s which is not the fs directory of a recorded remote snapshot (%s)", c.Rel, callsString(startCalls))
			continue
		}
		seenMP[c.Mountpoint]++
		if seenMP[c.Mountpoint] > 1 {
			add("restart/remote-snapshot-mounted-twice", "start mounted %s (%s) %d times", c.Rel, s.Key, seenMP[c.Mountpoint])
		}
		if recfs.LabelString(c.Labels) != recfs.LabelString(s.Labels) {
			add("restart/mount-labels", "start mounted %s (%s) with labels [%s]; recorded labels are [%s]", c.Rel, s.Key, recfs.LabelString(c.Labels), recfs.LabelString(s.Labels))
		}
		if !c.OK() {
			failed[c.Mountpoint] = true
			anyFailed = true
			if !c.Scripted {
				add("restart/mount-failed-by-itself", "start: Mount(%s) failed without the environment asking for it: %s", c.Rel, c.Err)
			}
			if !cfg.Allow && i != len(startCalls)-1 {
				add("restart/continued-after-invalid-mount", "allow_invalid_mounts_on_restart=false but start went on after the failed Mount(%s): %s", c.Rel, callsString(startCalls))
			}
		}
	}
	wantErr := anyFailed && !cfg.Allow
	switch {
	case err != nil && !wantErr:
		add("restart/start-failed", "expected start to succeed, got: %v (backend calls %s)", err, callsString(startCalls))
		return startCalls, "start failed unexpectedly", out, nil
	case err == nil && wantErr:
		add("restart/start-succeeded-despite-invalid-mount", "a recorded remote snapshot could not be mounted and allow_invalid_mounts_on_restart=false, yet start succeeded (%s)", callsString(startCalls))
	case err != nil:
		return startCalls, "start refused (invalid mount, not allowed)", out, nil
	}
	w := &snapx.World{Root: root, Scratch: scratch, FS: fs, Sn: sn}
	defer w.Dispose()

	// --- mount table
	wantTable := map[string]*snapx.Snap{}
	if !cfg.NoRestore {
		for mp, s := range remote {
			if !failed[mp] {
				wantTable[mp] = s
			}
		}
	}
	checkTable := func(when string) {
		table := fs.Table()
		for mp, s := range wantTable {
			recs := table[mp]
			if len(recs) != 1 {
				add("restart/remote-snapshot-not-mounted-once", "%s: remote snapshot %s (id %s) has %d live mounts on its fs directory, expected exactly 1 (start calls %s)", when, s.Key, s.ID, len(recs), callsString(startCalls))
			} else if recfs.LabelString(recs[0].Labels) != recfs.LabelString(s.Labels) {
				add("restart/mount-labels", "%s: %s mounted with [%s], recorded [%s]", when, s.Key, recfs.LabelString(recs[0].Labels), recfs.LabelString(s.Labels))
			}
		}
		for mp := range table {
			if wantTable[mp] == nil {
				add("restart/other-directory-mounted", "%s: %s is mounted but is not an expected remote snapshot directory", when, fs.Rel(mp))
			}
		}
	}
	checkTable("after start")

	// --- metadata untouched by the start; directories of ordinary snapshots untouched; every record has its directories
	meta2, merr := w.Meta()
	if merr != nil {
		return startCalls, "", out, merr
	}
	if meta2.String() != img.String() {
		add("restart/metadata-changed-by-start", "metadata before start:\n%safter start:\n%s", img.String(), meta2.String())
	}
	tolerated := func(s *snapx.Snap) bool { // remote snapshot legitimately left without directory/mount
		return s.Remote() && (cfg.NoRestore || failed[upper(s.ID)])
	}
	for id, s := range img.ByID {
		d := filepath.Join(root, "snapshots", id)
		if !s.Remote() {
			if now := strings.Join(snapx.Listing(d), " "); now != before[id] {
				add("restart/ordinary-snapshot-directory-changed", "directory of ordinary snapshot %s (id %s) changed during start: {%s} -> {%s}", s.Key, id, before[id], now)
			}
		}
		if cfg.NoRestore && s.Remote() {
			continue
		}
		if !snapx.IsDir(filepath.Join(d, "fs")) || (s.Kind == snapshots.KindActive && !snapx.IsDir(filepath.Join(d, "work"))) {
			add("restart/snapshot-without-directory", "snapshot %v is recorded in metadata.db but its directory is incomplete after start: {%s}", s, strings.Join(snapx.Listing(d), " "))
		}
	}

	// --- one cleanup pass
	r := w.Exec(snapx.Step{Op: snapx.Op{Kind: "cleanup"}})
	if r.Panic != "" {
		add("restart/panic", "Cleanup panicked: %s", r.Panic)
		return startCalls, "panic", out, nil
	}
	if r.Err != nil && !(len(img.ByKey) == 0 && errdefs.IsNotFound(r.Err) && len(snapx.LsSnapshots(root)) == 0) {
		// (a Cleanup error on a store that never held a snapshot and has nothing to reclaim is harmless)
		// The property promises a consistent store only after one successful cleanup pass.
		key := "restart/cleanup-fails"
		if len(img.ByKey) == 0 && errdefs.IsNotFound(r.Err) {
			key = "restart/cleanup-fails-on-store-without-snapshots"
		}
		add(key, "Cleanup after restart failed: %v; ls snapshots/ = %v, live snapshot ids = %v (image had {%s})", r.Err, snapx.LsSnapshots(root), img.SortedKeys(), im.dirs)
		return startCalls, "cleanup failed", out, nil
	}
	var wantDirs []string
	for id, s := range img.ByID {
		if cfg.NoRestore && s.Remote() && missingBefore[id] {
			continue // NoRestore presumes an external owner of remote mounts/directories
		}
		wantDirs = append(wantDirs, id)
	}
	sort.Strings(wantDirs)
	if got := snapx.LsSnapshots(root); strings.Join(got, ",") != strings.Join(wantDirs, ",") {
		add("restart/cleanup-leaves-wrong-directories", "after one Cleanup: ls snapshots/ = %v, ids of live snapshots = %v (image had {%s})", got, wantDirs, im.dirs)
	}
	for _, id := range wantDirs {
		s := img.ByID[id]
		d := filepath.Join(root, "snapshots", id)
		if !s.Remote() {
			if now := strings.Join(snapx.Listing(d), " "); now != before[id] {
				add("restart/ordinary-snapshot-directory-changed", "directory of ordinary snapshot %s (id %s) changed by Cleanup: {%s} -> {%s}", s.Key, id, before[id], now)
			}
		}
	}
	checkTable("after Cleanup")

	// --- every recorded snapshot is present and usable, or removable
	unusable := map[string]string{}
	for _, k := range img.SortedKeys() {
		s := img.ByKey[k]
		st := w.Exec(snapx.Step{Op: snapx.Op{Kind: "stat", Key: k}})
		if st.Err != nil || st.Info.Kind != s.Kind || st.Info.Parent != s.Parent || recfs.LabelString(st.Info.Labels) != recfs.LabelString(s.Labels) {
			add("restart/snapshot-not-present", "Stat(%s) after restart: err=%v info=%v; recorded %v", k, st.Err, st.Info, s)
			continue
		}
		var ur *snapx.Result
		if s.Kind == snapshots.KindCommitted {
			ur = w.Exec(snapx.Step{Op: snapx.Op{Kind: "view", Key: "probe-" + k, Parent: k}})
		} else {
			ur = w.Exec(snapx.Step{Op: snapx.Op{Kind: "mounts", Key: k}})
		}
		if ur.Panic != "" {
			add("restart/panic", "using %s panicked: %s", k, ur.Panic)
			continue
		}
		expectUnavailable := false
		for _, a := range img.Chain(k) {
			if tolerated(a) {
				expectUnavailable = true
			}
		}
		switch {
		case ur.Err == nil:
			for _, p := range mountPaths(ur.Mounts) {
				if !snapx.IsDir(p) {
					unusable[k] = fmt.Sprintf("mounts refer to %s which does not exist", fs.Rel(p))
				}
			}
			if expectUnavailable {
				add("restart/mounts-handed-out-over-unmounted-remote-layer", "mounts for %s were returned although a remote layer of its chain is not mounted (%s)", k, cfg)
			}
		case errdefs.IsUnavailable(ur.Err) && expectUnavailable:
			unusable[k] = "unavailable (remote layer not mounted, tolerated)"
		default:
			unusable[k] = fmt.Sprintf("error %v", ur.Err)
			if !expectUnavailable {
				add("restart/snapshot-unusable", "snapshot %v cannot be used after restart: %v", s, ur.Err)
			}
		}
	}
	// removable: leaf first
	meta3, merr := w.Meta()
	if merr != nil {
		return startCalls, "", out, merr
	}
	remaining := map[string]*snapx.Snap{}
	for k, s := range meta3.ByKey {
		remaining[k] = s
	}
	for len(remaining) > 0 {
		var leaves []string
		for k := range remaining {
			leaf := true
			for _, o := range remaining {
				if o.Parent == k {
					leaf = false
				}
			}
			if leaf {
				leaves = append(leaves, k)
			}
		}
		sort.Strings(leaves)
		if len(leaves) == 0 {
			break
		}
		for _, k := range leaves {
			rr := w.Exec(snapx.Step{Op: snapx.Op{Kind: "remove", Key: k}})
			if rr.Err != nil || rr.Panic != "" {
				if why, bad := unusable[k]; bad {
					add("restart/snapshot-neither-usable-nor-removable", "snapshot %s is unusable after restart (%s) and Remove fails too: %v %s", k, why, rr.Err, rr.Panic)
				}
			}
			delete(remaining, k)
		}
	}
	// --- new operations work after the cleanup
	if n := w.Exec(snapx.Step{Op: snapx.Op{Kind: "prepare", Key: "fresh"}}); n.Err != nil || n.Panic != "" {
		add("restart/new-prepare-fails", "Prepare(fresh) after restart+Cleanup+removals failed: %v %s", n.Err, n.Panic)
	}
	oc := "restarted"
	if cfg.NoRestore {
		oc += " (NoRestore)"
	} else {
		oc += fmt.Sprintf(", %d remote re-mounted", len(wantTable))
	}
	if anyFailed {
		oc += ", invalid mount tolerated"
	}
	return startCalls, oc, out, nil
}

// restartAll runs every restart configuration and every failure assignment on one image.
func restartAll(scratch string, im *image, onRestart func(cfg restartCfg, outcome string, vs []viol)) error {
	allows := []bool{false}
	for _, s := range im.meta.ByKey {
		if s.Remote() {
			// allow_invalid_mounts_on_restart can only matter when a remote snapshot is recorded
			allows = []bool{false, true}
		}
	}
	for _, noRestore := range []bool{false, true} {
		for _, allow := range allows {
			calls, oc, vs, err := restart(scratch, im, restartCfg{NoRestore: noRestore, Allow: allow})
			if err != nil {
				return err
			}
			onRestart(restartCfg{NoRestore: noRestore, Allow: allow}, oc, vs)
			var keys []string
			for _, c := range calls {
				if c.Method == "Mount" {
					keys = append(keys, c.Key())
				}
			}
			if len(keys) > 3 {
				keys = keys[:3]
			}
			for mask := 1; mask < 1<<len(keys); mask++ {
				var fails []string
				for i, k := range keys {
					if mask&(1<<i) != 0 {
						fails = append(fails, k)
					}
				}
				if !allow {
					// start stops at the first failure: later scripted failures would never be consumed
					fails = fails[:1]
					if mask&(mask-1) != 0 { // more than one bit: same run as the single lowest bit
						continue
					}
				}
				cfg := restartCfg{NoRestore: noRestore, Allow: allow, Fails: fails}
				_, oc, vs, err := restart(scratch, im, cfg)
				if err != nil {
					return err
				}
				onRestart(cfg, oc, vs)
			}
		}
	}
	return nil
}

// ---- the part --------------------------------------------------------------------------------

type replayRec struct {
	Async bool         `json:"async"`
	Hist  []snapx.Step `json:"hist"`
	Step  snapx.Step   `json:"step"`
	Image string       `json:"image_hash,omitempty"`
	Label string       `json:"crash_point,omitempty"`
	Cfg   *restartCfg  `json:"restart,omitempty"`
}

func describe(cr *crashRun, im *image) string {
	mode := "sync removal"
	if cr.async {
		mode = "AsynchronousRemove"
	}
	at := im.label
	if len(im.labels) > 1 {
		at = strings.Join(im.labels, " .. ")
	}
	return fmt.Sprintf("configuration before the crash: %s\nhistory: [%s]\ninterrupted operation: %s\ncrash point: %s\nmetadata before the operation:\n%smetadata in the crash image:\n%ssnapshots/ in the crash image: {%s}",
		mode, snapx.HistString(cr.hist), cr.step, at, indent(cr.pre.String()), indent(im.meta.String()), im.dirs)
}

func indent(s string) string {
	if s == "" {
		return "  (empty)\n"
	}
	return "  " + strings.ReplaceAll(strings.TrimRight(s, "\n"), "\n", "\n  ") + "\n"
}

func part(async bool, tier string) runner.Part {
	name := "sync"
	if async {
		name = "async"
	}
	depth, maxDev := 2, 1
	if tier == "thorough" {
		depth, maxDev = 3, 2
	}
	if v := os.Getenv("C09_DEPTH"); v != "" {
		fmt.Sscan(v, &depth)
	}
	return runner.Part{
		Name:   name,
		Shards: 8,
		Run: func(c *runner.Ctx) *runner.Result {
			res := &runner.Result{Outcomes: map[string]int{}}
			nodes, _, err := snapx.Explore(snapx.ExploreOpts{Async: async, Depth: depth, MaxDev: maxDev, Of: 1, Scratch: c.Scratch, Deadline: c.Deadline})
			if err != nil {
				res.Broken = err.Error()
				return res
			}
			alpha := snapx.Alphabet()
			seenViol := map[string]bool{}
			seenImage := map[string]bool{}
			seq := 0
			hooks, captured, intermediate, restarts, armed := 0, 0, 0, 0, 0
			maxImages := 0
			capped := false
			report := func(v viol, cr *crashRun, im *image, cfg *restartCfg) {
				if seenViol[v.key] {
					return
				}
				seenViol[v.key] = true
				msg := v.msg + "\n" + describe(cr, im)
				if cfg != nil {
					msg += "\nrestart configuration: " + cfg.String()
				}
				res.Violations = append(res.Violations, runner.Violation{Key: v.key, Msg: msg, Replay: replayRec{cr.async, cr.hist, cr.step, im.hash, im.label, cfg}})
			}
			for ni, n := range nodes {
				if n.Closed || ni%c.Of != c.Shard {
					continue
				}
				preDone := false // the image "state before the operation" is the same for every operation of the node
				sess := &snapx.Session{Scratch: c.Scratch, Async: async, Hist: n.Hist, Devs: n.Devs}
				for _, op := range alpha {
					var rec func(fails []string) error
					rec = func(fails []string) error {
						if time.Now().After(c.Deadline) {
							capped = true
							return nil
						}
						step := snapx.Step{Op: op, Fails: append([]string(nil), fails...)}
						cr, err := runCrash(sess, step, &seq)
						if err != nil {
							return fmt.Errorf("history [%s] then %s: %w", snapx.HistString(n.Hist), step, err)
						}
						defer cr.cleanup()
						armed++
						hooks += cr.hooks
						captured += len(cr.images)
						if len(cr.images) > maxImages {
							maxImages = len(cr.images)
						}
						if cr.res.Panic != "" {
							report(viol{"C09/panic/" + op.Kind, "panic: " + cr.res.Panic}, cr, cr.images[len(cr.images)-1], nil)
							return nil
						}
						res.Outcomes[fmt.Sprintf("armed %s: %d..%d images", op.Kind, len(cr.images)/4*4, len(cr.images)/4*4+3)]++
						first, lastIm := cr.images[0], cr.images[len(cr.images)-1]
						for _, im := range cr.images {
							for _, v := range checkImageMeta(cr, im) {
								report(v, cr, im, nil)
							}
							ck := snapx.HashString(im.canon)
							if seenImage[ck] {
								continue
							}
							if im.canon == first.canon {
								if preDone {
									continue
								}
								preDone = true
							}
							seenImage[ck] = true
							if im.canon != first.canon && im.canon != lastIm.canon {
								intermediate++
							}
							err := restartAll(c.Scratch, im, func(cfg restartCfg, oc string, vs []viol) {
								restarts++
								res.Outcomes[oc]++
								for _, v := range vs {
									cf := cfg
									report(v, cr, im, &cf)
								}
							})
							if err != nil {
								return fmt.Errorf("history [%s] then %s, image at %s: %w", snapx.HistString(n.Hist), step, im.label, err)
							}
							if len(res.Samples) < 2 && im.canon != first.canon && im.canon != lastIm.canon && len(n.Hist) > 0 {
								res.Samples = append(res.Samples, map[string]any{"config": name, "history": snapx.HistString(n.Hist), "interrupted": step.String(), "crash_point": im.label,
									"image_metadata": strings.Split(strings.TrimSpace(im.meta.String()), "\n"), "image_snapshots_dir": im.dirs})
							}
						}
						if len(fails)+n.Devs < maxDev {
							for _, k := range snapx.FaultCandidates(cr.res.Calls, fails) {
								if err := rec(append(append([]string(nil), fails...), k)); err != nil {
									return err
								}
							}
						}
						return nil
					}
					if err := rec(nil); err != nil {
						sess.Close()
						res.Broken = err.Error()
						return res
					}
					if capped {
						break
					}
				}
				sess.Close()
				if capped {
					break
				}
			}
			if capped {
				res.Caps = append(res.Caps, "time budget reached before all (history, operation) pairs were crashed")
			}
			var imgs []string
			for k := range seenImage {
				imgs = append(imgs, k)
			}
			if n, merged := snapx.SharedCount(c.Scratch, "c09-"+name, c.Shard, c.Of, imgs); merged {
				res.States = int64(n)
			}
			res.Evaluations = int64(restarts)
			res.Transitions = int64(armed)
			res.Nontrivial = int64(intermediate)
			res.Outcomes["info: crash hooks hit"] += hooks
			res.Outcomes["info: crash images captured (disk state changed)"] += captured
			res.Outcomes["info: distinct crash images restarted (per-shard distinct, summed)"] += len(seenImage)
			res.Extra = map[string]any{"prefix_depth": depth, "deviation_bound": maxDev, "prefix_states": len(nodes), "max_images_per_operation": maxImages,
				"note": "evaluations = restarts executed; transitions = operations executed with the crash hook armed; states = distinct crash images restarted (metadata with ids + snapshots/ listing), exact union over the shards"}
			return res
		},
		Replay: func(c *runner.Ctx, raw json.RawMessage) (string, error) {
			var r replayRec
			if err := json.Unmarshal(raw, &r); err != nil {
				return "", err
			}
			seq := 0
			sess := &snapx.Session{Scratch: c.Scratch, Async: r.Async, Hist: r.Hist}
			defer sess.Close()
			cr, err := runCrash(sess, r.Step, &seq)
			if err != nil {
				return "", err
			}
			defer cr.cleanup()
			var sb, bad strings.Builder
			for _, im := range cr.images {
				fmt.Fprintf(&sb, "image at %s: snapshots/{%s}\n%s", im.label, im.dirs, indent(im.meta.String()))
				for _, v := range checkImageMeta(cr, im) {
					fmt.Fprintf(&bad, "%s: %s\n", v.key, v.msg)
				}
				if r.Label != "" && im.label != r.Label {
					continue
				}
				err := restartAll(c.Scratch, im, func(cfg restartCfg, oc string, vs []viol) {
					fmt.Fprintf(&sb, "  restart %s -> %s\n", cfg, oc)
					for _, v := range vs {
						fmt.Fprintf(&bad, "at %s, restart %s: %s: %s\n", im.label, cfg, v.key, v.msg)
					}
				})
				if err != nil {
					return sb.String(), err
				}
			}
			if bad.Len() > 0 {
				return sb.String(), fmt.Errorf("%s", bad.String())
			}
			return sb.String(), nil
		},
	}
}

// budget lets a developer stretch the time budget (VERIF_BUDGET_S) on a busy machine.
func budget(d time.Duration) time.Duration {
	var s int
	if _, err := fmt.Sscan(os.Getenv("VERIF_BUDGET_S"), &s); err == nil && s > 0 {
		return time.Duration(s) * time.Second
	}
	return d
}

func main() {
	runner.Main(runner.Check{
		ID:    "C09",
		Level: "fault_enumeration",
		Rule: "for every C08 BFS state of depth <= 2 (quick) / 3 (thorough), sync and AsynchronousRemove, and every operation of the alphabet (with <= 1 / 2 backend failures per history): the operation runs with a crash hook before every statement of snapshot.go, every unlink of RemoveAll and before/after every backend Mount/Unmount; each change of the on-disk state (directory tree + metadata.db bytes) is a crash image; every distinct image x {restore, NoRestore} x {allow_invalid_mounts_on_restart} x every ok/fail assignment to the restore Mount calls is restarted on a copy with a fresh backend and checked (start result, mount table, labels, metadata/directories untouched, one Cleanup, usability/removability, new Prepare). non-trivial = distinct crash image that is a strictly intermediate state of an operation",
		Assumptions: []string{
			"process crash, not power loss: completed writes survive, a bbolt commit is one atomic effect (no torn pages), the dead process's FUSE mounts are gone (fresh backend fake)",
			"crash points are statement boundaries of snapshot/snapshot.go plus the entries of RemoveAll; effects inside containerd's storage package are atomic with the transaction commit",
			"restore only: the mountinfo scan / force-unmount at start sees no real mounts below the scratch root",
			"NoRestore presumes an external owner of remote mounts: remote snapshots whose directory is already missing in the image are not expected to reappear",
			"metadata of images is read through containerd's storage package, independently of snapshot.go",
		},
		QuickBudget: budget(220 * time.Second), ThoroughBudget: budget(28 * time.Minute),
		Parts: func(tier string) []runner.Part {
			return []runner.Part{part(false, tier), part(true, tier)}
		},
	})
}
