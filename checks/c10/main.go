// C10: refcounted caches finalise each value exactly once and never while held.
package main

import (
	"encoding/json"
	"fmt"
	"os"
	"sort"
	"strings"
	"time"

	"github.com/containerd/stargz-snapshotter/estargz/vrt"
	"github.com/containerd/stargz-snapshotter/util/cacheutil"

	"verif/lib/runner"
	"verif/lib/vexp"
)

const ttl = time.Hour

// ---- the cache under test behind one interface ----------------------------------

type handle struct {
	id       int // value id
	release  func(evict bool)
	released bool
}

type cache interface {
	add(key string, v *val) (got *val, h func(bool), added bool)
	get(key string) (got *val, h func(bool), ok bool)
	remove(key string)
}

type val struct{ id int }

type ttlC struct{ c *cacheutil.TTLCache }

func (t ttlC) add(k string, v *val) (*val, func(bool), bool) {
	g, d, a := t.c.Add(k, v)
	return g.(*val), d, a
}
func (t ttlC) get(k string) (*val, func(bool), bool) {
	g, d, ok := t.c.Get(k)
	if !ok {
		return nil, nil, false
	}
	return g.(*val), d, true
}
func (t ttlC) remove(k string) { t.c.Remove(k) }

type lruC struct{ c *cacheutil.LRUCache }

func (t lruC) add(k string, v *val) (*val, func(bool), bool) {
	g, d, a := t.c.Add(k, v)
	return g.(*val), func(bool) { d() }, a
}
func (t lruC) get(k string) (*val, func(bool), bool) {
	g, d, ok := t.c.Get(k)
	if !ok {
		return nil, nil, false
	}
	return g.(*val), func(bool) { d() }, true
}
func (t lruC) remove(k string) { t.c.Remove(k) }

// ---- ghost state ---------------------------------------------------------------

type world struct {
	kind    string
	c       cache
	nextID  int
	evicted map[int]int // value id -> number of callback runs
	holders map[int]int // value id -> holders that logged got and not yet started release
	keyOf   map[int]string
	errs    []string
	log     []string
}

func newWorld(kind string, lruCap int) *world {
	w := &world{kind: kind, evicted: map[int]int{}, holders: map[int]int{}, keyOf: map[int]string{}}
	onEvict := func(key string, value any) {
		v := value.(*val)
		w.evicted[v.id]++
		w.log = append(w.log, fmt.Sprintf("evicted(%d)", v.id))
		if w.evicted[v.id] > 1 {
			w.errs = append(w.errs, fmt.Sprintf("value %d (key %s) finalised %d times", v.id, key, w.evicted[v.id]))
		}
		if w.holders[v.id] > 0 {
			w.errs = append(w.errs, fmt.Sprintf("value %d (key %s) finalised while %d holder(s) still hold it", v.id, key, w.holders[v.id]))
		}
		if w.keyOf[v.id] != key {
			w.errs = append(w.errs, fmt.Sprintf("value %d finalised under key %s, was added under %s", v.id, key, w.keyOf[v.id]))
		}
	}
	if kind == "ttl" {
		c := cacheutil.NewTTLCache(ttl)
		c.OnEvicted = onEvict
		w.c = ttlC{c}
	} else {
		c := cacheutil.NewLRUCache(lruCap)
		c.OnEvicted = onEvict
		w.c = lruC{c}
	}
	return w
}

// thread-local program state
type tstate struct {
	held []*handle // handles obtained, in order
}

// ops: A0 A1 (add new value under k0/k1), G0 G1, R0 R1, D (release oldest unreleased, evict=false),
// E (same with evict=true; ttl only), X (release the most recently released handle again)
func (w *world) do(ts *tstate, op string) {
	key := func() string { return "k" + op[1:] }
	switch op[0] {
	case 'A':
		w.nextID++
		v := &val{id: w.nextID}
		w.keyOf[v.id] = key()
		got, rel, added := w.c.add(key(), v)
		w.got(ts, got, rel)
		if added != (got == v) {
			w.errs = append(w.errs, fmt.Sprintf("Add(%s): added=%v but returned value %d for new value %d", key(), added, got.id, v.id))
		}
		if !added {
			// the new value never entered the cache; it has no lifecycle
			delete(w.keyOf, v.id)
			w.log = append(w.log, fmt.Sprintf("add(%s)=existing %d", key(), got.id))
		} else {
			w.log = append(w.log, fmt.Sprintf("add(%s)=new %d", key(), got.id))
		}
	case 'G':
		got, rel, ok := w.c.get(key())
		if ok {
			w.got(ts, got, rel)
			w.log = append(w.log, fmt.Sprintf("get(%s)=%d", key(), got.id))
		} else {
			w.log = append(w.log, fmt.Sprintf("get(%s)=miss", key()))
		}
	case 'R':
		w.c.remove(key())
		w.log = append(w.log, fmt.Sprintf("remove(%s)", key()))
	case 'D', 'E':
		for _, h := range ts.held {
			if !h.released {
				w.release(h, op[0] == 'E')
				break
			}
		}
	case 'X':
		for i := len(ts.held) - 1; i >= 0; i-- {
			if ts.held[i].released {
				ts.held[i].release(false)
				w.log = append(w.log, fmt.Sprintf("release-again(%d)", ts.held[i].id))
				break
			}
		}
	case 'S': // sequential only: let the TTL pass
		vrt.Sleep(ttl + time.Second)
		w.log = append(w.log, "ttl-passes")
	}
}

func (w *world) got(ts *tstate, v *val, rel func(bool)) {
	if w.evicted[v.id] > 0 {
		w.errs = append(w.errs, fmt.Sprintf("cache handed out value %d after it had been finalised", v.id))
	}
	w.holders[v.id]++
	ts.held = append(ts.held, &handle{id: v.id, release: rel})
}

func (w *world) release(h *handle, evict bool) {
	h.released = true
	w.holders[h.id]--
	w.log = append(w.log, fmt.Sprintf("release(%d,evict=%v)", h.id, evict))
	h.release(evict)
}

func (w *world) finish(ts *tstate) {
	for _, h := range ts.held {
		if !h.released {
			w.release(h, false)
		}
	}
}

// final check at quiescence (outside the scheduler).
func (w *world) final() (string, error) {
	if len(w.errs) > 0 {
		return "", fmt.Errorf("%s", strings.Join(w.errs, "; "))
	}
	// which values are still cached?
	inCache := map[int]bool{}
	for _, k := range []string{"k0", "k1", "k2"} {
		if v, rel, ok := w.c.get(k); ok {
			inCache[v.id] = true
			rel(false)
		}
	}
	ids := make([]int, 0, len(w.keyOf))
	for id := range w.keyOf {
		ids = append(ids, id)
	}
	sort.Ints(ids)
	var sig []string
	for _, id := range ids {
		n := w.evicted[id]
		switch {
		case inCache[id] && n != 0:
			return "", fmt.Errorf("value %d is still cached but was finalised %d time(s)", id, n)
		case !inCache[id] && n != 1:
			return "", fmt.Errorf("value %d left the cache and has no holder but was finalised %d time(s) (leak or double finalise)", id, n)
		}
		sig = append(sig, fmt.Sprintf("%d:%v", id, inCache[id]))
	}
	if len(w.errs) > 0 {
		return "", fmt.Errorf("%s", strings.Join(w.errs, "; "))
	}
	return strings.Join(w.log, ",") + "|" + strings.Join(sig, ","), nil
}

// ---- concurrent scenarios -----------------------------------------------------------

func alphabet(kind string) []string {
	if kind == "ttl" {
		return []string{"A0", "A1", "G0", "R0", "D", "E", "X"}
	}
	return []string{"A0", "A1", "G0", "R0", "D", "X"}
}

// programs enumerates all op sequences of length 1..n, dropping those whose
// release ops have nothing to act on (they would be no-ops).
func programs(kind string, n int) [][]string {
	var out [][]string
	var rec func(cur []string)
	rec = func(cur []string) {
		if len(cur) > 0 {
			out = append(out, append([]string{}, cur...))
		}
		if len(cur) == n {
			return
		}
		for _, op := range alphabet(kind) {
			if !meaningful(cur, op) {
				continue
			}
			rec(append(cur, op))
		}
	}
	rec(nil)
	return out
}

// meaningful: D/E need a possibly-held handle, X needs a released one.
func meaningful(prev []string, op string) bool {
	acq, rel := 0, 0
	for _, p := range prev {
		switch p[0] {
		case 'A', 'G':
			acq++
		case 'D', 'E':
			rel++
		}
	}
	switch op[0] {
	case 'D', 'E':
		return acq > rel
	case 'X':
		return rel > 0
	}
	return true
}

type combo struct {
	Kind  string     `json:"kind"`
	Cap   int        `json:"cap"`
	Progs [][]string `json:"progs"`
}

func (c combo) String() string {
	var p []string
	for _, x := range c.Progs {
		p = append(p, strings.Join(x, "."))
	}
	return fmt.Sprintf("%s(cap%d) %s", c.Kind, c.Cap, strings.Join(p, " || "))
}

func scenario(c combo) *vexp.Scenario {
	return &vexp.Scenario{
		Name:          c.String(),
		LockDominance: true,
		StateCache:    os.Getenv("C10_NOCACHE") == "",
		New: func() (func(), func(vrt.Result) (string, error)) {
			w := newWorld(c.Kind, c.Cap)
			body := func() {
				var wg = make([]bool, len(c.Progs))
				for i, prog := range c.Progs {
					i, prog := i, prog
					vrt.GoNamed(fmt.Sprintf("p%d", i), func() {
						ts := &tstate{}
						for _, op := range prog {
							w.do(ts, op)
						}
						w.finish(ts)
						wg[i] = true
					})
				}
				for i := range wg {
					i := i
					for !wg[i] {
						vrt.Block("join", func() bool { return wg[i] })
					}
				}
			}
			return body, func(vrt.Result) (string, error) { return w.final() }
		},
	}
}

func combos(kind string, tier string) []combo {
	var out []combo
	cap := 1
	p2 := programs(kind, 2)
	p1 := programs(kind, 1)
	// pairs (unordered)
	for i := range p2 {
		for j := i; j < len(p2); j++ {
			out = append(out, combo{kind, cap, [][]string{p2[i], p2[j]}})
		}
	}
	if tier == "thorough" {
		p3 := programs(kind, 3)
		for i := range p3 {
			for j := i; j < len(p3); j++ {
				if len(p3[i]) < 3 && len(p3[j]) < 3 {
					continue // already covered
				}
				out = append(out, combo{kind, cap, [][]string{p3[i], p3[j]}})
			}
		}
		for i := range p2 {
			for j := i; j < len(p2); j++ {
				for _, k := range p1 {
					out = append(out, combo{kind, cap, [][]string{p2[i], p2[j], k}})
				}
			}
		}
	} else {
		// triples of single-op programs plus one two-op program
		for i := range p2 {
			for j := range p1 {
				for k := j; k < len(p1); k++ {
					out = append(out, combo{kind, cap, [][]string{p2[i], p1[j], p1[k]}})
				}
			}
		}
	}
	return out
}

func concPart(kind string, tier string) runner.Part {
	pb := -1 // unbounded: all schedules, made finite by happens-before state caching
	return runner.Part{
		Name:   kind + "-conc",
		Shards: 16,
		Run: func(c *runner.Ctx) *runner.Result {
			res := &runner.Result{Outcomes: map[string]int{}}
			all := combos(kind, tier)
			outcomes := map[string]struct{}{}
			for idx, cb := range all {
				if idx%c.Of != c.Shard {
					continue
				}
				if time.Now().After(c.Deadline) {
					res.Caps = append(res.Caps, fmt.Sprintf("time budget: %d of %d program combinations explored in this shard", idx/c.Of, len(all)/c.Of))
					break
				}
				sc := scenario(cb)
				det := 0
				if idx < 50*c.Of {
					det = 2
				}
				st := vexp.Explore(sc, vexp.Options{PB: pb, DB: 0, DetChecks: det, Deadline: c.Deadline})
				res.Evaluations += st.Executions
				res.States += int64(st.TraceHashes)
				res.Transitions += st.Transitions
				for o := range st.Outcomes {
					outcomes[o] = struct{}{}
				}
				if len(st.Outcomes) > 1 {
					res.Nontrivial++ // combination whose result depends on the schedule
				}
				if st.Broken != "" {
					res.Broken = cb.String() + ": " + st.Broken
					return res
				}
				if st.Capped {
					res.Caps = appendUniq(res.Caps, st.CapReason)
				}
				for _, v := range st.Violations {
					res.Violations = append(res.Violations, runner.Violation{
						Key:    "C10/" + kind + "/" + classify(v.Msg),
						Msg:    fmt.Sprintf("%s\nschedule choices=%v\n%s\ntrace:\n  %s", cb.String(), v.Choices, v.Msg, strings.Join(v.Trace, "\n  ")),
						Replay: map[string]any{"combo": cb, "choices": v.Choices, "pb": pb},
					})
					if len(res.Violations) > 10 {
						return res
					}
				}
				if len(res.Samples) < 1 && len(st.SampleTraces) > 0 {
					res.Samples = append(res.Samples, map[string]any{"programs": cb.String(), "executions": st.Executions, "schedule_trace": st.SampleTraces[0]})
				}
			}
			res.Outcomes[fmt.Sprintf("%s-conc distinct final observations in shard", kind)] = len(outcomes)
			res.Extra = map[string]any{"preemption_bound_completed": "unbounded (all schedules, HB-state caching)", "combinations": len(all)}
			return res
		},
		Replay: func(c *runner.Ctx, raw json.RawMessage) (string, error) {
			var r struct {
				Combo   combo `json:"combo"`
				Choices []int `json:"choices"`
			}
			if err := json.Unmarshal(raw, &r); err != nil {
				return "", err
			}
			out, err, trace, broken := vexp.Replay(scenario(r.Combo), r.Choices)
			if broken != "" {
				return "", fmt.Errorf("replay broken: %s", broken)
			}
			return strings.Join(trace, "\n") + "\n" + out, err
		},
	}
}

func appendUniq(l []string, s string) []string {
	for _, x := range l {
		if x == s {
			return l
		}
	}
	return append(l, s)
}

// classify maps a message to a stable defect class.
func classify(msg string) string {
	switch {
	case strings.Contains(msg, "finalised while"):
		return "finalised-while-held"
	case strings.Contains(msg, "after it had been finalised"):
		return "handed-out-after-finalise"
	case strings.Contains(msg, "times"):
		return "finalised-more-than-once"
	case strings.Contains(msg, "leak or double"):
		return "leak-or-double-finalise"
	case strings.Contains(msg, "still cached but"):
		return "finalised-while-cached"
	case strings.Contains(msg, "Add("):
		return "add-existing-semantics"
	case strings.Contains(msg, "deadlock"):
		return "deadlock"
	case strings.Contains(msg, "panic"):
		return "panic"
	}
	return "other"
}

// ---- sequential histories against a reference model ---------------------------------

type refEntry struct {
	id int
}

type refModel struct {
	kind    string
	cap     int
	m       map[string]int // key -> value id
	order   []string       // lru order, most recent last
	holders map[int]int
	evicted map[int]bool
}

func (r *refModel) maybeFinal(id int) {
	for _, v := range r.m {
		if v == id {
			return
		}
	}
	if r.holders[id] == 0 {
		r.evicted[id] = true
	}
}

func (r *refModel) touch(k string) {
	for i, x := range r.order {
		if x == k {
			r.order = append(r.order[:i], r.order[i+1:]...)
			break
		}
	}
	r.order = append(r.order, k)
}

func (r *refModel) drop(k string) {
	id, ok := r.m[k]
	if !ok {
		return
	}
	delete(r.m, k)
	for i, x := range r.order {
		if x == k {
			r.order = append(r.order[:i], r.order[i+1:]...)
			break
		}
	}
	r.maybeFinal(id)
}

func seqPart(kind string, tier string) runner.Part {
	depth := 6
	if tier == "thorough" {
		depth = 7
	}
	alpha := []string{"A0", "A1", "G0", "G1", "R0", "R1", "D", "X"}
	if kind == "ttl" {
		alpha = append(alpha, "E", "S")
	} else {
		alpha = append(alpha, "A2")
	}
	return runner.Part{
		Name:   kind + "-seq",
		Shards: len(alpha),
		Run: func(c *runner.Ctx) *runner.Result {
			res := &runner.Result{Outcomes: map[string]int{}}
			states := map[string]struct{}{}
			first := alpha[c.Shard%len(alpha)]
			var rec func(seq []string)
			run := func(seq []string) (string, error) {
				var state string
				var err error
				capn := 2
				w := newWorld(kind, capn)
				ref := &refModel{kind: kind, cap: capn, m: map[string]int{}, holders: map[int]int{}, evicted: map[int]bool{}}
				vrt.Run(vrt.Config{Chooser: func(vrt.ChoicePoint) int { return 0 }, KeepTimers: true}, func() {
					ts := &tstate{}
					var refHeld []*handle
					for _, op := range seq {
						key := "k" + op[1:]
						nextBefore := w.nextID
						w.do(ts, op)
						// reference step
						switch op[0] {
						case 'A':
							if id, ok := ref.m[key]; ok {
								ref.holders[id]++
								ref.touch(key)
								refHeld = append(refHeld, &handle{id: id})
							} else {
								id := nextBefore + 1
								ref.m[key] = id
								ref.holders[id]++
								ref.touch(key)
								refHeld = append(refHeld, &handle{id: id})
								if kind == "lru" && len(ref.m) > ref.cap {
									ref.drop(ref.order[0])
								}
							}
						case 'G':
							if id, ok := ref.m[key]; ok {
								ref.holders[id]++
								ref.touch(key)
								refHeld = append(refHeld, &handle{id: id})
							}
						case 'R':
							ref.drop(key)
						case 'D', 'E':
							for _, h := range refHeld {
								if !h.released {
									h.released = true
									ref.holders[h.id]--
									if op[0] == 'E' {
										for k, id := range ref.m {
											if id == h.id {
												ref.drop(k)
											}
										}
									}
									ref.maybeFinal(h.id)
									break
								}
							}
						case 'S':
							for k := range ref.m {
								ref.drop(k)
							}
						}
						// compare
						if len(w.errs) > 0 {
							err = fmt.Errorf("%s", strings.Join(w.errs, "; "))
							return
						}
						if len(ts.held) != len(refHeld) {
							err = fmt.Errorf("after %v: implementation handed out %d handles, reference %d", seq, len(ts.held), len(refHeld))
							return
						}
						for i := range refHeld {
							if ts.held[i].id != refHeld[i].id {
								err = fmt.Errorf("after %v: handle %d is value %d, reference says %d", seq, i, ts.held[i].id, refHeld[i].id)
								return
							}
						}
						for id := 1; id <= w.nextID; id++ {
							if _, entered := w.keyOf[id]; !entered {
								continue
							}
							if (w.evicted[id] == 1) != ref.evicted[id] || w.evicted[id] > 1 {
								err = fmt.Errorf("after %v: value %d finalised %d time(s), reference says finalised=%v", seq, id, w.evicted[id], ref.evicted[id])
								return
							}
						}
					}
					// canonical state for counting
					var ks []string
					for k, id := range ref.m {
						ks = append(ks, fmt.Sprintf("%s=%d/%d", k, id, ref.holders[id]))
					}
					sort.Strings(ks)
					state = strings.Join(ks, ",") + "|" + strings.Join(ref.order, "")
				})
				return state, err
			}
			rec = func(seq []string) {
				if time.Now().After(c.Deadline) {
					res.Caps = appendUniq(res.Caps, "time budget")
					return
				}
				state, err := run(seq)
				res.Evaluations++
				res.Transitions += int64(len(seq))
				if err != nil {
					if len(res.Violations) < 5 {
						res.Violations = append(res.Violations, runner.Violation{Key: "C10/" + kind + "/seq/" + classify(err.Error()), Msg: err.Error(), Replay: map[string]any{"seq": seq}})
					}
					return
				}
				states[state] = struct{}{}
				if len(seq) == depth {
					return
				}
				var prev []string
				prev = seq
				for _, op := range alpha {
					if !meaningful(prev, op) {
						continue
					}
					rec(append(append([]string{}, seq...), op))
				}
			}
			rec([]string{first})
			res.States = int64(len(states))
			res.Nontrivial = int64(len(states))
			res.Samples = []any{map[string]any{"history_prefix": first, "depth": depth, "alphabet": alpha}}
			res.Extra = map[string]any{"depth_completed": depth}
			return res
		},
	}
}

func debugOne() {
	cb := combo{"ttl", 1, [][]string{{"A0", "D"}, {"G0", "E"}, {"R0"}}}
	for pb := -1; pb <= 3; pb++ {
		t0 := time.Now()
		st := vexp.Explore(scenario(cb), vexp.Options{PB: pb})
		fmt.Printf("pb=%d exec=%d trans=%d choices=%d outcomes=%d hashes=%d finals=%d pruned=%d keys=%d %v %s\n", pb, st.Executions, st.Transitions, st.Choices, len(st.Outcomes), st.TraceHashes, st.FinalStates, st.Pruned, st.StateKeys, time.Since(t0), st.Broken)
		if pb == 0 {
			for _, l := range st.SampleTraces[0] {
				fmt.Println("   ", l)
			}
		}
	}
}

func main() {
	if os.Getenv("C10_DEBUG") != "" {
		debugOne()
		return
	}
	runner.Main(runner.Check{
		RacePass: func(n int, scratch string) (int, []string) {
			total, var_p := 0, []string(nil)
			for _, kind := range []string{"ttl", "lru"} {
				for i, cb := range combos(kind, "quick") {
					if i%7 != 0 {
						continue
					}
					d, p := vexp.RacePass(scenario(cb), n)
					total += d
					var_p = append(var_p, p...)
				}
			}
			return total, var_p
		},
		ID:          "C10",
		Level:       "model_checking",
		Rule:        "concurrent: every pair/triple of thread programs over {Add k0/k1, Get, Remove, release, evicting release, double release} on the real TTLCache/LRUCache(cap 1), every schedule within the preemption bound incl. TTL timer firing; non-trivial = program combination whose final observation depends on the schedule. sequential: every op history up to the depth vs a reference model; distinct = canonical reference states",
		Assumptions: []string{"sequential consistency at instrumented sync operations (all cache state is guarded by the cache mutex)", "groupcache/lru is only entered under the cache mutex and is not instrumented", "virtual time: TTL timers fire in deadline order at any scheduling point"},
		QuickBudget: 4 * time.Minute, ThoroughBudget: 40 * time.Minute,
		Parts: func(tier string) []runner.Part {
			return []runner.Part{concPart("ttl", tier), concPart("lru", tier), seqPart("ttl", tier), seqPart("lru", tier)}
		},
	})
}
