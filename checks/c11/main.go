// C11: a chunk-cache hit returns exactly the bytes committed under that key.
package main

import (
	"encoding/json"
	"fmt"
	"io"
	"os"
	"strings"
	"time"

	"github.com/containerd/stargz-snapshotter/cache"
	"github.com/containerd/stargz-snapshotter/estargz/vrt"

	"verif/lib/runner"
	"verif/lib/vexp"
)

// value committed by writer w under key: self-describing.
func val(key string, w int, n int) []byte {
	if n == 0 {
		return []byte{}
	}
	s := fmt.Sprintf("%s|w%d|%d|", key, w, n)
	for len(s) < n+len(key)+8 {
		s += fmt.Sprintf("%d", w)
	}
	return []byte(s)
}

type op struct {
	K      string `json:"k"` // W write+commit, A write+abort, O write and leave open then Close, R read
	Key    string `json:"key"`
	Len    int    `json:"len,omitempty"`
	Direct bool   `json:"direct,omitempty"`
	Split  bool   `json:"split,omitempty"` // two Write calls
}

func (o op) String() string {
	d := ""
	if o.Direct {
		d = ",direct"
	}
	switch o.K {
	case "W":
		return fmt.Sprintf("Commit(%s,len%d%s)", o.Key, o.Len, d)
	case "A":
		return fmt.Sprintf("Abort(%s%s)", o.Key, d)
	case "O":
		return fmt.Sprintf("LeaveOpen(%s%s)", o.Key, d)
	}
	return fmt.Sprintf("Read(%s%s)", o.Key, d)
}

type ccfg struct {
	Kind    string `json:"kind"` // dir | mem
	Direct  bool   `json:"direct"`
	SyncAdd bool   `json:"sync_add"`
	Fadv    bool   `json:"fadv"`
}

type scen struct {
	Cfg     ccfg   `json:"cfg"`
	Pre     []op   `json:"pre"` // executed sequentially before the threads start
	Threads [][]op `json:"threads"`
	PB      int    `json:"pb"`
}

func (s scen) String() string {
	var t []string
	for _, th := range s.Threads {
		var o []string
		for _, x := range th {
			o = append(o, x.String())
		}
		t = append(t, strings.Join(o, ";"))
	}
	var pre []string
	for _, x := range s.Pre {
		pre = append(pre, x.String())
	}
	return fmt.Sprintf("%+v pre[%s] %s", s.Cfg, strings.Join(pre, ";"), strings.Join(t, " || "))
}

type world struct {
	sc      scen
	c       cache.BlobCache
	dir     string
	invoked map[string]map[string]bool // key -> value -> Commit has been invoked
	written map[string]bool            // every value ever written (committed or not)
	wseq    int
	errs    []string
	log     []string
}

func (w *world) fail(f string, a ...any) { w.errs = append(w.errs, fmt.Sprintf(f, a...)) }

func (w *world) opts(o op) []cache.Option {
	if o.Direct {
		return []cache.Option{cache.Direct()}
	}
	return nil
}

func (w *world) do(o op, tid int) {
	switch o.K {
	case "W", "A", "O":
		w.wseq++
		id := w.wseq
		v := val(o.Key, id, o.Len)
		wr, err := w.c.Add(o.Key, w.opts(o)...)
		if err != nil {
			w.log = append(w.log, fmt.Sprintf("t%d add(%s)=err", tid, o.Key))
			return
		}
		vrt.Event("ghost", w, 0)
		w.written[string(v)] = true
		if o.Split && len(v) > 1 {
			wr.Write(v[:len(v)/2])
			wr.Write(v[len(v)/2:])
		} else {
			wr.Write(v)
		}
		switch o.K {
		case "W":
			if w.invoked[o.Key] == nil {
				w.invoked[o.Key] = map[string]bool{}
			}
			w.invoked[o.Key][string(v)] = true
			err := wr.Commit()
			w.log = append(w.log, fmt.Sprintf("t%d commit(%s,w%d)=%v", tid, o.Key, id, err == nil))
		case "A":
			wr.Abort()
			w.log = append(w.log, fmt.Sprintf("t%d abort(%s,w%d)", tid, o.Key, id))
		}
		wr.Close()
	case "R":
		r, err := w.c.Get(o.Key, w.opts(o)...)
		if err != nil {
			w.log = append(w.log, fmt.Sprintf("t%d get(%s)=miss", tid, o.Key))
			return
		}
		got, rerr := io.ReadAll(io.NewSectionReader(r, 0, 1<<16))
		vrt.Event("ghost", w, 0)
		w.checkValue(o.Key, got, rerr, "first read")
		vrt.Point("r.hold", w)
		again, rerr2 := io.ReadAll(io.NewSectionReader(r, 0, 1<<16))
		vrt.Event("ghost", w, 0)
		if rerr2 != nil {
			w.fail("second ReadAt on a handed-out reader of %s failed: %v", o.Key, rerr2)
		} else if string(again) != string(got) && rerr == nil {
			w.fail("bytes of %s changed while the reader was held: first %q then %q", o.Key, got, again)
		}
		r.Close()
		w.log = append(w.log, fmt.Sprintf("t%d get(%s)=%q", tid, o.Key, got))
	}
}

func (w *world) checkValue(key string, got []byte, rerr error, what string) {
	if rerr != nil {
		w.fail("%s of %s on a handed-out reader failed: %v", what, key, rerr)
		return
	}
	if w.invoked[key][string(got)] {
		return
	}
	switch {
	case w.written[string(got)] && !strings.HasPrefix(string(got), key+"|") && len(got) > 0:
		w.fail("hit on %s returned bytes written under another key: %q", key, got)
	case w.written[string(got)]:
		w.fail("hit on %s returned %q which was written by a writer that never called Commit (aborted or still open)", key, got)
	default:
		for k, vs := range w.invoked {
			for v := range vs {
				if len(got) < len(v) && strings.HasPrefix(v, string(got)) && k == key {
					w.fail("hit on %s returned a strict prefix %q of committed value %q", key, got, v)
					return
				}
			}
		}
		w.fail("hit on %s returned %q which no writer committed under that key (committed: %v)", key, got, keys(w.invoked[key]))
	}
}

func keys(m map[string]bool) []string {
	var o []string
	for k := range m {
		o = append(o, k)
	}
	return o
}

func scenario(sc scen, scratch string) *vexp.Scenario {
	return &vexp.Scenario{
		Name:          sc.String(),
		LockDominance: true,
		StateCache:    true,
		MaxSteps:      20000,
		New: func() (func(), func(vrt.Result) (string, error)) {
			w := &world{sc: sc, invoked: map[string]map[string]bool{}, written: map[string]bool{}}
			body := func() {
				if sc.Cfg.Kind == "mem" {
					w.c = cache.NewMemoryCache()
				} else {
					d, err := os.MkdirTemp(scratch, "c11-")
					if err != nil {
						vrt.Broken("mkdtemp: %v", err)
					}
					w.dir = d
					w.c, err = cache.NewDirectoryCache(d, cache.DirectoryCacheConfig{MaxLRUCacheEntry: 1, MaxCacheFds: 1, SyncAdd: sc.Cfg.SyncAdd, Direct: sc.Cfg.Direct, FadvDontNeed: sc.Cfg.Fadv})
					if err != nil {
						vrt.Broken("NewDirectoryCache: %v", err)
					}
				}
				for _, o := range sc.Pre {
					w.do(o, 0)
				}
				done := make([]bool, len(sc.Threads))
				for i, prog := range sc.Threads {
					i, prog := i, prog
					vrt.GoNamed(fmt.Sprintf("t%d", i+1), func() {
						for _, o := range prog {
							w.do(o, i+1)
						}
						done[i] = true
					})
				}
				for i := range done {
					i := i
					for !done[i] {
						vrt.Block("join", func() bool { return done[i] })
					}
				}
			}
			check := func(res vrt.Result) (string, error) {
				defer func() {
					if w.dir != "" {
						os.RemoveAll(w.dir)
					}
				}()
				if len(w.errs) > 0 {
					return "", fmt.Errorf("%s", strings.Join(w.errs, "; "))
				}
				// quiescent re-read of every key: still exactly a committed value
				if w.c != nil {
					for _, k := range []string{"k0key", "k1key", "k2key"} {
						if r, err := w.c.Get(k); err == nil {
							got, rerr := io.ReadAll(io.NewSectionReader(r, 0, 1<<16))
							w.checkValue(k, got, rerr, "final read")
							r.Close()
						}
					}
				}
				if len(w.errs) > 0 {
					return "", fmt.Errorf("%s", strings.Join(w.errs, "; "))
				}
				return strings.Join(w.log, ","), nil
			}
			return body, check
		},
	}
}

func scenarios(tier string) []scen {
	k0, k1, k2 := "k0key", "k1key", "k2key"
	W := func(k string, n int) op { return op{K: "W", Key: k, Len: n} }
	Ws := func(k string, n int) op { return op{K: "W", Key: k, Len: n, Split: true} }
	Wd := func(k string, n int) op { return op{K: "W", Key: k, Len: n, Direct: true} }
	A := func(k string) op { return op{K: "A", Key: k, Len: 9} }
	O := func(k string) op { return op{K: "O", Key: k, Len: 9} }
	R := func(k string) op { return op{K: "R", Key: k} }
	Rd := func(k string) op { return op{K: "R", Key: k, Direct: true} }
	t1s := [][]op{{W(k0, 9)}, {Ws(k0, 9), W(k1, 9)}, {A(k0)}, {W(k0, 0)}, {O(k0)}, {Wd(k0, 9)}}
	readers := [][]op{{R(k0)}, {R(k0), R(k0)}, {Rd(k0)}, {R(k0), R(k1)}}
	pres := [][]op{nil, {W(k0, 5)}, {W(k0, 5), W(k1, 5)}}
	cfgs := []ccfg{{Kind: "dir"}, {Kind: "dir", SyncAdd: true}, {Kind: "dir", Direct: true}, {Kind: "mem"}}
	if tier == "thorough" {
		cfgs = append(cfgs, ccfg{Kind: "dir", Fadv: true}, ccfg{Kind: "dir", Fadv: true, Direct: true, SyncAdd: true})
		readers = append(readers, []op{R(k1), R(k0)}, []op{Rd(k0), R(k0)})
	}
	var out []scen
	async := func(c ccfg) bool { return c.Kind == "dir" && !c.SyncAdd && !c.Direct }
	// two threads: one writer program, one reader program
	for _, c := range cfgs {
		for _, p := range pres {
			for _, a := range t1s {
				for _, d := range readers {
					pb := 2
					if async(c) {
						// background persistence adds a thread per commit: keep the bound at 1 in the quick tier
						commits := 0
						for _, o := range append(append([]op{}, p...), a...) {
							if o.K == "W" && !o.Direct {
								commits++
							}
						}
						if tier != "thorough" {
							if commits > 1 {
								pb = 1
							}
							if commits > 2 {
								continue
							}
						}
					}
					out = append(out, scen{Cfg: c, Pre: p, Threads: [][]op{a, d}, PB: pb})
				}
			}
		}
	}
	// three threads: two writers on the same / different keys and a reader
	w1 := [][]op{{W(k0, 9)}, {A(k0)}, {W(k0, 0)}}
	w2 := [][]op{{W(k0, 12)}, {W(k1, 1)}}
	r3 := [][]op{{R(k0)}, {R(k0), R(k1)}}
	pb3 := 1
	if tier == "thorough" {
		pb3 = 2
		w2 = append(w2, []op{A(k0), W(k0, 1)}, []op{W(k1, 1), W(k2, 9)})
	}
	for _, c := range cfgs {
		if async(c) && tier != "thorough" {
			continue
		}
		for _, p := range pres[:2] {
			for _, a := range w1 {
				for _, b := range w2 {
					for _, d := range r3 {
						out = append(out, scen{Cfg: c, Pre: p, Threads: [][]op{a, b, d}, PB: pb3})
					}
				}
			}
		}
	}
	_ = k2
	return out
}

func classify(msg string) string {
	switch {
	case strings.Contains(msg, "another key"):
		return "other-keys-bytes"
	case strings.Contains(msg, "never called Commit"):
		return "uncommitted-bytes"
	case strings.Contains(msg, "strict prefix"):
		return "prefix"
	case strings.Contains(msg, "changed while"):
		return "buffer-changed-under-reader"
	case strings.Contains(msg, "failed:"):
		return "read-failed-on-held-reader"
	case strings.Contains(msg, "no writer committed"):
		return "unknown-bytes"
	case strings.Contains(msg, "deadlock"):
		return "deadlock"
	case strings.Contains(msg, "panic"):
		return "panic"
	}
	return "other"
}

func debugOne() {
	scs := scenarios("quick")
	n := 5
	fmt.Sscan(os.Getenv("C11_DEBUG"), &n)
	sc := scs[n]
	fmt.Println(len(scs), sc.String())
	for _, pb := range []int{0, 1, sc.PB} {
		t0 := time.Now()
		st := vexp.Explore(scenario(sc, "/dev/shm"), vexp.Options{PB: pb})
		fmt.Printf("pb=%d exec=%d trans=%d choices=%d outcomes=%d finals=%d pruned=%d keys=%d %v %s\n", pb, st.Executions, st.Transitions, st.Choices, len(st.Outcomes), st.FinalStates, st.Pruned, st.StateKeys, time.Since(t0), st.Broken)
		if pb == 0 {
			for _, l := range st.SampleTraces[0] {
				fmt.Println("   ", l)
			}
		}
	}
}

func main() {
	if os.Getenv("C11_DEBUG") != "" {
		debugOne()
		return
	}
	runner.Main(runner.Check{
		RacePass: func(n int, scratch string) (int, []string) {
			total, ps := 0, []string(nil)
			for i, sc := range scenarios("quick") {
				if i%5 != 0 {
					continue
				}
				d, p := vexp.RacePass(scenario(sc, scratch), n)
				total += d
				ps = append(ps, p...)
			}
			return total, ps
		},
		ID:          "C11",
		Level:       "model_checking",
		Rule:        "3 threads (two writers, one reader, programs from a fixed menu incl. commit/abort/leave-open/zero-length/direct/split writes) x optional pre-population x cache configs (dir default, SyncAdd, Direct, memory[, FadvDontNeed]) with data LRU = fd LRU = 1 over 3 keys, real files on tmpfs; every schedule within the preemption bound (file-system namespace operations are scheduling points); values are self-describing; non-trivial = scenario with more than one distinct observation log",
		Assumptions: []string{"sequential consistency at instrumented sync operations and at os namespace operations (open/rename/remove/createtemp); file contents are written by one writer before rename and immutable afterwards", "Commit counts as possibly visible from the moment it is invoked", "groupcache/lru uninstrumented (entered under the LRU mutex)"},
		QuickBudget: 4 * time.Minute, ThoroughBudget: 40 * time.Minute,
		Parts: func(tier string) []runner.Part {
			scs := scenarios(tier)
			pb := 2
			return []runner.Part{{Name: "sched", Shards: 32, Run: func(c *runner.Ctx) *runner.Result {
				res := &runner.Result{Outcomes: map[string]int{}}
				seen := map[string]bool{}
				for i, sc := range scs {
					if i%c.Of != c.Shard {
						continue
					}
					if time.Now().After(c.Deadline) {
						res.Caps = append(res.Caps, fmt.Sprintf("time budget: %d of %d scenarios done in this shard", i/c.Of, len(scs)/c.Of))
						break
					}
					det := 0
					if i < 3*c.Of {
						det = 5
					}
					st := vexp.Explore(scenario(sc, c.Scratch), vexp.Options{PB: sc.PB, DetChecks: det, Deadline: c.Deadline})
					res.Evaluations += st.Executions
					res.States += int64(st.StateKeys)
					res.Transitions += st.Transitions
					if len(st.Outcomes) > 1 {
						res.Nontrivial++
					}
					res.Outcomes[fmt.Sprintf("scenarios with %d distinct logs", min(len(st.Outcomes), 20))]++
					if st.Broken != "" {
						res.Broken = sc.String() + ": " + st.Broken
						return res
					}
					if st.Capped && st.CapReason != "time budget" {
						res.Caps = append(res.Caps, st.CapReason)
					}
					for _, v := range st.Violations {
						key := "C11/" + sc.Cfg.Kind + "/" + classify(v.Msg)
						if seen[key] {
							continue
						}
						seen[key] = true
						res.Violations = append(res.Violations, runner.Violation{Key: key,
							Msg:    fmt.Sprintf("%s\nchoices=%v\n%s\ntrace:\n  %s", sc.String(), v.Choices, v.Msg, strings.Join(v.Trace, "\n  ")),
							Replay: map[string]any{"scen": sc, "choices": v.Choices}})
					}
					if len(res.Samples) == 0 && len(st.SampleTraces) > 0 {
						res.Samples = append(res.Samples, map[string]any{"scenario": sc.String(), "executions": st.Executions, "trace_head": st.SampleTraces[0]})
					}
				}
				res.Extra = map[string]any{"preemption_bound_completed": fmt.Sprintf("%d for two-thread scenarios, %d for three-thread scenarios", pb, scs[len(scs)-1].PB), "scenarios": len(scs)}
				return res
			}, Replay: func(c *runner.Ctx, raw json.RawMessage) (string, error) {
				var r struct {
					Scen    scen  `json:"scen"`
					Choices []int `json:"choices"`
				}
				if err := json.Unmarshal(raw, &r); err != nil {
					return "", err
				}
				out, err, trace, broken := vexp.Replay(scenario(r.Scen, c.Scratch), r.Choices)
				if broken != "" {
					return "", fmt.Errorf("replay broken: %s", broken)
				}
				return strings.Join(trace, "\n") + "\n" + out, err
			}}}
		},
	})
}
