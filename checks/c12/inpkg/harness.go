//go:build verif

package layer

import (
	"fmt"
	"io"
	"strings"
)

func verifInner(l Layer) *layer {
	if v, ok := l.(*layerRef); ok {
		return v.layer
	}
	return nil
}

// VerifLayerID is the identity of the underlying resolved layer object.
func VerifLayerID(l Layer) any { return verifInner(l) }

// VerifIsClosed reports whether the underlying layer object was closed.
func VerifIsClosed(l Layer) bool { return verifInner(l).isClosed() }

// VerifReadFile reads a regular file of a verified layer completely through the layer's reader
// (metadata -> reader -> chunk cache -> remote blob).
func VerifReadFile(l Layer, path string) ([]byte, error) {
	in := verifInner(l)
	if in.isClosed() {
		return nil, fmt.Errorf("layer is already closed")
	}
	if in.r == nil {
		return nil, fmt.Errorf("layer hasn't been verified yet")
	}
	md := in.r.Metadata()
	id := md.RootID()
	for _, part := range strings.Split(strings.Trim(path, "/"), "/") {
		cid, _, err := md.GetChild(id, part)
		if err != nil {
			return nil, fmt.Errorf("lookup %q: %w", path, err)
		}
		id = cid
	}
	attr, err := md.GetAttr(id)
	if err != nil {
		return nil, err
	}
	ra, err := in.r.OpenFile(id)
	if err != nil {
		return nil, err
	}
	buf := make([]byte, attr.Size)
	n, err := ra.ReadAt(buf, 0)
	if err != nil && err != io.EOF {
		return nil, err
	}
	return buf[:n], nil
}
