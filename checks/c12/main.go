// C12: a mounted layer stays usable; a released layer gives back all its resources.
package main

import (
	"bytes"
	"context"
	"encoding/json"
	"fmt"
	"io"
	"os"
	"sort"
	"strings"
	"time"

	"github.com/containerd/stargz-snapshotter/estargz/vrt"
	"github.com/containerd/stargz-snapshotter/fs/config"
	"github.com/containerd/stargz-snapshotter/fs/layer"
	"github.com/sirupsen/logrus"

	"verif/lib/memreg"
	"verif/lib/runner"
	"verif/lib/stack"
	"verif/lib/vexp"
)

const ttl = time.Hour

var specs = []stack.LayerSpec{
	{Name: "L1", Files: []stack.File{{Path: "a", Size: 7}, {Path: "d/b", Size: 3}}, Prioritized: []string{"a"}, ChunkSize: 4},
	{Name: "L2", Files: []stack.File{{Path: "a", Size: 5}}, ChunkSize: 4},
}

var built []*stack.Built

func init() {
	logrus.SetOutput(io.Discard)
	for _, s := range specs {
		b, err := stack.Build(s)
		if err != nil {
			panic(err)
		}
		built = append(built, b)
	}
}

// ---- world: implementation + reference model ---------------------------------------------

type holder struct {
	l   layer.Layer
	li  int // layer index
	obj any
}

type world struct {
	env      *stack.Env
	root     string
	h        map[string]*holder // "a","b"
	cached   [2]any             // model: object currently in the resolver cache per layer
	seen     []seenObj
	down     bool
	devUsed  bool
	failAt   int // fail the k-th request counted from failBase (0 = none)
	failBase int
	errs     []string
	log      []string
}

type seenObj struct {
	obj any
	l   layer.Layer
	li  int
}

func (w *world) fail(f string, a ...any) { w.errs = append(w.errs, fmt.Sprintf(f, a...)) }

func newWorld(scratch string) (*world, error) {
	root, err := os.MkdirTemp(scratch, "c12-")
	if err != nil {
		return nil, err
	}
	w := &world{root: root, h: map[string]*holder{}}
	cfg := config.Config{ResolveResultEntryTTLSec: int(ttl / time.Second), NoPrometheus: true,
		BlobConfig:           config.BlobConfig{ChunkSize: 16, CheckAlways: true, MaxRetries: 1, MinWaitMSec: 1, MaxWaitMSec: 1},
		DirectoryCacheConfig: config.DirectoryCacheConfig{MaxLRUCacheEntry: 1, MaxCacheFds: 1, SyncAdd: true}}
	reg := memreg.New()
	reg.Script = func(r *memreg.Req) memreg.Action {
		if w.failAt > 0 && r.N == w.failBase+w.failAt {
			return memreg.Transient
		}
		return memreg.Perfect
	}
	w.env, err = stack.NewEnv(root, cfg, nil, reg)
	if err != nil {
		return nil, err
	}
	for _, b := range built {
		w.env.Add(b)
	}
	return w, nil
}

func (w *world) cleanup() { os.RemoveAll(w.root) }

func (w *world) holders(obj any) int {
	n := 0
	for _, h := range w.h {
		if h.obj == obj {
			n++
		}
	}
	return n
}

func (w *world) isCached(obj any) bool { return w.cached[0] == obj || w.cached[1] == obj }

// resolve performs Resolve(L_li) for holder name with an optional failing request.
func (w *world) resolve(name string, li int, failAt int) {
	w.failBase, w.failAt = w.env.Reg.Count(), failAt
	l, err := w.env.Resolve(built[li])
	w.failAt = 0
	expectCachedHit := w.cached[li] != nil && !w.down
	if w.down && w.cached[li] != nil {
		// connectivity check of the cached instance fails: it is dropped from the cache
		w.cached[li] = nil
	}
	if err != nil {
		w.log = append(w.log, fmt.Sprintf("resolve(%s,L%d)=err", name, li+1))
		if !w.down && failAt == 0 {
			w.fail("Resolve(L%d) failed although the registry is reachable: %v", li+1, err)
		}
		if failAt > 0 && expectCachedHit {
			// the injected failure hit the connectivity check of the cached instance
			w.cached[li] = nil
		}
		return
	}
	if w.down {
		w.fail("Resolve(L%d) succeeded although the registry is unreachable and connectivity is always checked", li+1)
	}
	obj := layer.VerifLayerID(l)
	if expectCachedHit && failAt == 0 {
		if obj != w.cached[li] {
			w.fail("Resolve(L%d) while an instance is cached and healthy returned a different instance: concurrent/successive requests for one layer must share a single resolved instance", li+1)
		}
	} else if failAt == 0 || !expectCachedHit {
		for _, s := range w.seen {
			if s.obj == obj && w.cached[li] != obj {
				w.fail("Resolve(L%d) returned an instance that had left the cache", li+1)
			}
		}
	}
	if layer.VerifIsClosed(l) {
		w.fail("Resolve(L%d) returned a closed layer", li+1)
	}
	known := false
	for _, s := range w.seen {
		if s.obj == obj {
			known = true
		}
	}
	if !known {
		w.seen = append(w.seen, seenObj{obj, l, li})
	}
	w.cached[li] = obj
	if err := l.Verify(built[li].TOCDigest); err != nil {
		w.fail("Verify of freshly resolved L%d failed: %v", li+1, err)
	}
	w.h[name] = &holder{l: l, li: li, obj: obj}
	w.log = append(w.log, fmt.Sprintf("resolve(%s,L%d)=ok", name, li+1))
}

func (w *world) read(name string, mustSucceed bool) {
	h := w.h[name]
	if h == nil {
		return
	}
	for _, path := range vrt.SortedKeys(built[h.li].Content) {
		want := built[h.li].Content[path]
		got, err := layer.VerifReadFile(h.l, path)
		if err != nil {
			if mustSucceed {
				w.fail("holder %s (not released) cannot read %s of L%d although the registry is reachable: %v", name, path, h.li+1, err)
			}
			continue
		}
		if !bytes.Equal(got, want) {
			w.fail("holder %s read wrong bytes from %s of L%d: %q want %q", name, path, h.li+1, got, want)
		}
	}
}

// invariant: an instance is closed iff it left the cache and nobody holds it.
func (w *world) invariant(when string) {
	for _, s := range w.seen {
		closed := layer.VerifIsClosed(s.l)
		want := !w.isCached(s.obj) && w.holders(s.obj) == 0
		if closed && !want {
			w.fail("%s: an instance of L%d is closed although it is still held by %d holder(s) / cached=%v", when, s.li+1, w.holders(s.obj), w.isCached(s.obj))
		}
		if !closed && want {
			w.fail("%s: an instance of L%d left the cache and every holder released it but it was not closed (leak)", when, s.li+1)
		}
	}
}

func (w *world) quiesce() { vrt.Sleep(time.Millisecond) }

var holderNames = []string{"a", "b"}

// enabled ops in the current state.
func (w *world) enabled() []string {
	var ops []string
	for _, n := range holderNames {
		if w.h[n] == nil {
			for li := range built {
				ops = append(ops, fmt.Sprintf("R%s%d", n, li+1))
			}
			if n == "a" && !w.devUsed && !w.down {
				for k := 1; k <= 6; k++ {
					ops = append(ops, fmt.Sprintf("Ra1!%d", k))
				}
			}
		} else {
			ops = append(ops, "D"+n, "C"+n, "RD"+n)
			if n == "a" {
				ops = append(ops, "Ka", "Fa")
			}
		}
	}
	ops = append(ops, "X")
	if w.down {
		ops = append(ops, "Up")
	} else {
		ops = append(ops, "Dn")
	}
	return ops
}

func (w *world) apply(op string) {
	switch {
	case strings.HasPrefix(op, "RD"):
		w.read(op[2:], !w.down)
		w.log = append(w.log, op)
	case op[0] == 'R':
		name, li, failAt := op[1:2], int(op[2]-'1'), 0
		if i := strings.Index(op, "!"); i > 0 {
			fmt.Sscan(op[i+1:], &failAt)
			w.devUsed = true
		}
		w.resolve(name, li, failAt)
	case op == "X":
		vrt.Sleep(ttl + time.Second)
		w.cached = [2]any{}
		w.log = append(w.log, op)
	case op == "Dn":
		w.down, w.env.Reg.Down = true, true
	case op == "Up":
		w.down, w.env.Reg.Down = false, false
	case op == "Ka":
		err := w.h["a"].l.Check()
		if (err != nil) != w.down {
			w.fail("Check on a held layer returned %v with registry down=%v", err, w.down)
		}
	case op == "Fa":
		h := w.h["a"]
		err := h.l.Refresh(context.Background(), w.env.Reg.Hosts(nil), w.env.Ref, built[h.li].Desc)
		if err == nil && w.down {
			w.fail("Refresh succeeded with the registry unreachable")
		}
		if err != nil && !w.down {
			w.fail("Refresh failed with the registry reachable: %v", err)
		}
	case op[0] == 'D':
		h := w.h[op[1:]]
		delete(w.h, op[1:])
		h.l.Done()
		w.log = append(w.log, op)
	case op[0] == 'C':
		h := w.h[op[1:]]
		delete(w.h, op[1:])
		if w.cached[h.li] == h.obj {
			w.cached[h.li] = nil
		}
		h.l.Close()
		w.log = append(w.log, op)
	}
	w.quiesce()
	w.invariant("after " + op)
}

// canon: canonical state for deduplication.
func (w *world) canon() string {
	var parts []string
	for _, n := range holderNames {
		h := w.h[n]
		if h == nil {
			parts = append(parts, n+":-")
			continue
		}
		parts = append(parts, fmt.Sprintf("%s:L%d,cached=%v,shared=%v,fetched=%d", n, h.li+1, w.isCached(h.obj), w.holders(h.obj) > 1, h.l.Info().FetchedSize))
	}
	for li := range built {
		parts = append(parts, fmt.Sprintf("c%d=%v", li+1, w.cached[li] != nil))
	}
	parts = append(parts, fmt.Sprintf("down=%v dev=%v dirs=%d", w.down, w.devUsed, len(w.env.CacheDirs())))
	return strings.Join(parts, " ")
}

// terminal probe: what must hold from this state onwards.
func (w *world) probe() {
	w.down, w.env.Reg.Down = false, false
	for _, n := range holderNames {
		w.read(n, true)
	}
	for _, n := range holderNames {
		if h := w.h[n]; h != nil {
			delete(w.h, n)
			h.l.Done()
		}
	}
	vrt.Sleep(ttl + time.Second)
	w.cached = [2]any{}
	w.quiesce()
	w.invariant("after releasing everything and letting the TTL pass")
	if d := w.env.CacheDirs(); len(d) != 0 {
		w.fail("cache directories remain after every layer was released and expired: %v", d)
	}
	if n := stack.OpenFDs(w.root); n != 0 {
		w.fail("%d file descriptors below the resolver root are still open after every layer was released and expired: %v", n, stack.OpenFDTargets(w.root))
	}
	for li := range built {
		w.resolve("a", li, 0)
		w.read("a", true)
		if h := w.h["a"]; h != nil {
			delete(w.h, "a")
			w.cached[li] = nil
			h.l.Close()
		}
	}
	vrt.Sleep(ttl + time.Second)
	w.quiesce()
	w.invariant("after the final re-resolve and close")
	if d := w.env.CacheDirs(); len(d) != 0 {
		w.fail("cache directories remain after the final re-resolve and close: %v", d)
	}
}

// runHistory executes a history (+ probe) and returns the canonical state before the probe and the enabled ops.
func runHistory(hist []string, scratch string, doProbe bool) (canon string, enabled []string, errs []string, log []string, broken string) {
	w, err := newWorld(scratch)
	if err != nil {
		return "", nil, nil, nil, err.Error()
	}
	defer w.cleanup()
	res := vrt.Run(vrt.Config{Chooser: func(vrt.ChoicePoint) int { return 0 }, KeepTimers: true, MaxSteps: 2000000}, func() {
		for _, op := range hist {
			w.apply(op)
			if len(w.errs) > 0 {
				return
			}
		}
		canon = w.canon()
		enabled = w.enabled()
		if doProbe {
			w.probe()
		}
	})
	if res.Broken != "" {
		return "", nil, nil, nil, res.Broken
	}
	if res.Failure != nil {
		w.errs = append(w.errs, res.Failure.Msg+"\n"+res.Failure.Stack)
	}
	if res.Deadlock {
		w.errs = append(w.errs, "deadlock: "+strings.Join(res.Blocked, "; "))
	}
	if res.StepCap {
		return "", nil, nil, nil, "step cap"
	}
	return canon, enabled, w.errs, w.log, ""
}

func classify(msg string) string {
	switch {
	case strings.Contains(msg, "wrong bytes"):
		return "wrong-bytes"
	case strings.Contains(msg, "cannot read"):
		return "held-layer-unreadable"
	case strings.Contains(msg, "different instance"):
		return "not-shared"
	case strings.Contains(msg, "is closed although"):
		return "closed-while-held"
	case strings.Contains(msg, "leak"):
		return "not-closed-after-release"
	case strings.Contains(msg, "cache directories remain"):
		return "cache-dirs-remain"
	case strings.Contains(msg, "file descriptors"):
		return "fds-remain"
	case strings.Contains(msg, "failed although the registry is reachable"):
		return "resolve-fails"
	case strings.Contains(msg, "deadlock"):
		return "deadlock"
	case strings.Contains(msg, "panic"):
		return "panic"
	}
	return "other"
}

func seqPart(tier string) runner.Part {
	depth := 3
	if tier == "thorough" {
		depth = 5
	}
	firsts := []string{"Ra1", "Ra2", "Rb1", "Rb2", "X", "Dn", "Ra1!1", "Ra1!2", "Ra1!3", "Ra1!4", "Ra1!5", "Ra1!6"}
	return runner.Part{Name: "hist", Shards: len(firsts), Run: func(c *runner.Ctx) *runner.Result {
		res := &runner.Result{Outcomes: map[string]int{}}
		seen := map[string]bool{}
		frontier := [][]string{{firsts[c.Shard]}}
		keys := map[string]bool{}
		for d := 1; d <= depth && len(frontier) > 0; d++ {
			var next [][]string
			for _, h := range frontier {
				if time.Now().After(c.Deadline) {
					res.Caps = append(res.Caps, fmt.Sprintf("time budget at depth %d", d))
					goto done
				}
				canon, enabled, errs, log, broken := runHistory(h, c.Scratch, true)
				res.Evaluations++
				res.Transitions += int64(len(h))
				if broken != "" {
					res.Broken = fmt.Sprintf("history %v: %s", h, broken)
					return res
				}
				if len(errs) > 0 {
					k := "C12/hist/" + classify(errs[0])
					if !keys[k] {
						keys[k] = true
						res.Violations = append(res.Violations, runner.Violation{Key: k, Msg: fmt.Sprintf("history %v: %s\nlog: %v", h, strings.Join(errs, "; "), log), Replay: map[string]any{"hist": h}})
					}
					continue
				}
				res.Outcomes[strings.Join(log, ",")]++
				if seen[canon] {
					continue
				}
				seen[canon] = true
				if len(res.Samples) < 2 && d == depth {
					res.Samples = append(res.Samples, map[string]any{"history": h, "canonical_state": canon})
				}
				for _, op := range enabled {
					next = append(next, append(append([]string{}, h...), op))
				}
			}
			frontier = next
		}
	done:
		res.States = int64(len(seen))
		res.Nontrivial = int64(len(seen))
		res.Extra = map[string]any{"depth_completed": depth}
		return res
	}, Replay: func(c *runner.Ctx, raw json.RawMessage) (string, error) {
		var r struct {
			Hist []string `json:"hist"`
		}
		if err := json.Unmarshal(raw, &r); err != nil {
			return "", err
		}
		canon, _, errs, log, broken := runHistory(r.Hist, c.Scratch, true)
		if broken != "" {
			return "", fmt.Errorf("broken: %s", broken)
		}
		if len(errs) > 0 {
			return fmt.Sprint(log), fmt.Errorf("%s", strings.Join(errs, "; "))
		}
		return canon, nil
	}}
}

// ---- concurrent part -------------------------------------------------------------------------

type concScen struct {
	Name    string     `json:"name"`
	Threads [][]string `json:"threads"` // ops: R1 R2 (resolve+verify), D (done), C (close), RD (read), X handled by timers
	Pre     []string   `json:"pre"`
}

func concScenario(sc concScen, scratch string) *vexp.Scenario {
	return &vexp.Scenario{
		Name: sc.Name, LockDominance: true, StateCache: true, MaxSteps: 400000,
		New: func() (func(), func(vrt.Result) (string, error)) {
			var w *world
			var outs []string
			body := func() {
				var err error
				w, err = newWorld(scratch)
				if err != nil {
					vrt.Broken("newWorld: %v", err)
				}
				type th struct {
					l  layer.Layer
					li int
				}
				run := func(tid int, prog []string, out *string) {
					var cur *th
					var o []string
					for _, op := range prog {
						switch op {
						case "R1", "R2":
							li := int(op[1] - '1')
							l, err := w.env.Resolve(built[li])
							if err != nil {
								w.fail("Resolve(L%d) failed with a reachable registry: %v", li+1, err)
								continue
							}
							if err := l.Verify(built[li].TOCDigest); err != nil {
								w.fail("Verify failed: %v", err)
							}
							cur = &th{l, li}
							o = append(o, fmt.Sprintf("%p", layer.VerifLayerID(l)))
						case "RD":
							if cur == nil {
								continue
							}
							for _, path := range vrt.SortedKeys(built[cur.li].Content) {
								want := built[cur.li].Content[path]
								got, err := layer.VerifReadFile(cur.l, path)
								if err != nil {
									w.fail("holder t%d (not released) cannot read %s of L%d: %v", tid, path, cur.li+1, err)
								} else if !bytes.Equal(got, want) {
									w.fail("holder t%d read wrong bytes from %s of L%d: %q want %q", tid, path, cur.li+1, got, want)
								}
							}
						case "D":
							if cur != nil {
								cur.l.Done()
								cur = nil
							}
						case "C":
							if cur != nil {
								cur.l.Close()
								cur = nil
							}
						case "X":
							vrt.Sleep(ttl + time.Second)
						}
					}
					if cur != nil {
						cur.l.Done()
					}
					*out = strings.Join(o, ",")
				}
				var pre string
				vrt.Quiet(func() { run(0, sc.Pre, &pre); vrt.Sleep(time.Millisecond); vrt.WaitIdle() })
				done := make([]bool, len(sc.Threads))
				outs = make([]string, len(sc.Threads))
				for i, prog := range sc.Threads {
					i, prog := i, prog
					vrt.GoNamed(fmt.Sprintf("h%d", i), func() {
						run(i+1, prog, &outs[i])
						done[i] = true
					})
				}
				for i := range done {
					i := i
					for !done[i] {
						vrt.Block("join", func() bool { return done[i] })
					}
				}
				// everything released: let the TTL pass, let the expiry callbacks finish, then check reclamation
				vrt.Sleep(ttl + time.Second)
				vrt.Sleep(time.Millisecond)
				vrt.WaitIdle()
				if d := w.env.CacheDirs(); len(d) != 0 {
					w.fail("cache directories remain after every layer was released and expired: %v", d)
				}
				if n := stack.OpenFDs(w.root); n != 0 {
					w.fail("%d file descriptors below the resolver root are still open after every layer was released and expired", n)
				}
			}
			check := func(vrt.Result) (string, error) {
				defer func() {
					if w != nil {
						w.cleanup()
					}
				}()
				if w != nil && len(w.errs) > 0 {
					return "", fmt.Errorf("%s", strings.Join(w.errs, "; "))
				}
				// sharing: two resolves of one layer that overlap in time and see a healthy cache share an instance;
				// observable summary: number of distinct instances per thread outputs
				ids := map[string]bool{}
				for _, o := range outs {
					for _, x := range strings.Split(o, ",") {
						if x != "" {
							ids[x] = true
						}
					}
				}
				return fmt.Sprintf("instances=%d", len(ids)), nil
			}
			return body, check
		},
	}
}

func concScens(tier string) []concScen {
	return []concScen{
		// the single-file layer L2 keeps executions short (a few hundred scheduling points)
		{Name: "resolve||resolve same layer", Threads: [][]string{{"R2", "RD"}, {"R2", "RD"}}},
		{Name: "resolve,read || close by other holder", Pre: nil, Threads: [][]string{{"R2", "RD", "D"}, {"R2", "C"}}},
		{Name: "held layer read || ttl expiry || re-resolve", Threads: [][]string{{"R2", "X", "RD"}, {"R2", "RD"}}},
		{Name: "close || read", Pre: []string{"R2", "RD", "D"}, Threads: [][]string{{"R2", "RD"}, {"R2", "C"}}},
	}
}

func concPart(tier string) runner.Part {
	scs := concScens(tier)
	pb, fb := 1, 1
	if tier == "thorough" {
		pb, fb = 2, 2
	}
	const split = 4
	return runner.Part{Name: "sched", Shards: len(scs) * split, Run: func(c *runner.Ctx) *runner.Result {
		res := &runner.Result{Outcomes: map[string]int{}}
		sc := scs[c.Shard/split]
		st := vexp.Explore(concScenario(sc, c.Scratch), vexp.Options{PB: pb, FB: fb, DetChecks: 3, Deadline: c.Deadline, Shard: c.Shard % split, Of: split, ShardLevel: 1})
		res.Evaluations, res.States, res.Transitions = st.Executions, int64(st.StateKeys), st.Transitions
		for o, n := range st.Outcomes {
			res.Outcomes[sc.Name+": "+o] += n
		}
		res.Nontrivial = int64(len(st.Outcomes))
		if st.Broken != "" {
			res.Broken = sc.Name + ": " + st.Broken
			return res
		}
		if st.Capped {
			res.Caps = append(res.Caps, sc.Name+": "+st.CapReason)
		}
		keys := map[string]bool{}
		for _, v := range st.Violations {
			k := "C12/sched/" + classify(v.Msg)
			if keys[k] {
				continue
			}
			keys[k] = true
			res.Violations = append(res.Violations, runner.Violation{Key: k, Msg: fmt.Sprintf("%s\nchoices=%v\n%s", sc.Name, v.Choices, v.Msg), Replay: map[string]any{"scen": sc, "choices": v.Choices}})
		}
		if len(st.SampleTraces) > 0 && c.Shard%split == 0 {
			t := st.SampleTraces[0]
			if len(t) > 30 {
				t = t[:30]
			}
			res.Samples = append(res.Samples, map[string]any{"scenario": sc.Name, "executions": st.Executions, "trace_head": t})
		}
		res.Extra = map[string]any{"preemption_bound_completed": pb, "free_switch_bound": fb}
		return res
	}, Replay: func(c *runner.Ctx, raw json.RawMessage) (string, error) {
		var r struct {
			Scen    concScen `json:"scen"`
			Choices []int    `json:"choices"`
		}
		if err := json.Unmarshal(raw, &r); err != nil {
			return "", err
		}
		out, err, trace, broken := vexp.Replay(concScenario(r.Scen, c.Scratch), r.Choices)
		if broken != "" {
			return "", fmt.Errorf("replay broken: %s", broken)
		}
		return strings.Join(trace, "\n") + "\n" + out, err
	}}
}

var _ = sort.Strings

func debugDet() {
	sc := concScens("quick")[0]
	var first []string
	for k := 0; k < 30; k++ {
		_, _, t, _ := vexp.Replay(concScenario(sc, "/dev/shm"), []int{1})
		if first == nil {
			first = t
			continue
		}
		if len(t) != len(first) {
			for i := 0; i < len(t) && i < len(first); i++ {
				if t[i] != first[i] {
					lo := i - 12
					if lo < 0 {
						lo = 0
					}
					for j := lo; j < i+8 && j < len(t) && j < len(first); j++ {
						fmt.Printf("%d: %-40s | %s\n", j, first[j], t[j])
					}
					return
				}
			}
		}
	}
	fmt.Println("no difference found")
}

func main() {
	if os.Getenv("C12_DEBUG") != "" {
		debugDet()
		return
	}
	runner.Main(runner.Check{
		RacePass: func(n int, scratch string) (int, []string) {
			total, ps := 0, []string(nil)
			for _, sc := range concScens("quick") {
				d, p := vexp.RacePass(concScenario(sc, scratch), n)
				total += d
				ps = append(ps, p...)
			}
			return total, ps
		},
		ID:          "C12",
		Level:       "model_checking",
		Rule:        "hist: explicit-state BFS (canonical-state dedup) over Resolve/Done/Close/TTL-expiry/registry down-up/Check/Refresh/read histories of 2 layers x 2 holders on the real layer.Resolver over an in-memory registry with a failing k-th request as deviation; every state is followed by a terminal probe (holders read, release all, TTL passes, everything closed, cache dirs and fds gone, re-resolve works). sched: concurrent Resolve/read/Done/Close/expiry threads under the cooperative scheduler. non-trivial = distinct canonical states",
		Assumptions: []string{"lib/memreg replaces the network", "reads go through the layer's reader (metadata -> reader -> chunk caches -> remote blob), not through FUSE nodes (C02/C07 cover the node layer)", "virtual time for TTL, check intervals and timeouts", "CheckAlways=true so every cache hit performs the connectivity check"},
		QuickBudget: 4 * time.Minute, ThoroughBudget: 40 * time.Minute,
		Parts: func(tier string) []runner.Part {
			return []runner.Part{seqPart(tier), concPart(tier)}
		},
	})
}
