//go:build verif

package task

// VerifCounter exposes the address and value of the prioritized-task counter
// and the identity of the lock under which the start decision is taken.
func VerifCounter(ts *BackgroundTaskManager) (ptr any, value int64, notifyMu any) {
	return &ts.prioritizedTasks, ts.prioritizedTasks, &ts.prioritizedTaskStartNotifyMu
}
