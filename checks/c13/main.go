// C13: background tasks yield to prioritized work, stay bounded, never self-overlap.
package main

import (
	"context"
	"encoding/json"
	"fmt"
	"os"
	"strings"
	"time"

	"github.com/containerd/stargz-snapshotter/estargz/vrt"
	"github.com/containerd/stargz-snapshotter/estargz/vrt/vctx"
	"github.com/containerd/stargz-snapshotter/task"

	"verif/lib/runner"
	"verif/lib/vexp"
)

const period = time.Second

type scen struct {
	Prio        []int `json:"prio"` // per prioritized thread: number of Do/Done pairs
	Bg          int   `json:"bg"`   // number of concurrent InvokeBackgroundTask callers
	Concurrency int64 `json:"concurrency"`
	Steps       int   `json:"steps"`         // natural length of a body
	ShortTO     bool  `json:"short_timeout"` // the invocation's timeout (1ms of virtual time) can expire while the body runs
}

func (s scen) String() string {
	return fmt.Sprintf("prio=%v bg=%d concurrency=%d bodysteps=%d shorttimeout=%v", s.Prio, s.Bg, s.Concurrency, s.Steps, s.ShortTO)
}

type world struct {
	sc         scen
	mgr        *task.BackgroundTaskManager
	doReturned int
	dones      []int64 // virtual ns of each Done call
	alive      []int   // per invocation
	aliveTotal int
	spawnSnap  map[int][2]int // child tid -> (harness count at spawn, doReturned at spawn)
	errs       []string
	log        []string
	returned   []bool
	instances  int
}

var cur *world

func (w *world) count() int {
	now := vrt.NowPeek().UnixNano()
	n := w.doReturned
	for _, d := range w.dones {
		if d+int64(period) <= now {
			n--
		}
	}
	return n
}

func (w *world) fail(format string, a ...any) {
	w.errs = append(w.errs, fmt.Sprintf(format, a...))
}

func observer(tid int, kind string, obj any) {
	w := cur
	if w == nil || kind != "spawn" {
		return
	}
	w.spawnSnap[obj.(int)] = [2]int{w.count(), w.doReturned}
}

func (w *world) body(inv int, ctx context.Context) {
	vrt.Event("ghost", w, 0)
	snap, ok := w.spawnSnap[vrt.ThreadID()]
	if !ok {
		w.fail("internal: body thread without spawn record")
	}
	w.instances++
	inst := w.instances
	w.log = append(w.log, fmt.Sprintf("start(inv%d#%d)", inv, inst))
	if snap[0] > 0 {
		w.fail("body of invocation %d started while %d prioritized task(s) were in progress or inside the silence period", inv, snap[0])
	}
	w.alive[inv]++
	w.aliveTotal++
	if w.alive[inv] > 1 {
		w.fail("two executions of invocation %d overlap (a cancelled body is still running while its retry started)", inv)
	}
	if int64(w.aliveTotal) > w.sc.Concurrency {
		w.fail("%d bodies alive at once, concurrency is %d", w.aliveTotal, w.sc.Concurrency)
	}
	cancelled := false
	for step := 0; step < w.sc.Steps; step++ {
		if vctx.Err(ctx) != nil {
			cancelled = true
			break
		}
		vrt.Point("body.step", w)
	}
	if !cancelled && vctx.Err(ctx) != nil {
		cancelled = true
	}
	if cancelled {
		// react to cancellation arbitrarily late: 0, 1 or 2 more steps
		late := vrt.Choose("notice-late", 3)
		for j := 0; j < late; j++ {
			vrt.Point("body.late", w)
		}
	} else if w.doReturned > snap[1] {
		// a prioritized task began while this body was running: its context must get cancelled
		vrt.Recv(ctx.Done())
		if ctx.Err() == context.DeadlineExceeded && !w.sc.ShortTO {
			w.fail("body of invocation %d was running when a prioritized task began but was never cancelled (only its timeout ended it)", inv)
		}
		cancelled = true
	}
	vrt.Event("ghost", w, 0)
	w.alive[inv]--
	w.aliveTotal--
	w.log = append(w.log, fmt.Sprintf("end(inv%d#%d,cancelled=%v)", inv, inst, cancelled))
}

func scenario(sc scen) *vexp.Scenario {
	return &vexp.Scenario{
		Name:          sc.String(),
		LockDominance: true,
		StateCache:    true,
		MaxSteps:      5000,
		Observer:      observer,
		New: func() (func(), func(vrt.Result) (string, error)) {
			w := &world{sc: sc, alive: make([]int, sc.Bg), spawnSnap: map[int][2]int{}, returned: make([]bool, sc.Bg)}
			cur = w
			body := func() {
				w.mgr = task.NewBackgroundTaskManager(sc.Concurrency, period)
				n := len(sc.Prio) + sc.Bg
				done := make([]bool, n)
				for i, pairs := range sc.Prio {
					i, pairs := i, pairs
					vrt.GoNamed(fmt.Sprintf("prio%d", i), func() {
						for k := 0; k < pairs; k++ {
							w.mgr.DoPrioritizedTask()
							w.doReturned++
							vrt.Event("ghost", w, 0)
							w.log = append(w.log, "do")
							vrt.Point("prio.work", w)
							td := vrt.NowPeek().UnixNano()
							w.dones = append(w.dones, td)
							w.log = append(w.log, "done")
							w.mgr.DonePrioritizedTask()
						}
						done[i] = true
					})
				}
				for j := 0; j < sc.Bg; j++ {
					j := j
					vrt.GoNamed(fmt.Sprintf("bg%d", j), func() {
						to := 100 * time.Hour // never fires (see vctx.WithTimeout)
						if sc.ShortTO {
							to = time.Millisecond
						}
						w.mgr.InvokeBackgroundTask(func(ctx context.Context) { w.body(j, ctx) }, to)
						vrt.Event("ghost", w, 0)
						if w.alive[j] != 0 {
							w.fail("InvokeBackgroundTask %d returned while %d execution(s) of its body are still running", j, w.alive[j])
						}
						w.returned[j] = true
						w.log = append(w.log, fmt.Sprintf("returned(inv%d)", j))
						done[len(sc.Prio)+j] = true
					})
				}
				for i := range done {
					i := i
					for !done[i] {
						vrt.Block("join", func() bool { return done[i] })
					}
				}
			}
			check := func(res vrt.Result) (string, error) {
				if len(w.errs) > 0 {
					return "", fmt.Errorf("%s", strings.Join(w.errs, "; "))
				}
				for j, r := range w.returned {
					if !r {
						return "", fmt.Errorf("invocation %d never completed although prioritized work stopped", j)
					}
				}
				return strings.Join(w.log, ","), nil
			}
			return body, check
		},
	}
}

func scenarios(tier string) []scen {
	out := []scen{
		{Prio: []int{1}, Bg: 1, Concurrency: 1, Steps: 1},
		{Prio: []int{1}, Bg: 1, Concurrency: 1, Steps: 2},
		{Prio: []int{2}, Bg: 1, Concurrency: 1, Steps: 1},
		{Prio: []int{1, 1}, Bg: 1, Concurrency: 1, Steps: 1},
		{Prio: []int{1}, Bg: 2, Concurrency: 1, Steps: 1},
		{Prio: nil, Bg: 2, Concurrency: 1, Steps: 2},
		{Prio: nil, Bg: 2, Concurrency: 2, Steps: 1},
		{Prio: nil, Bg: 1, Concurrency: 1, Steps: 2, ShortTO: true},
		{Prio: nil, Bg: 2, Concurrency: 1, Steps: 1, ShortTO: true},
	}
	if tier == "thorough" {
		out = append(out,
			scen{Prio: []int{1}, Bg: 2, Concurrency: 2, Steps: 1},
			scen{Prio: []int{1, 1}, Bg: 2, Concurrency: 2, Steps: 1},
			scen{Prio: []int{2}, Bg: 2, Concurrency: 1, Steps: 2},
			scen{Prio: []int{1, 1}, Bg: 2, Concurrency: 1, Steps: 2},
			scen{Prio: []int{1}, Bg: 3, Concurrency: 2, Steps: 1},
		)
	}
	return out
}

func classify(msg string) string {
	switch {
	case strings.Contains(msg, "overlap"):
		return "self-overlap"
	case strings.Contains(msg, "returned while"):
		return "running-after-return"
	case strings.Contains(msg, "started while"):
		return "started-during-prioritized"
	case strings.Contains(msg, "alive at once"):
		return "concurrency-exceeded"
	case strings.Contains(msg, "never cancelled"):
		return "not-cancelled"
	case strings.Contains(msg, "never completed"), strings.Contains(msg, "deadlock"):
		return "never-completes"
	case strings.Contains(msg, "panic"):
		return "panic"
	}
	return "other"
}

func debugDet() {
	sc := scen{Prio: nil, Bg: 1, Concurrency: 1, Steps: 2, ShortTO: true}
	var first []string
	for k := 0; k < 40; k++ {
		_, _, t, b := vexp.Replay(scenario(sc), []int{1, 0, 0, 0, 1})
		if first == nil {
			first = t
			fmt.Println(len(t), b)
			continue
		}
		for i := 0; i < len(t) || i < len(first); i++ {
			if i >= len(t) || i >= len(first) || t[i] != first[i] {
				lo := i - 10
				if lo < 0 {
					lo = 0
				}
				for j := lo; j < i+6; j++ {
					a, c := "", ""
					if j < len(first) {
						a = first[j]
					}
					if j < len(t) {
						c = t[j]
					}
					fmt.Printf("%d: %-40s | %s\n", j, a, c)
				}
				return
			}
		}
	}
	fmt.Println("no difference")
}

func main() {
	if os.Getenv("C13_DEBUG") != "" {
		debugDet()
		return
	}
	runner.Main(runner.Check{
		RacePass: func(n int, scratch string) (int, []string) {
			total, ps := 0, []string(nil)
			for _, sc := range scenarios("quick") {
				d, p := vexp.RacePass(scenario(sc), n)
				total += d
				ps = append(ps, p...)
			}
			return total, ps
		},
		ID:          "C13",
		Level:       "model_checking",
		Rule:        "2-4 driver threads (prioritized Do/Done pairs, concurrent InvokeBackgroundTask callers) on the real BackgroundTaskManager under the cooperative scheduler; bodies are harness code that notice cancellation 0-2 steps late (environment deviations); silence period and context timeout on the virtual clock; all schedules within the preemption bound; non-trivial = distinct linearised event logs",
		Assumptions: []string{"sequential consistency at instrumented sync/atomic/channel operations", "start decision..spawn of the body is one atomic step (no sync operation in between in task.go; release operations are not scheduling points)", "x/sync/semaphore is a copy of the module-cache source instrumented with the same rules"},
		QuickBudget: 3 * time.Minute, ThoroughBudget: 30 * time.Minute,
		Parts: func(tier string) []runner.Part {
			scs := scenarios(tier)
			pb, db := 2, 1
			if tier == "thorough" {
				pb, db = 3, 2
			}
			const split = 3
			return []runner.Part{{Name: "sched", Shards: len(scs) * split, Run: func(c *runner.Ctx) *runner.Result {
				res := &runner.Result{Outcomes: map[string]int{}}
				sc := scs[c.Shard/split]
				st := vexp.Explore(scenario(sc), vexp.Options{PB: pb, DB: db, DetChecks: 20, Deadline: c.Deadline, Shard: c.Shard % split, Of: split, ShardLevel: 1})
				res.Evaluations, res.States, res.Transitions = st.Executions, int64(st.StateKeys), st.Transitions
				res.Nontrivial = int64(len(st.Outcomes))
				res.Outcomes[sc.String()+" distinct logs"] = len(st.Outcomes)
				if st.Broken != "" {
					res.Broken = sc.String() + ": " + st.Broken
					return res
				}
				if st.Capped {
					res.Caps = append(res.Caps, sc.String()+": "+st.CapReason)
				}
				seen := map[string]bool{}
				for _, v := range st.Violations {
					key := "C13/" + classify(v.Msg)
					if seen[key] {
						continue
					}
					seen[key] = true
					res.Violations = append(res.Violations, runner.Violation{Key: key,
						Msg:    fmt.Sprintf("%s\nchoices=%v\n%s\ntrace:\n  %s", sc.String(), v.Choices, v.Msg, strings.Join(v.Trace, "\n  ")),
						Replay: map[string]any{"scen": sc, "choices": v.Choices}})
				}
				if len(st.SampleTraces) > 0 {
					res.Samples = append(res.Samples, map[string]any{"scenario": sc.String(), "executions": st.Executions, "trace": st.SampleTraces[0]})
				}
				res.Extra = map[string]any{"preemption_bound_completed": pb, "deviation_bound_completed": db}
				return res
			}, Replay: func(c *runner.Ctx, raw json.RawMessage) (string, error) {
				var r struct {
					Scen    scen  `json:"scen"`
					Choices []int `json:"choices"`
				}
				if err := json.Unmarshal(raw, &r); err != nil {
					return "", err
				}
				out, err, trace, broken := vexp.Replay(scenario(r.Scen), r.Choices)
				if broken != "" {
					return "", fmt.Errorf("replay broken: %s", broken)
				}
				return strings.Join(trace, "\n") + "\n" + out, err
			}}}
		},
	})
}
