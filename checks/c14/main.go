// C14: prioritized files are laid out first, in order, ahead of a single landmark.
//
// Bounded-exhaustive input enumeration: every tar of up to N entries over a small entry
// alphabet x every prioritized list up to length L over a list alphabet x allow-not-found
// x chunking/worker settings. The oracle is a reference implementation of the layout
// contract (enumx.Layout) plus offset checks on the TOC read by the from-the-spec reader.
package main

import (
	"archive/tar"
	"bytes"
	"encoding/json"
	"fmt"
	"io"
	"os"
	"runtime"
	"runtime/debug"
	"sort"
	"strconv"
	"strings"
	"time"

	"github.com/containerd/stargz-snapshotter/estargz"

	"verif/lib/enumx"
	"verif/lib/runner"
)

const (
	tocName = "stargz.index.json"
	lmP     = ".prefetch.landmark"
	lmN     = ".no.prefetch.landmark"
)

type cfg struct {
	CS      int    `json:"cs"`
	Min     int    `json:"min"`
	Workers int    `json:"workers"`
	Via     string `json:"via"` // option (WithParallelism) | gomaxprocs
}

func (c cfg) String() string { b, _ := json.Marshal(c); return string(b) }

// min-chunk-size 64: consecutive chunks of one file share a compressed stream (a tar header alone
// compresses to ~90 bytes, so files never share); 256: several files share one stream.
// Three configuration sets: F(ull) = chunk {3,8} x (min 0 x workers 1,2,3; min 64 x 1; min 256 x 1,3)
// + GOMAXPROCS 2,3 (chunk 3, min 0); R(educed) = chunk 3 only, no GOMAXPROCS variants;
// M(inimal) = chunk 3 x {min 0 workers 1, min 0 workers 3, min 256}.
func cfgs(set byte) []cfg {
	var out []cfg
	if set == 'M' {
		return []cfg{{3, 0, 1, "option"}, {3, 0, 3, "option"}, {3, 256, 1, "option"}}
	}
	for _, cs := range []int{3, 8} {
		if set == 'R' && cs != 3 {
			continue
		}
		for _, min := range []int{0, 64, 256} {
			for w := 1; w <= 3; w++ {
				// documented: the worker count has no effect under min-chunk-size; 256 is run with 1 and 3 to see that
				if (min == 64 && w != 1) || (min == 256 && w == 2) {
					continue
				}
				out = append(out, cfg{cs, min, w, "option"})
			}
		}
	}
	// real OS-thread parallelism
	if set == 'F' {
		out = append(out, cfg{3, 0, 2, "gomaxprocs"}, cfg{3, 0, 3, "gomaxprocs"})
	}
	return out
}

// ---- alphabets ------------------------------------------------------------------------

var tarAlphabet = []enumx.Ent{
	{Name: "d/", Type: tar.TypeDir, Mode: 0o755},
	{Name: "d/f", Type: tar.TypeReg, Size: 9, Mode: 0o644},
	{Name: "a", Type: tar.TypeReg, Size: 4, Mode: 0o644},
	{Name: "h", Type: tar.TypeLink, Link: "d/f", Mode: 0o644},
	{Name: "e", Type: tar.TypeReg, Size: 0, Mode: 0o644},
	{Name: "./", Type: tar.TypeDir, Mode: 0o755},
	{Name: lmP, Type: tar.TypeReg, Size: 1, Mode: 0o644}, // pre-existing landmark in the input
}

// list alphabet: the file a in the four spellings, a nested file, a directory, the root,
// a hardlink, an empty file, a missing path. Duplicates arise from repetition.
var listAlphabet = []string{"a", "/a", "./a", "../a", "d/f", "d/", "/", "h", "e", "zz"}

func validShape(shape []int) bool {
	for i, s := range shape {
		if tarAlphabet[s].Type != tar.TypeLink {
			continue
		}
		before, after := false, false
		for j, t := range shape {
			if tarAlphabet[t].Name == tarAlphabet[s].Link {
				if j < i {
					before = true
				} else {
					after = true
				}
			}
		}
		if !before || after {
			return false
		}
	}
	return true
}

func entsOf(shape []int) []enumx.Ent {
	var out []enumx.Ent
	for _, s := range shape {
		out = append(out, tarAlphabet[s])
	}
	return out
}

// canonical: a list symbol that names no entry of this tar behaves as "a missing path";
// only "zz" is kept as the representative (the root always exists).
func canonicalList(names map[string]bool, list []int) bool {
	for _, l := range list {
		s := listAlphabet[l]
		if s == "zz" || s == "/" {
			continue
		}
		if !names[enumx.Clean(s)] {
			return false
		}
	}
	return true
}

// ---- one case ----------------------------------------------------------------------------

type failure struct{ class, msg string }

func fail(class, format string, a ...any) *failure { return &failure{class, fmt.Sprintf(format, a...)} }

type obs struct {
	class      string
	nontrivial bool
}

var curProcs = -1

func setProcs(n int) {
	if n != curProcs {
		runtime.GOMAXPROCS(n)
		curProcs = n
	}
}

func runCase(tarEnts []enumx.Ent, list []string, allow bool, c cfg) (o obs, f *failure) {
	defer func() {
		if r := recover(); r != nil {
			f = fail("panic", "panic: %v\n%s", r, debug.Stack())
		}
	}()
	tarBytes := enumx.BuildTar(tarEnts)
	input, err := enumx.ParseTar(tarBytes)
	if err != nil {
		return o, fail("harness", "generated tar does not parse: %v", err)
	}
	dedup := enumx.LastWins(enumx.Without(input, lmP, lmN, tocName))
	lead, rest, missing := enumx.Layout(dedup, list)
	landmark := lmP
	if len(list) == 0 {
		landmark = lmN
	}
	// a listed file that exists but has a parent directory without a tar entry
	have := map[string]bool{}
	for _, e := range dedup {
		have[enumx.Clean(e.Hdr.Name)] = true
	}
	// a file of the expected leading group (listed, or a link target of a listed hardlink) that has a
	// parent directory without a tar entry of its own
	orphan := ""
	for _, i := range lead {
		parts := strings.Split(enumx.Clean(dedup[i].Hdr.Name), "/")
		for k := 1; k < len(parts); k++ {
			if !have[strings.Join(parts[:k], "/")] {
				orphan = dedup[i].Hdr.Name
			}
		}
	}
	// both symptoms of that situation (abort, or reported as missed under allow-not-found) are one defect class
	cls := func(s string) string {
		if orphan != "" && (s == "error/unexpected" || s == "missing/report-differs") {
			return "parent-dir-without-entry/treated-as-not-found"
		}
		return s
	}

	// run the builder
	opts := []estargz.Option{estargz.WithChunkSize(c.CS), estargz.WithMinChunkSize(c.Min), estargz.WithCompressionLevel(1), estargz.WithPrioritizedFiles(list)}
	var missed []string
	if allow {
		opts = append(opts, estargz.WithAllowPrioritizeNotFound(&missed))
	}
	if c.Via == "option" {
		setProcs(1)
		opts = append(opts, estargz.WithParallelism(c.Workers))
	} else {
		setProcs(c.Workers)
	}
	blob, err := estargz.Build(io.NewSectionReader(bytes.NewReader(tarBytes), 0, int64(len(tarBytes))), opts...)
	setProcs(1)
	if err != nil {
		if len(missing) > 0 && !allow {
			if !strings.Contains(err.Error(), "not found") {
				return o, fail("error/other-than-not-found", "listed paths %q do not exist; Build failed with an unrelated error: %v", missing, err)
			}
			o.class = "aborted: listed path not found"
			return o, nil
		}
		return o, fail(cls("error/unexpected"), "Build failed: %v (paths missing by the reference: %q, allow-not-found=%v)", err, missing, allow)
	}
	raw, err := io.ReadAll(blob)
	blob.Close()
	if err != nil {
		return o, fail("error/read", "reading the blob: %v", err)
	}
	if len(missing) > 0 && !allow {
		return o, fail("missing/not-aborted", "listed paths %q do not exist and allow-not-found is off, but Build succeeded", missing)
	}
	if allow {
		a, b := uniq(missed), uniq(missing)
		if strings.Join(a, "\x00") != strings.Join(b, "\x00") {
			return o, fail(cls("missing/report-differs"), "allow-not-found reported %q, the paths that do not exist are %q", missed, missing)
		}
	}

	// entry order in the decompressed tar
	dec, err := enumx.DecompressAll(enumx.KindGzip, raw)
	if err != nil {
		return o, fail("decompress", "%v", err)
	}
	out, err := enumx.ParseTar(dec)
	if err != nil || len(out) == 0 || out[len(out)-1].Hdr.Name != tocName {
		return o, fail("untar", "decompressed blob: %v, entries %s", err, enumx.Describe(out))
	}
	out = out[:len(out)-1]
	var exp []enumx.Parsed
	for _, i := range lead {
		exp = append(exp, dedup[i])
	}
	exp = append(exp, enumx.Parsed{Hdr: &tar.Header{Name: landmark, Typeflag: tar.TypeReg, Size: 1}, Data: []byte{0xf}})
	for _, i := range rest {
		exp = append(exp, dedup[i])
	}
	desc := func() string {
		return fmt.Sprintf("output order %s, expected %s", enumx.Describe(out), enumx.Describe(exp))
	}
	nl, lmIdx := 0, -1
	for i, e := range out {
		if n := enumx.Clean(e.Hdr.Name); n == lmP || n == lmN {
			nl++
			lmIdx = i
		}
	}
	if nl != 1 {
		return o, fail("landmark/count", "%d landmark entries in the output; %s", nl, desc())
	}
	if h := out[lmIdx].Hdr; h.Name != landmark || h.Typeflag != tar.TypeReg || !bytes.Equal(out[lmIdx].Data, []byte{0xf}) {
		return o, fail("landmark/kind", "landmark is %q (type %c, content %x), must be %q with content 0f; %s", h.Name, h.Typeflag, out[lmIdx].Data, landmark, desc())
	}
	if ms := multiset(out); ms != multiset(exp) {
		return o, fail(cls("entries/lost-or-duplicated"), "the multiset of entries changed; %s", desc())
	}
	// a directory entry that is an ancestor of a file of the leading group must precede that file
	// (and hence the landmark), whatever else is wrong with the order
	pos := map[string]int{}
	for i, e := range out {
		pos[enumx.Clean(e.Hdr.Name)] = i
	}
	for _, li := range lead {
		n := enumx.Clean(dedup[li].Hdr.Name)
		parts := strings.Split(n, "/")
		for k := 1; k < len(parts); k++ {
			anc := strings.Join(parts[:k], "/")
			if ai, ok := pos[anc]; ok && have[anc] && ai > pos[n] {
				return o, fail("order/ancestor-directory-behind-prioritized-file", "directory %q has a tar entry and is an ancestor of the prioritized %q, but is laid out after it (entry %d vs %d; landmark is entry %d); %s", anc, n, ai, pos[n], lmIdx, desc())
			}
		}
	}
	if lmIdx != len(lead) {
		return o, fail(cls("order/leading-group"), "the landmark is entry %d, the leading group has %d entries; %s", lmIdx, len(lead), desc())
	}
	for i := range exp {
		if i == lmIdx {
			continue // checked above
		}
		if d := enumx.EntryDiff(out[i], exp[i]); d != "" {
			where := "order/leading-group"
			if i > lmIdx {
				where = "order/rest"
			}
			return o, fail(cls(where), "entry %d differs: %s; %s", i, d, desc())
		}
	}

	// offsets in the TOC
	b, err := enumx.ParseBlob(enumx.KindGzip, raw, nil)
	if err != nil {
		return o, fail("toc/parse", "%v", err)
	}
	files, err := b.Files()
	if err != nil {
		return o, fail("toc/read", "reading through the TOC: %v\nTOC: %s", err, compactTOC(b))
	}
	if len(files) != len(out) {
		return o, fail("toc/entries", "TOC lists %d files, tar has %d\nTOC: %s", len(files), len(out), compactTOC(b))
	}
	for i := range files {
		if d := enumx.FileVsTar(files[i], out[i]); d != "" {
			return o, fail("toc/vs-tar", "%s\nTOC: %s", d, compactTOC(b))
		}
	}
	lm := files[lmIdx].Entry
	if lm.InnerOffset != 0 || !b.IsStreamStart(lm.Offset) {
		return o, fail("landmark/not-at-stream-start", "the landmark has offset=%d innerOffset=%d: it does not start a compressed stream of its own, so the prefetch range [0,%d) is not the range of the leading group\nTOC: %s", lm.Offset, lm.InnerOffset, lm.Offset, compactTOC(b))
	}
	shared := false
	for i, fl := range files {
		if fl.Entry.Type != "reg" || fl.Entry.Size == 0 || i == lmIdx {
			continue
		}
		for _, ch := range fl.Chunks {
			if ch.InnerOffset > 0 {
				shared = true
			}
			if i < lmIdx && ch.Offset >= lm.Offset {
				return o, fail("offsets/leading-chunk-not-before-landmark", "chunk of prioritized %q at offset %d (chunkOffset %d) is not before the landmark offset %d\nTOC: %s", fl.Entry.Name, ch.Offset, ch.ChunkOffset, lm.Offset, compactTOC(b))
			}
			if i > lmIdx && ch.Offset < lm.Offset {
				return o, fail("offsets/other-chunk-before-landmark", "chunk of non-prioritized %q at offset %d (chunkOffset %d) lies before the landmark offset %d\nTOC: %s", fl.Entry.Name, ch.Offset, ch.ChunkOffset, lm.Offset, compactTOC(b))
			}
		}
	}

	// observation class
	moved := false
	for k, i := range lead {
		if i != k {
			moved = true
		}
	}
	o.nontrivial = moved && len(rest) > 0
	bk := func(n, max int) string {
		if n >= max {
			return fmt.Sprintf("%d+", max)
		}
		return strconv.Itoa(n)
	}
	o.class = fmt.Sprintf("built: landmark=%s lead=%s rest=%s reordered=%v missing-reported=%v shared-streams=%v", landmark, bk(len(lead), 3), bk(len(rest), 1), moved, len(missed) > 0, shared)
	return o, nil
}

func uniq(l []string) []string {
	m := map[string]bool{}
	var out []string
	for _, s := range l {
		if !m[s] {
			m[s] = true
			out = append(out, s)
		}
	}
	sort.Strings(out)
	return out
}

func multiset(es []enumx.Parsed) string {
	var s []string
	for _, e := range es {
		s = append(s, fmt.Sprintf("%s|%c|%s|%x", e.Hdr.Name, e.Hdr.Typeflag, e.Hdr.Linkname, e.Data))
	}
	sort.Strings(s)
	return strings.Join(s, "\n")
}

func compactTOC(b *enumx.Blob) string {
	var s []string
	for _, e := range b.TOC.Entries {
		switch {
		case e.Type == "reg" || e.Type == "chunk":
			s = append(s, fmt.Sprintf("{%s %s size=%d off=%d inner=%d chunkOff=%d chunkSize=%d}", e.Type, e.Name, e.Size, e.Offset, e.InnerOffset, e.ChunkOffset, e.ChunkSize))
		default:
			s = append(s, fmt.Sprintf("{%s %s}", e.Type, e.Name))
		}
	}
	var st []string
	for _, x := range b.Streams {
		st = append(st, fmt.Sprintf("%d+%d", x.Start, len(x.Data)))
	}
	return strings.Join(s, " ") + " streams(start+ulen)=" + strings.Join(st, ",")
}

// ---- part -----------------------------------------------------------------------------------

type replay struct {
	Ents  []enumx.Ent `json:"ents"`
	List  []string    `json:"list"`
	Allow bool        `json:"allow"`
	Cfg   cfg         `json:"cfg"`
}

// bounds per tier: rule[tar entries][list length] = configuration set (0 = not enumerated).
type bounds struct {
	maxTar int
	rule   map[int]string // tar length -> one set letter per list length 0,1,2,3 ('-' = not enumerated)
}

var tiers = map[string]bounds{
	"quick":    {maxTar: 4, rule: map[int]string{0: "FFF-", 1: "FFF-", 2: "FFF-", 3: "FFR-", 4: "MM--"}},
	"thorough": {maxTar: 4, rule: map[int]string{0: "FFFF", 1: "FFFF", 2: "FFFF", 3: "FFFF", 4: "FFR-"}},
}

// evalPair runs one (tar, list) input under both allow-not-found settings and every configuration of cs.
func evalPair(res *runner.Result, seen map[string]bool, es []enumx.Ent, list []string, cs []cfg) bool {
	for _, allow := range []bool{false, true} {
		for _, c := range cs {
			o, f := runCase(es, list, allow, c)
			res.Evaluations++
			res.Transitions += int64(len(list))
			if f != nil {
				if f.class == "harness" {
					res.Broken = f.msg
					return false
				}
				k := "C14/" + f.class
				res.Outcomes["VIOLATION "+k]++
				if !seen[k] {
					seen[k] = true
					r, m := minimize(replay{es, list, allow, c}, f)
					res.Violations = append(res.Violations, runner.Violation{Key: k,
						Msg:    fmt.Sprintf("input tar %s, prioritized %q, allow-not-found=%v, config %s\n%s", enumx.DescribeEnts(r.Ents), r.List, r.Allow, r.Cfg, m.msg),
						Replay: r})
				}
				continue
			}
			if o.nontrivial {
				res.Nontrivial++
			}
			res.Outcomes[o.class]++
			if len(res.Samples) < 2 && o.nontrivial && len(list) == 2 {
				res.Samples = append(res.Samples, map[string]any{"tar": enumx.DescribeEnts(es), "prioritized": list, "allow_not_found": allow, "config": c, "observation": o.class})
			}
		}
	}
	return true
}

func enumPart() runner.Part {
	return runner.Part{
		Name:   "enum",
		Shards: 16,
		Run: func(ctx *runner.Ctx) *runner.Result {
			os.Setenv("TMPDIR", ctx.Scratch)
			res := &runner.Result{Outcomes: map[string]int{}}
			bd := tiers[ctx.Tier]
			sets := map[byte][]cfg{'F': cfgs('F'), 'R': cfgs('R'), 'M': cfgs('M')}
			seen := map[string]bool{}
			idx := -1
			total, done, invalid := 0, 0, 0
			capped := false
			enumx.Sequences(len(tarAlphabet), bd.maxTar, func(shape []int) bool {
				if !validShape(shape) {
					invalid++
					return true
				}
				es := entsOf(shape)
				names := map[string]bool{}
				for _, e := range es {
					if e.Name != lmP {
						names[enumx.Clean(e.Name)] = true
					}
				}
				rule := bd.rule[len(shape)]
				ll := strings.LastIndexAny(rule, "FRM")
				enumx.Sequences(len(listAlphabet), ll, func(li []int) bool {
					if !canonicalList(names, li) {
						return true
					}
					cs := sets[rule[len(li)]]
					idx++
					if idx%ctx.Of != ctx.Shard {
						return true
					}
					total++
					if capped || time.Now().After(ctx.Deadline) {
						capped = true
						return true
					}
					done++
					res.States++ // distinct (tar, prioritized list) inputs
					list := []string{}
					for _, l := range li {
						list = append(list, listAlphabet[l])
					}
					if !evalPair(res, seen, es, list, cs) {
						return false
					}
					return true
				})
				return res.Broken == ""
			})
			if capped {
				res.Caps = append(res.Caps, fmt.Sprintf("time budget: %d of %d (tar, list) pairs of this shard evaluated", done, total))
			}
			res.Extra = map[string]any{"tar_alphabet": enumx.DescribeEnts(tarAlphabet), "list_alphabet": listAlphabet, "bounds(tar entries -> config set per list length 0..3)": bd.rule, "config_sets": map[string]int{"F": len(sets['F']), "R": len(sets['R']), "M": len(sets['M'])}, "invalid_shapes_skipped(dangling hardlink)": invalid}
			return res
		},
		Replay: replayFn,
	}
}

func replayFn(ctx *runner.Ctx, raw json.RawMessage) (string, error) {
	os.Setenv("TMPDIR", ctx.Scratch)
	var r replay
	if err := json.Unmarshal(raw, &r); err != nil {
		return "", err
	}
	o, f := runCase(r.Ents, r.List, r.Allow, r.Cfg)
	d := fmt.Sprintf("%s prioritized=%q allow=%v %s", enumx.DescribeEnts(r.Ents), r.List, r.Allow, r.Cfg)
	if f != nil {
		return d, fmt.Errorf("%s: %s", f.class, f.msg)
	}
	return d + "\n" + o.class, nil
}

// deepPart: two directory levels. Every ordering of every subset of {u/, u/l/, u/l/f, a, h=>u/l/f}
// (so with and without the intermediate and the top directory entry) x every list of length <= 2
// over the names present, config set M.
func deepPart() runner.Part {
	pool := []enumx.Ent{
		{Name: "u/", Type: tar.TypeDir, Mode: 0o755},
		{Name: "u/l/", Type: tar.TypeDir, Mode: 0o755},
		{Name: "u/l/f", Type: tar.TypeReg, Size: 9, Mode: 0o644},
		{Name: "a", Type: tar.TypeReg, Size: 4, Mode: 0o644},
		{Name: "h", Type: tar.TypeLink, Link: "u/l/f", Mode: 0o644},
	}
	return runner.Part{
		Name:   "deep",
		Shards: 8,
		Run: func(ctx *runner.Ctx) *runner.Result {
			os.Setenv("TMPDIR", ctx.Scratch)
			res := &runner.Result{Outcomes: map[string]int{}}
			seen := map[string]bool{}
			cs := cfgs('M')
			idx := -1
			enumx.Sequences(len(pool), len(pool), func(seq []int) bool {
				used := map[int]bool{}
				var es []enumx.Ent
				var names []string
				for _, x := range seq {
					if used[x] {
						return true
					}
					used[x] = true
					es = append(es, pool[x])
					names = append(names, pool[x].Name)
				}
				if !used[2] || !validEnts(es) {
					return true // the nested file is always present; no dangling hardlink
				}
				sort.Strings(names)
				enumx.Sequences(len(names), 2, func(li []int) bool {
					idx++
					if idx%ctx.Of != ctx.Shard {
						return true
					}
					if time.Now().After(ctx.Deadline) {
						res.Caps = []string{"time budget"}
						return false
					}
					list := []string{}
					for _, l := range li {
						list = append(list, names[l])
					}
					res.States++
					return evalPair(res, seen, es, list, cs)
				})
				return res.Broken == "" && len(res.Caps) == 0
			})
			res.Extra = map[string]any{"tar_pool(orderings of subsets containing u/l/f)": enumx.DescribeEnts(pool), "lists": "length <= 2 over the names present", "configs": len(cs)}
			return res
		},
		Replay: replayFn,
	}
}

func validEnts(es []enumx.Ent) bool {
	for i, e := range es {
		if e.Type != tar.TypeLink {
			continue
		}
		before, after := false, false
		for j, t := range es {
			if t.Name == e.Link {
				if j < i {
					before = true
				} else {
					after = true
				}
			}
		}
		if !before || after {
			return false
		}
	}
	return true
}

// minimize shrinks a failing case (fewer tar entries, shorter list, simplest configuration) while it
// keeps failing in the same class, so that the reported input is minimal whichever shard found it.
func minimize(r replay, f *failure) (replay, *failure) {
	try := func(c replay) bool {
		if !validEnts(c.Ents) {
			return false
		}
		_, g := runCase(c.Ents, c.List, c.Allow, c.Cfg)
		if g != nil && g.class == f.class {
			r, f = c, g
			return true
		}
		return false
	}
	for changed := true; changed; {
		changed = false
		for i := range r.Ents {
			c := r
			c.Ents = append(append([]enumx.Ent{}, r.Ents[:i]...), r.Ents[i+1:]...)
			if try(c) {
				changed = true
				break
			}
		}
		for i := range r.List {
			c := r
			c.List = append(append([]string{}, r.List[:i]...), r.List[i+1:]...)
			if try(c) {
				changed = true
				break
			}
		}
		if r.Allow {
			c := r
			c.Allow = false
			changed = try(c) || changed
		}
		for _, simple := range []cfg{{r.Cfg.CS, 0, 1, "option"}, {r.Cfg.CS, r.Cfg.Min, 1, "option"}, {8, r.Cfg.Min, r.Cfg.Workers, r.Cfg.Via}} {
			if simple != r.Cfg {
				c := r
				c.Cfg = simple
				if try(c) {
					changed = true
					break
				}
			}
		}
	}
	return r, f
}

func budget(d time.Duration) time.Duration {
	if v, err := strconv.Atoi(os.Getenv("C14_BUDGET_S")); err == nil && v > 0 {
		return time.Duration(v) * time.Second
	}
	return d
}

func main() {
	debug.SetMaxStack(64 << 20)
	runner.Main(runner.Check{
		ID:    "C14",
		Level: "exploration",
		Rule: "every tar of <= 3 entries over {dir d/, file d/f (9 bytes), file a (4), hardlink h=>d/f, empty file e, root entry ./, pre-existing .prefetch.landmark; repeats = duplicates} x every prioritized list of length <= 2 (thorough 3) over " +
			"{a, /a, ./a, ../a, d/f, d/, /, h, e, zz(missing)} (a symbol that names no entry of the tar is represented by zz only), and every tar of 4 entries x lists of length <= 1 (thorough 2), " +
			"x allow-not-found {off,on} x config set F = chunk size {3,8} x min-chunk-size {0,64,256} x workers {1,2,3} (WithParallelism; GOMAXPROCS 2,3 for chunk 3/min 0; workers 1 only under min 64, 1 and 3 under 256). " +
			"quick uses R (chunk 3 only) for 3-entry tars with 2-element lists and M (chunk 3 x {min 0 workers 1, min 0 workers 3, min 256}) for 4-entry tars; thorough uses R for 4-entry tars with 2-element lists. " +
			"Part deep (two directory levels): every ordering of every subset of {u/, u/l/, u/l/f, a, h=>u/l/f} containing u/l/f x every list of length <= 2 over the names present x allow-not-found x config set M. " +
			"Oracle: reference implementation of the layout contract + offsets of the TOC read by a from-the-spec reader. non-trivial = build where the leading group is not a prefix of the input order and other entries remain",
		Assumptions: []string{
			"archive/tar, compress/gzip and compress/flate are correct (they are the oracle)",
			"the input is a well-formed tar; a hardlink's target precedes it and is not replaced later",
			"a parent directory without a tar entry of its own has nothing to place (reference model reading of 'not-yet-placed parent directories')",
			"order inside one listed file's group: parent directories outermost first, then the hardlink target with its own prerequisites, then the file",
		},
		QuickBudget: budget(4 * time.Minute), ThoroughBudget: budget(30 * time.Minute),
		Parts: func(tier string) []runner.Part { return []runner.Part{deepPart(), enumPart()} },
	})
}
