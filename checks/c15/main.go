// C15: prefetch and background fetch make later reads local; waiting is bounded.
package main

import (
	"bytes"
	"encoding/json"
	"fmt"
	"io"
	"os"
	"strings"
	"time"

	"github.com/containerd/stargz-snapshotter/estargz/vrt"
	"github.com/containerd/stargz-snapshotter/fs/config"
	"github.com/containerd/stargz-snapshotter/fs/layer"
	"github.com/sirupsen/logrus"

	"verif/lib/memreg"
	"verif/lib/runner"
	"verif/lib/stack"
	"verif/lib/vexp"
)

var specs = []stack.LayerSpec{
	{Name: "landmark1", Files: []stack.File{{Path: "a", Size: 9}, {Path: "b", Size: 5}, {Path: "d/c", Size: 4}}, Prioritized: []string{"b"}, ChunkSize: 4},
	{Name: "landmark2", Files: []stack.File{{Path: "a", Size: 9}, {Path: "b", Size: 5}, {Path: "d/c", Size: 4}}, Prioritized: []string{"d/c", "a"}, ChunkSize: 4},
	{Name: "noprefetch", Files: []stack.File{{Path: "a", Size: 9}, {Path: "b", Size: 5}}, ChunkSize: 4},
	{Name: "nolandmark", Files: []stack.File{{Path: "a", Size: 9}, {Path: "b", Size: 5}}, ChunkSize: 4, NoLandmark: true},
	{Name: "tiny", Files: []stack.File{{Path: "a", Size: 3}}, Prioritized: []string{"a"}, ChunkSize: 4},
	{Name: "minchunk", Files: []stack.File{{Path: "a", Size: 9}, {Path: "b", Size: 5}, {Path: "c", Size: 2}}, Prioritized: []string{"b"}, ChunkSize: 4, MinChunk: 16},
}

var built []*stack.Built

func init() {
	logrus.SetOutput(io.Discard)
	for _, s := range specs {
		b, err := stack.Build(s)
		if err != nil {
			panic(err)
		}
		built = append(built, b)
	}
}

type cfgT struct {
	Layer        int   `json:"layer"`
	PrefetchSize int64 `json:"prefetch_size"`
	AsyncSize    int64 `json:"async_size"`
	PrefetchCh   int64 `json:"prefetch_chunk"`
	RegChunk     int64 `json:"registry_chunk"`
	FailAt       int   `json:"fail_at"`  // k-th request after resolution answered with a transport error (0 = none)
	StallAt      int   `json:"stall_at"` // k-th request after resolution never answers
}

func (c cfgT) String() string {
	return fmt.Sprintf("%s prefetch=%d async=%d pfchunk=%d regchunk=%d fail@%d stall@%d", specs[c.Layer].Name, c.PrefetchSize, c.AsyncSize, c.PrefetchCh, c.RegChunk, c.FailAt, c.StallAt)
}

type world struct {
	cfg    cfgT
	env    *stack.Env
	root   string
	b      *stack.Built
	l      layer.Layer
	base   int // requests made by resolution
	errs   []string
	stalls int
}

func (w *world) fail(f string, a ...any) { w.errs = append(w.errs, fmt.Sprintf(f, a...)) }

func newWorld(c cfgT, scratch string) (*world, error) {
	root, err := os.MkdirTemp(scratch, "c15-")
	if err != nil {
		return nil, err
	}
	w := &world{cfg: c, root: root, b: built[c.Layer]}
	cfg := config.Config{ResolveResultEntryTTLSec: 3600, NoPrometheus: true, PrefetchTimeoutSec: 10, PrefetchAsyncSize: c.AsyncSize,
		BlobConfig:           config.BlobConfig{ChunkSize: c.RegChunk, PrefetchChunkSize: c.PrefetchCh, ValidInterval: 1 << 30, MaxRetries: 1, MinWaitMSec: 1, MaxWaitMSec: 1},
		DirectoryCacheConfig: config.DirectoryCacheConfig{MaxLRUCacheEntry: 2, MaxCacheFds: 2, SyncAdd: true}}
	reg := memreg.New()
	reg.Script = func(r *memreg.Req) memreg.Action {
		if w.base > 0 && c.FailAt > 0 && r.N == w.base+c.FailAt {
			return memreg.Transient
		}
		if w.base > 0 && c.StallAt > 0 && r.N == w.base+c.StallAt {
			return memreg.Stall
		}
		return memreg.Perfect
	}
	reg.OnStall = func(r *memreg.Req) {
		w.stalls++
		vrt.Block("registry stalls forever", func() bool { return false })
	}
	w.env, err = stack.NewEnv(root, cfg, nil, reg)
	if err != nil {
		return nil, err
	}
	w.env.Add(w.b)
	return w, nil
}

func (w *world) resolve() bool {
	l, err := w.env.Resolve(w.b)
	if err != nil {
		w.fail("resolve failed: %v", err)
		return false
	}
	if err := l.Verify(w.b.TOCDigest); err != nil {
		w.fail("verify failed: %v", err)
		return false
	}
	w.l = l
	w.base = w.env.Reg.Count()
	return true
}

func (w *world) cleanup() { os.RemoveAll(w.root) }

func (w *world) readAll(paths []string, what string) {
	for _, p := range paths {
		got, err := layer.VerifReadFile(w.l, p)
		if err != nil {
			w.fail("%s: reading %s failed: %v", what, p, err)
		} else if !bytes.Equal(got, w.b.Content[p]) {
			w.fail("%s: reading %s returned wrong bytes %q want %q", what, p, got, w.b.Content[p])
		}
	}
}

func allPaths(b *stack.Built) []string { return vrt.SortedKeys(b.Content) }

// landmarkOffset finds the blob offset of the prefetch landmark (independent of the code under test:
// it is the TOC offset of the entry named .prefetch.landmark).
func tocOffsets(b *stack.Built) (map[string]int64, error) {
	return stack.TOCOffsets(b.Blob)
}

// sequential scenario under the scheduler with the default schedule.
func runSeq(c cfgT, scratch string) (outcome string, errs []string, broken string) {
	w, err := newWorld(c, scratch)
	if err != nil {
		return "", nil, err.Error()
	}
	defer w.cleanup()
	var out []string
	res := vrt.Run(vrt.Config{Chooser: func(vrt.ChoicePoint) int { return 0 }, KeepTimers: true, MaxSteps: 3000000}, func() {
		if !w.resolve() {
			return
		}
		spec := specs[c.Layer]
		offs, err := tocOffsets(w.b)
		if err != nil {
			vrt.Broken("toc offsets: %v", err)
		}
		perr := w.l.Prefetch(c.PrefetchSize)
		afterPrefetch := w.env.Reg.Count()
		if perr != nil {
			out = append(out, "prefetch=err")
			if c.FailAt == 0 {
				w.fail("Prefetch failed with a healthy registry: %v", perr)
			}
		} else {
			out = append(out, "prefetch=ok")
		}
		if werr := w.l.WaitForPrefetchCompletion(); werr != nil {
			out = append(out, "wait=err")
			w.fail("WaitForPrefetchCompletion after Prefetch returned reported %v", werr)
		}
		switch {
		case spec.Name == "noprefetch":
			if afterPrefetch != w.base {
				w.fail("layer with a no-prefetch landmark caused %d registry request(s) during Prefetch: %v", afterPrefetch-w.base, reqs(w.env.Reg, w.base))
			}
		case spec.NoLandmark:
			if perr == nil {
				want := c.PrefetchSize
				if want > int64(len(w.b.Blob)) {
					want = int64(len(w.b.Blob))
				}
				// everything in [0,want) must now be local: read it with the registry unreachable
				w.env.Reg.Down = true
				buf := make([]byte, want)
				n, err := w.l.ReadAt(buf, 0)
				w.env.Reg.Down = false
				if err != nil || int64(n) != want || !bytes.Equal(buf[:n], w.b.Blob[:want]) {
					w.fail("after Prefetch(%d) on a layer without landmarks the first %d blob bytes are not all local: n=%d err=%v", c.PrefetchSize, want, n, err)
				}
				// and nothing beyond the chunk-aligned cover was requested by Prefetch
				cover := ((want + c.RegChunk - 1) / c.RegChunk) * c.RegChunk
				for _, r := range w.env.Reg.Requests()[w.base:afterPrefetch] {
					for _, rg := range r.Ranges {
						if rg[0] >= cover && want > 0 {
							w.fail("Prefetch(%d) requested range %v beyond the chunk-aligned cover [0,%d)", c.PrefetchSize, rg, cover)
						}
						if want == 0 {
							w.fail("Prefetch(0) without landmarks requested range %v", rg)
						}
					}
				}
			}
		default:
			if perr == nil {
				before := w.env.Reg.Count()
				w.readAll(spec.Prioritized, "after prefetch completed")
				if n := w.env.Reg.Count() - before; n != 0 {
					w.fail("reading the prioritized files %v after Prefetch completed caused %d registry request(s): %v", spec.Prioritized, n, reqs(w.env.Reg, before))
				}
				// the landmark offset is the prefetch range
				if lo, ok := offs[".prefetch.landmark"]; ok {
					for _, p := range spec.Prioritized {
						if offs[p] >= lo {
							w.fail("internal: prioritized file %s is not before the landmark", p)
						}
					}
				}
			}
		}
		// background fetch
		if c.FailAt == 0 && c.StallAt == 0 {
			berr := w.l.BackgroundFetch()
			if berr != nil {
				out = append(out, "bgfetch=err")
				w.fail("BackgroundFetch failed with a healthy registry: %v", berr)
			} else {
				out = append(out, "bgfetch=ok")
				w.env.Reg.Down = true
				w.readAll(allPaths(w.b), "after background fetch completed, registry unreachable")
				w.env.Reg.Down = false
			}
		}
		w.l.Done()
	})
	if res.Broken != "" {
		return "", nil, res.Broken
	}
	if res.Failure != nil {
		w.errs = append(w.errs, res.Failure.Msg)
	}
	if res.Deadlock && c.StallAt == 0 {
		w.errs = append(w.errs, "deadlock: "+strings.Join(res.Blocked, "; "))
	}
	if res.Deadlock && c.StallAt > 0 {
		out = append(out, "stalled")
	}
	return strings.Join(out, ","), w.errs, ""
}

func reqs(g *memreg.Registry, from int) []string {
	var o []string
	for _, r := range g.Requests()[from:] {
		o = append(o, fmt.Sprintf("%s %v", r.Method, r.Ranges))
	}
	return o
}

func classify(msg string) string {
	switch {
	case strings.Contains(msg, "prioritized files"):
		return "prioritized-read-not-local"
	case strings.Contains(msg, "no-prefetch landmark"):
		return "noprefetch-traffic"
	case strings.Contains(msg, "not all local"):
		return "prefetch-size-not-fetched"
	case strings.Contains(msg, "beyond the chunk-aligned cover"), strings.Contains(msg, "Prefetch(0)"):
		return "prefetch-overfetch"
	case strings.Contains(msg, "registry unreachable"):
		return "not-readable-offline-after-bgfetch"
	case strings.Contains(msg, "WaitForPrefetchCompletion after Prefetch returned"):
		return "wait-not-released-when-prefetch-ended"
	case strings.Contains(msg, "wrong bytes"):
		return "wrong-bytes"
	case strings.Contains(msg, "never returned"), strings.Contains(msg, "deadlock"):
		return "wait-blocks-forever"
	case strings.Contains(msg, "healthy registry"):
		return "fails-with-healthy-registry"
	case strings.Contains(msg, "panic"):
		return "panic"
	}
	return "other"
}

func seqConfigs(tier string) []cfgT {
	var out []cfgT
	for li := range specs {
		blobLen := int64(len(built[li].Blob))
		for _, ps := range []int64{0, blobLen / 2, blobLen + 100} {
			for _, as := range []int64{0, 8} {
				for _, ch := range [][2]int64{{0, 4}, {8, 4}, {0, 64}} {
					base := cfgT{Layer: li, PrefetchSize: ps, AsyncSize: as, PrefetchCh: ch[0], RegChunk: ch[1]}
					out = append(out, base)
					if tier == "thorough" || (as == 0 && ch[1] == 4) {
						for k := 1; k <= 12; k++ {
							f := base
							f.FailAt = k
							out = append(out, f)
						}
					}
				}
			}
		}
	}
	return out
}

func seqPart(tier string) runner.Part {
	cfgs := seqConfigs(tier)
	return runner.Part{Name: "configs", Shards: 16, Run: func(c *runner.Ctx) *runner.Result {
		res := &runner.Result{Outcomes: map[string]int{}}
		keys := map[string]bool{}
		for i, cf := range cfgs {
			if i%c.Of != c.Shard {
				continue
			}
			if time.Now().After(c.Deadline) {
				res.Caps = append(res.Caps, "time budget")
				break
			}
			out, errs, broken := runSeq(cf, c.Scratch)
			res.Evaluations++
			res.Transitions += 4
			if broken != "" {
				res.Broken = cf.String() + ": " + broken
				return res
			}
			if len(errs) > 0 {
				k := "C15/configs/" + classify(errs[0]) + "/" + specs[cf.Layer].Name
				if !keys[k] {
					keys[k] = true
					res.Violations = append(res.Violations, runner.Violation{Key: k, Msg: cf.String() + ": " + strings.Join(errs, "; "), Replay: map[string]any{"cfg": cf}})
				}
				continue
			}
			res.Outcomes[out]++
			res.States++
			if cf.FailAt > 0 && strings.Contains(out, "prefetch=err") || cf.FailAt == 0 {
				res.Nontrivial++
			}
			if len(res.Samples) == 0 {
				res.Samples = append(res.Samples, map[string]any{"config": cf.String(), "outcome": out})
			}
		}
		return res
	}, Replay: func(c *runner.Ctx, raw json.RawMessage) (string, error) {
		var r struct {
			Cfg cfgT `json:"cfg"`
		}
		if err := json.Unmarshal(raw, &r); err != nil {
			return "", err
		}
		out, errs, broken := runSeq(r.Cfg, c.Scratch)
		if broken != "" {
			return "", fmt.Errorf("broken: %s", broken)
		}
		if len(errs) > 0 {
			return out, fmt.Errorf("%s", strings.Join(errs, "; "))
		}
		return out, nil
	}}
}

// ---- schedules: waiting is bounded --------------------------------------------------------

type concScen struct {
	Cfg     cfgT       `json:"cfg"`
	Threads [][]string `json:"threads"` // P prefetch, W wait, B background fetch, R read all
}

func (s concScen) String() string { return fmt.Sprintf("%s threads=%v", s.Cfg.String(), s.Threads) }

func concScenario(sc concScen, scratch string) *vexp.Scenario {
	return &vexp.Scenario{
		Name: sc.String(), LockDominance: true, StateCache: true, MaxSteps: 600000, DeadlockOK: true,
		New: func() (func(), func(vrt.Result) (string, error)) {
			var w *world
			waitDone := map[int]bool{}
			waiters := 0
			var probeErrs []string
			var outs []string
			body := func() {
				var err error
				w, err = newWorld(sc.Cfg, scratch)
				if err != nil {
					vrt.Broken("newWorld: %v", err)
				}
				ok := false
				vrt.Quiet(func() { ok = w.resolve(); vrt.Sleep(time.Millisecond); vrt.WaitIdle() })
				if !ok {
					return
				}
				outs = make([]string, len(sc.Threads))
				done := make([]bool, len(sc.Threads))
				for i, prog := range sc.Threads {
					i, prog := i, prog
					for _, op := range prog {
						if op == "W" {
							waiters++
						}
					}
					vrt.GoNamed(fmt.Sprintf("t%d", i), func() {
						var o []string
						for _, op := range prog {
							switch op {
							case "P":
								if err := w.l.Prefetch(sc.Cfg.PrefetchSize); err != nil {
									o = append(o, "P=err")
								} else {
									o = append(o, "P=ok")
								}
							case "W":
								err := w.l.WaitForPrefetchCompletion()
								waitDone[i] = true
								if err != nil {
									o = append(o, "W=timeout")
								} else {
									o = append(o, "W=ok")
								}
							case "B":
								if err := w.l.BackgroundFetch(); err != nil {
									o = append(o, "B=err")
								} else {
									o = append(o, "B=ok")
								}
							case "R":
								w.readAll(allPaths(w.b), "concurrent read")
							case "O":
								// offline probe right after this thread's BackgroundFetch returned nil: the promise must
								// hold at that moment, not only once some other caller's fetch has finished
								if len(o) > 0 && o[len(o)-1] == "B=ok" {
									vrt.Quiet(func() {
										w.env.Reg.Down = true
										for _, p := range allPaths(w.b) {
											got, err := layer.VerifReadFile(w.l, p)
											if err != nil || !bytes.Equal(got, w.b.Content[p]) {
												probeErrs = append(probeErrs, fmt.Sprintf("BackgroundFetch returned nil to this caller but %s cannot be read with the registry unreachable (err=%v): the fetch it should have waited for has not completed", p, err))
											}
										}
										w.env.Reg.Down = false
									})
								}
							}
						}
						outs[i] = strings.Join(o, ",")
						done[i] = true
					})
				}
				for i := range done {
					i := i
					for !done[i] {
						vrt.Block("join", func() bool { return done[i] })
					}
				}
				// every BackgroundFetch call that returned nil promises the layer is complete locally
				bgOK := false
				for _, o := range outs {
					if strings.Contains(o, "B=ok") {
						bgOK = true
					}
				}
				if bgOK && sc.Cfg.FailAt == 0 && sc.Cfg.StallAt == 0 {
					vrt.Quiet(func() {
						w.env.Reg.Down = true
						w.readAll(allPaths(w.b), "after a BackgroundFetch call returned nil, registry unreachable")
						w.env.Reg.Down = false
					})
				}
			}
			check := func(res vrt.Result) (string, error) {
				defer func() {
					if w != nil {
						w.cleanup()
					}
				}()
				if w != nil && len(w.errs) > 0 && sc.Cfg.FailAt == 0 && sc.Cfg.StallAt == 0 {
					return "", fmt.Errorf("%s", strings.Join(w.errs, "; "))
				}
				if len(probeErrs) > 0 {
					return "", fmt.Errorf("%s", strings.Join(probeErrs, "; "))
				}
				if len(waitDone) != waiters {
					return "", fmt.Errorf("WaitForPrefetchCompletion never returned (%d of %d waiters returned; blocked: %s)", len(waitDone), waiters, strings.Join(res.Blocked, "; "))
				}
				if res.Deadlock && sc.Cfg.StallAt == 0 {
					return "", fmt.Errorf("deadlock: %s", strings.Join(res.Blocked, "; "))
				}
				return strings.Join(outs, "|"), nil
			}
			return body, check
		},
	}
}

func concScens(tier string) []concScen {
	// the one-file layer "tiny" keeps executions short
	tiny := 0
	for i, sp := range specs {
		if sp.Name == "tiny" {
			tiny = i
		}
	}
	l1 := int64(len(built[tiny].Blob))
	base := cfgT{Layer: tiny, PrefetchSize: l1, PrefetchCh: 0, RegChunk: 512}
	var out []concScen
	out = append(out, concScen{Cfg: base, Threads: [][]string{{"P"}, {"W"}}})
	out = append(out, concScen{Cfg: base, Threads: [][]string{{"P"}, {"W"}, {"W"}}})
	out = append(out, concScen{Cfg: base, Threads: [][]string{{"P"}, {"P", "W"}}})
	out = append(out, concScen{Cfg: base, Threads: [][]string{{"W"}}}) // nobody prefetches: only the timeout ends the wait
	for k := 1; k <= 3; k++ {
		f := base
		f.FailAt = k
		out = append(out, concScen{Cfg: f, Threads: [][]string{{"P"}, {"W"}}})
		s := base
		s.StallAt = k
		out = append(out, concScen{Cfg: s, Threads: [][]string{{"P"}, {"W"}}})
	}
	as := base
	as.AsyncSize = 8
	out = append(out, concScen{Cfg: as, Threads: [][]string{{"P"}, {"W"}}})
	out = append(out, concScen{Cfg: base, Threads: [][]string{{"B"}, {"R"}}})
	out = append(out, concScen{Cfg: base, Threads: [][]string{{"B"}, {"B"}}})
	for k := 1; k <= 2; k++ {
		// the first caller's download stalls: a second caller must not be told the layer is complete
		st := base
		st.StallAt = k
		st.RegChunk = 32 // small registry chunks: the background fetch really has to ask the registry
		out = append(out, concScen{Cfg: st, Threads: [][]string{{"B", "O"}, {"B", "O"}}})
	}
	if tier == "thorough" {
		out = append(out, concScen{Cfg: base, Threads: [][]string{{"P", "B"}, {"W", "R"}}})
		np := cfgT{Layer: 3, PrefetchSize: 20, RegChunk: 4, PrefetchCh: 8}
		out = append(out, concScen{Cfg: np, Threads: [][]string{{"P"}, {"W"}}})
	}
	return out
}

func concPart(tier string) runner.Part {
	scs := concScens(tier)
	pb := 1
	if tier == "thorough" {
		pb = 2
	}
	return runner.Part{Name: "sched", Shards: len(scs), Run: func(c *runner.Ctx) *runner.Result {
		res := &runner.Result{Outcomes: map[string]int{}}
		sc := scs[c.Shard]
		st := vexp.Explore(concScenario(sc, c.Scratch), vexp.Options{PB: pb, FB: 2, DetChecks: 3, Deadline: c.Deadline})
		res.Evaluations, res.States, res.Transitions = st.Executions, int64(st.StateKeys), st.Transitions
		for o, n := range st.Outcomes {
			res.Outcomes[o] += n
		}
		res.Nontrivial = int64(len(st.Outcomes))
		if st.Broken != "" {
			res.Broken = sc.String() + ": " + st.Broken
			return res
		}
		if st.Capped {
			res.Caps = append(res.Caps, sc.String()+": "+st.CapReason)
		}
		keys := map[string]bool{}
		for _, v := range st.Violations {
			k := "C15/sched/" + classify(v.Msg)
			if keys[k] {
				continue
			}
			keys[k] = true
			res.Violations = append(res.Violations, runner.Violation{Key: k, Msg: fmt.Sprintf("%s\nchoices=%v\n%s", sc.String(), v.Choices, v.Msg), Replay: map[string]any{"scen": sc, "choices": v.Choices}})
		}
		if len(st.SampleTraces) > 0 {
			t := st.SampleTraces[0]
			if len(t) > 25 {
				t = t[:25]
			}
			res.Samples = append(res.Samples, map[string]any{"scenario": sc.String(), "executions": st.Executions, "trace_head": t})
		}
		res.Extra = map[string]any{"preemption_bound_completed": pb, "free_switch_bound": 2}
		return res
	}, Replay: func(c *runner.Ctx, raw json.RawMessage) (string, error) {
		var r struct {
			Scen    concScen `json:"scen"`
			Choices []int    `json:"choices"`
		}
		if err := json.Unmarshal(raw, &r); err != nil {
			return "", err
		}
		out, err, trace, broken := vexp.Replay(concScenario(r.Scen, c.Scratch), r.Choices)
		if broken != "" {
			return "", fmt.Errorf("replay broken: %s", broken)
		}
		return strings.Join(trace, "\n") + "\n" + out, err
	}}
}

func main() {
	if os.Getenv("C15_DEBUG") != "" {
		cfgs := seqConfigs("quick")
		n := 0
		fmt.Sscan(os.Getenv("C15_DEBUG"), &n)
		t0 := time.Now()
		out, errs, broken := runSeq(cfgs[n], "/dev/shm")
		fmt.Println(len(cfgs), cfgs[n].String(), "=>", out, errs, broken, time.Since(t0))
		return
	}
	runner.Main(runner.Check{
		RacePass: func(n int, scratch string) (int, []string) {
			total, ps := 0, []string(nil)
			for _, sc := range concScens("quick") {
				if sc.Cfg.StallAt > 0 {
					continue
				}
				d, p := vexp.RacePass(concScenario(sc, scratch), n)
				total += d
				ps = append(ps, p...)
			}
			return total, ps
		},
		ID:          "C15",
		Level:       "model_checking",
		Rule:        "configs: 5 built layers (landmark with 1/2 prioritized files, no-prefetch landmark, no landmark, min-chunk shared streams) x prefetch size x async threshold x prefetch-chunk/registry-chunk x failure of the k-th registry request for every k, each run on the real layer stack over an in-memory registry with the request log as observation; sched: concurrent Prefetch / WaitForPrefetchCompletion / BackgroundFetch / reads with failures and stalls under the cooperative scheduler with virtual time; non-trivial = configurations whose outcome is decided by the fault or schedule",
		Assumptions: []string{"lib/memreg replaces the network; request log = registry traffic", "reads go through the layer's reader, not FUSE nodes", "virtual time for the prefetch timeout", "a stalled request never answers (its thread stays parked); only the waiters are required to return"},
		QuickBudget: 4 * time.Minute, ThoroughBudget: 40 * time.Minute,
		Parts: func(tier string) []runner.Part {
			return []runner.Part{seqPart(tier), concPart(tier)}
		},
	})
}
