package main

// Cross-worker visited set of the breadth-first search.
//
// The runner executes every shard of a part in its own process. To deduplicate
// canonical states across those processes the master creates, per BFS part, one
// sparse file on tmpfs, unlinks it at once (so nothing is ever left behind: the
// kernel frees it when the master exits) and publishes its descriptor number in
// the environment; a worker re-opens it through /proc/<master pid>/fd/<n> and
// maps it. The file is an open-addressing hash table of 64-bit words
// (56-bit state hash, 8-bit depth) updated with compare-and-swap.
//
// claim(canon, depth) answers "must the caller expand this state?": yes iff no
// process has claimed the same state at a depth <= depth before. A state reached
// first on a longer path and later on a shorter one is expanded again, so every
// state is expanded at its minimal depth by some worker and the exploration is
// exhaustive up to the depth bound no matter how the workers interleave.
// Without the environment variable (replay, direct invocation) the table is private.

import (
	"crypto/sha256"
	"encoding/binary"
	"fmt"
	"os"
	"strconv"
	"sync/atomic"
	"syscall"
	"unsafe"
)

const claimSlots = 1 << 22 // 32 MiB sparse; ~4M states

type claimTable struct {
	words []uint64
	mem   []byte
}

func claimEnv(part string) string { return "C16_CLAIMS_" + part }

// setupClaims is called in the master before runner.Main.
func setupClaims(parts []string) {
	for _, p := range parts {
		f, err := os.CreateTemp("/dev/shm", "verif-c16-claims-")
		if err != nil {
			continue // workers fall back to private tables
		}
		os.Remove(f.Name())
		if err := f.Truncate(claimSlots * 8); err != nil {
			f.Close()
			continue
		}
		// keep f open for the life of the master (never closed on purpose)
		os.Setenv(claimEnv(p), fmt.Sprintf("%d:%d", os.Getpid(), f.Fd()))
		keepOpen = append(keepOpen, f)
	}
}

var keepOpen []*os.File

func openClaims(part string) *claimTable {
	t := &claimTable{}
	if v := os.Getenv(claimEnv(part)); v != "" {
		var pid, fd int
		if _, err := fmt.Sscanf(v, "%d:%d", &pid, &fd); err == nil && pid == os.Getppid() {
			if f, err := os.OpenFile("/proc/"+strconv.Itoa(pid)+"/fd/"+strconv.Itoa(fd), os.O_RDWR, 0); err == nil {
				mem, err := syscall.Mmap(int(f.Fd()), 0, claimSlots*8, syscall.PROT_READ|syscall.PROT_WRITE, syscall.MAP_SHARED)
				f.Close()
				if err == nil {
					t.mem = mem
					t.words = unsafe.Slice((*uint64)(unsafe.Pointer(&mem[0])), claimSlots)
					return t
				}
			}
		}
	}
	t.words = make([]uint64, claimSlots)
	return t
}

func (t *claimTable) shared() bool { return t.mem != nil }

// claim returns (expand, firstEver): expand = no claim of this state at depth <= d
// existed (the caller now owns the expansion at depth d); firstEver = the state had
// never been claimed at any depth (count it as a new distinct state).
func (t *claimTable) claim(canon string, d int) (expand, firstEver bool) {
	sum := sha256.Sum256([]byte(canon))
	h := binary.LittleEndian.Uint64(sum[:8]) >> 8
	if h == 0 {
		h = 1
	}
	want := h<<8 | uint64(d&0xff)
	for i := uint64(0); i < claimSlots; i++ {
		p := &t.words[(h+i)%claimSlots]
		for {
			v := atomic.LoadUint64(p)
			if v == 0 {
				if atomic.CompareAndSwapUint64(p, 0, want) {
					return true, true
				}
				continue
			}
			if v>>8 != h {
				break // other state: next slot
			}
			if int(v&0xff) <= d {
				return false, false
			}
			if atomic.CompareAndSwapUint64(p, v, want) {
				return true, false
			}
		}
	}
	panic("claim table full")
}
