package main

// Concurrent part of C16: several clients race on the real LayerManager under the
// cooperative scheduler (store/manager.go and util/namedmutex instrumented: every
// mutex operation, channel operation, select and goroutine start in them is a
// scheduling point; everything else - fs/layer, the registry client, the in-memory
// registry - runs atomically between two such points). Client operations are the
// unexported LayerManager methods composed the way the FUSE handlers compose them:
// lookup = getLayer + Verify, use, release.

import (
	"context"
	"encoding/json"
	"fmt"
	"os"
	"sort"
	"strconv"
	"strings"

	"github.com/containerd/stargz-snapshotter/estargz/vrt"
	"github.com/containerd/stargz-snapshotter/fs/layer"
	"github.com/containerd/stargz-snapshotter/store"

	"verif/lib/runner"
	"verif/lib/vexp"
)

type concScen struct {
	Name    string     `json:"name"`
	Pre     []string   `json:"pre"`     // sequential set-up (default schedule, not explored)
	Threads [][]string `json:"threads"` // one program per client
	Fault   *fault     `json:"fault,omitempty"`
	PB      int        `json:"pb,omitempty"` // overrides of the tier's bounds (0 = tier default)
	FB      int        `json:"fb,omitempty"`
}

func concScens(tier string) []concScen {
	f := strings.Fields
	t := func(p ...string) [][]string {
		var o [][]string
		for _, x := range p {
			o = append(o, f(x))
		}
		return o
	}
	scs := []concScen{
		{Name: "release(last use of A) || use(A);lookup(A)", Pre: f("D1A U1A"), Threads: t("R1A", "U1A D1A")},
		{Name: "release(last use of A) || lookup(A)", Pre: f("D1A U1A"), Threads: t("R1A", "D1A")},
		{Name: "release(last use of A) || lookup(S)", Pre: f("D1A U1A"), Threads: t("R1A", "D1S")},
		{Name: "release(last use of A) || use(S);lookup(S)", Pre: f("D1A U1A"), Threads: t("R1A", "U1S D1S")},
		{Name: "release(A) || release(S) (last uses of the image)", Pre: f("D1A U1A U1S"), Threads: t("R1A", "R1S")},
		{Name: "release(one of two uses of A) || release(the other)", Pre: f("D1A U1A U1A"), Threads: t("R1A", "R1A")},
		{Name: "lookup(A) || lookup(A), image unresolved", Threads: t("D1A", "D1A")},
		{Name: "lookup(A) || lookup(S), image unresolved", Threads: t("D1A", "D1S")},
		{Name: "use(A);lookup(A) || use(A);lookup(A), image unresolved", Threads: t("U1A D1A", "U1A D1A")},
		{Name: "lookup(A) || lookup(foreign digest), image unresolved", Threads: t("D1A", "D1C")},
		{Name: "lookup(A), blob of S fails", Threads: t("D1A"), Fault: &fault{Target: "blob:1:S", Nth: 1, Action: "transient"}},
		{Name: "lookup(S), blob of A answers 500", Threads: t("D1S"), Fault: &fault{Target: "blob:1:A", Nth: 1, Action: "500"}},
		{Name: "lookup(A) || lookup(S), blob of S fails", Threads: t("D1A", "D1S"), Fault: &fault{Target: "blob:1:S", Nth: 1, Action: "transient"}},
	}
	// two clients that both resolve the image have 6+ threads: tighter bounds keep them finite in the budget
	bigPB, bigFB := 1, 1
	if tier == "thorough" {
		bigPB, bigFB = 2, 1
	}
	for i := range scs {
		if len(scs[i].Pre) == 0 && len(scs[i].Threads) > 1 {
			scs[i].PB, scs[i].FB = bigPB, bigFB
		}
	}
	if tier == "thorough" {
		scs = append(scs,
			concScen{Name: "release(last use of A) || use(A);lookup(A) || lookup(S)", Pre: f("D1A U1A"), Threads: t("R1A", "U1A D1A", "D1S")},
			concScen{Name: "release(last use of A) || use(A);lookup(A);release(A)", Pre: f("D1A U1A"), Threads: t("R1A", "U1A D1A R1A")},
			concScen{Name: "use(A);lookup(A);release(A) || use(A);lookup(A);release(A)", Pre: f("D1A"), Threads: t("U1A D1A R1A", "U1A D1A R1A")},
			concScen{Name: "img1: use(S);lookup(S) || img2: use(S);lookup(S);release(S)", Threads: t("U1S D1S", "U2S D2S R2S"), PB: 2, FB: 1},
			concScen{Name: "lookup(A) || lookup(A) || lookup(S), image unresolved", Threads: t("D1A", "D1A", "D1S"), PB: 1, FB: 1},
		)
	}
	return scs
}

type lookupRec struct {
	o         op
	thread    int
	ok        bool
	errClass  string
	l         layer.Layer
	protected bool // the same client holds a use of this layer at the time of the lookup
}

func concScenario(fx *fixture, sc concScen, scratch string) *vexp.Scenario {
	return &vexp.Scenario{
		Name: sc.Name, LockDominance: true, StateCache: true, MaxSteps: 100000, DeadlockOK: true, KeepTimers: true,
		New: func() (func(), func(vrt.Result) (string, error)) {
			var errs []string
			var outs []string
			var final string
			var w *inst
			bad := func(f string, a ...any) { errs = append(errs, fmt.Sprintf(f, a...)) }
			body := func() {
				ctx := context.Background()
				var err error
				var initial map[string]int
				vrt.Quiet(func() {
					w, err = newInst(fx, "api", scratch, nil)
					if err != nil {
						return
					}
					pre, perr := parseHist(sc.Pre)
					if perr != nil {
						err = perr
						return
					}
					for _, o := range pre {
						ob, cerr := w.step(o)
						vrt.WaitIdle()
						if cerr != "" || ((o.K == 'D' || o.K == 'B') && !ob.OK) {
							err = fmt.Errorf("set-up %s: %s %s", o, ob.Status, cerr)
							return
						}
					}
					w.st.Spy()
					initial = copyUses(w.uses)
					w.flt = sc.Fault // armed from here on
				})
				if err != nil {
					vrt.Broken("set-up: %v", err)
				}
				progs := make([][]op, len(sc.Threads))
				for i, p := range sc.Threads {
					if progs[i], err = parseHist(p); err != nil {
						vrt.Broken("%v", err)
					}
				}
				// reference model: the final counts do not depend on the interleaving as long as no
				// release can meet a zero count; scenarios are built that way (checked here)
				model := copyUses(initial)
				for _, p := range progs {
					for _, o := range p {
						switch o.K {
						case 'U':
							model[o.key()]++
						case 'R':
							model[o.key()]--
						}
					}
				}
				for k, n := range initial {
					rel := 0
					for _, p := range progs {
						held := 0
						for _, o := range p {
							if o.key() != k {
								continue
							}
							if o.K == 'U' {
								held++
							} else if o.K == 'R' {
								if held > 0 {
									held--
								} else {
									rel++
								}
							}
						}
					}
					if rel > n {
						vrt.Broken("scenario %q can release <%s> below zero", sc.Name, k)
					}
				}
				var recs []*lookupRec
				outs = make([]string, len(progs))
				done := make([]bool, len(progs))
				for i, prog := range progs {
					i, prog := i, prog
					vrt.GoNamed(fmt.Sprintf("client%d", i), func() {
						var o []string
						held := map[string]int{}
						for _, x := range prog {
							im := fx.images[x.Img-1]
							toc := fx.tocOf(x.Toc)
							switch x.K {
							case 'U':
								w.st.Use(im.Spec, toc)
								held[x.key()]++
								o = append(o, x.String())
							case 'R':
								_, err := w.st.Release(ctx, im.Spec, toc)
								held[x.key()]--
								if err != nil {
									bad("%s by client %d failed although the layer had an outstanding use: %v", x, i, err)
									o = append(o, x.String()+"!"+errClass(err))
								} else {
									o = append(o, x.String())
								}
							case 'D':
								rec := &lookupRec{o: x, thread: i, protected: held[x.key()] > 0}
								l, err := w.st.GetLayer(ctx, im.Spec, toc)
								if err == nil {
									err = l.Verify(toc)
								}
								if err != nil {
									rec.errClass = errClass(err)
									o = append(o, x.String()+"!"+rec.errClass)
								} else {
									rec.ok, rec.l = true, l
									o = append(o, x.String())
								}
								recs = append(recs, rec)
							}
						}
						outs[i] = strings.Join(o, ";")
						done[i] = true
					})
				}
				for i := range done {
					i := i
					for !done[i] {
						vrt.Block("join", func() bool { return done[i] })
					}
				}
				vrt.WaitIdle()
				vrt.Quiet(func() {
					concOracle(fx, sc, w, recs, model, bad)
					final = w.render(w.st.Snapshot(), false)
				})
			}
			check := func(r vrt.Result) (string, error) {
				if w != nil {
					w.close()
				}
				if len(errs) > 0 {
					return "", fmt.Errorf("%s", strings.Join(errs, "; "))
				}
				return strings.Join(outs, " | ") + " => " + final, nil
			}
			return body, check
		},
	}
}

// concOracle runs at quiescence, single-threaded.
func concOracle(fx *fixture, sc concScen, w *inst, recs []*lookupRec, model map[string]int, bad func(string, ...any)) {
	ctx := context.Background()
	for k, n := range model {
		if n == 0 {
			delete(model, k)
		}
	}
	// (1) lookup succeeds <=> the image has a layer with that verified TOC digest
	for _, r := range recs {
		want := fx.layerOf(r.o.Img, r.o.Toc)
		switch {
		case r.ok && want == nil:
			bad("%s by client %d succeeded although the image has no layer with that TOC digest", r.o, r.thread)
		case !r.ok && want != nil && sc.Fault == nil:
			bad("%s by client %d failed (%s) although layer %s of the image has exactly this verified TOC digest and the registry is healthy", r.o, r.thread, r.errClass, want.Name)
		case !r.ok && want != nil && sc.Fault != nil && w.fired:
			own := fmt.Sprintf("blob:%d:%s", r.o.Img, want.Name)
			if strings.HasPrefix(sc.Fault.Target, "blob:") && sc.Fault.Target != own {
				bad("%s by client %d failed (%s) although the wanted layer %s resolved without any error: the only failing registry request (%s) concerned ANOTHER layer of the image", r.o, r.thread, r.errClass, want.Name, sc.Fault)
			}
		}
	}
	// (2) use counts equal the reference model
	sn := w.st.Snapshot()
	impl := map[string]int{}
	for ref, m := range sn.Refcounter {
		for t, n := range m {
			kk := w.symRef(ref) + w.symToc(t)
			impl[kk] = n
			if n <= 0 {
				bad("at quiescence the counter table has <img%s>/<toc %s> with count %d", kk[:1], kk[1:], n)
			}
		}
		if len(m) == 0 {
			bad("at quiescence the counter table has an empty entry for image %s", w.symRef(ref))
		}
	}
	var mk []string
	for k := range model {
		mk = append(mk, k)
	}
	sort.Strings(mk)
	for _, k := range mk {
		if impl[k] != model[k] {
			bad("at quiescence the implementation counts %d uses of <img%s>/<toc %s>, %d are outstanding", impl[k], k[:1], k[1:], model[k])
		}
	}
	for k, n := range impl {
		if n > 0 && model[k] == 0 {
			bad("at quiescence the implementation counts %d uses of <img%s>/<toc %s>, none is outstanding", n, k[:1], k[1:])
		}
	}
	// (3) a layer with outstanding uses is never released: what a client that holds a use got from its
	// lookup is still the live object of the layer table
	for _, r := range recs {
		if !r.ok || !r.protected || model[r.o.key()] == 0 {
			continue
		}
		im := fx.images[r.o.Img-1]
		cur := w.st.CachedLayer(im.Spec, fx.tocOf(r.o.Toc))
		if n, spied := store.VerifDones(r.l); spied && n > 0 {
			bad("layer released while in use: client %d did use + lookup of <img%d>/<toc %s> and still holds its use, but the layer object it got was released (Done x%d) by the concurrent release", r.thread, r.o.Img, r.o.Toc, n)
		} else if cur == nil {
			bad("layer released while in use: client %d did use + lookup of <img%d>/<toc %s> and still holds its use, but the layer is no longer in the layer table", r.thread, r.o.Img, r.o.Toc)
		} else if store.VerifUnwrap(cur) != store.VerifUnwrap(r.l) {
			bad("client %d holds a use of <img%d>/<toc %s> but the layer object its lookup returned is not the one in the layer table", r.thread, r.o.Img, r.o.Toc)
		}
		if err := r.l.Check(); err != nil {
			bad("layer released while in use: the layer client %d got for <img%d>/<toc %s> fails Check(): %v", r.thread, r.o.Img, r.o.Toc, err)
		}
	}
	for _, sp := range w.st.Spies() {
		parts := strings.SplitN(sp.Key, "|", 2)
		kk := w.symRef(parts[0]) + w.symToc(parts[1])
		if sp.Dones > 1 {
			bad("the layer object #%d of <img%s>/<toc %s> was released (Done) %d times", sp.Serial, kk[:1], kk[1:], sp.Dones)
		}
		if sp.Dones > 0 && sp.Cached {
			bad("the layer object #%d of <img%s>/<toc %s> was released (Done) but is still handed out by the layer table", sp.Serial, kk[:1], kk[1:])
		}
	}
	// (4) afterwards every outstanding use can be released, the released layers are dropped and a
	// fresh lookup resolves them again
	for _, k := range mk {
		im := fx.images[int(k[0]-'0')-1]
		toc := fx.tocOf(k[1:])
		resolved := w.st.CachedLayer(im.Spec, toc) != nil
		for n := model[k]; n > 0; n-- {
			got, err := w.st.Release(ctx, im.Spec, toc)
			if err != nil && (resolved || n > 1) {
				bad("release of an outstanding use fails afterwards: release of <img%s>/<toc %s> (%d use(s) outstanding) returns %v", k[:1], k[1:], n, err)
				break
			} else if err == nil && got != n-1 {
				bad("release of <img%s>/<toc %s> with %d use(s) outstanding returned count %d", k[:1], k[1:], n, got)
			}
		}
		if w.st.CachedLayer(im.Spec, toc) != nil {
			bad("after the last use of <img%s>/<toc %s> was released the layer is still in the layer table", k[:1], k[1:])
		}
	}
	sn = w.st.Snapshot()
	if len(sn.Refcounter) != 0 || len(sn.PoolRefs) != 0 {
		bad("after every use was released the counter tables are not empty: %v / %v", sn.Refcounter, sn.PoolRefs)
	}
	if sc.Fault == nil {
		seen := map[string]bool{}
		for _, r := range recs {
			if fx.layerOf(r.o.Img, r.o.Toc) == nil || seen[r.o.key()] {
				continue
			}
			seen[r.o.key()] = true
			im := fx.images[r.o.Img-1]
			l, err := w.st.GetLayer(ctx, im.Spec, fx.tocOf(r.o.Toc))
			if err == nil {
				err = l.Verify(fx.tocOf(r.o.Toc))
			}
			vrt.WaitIdle()
			if err != nil {
				bad("a fresh lookup of <img%d>/<toc %s> after the race fails: %v", r.o.Img, r.o.Toc, err)
			}
		}
	}
}

func classifyConc(msg string) string {
	switch {
	case strings.Contains(msg, "layer released while in use"):
		return "layer-released-while-in-use"
	case strings.Contains(msg, "ANOTHER layer"):
		return "lookup-fails-because-another-layer-failed"
	case strings.Contains(msg, "release of an outstanding use fails"), strings.Contains(msg, "had an outstanding use"):
		return "release-of-used-layer-fails"
	case strings.Contains(msg, "has no layer with that TOC"):
		return "invalid-toc-succeeds"
	case strings.Contains(msg, "registry is healthy"):
		return "valid-toc-fails"
	case strings.Contains(msg, "fresh lookup"):
		return "lookup-after-race-fails"
	case strings.Contains(msg, "implementation counts"), strings.Contains(msg, "counter table"), strings.Contains(msg, "returned count"):
		return "count-mismatch"
	case strings.Contains(msg, "(Done)"), strings.Contains(msg, "not the one in the layer table"), strings.Contains(msg, "still in the layer table"):
		return "layer-lifecycle"
	case strings.Contains(msg, "deadlock"):
		return "deadlock"
	case strings.Contains(msg, "panic"):
		return "panic"
	}
	return "other"
}

func concParts(tier string) []runner.Part {
	scs := concScens(tier)
	pb, fb := 2, 2
	if tier == "thorough" {
		pb, fb = 3, 3
	}
	return []runner.Part{{Name: "conc", Shards: len(scs), Run: func(c *runner.Ctx) *runner.Result {
		res := &runner.Result{Outcomes: map[string]int{}}
		fx, err := buildFixture()
		if err != nil {
			res.Broken = "fixture: " + err.Error()
			return res
		}
		sc := scs[c.Shard]
		pb, fb := pb, fb
		if sc.PB != 0 {
			pb = sc.PB
		}
		if sc.FB != 0 {
			fb = sc.FB
		}
		if v, err := strconv.Atoi(os.Getenv("C16_PB")); err == nil {
			pb = v
		}
		if v, err := strconv.Atoi(os.Getenv("C16_FB")); err == nil {
			fb = v
		}
		st := vexp.Explore(concScenario(fx, sc, c.Scratch), vexp.Options{PB: pb, FB: fb, DetChecks: 2, Deadline: c.Deadline})
		res.Evaluations, res.States, res.Transitions = st.Executions, int64(st.StateKeys), st.Transitions
		for o, n := range st.Outcomes {
			res.Outcomes[sc.Name+": "+o] += n
		}
		res.Nontrivial = int64(st.TraceHashes)
		if st.Broken != "" {
			res.Broken = sc.Name + ": " + st.Broken
			return res
		}
		if st.Capped {
			res.Caps = append(res.Caps, sc.Name+": "+st.CapReason)
		}
		seen := map[string]bool{}
		for _, v := range st.Violations {
			for _, part := range strings.Split(v.Msg, "; ") {
				k := "C16/conc/" + classifyConc(part)
				if seen[k] {
					continue
				}
				seen[k] = true
				res.Violations = append(res.Violations, runner.Violation{Key: k,
					Msg:    fmt.Sprintf("%s\nscenario: set-up [%s], clients %v, registry fault: %s\nschedule choices=%v\nall findings of this execution: %s\ntrace:\n  %s", part, strings.Join(sc.Pre, " "), sc.Threads, sc.Fault, v.Choices, v.Msg, strings.Join(tail(v.Trace, 60), "\n  ")),
					Replay: map[string]any{"scen": sc, "choices": v.Choices}})
			}
		}
		if len(st.SampleTraces) > 0 {
			res.Samples = append(res.Samples, map[string]any{"scenario": sc.Name, "executions": st.Executions, "outcomes": len(st.Outcomes), "trace_head": head(st.SampleTraces[0], 25)})
		}
		res.Extra = map[string]any{"preemption_bound_completed": pb, "free_switch_bound": fb, "scenarios": len(scs)}
		res.Outcomes[fmt.Sprintf("%s: bounds pb=%d fb=%d", sc.Name, pb, fb)] = 1
		return res
	}, Replay: func(c *runner.Ctx, raw json.RawMessage) (string, error) {
		var r struct {
			Scen    concScen `json:"scen"`
			Choices []int    `json:"choices"`
		}
		if err := json.Unmarshal(raw, &r); err != nil {
			return "", err
		}
		fx, err := buildFixture()
		if err != nil {
			return "", err
		}
		out, err, trace, broken := vexp.Replay(concScenario(fx, r.Scen, c.Scratch), r.Choices)
		if broken != "" {
			return "", fmt.Errorf("replay broken: %s", broken)
		}
		return strings.Join(trace, "\n") + "\n" + out, err
	}}}
}

func head(t []string, n int) []string {
	if len(t) > n {
		return t[:n]
	}
	return t
}

func tail(t []string, n int) []string {
	if len(t) > n {
		return t[len(t)-n:]
	}
	return t
}
