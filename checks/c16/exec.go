package main

// Executions run in a recycled child process.
//
// Every execution builds a fresh store and abandons it afterwards. The code under
// test leaves goroutines behind that keep the abandoned instance reachable (the
// resolver goroutines of getLayer that lose the race block forever on the
// unbuffered result channel, the 120 s manifest-cache sleeper, TTL-cache timers),
// about 65 KB per execution. A worker therefore delegates executions to a child
// process of the same binary (one at a time, so a worker still uses one core) and
// replaces the child every maxPerChild executions.

import (
	"bufio"
	"encoding/json"
	"fmt"
	"io"
	"os"
	"os/exec"
	"syscall"
)

const maxPerChild = 2500

type execReq struct {
	Mode    string   `json:"mode"`
	Hist    []string `json:"hist"`
	Fault   *fault   `json:"fault,omitempty"`
	EvalAll bool     `json:"eval_all"`
}

type execResp struct {
	Res *execResult `json:"res,omitempty"`
	Err string      `json:"err,omitempty"`
}

type executor struct {
	scratch string
	cmd     *exec.Cmd
	stdin   io.WriteCloser
	enc     *json.Encoder
	dec     *json.Decoder
	n       int
	spawned int
}

func newExecutor(scratch string) *executor { return &executor{scratch: scratch} }

func (e *executor) start() error {
	self, err := os.Executable()
	if err != nil {
		return err
	}
	cmd := exec.Command(self)
	cmd.Env = append(os.Environ(), "C16_CHILD=1", "C16_SCRATCH="+e.scratch)
	cmd.Stderr = os.Stderr
	in, err := cmd.StdinPipe()
	if err != nil {
		return err
	}
	out, err := cmd.StdoutPipe()
	if err != nil {
		return err
	}
	if err := cmd.Start(); err != nil {
		return err
	}
	e.cmd, e.stdin, e.enc, e.dec, e.n = cmd, in, json.NewEncoder(in), json.NewDecoder(bufio.NewReaderSize(out, 1<<16)), 0
	e.spawned++
	return nil
}

func (e *executor) stop() {
	if e.cmd == nil {
		return
	}
	e.stdin.Close()
	e.cmd.Wait()
	e.cmd = nil
}

func (e *executor) run(mode string, hist []op, flt *fault, evalAll bool) (*execResult, error) {
	if e.cmd != nil && e.n >= maxPerChild {
		e.stop()
	}
	if e.cmd == nil {
		if err := e.start(); err != nil {
			return nil, fmt.Errorf("starting the execution child: %w", err)
		}
	}
	e.n++
	if err := e.enc.Encode(execReq{Mode: mode, Hist: histNames(hist), Fault: flt, EvalAll: evalAll}); err != nil {
		e.stop()
		return nil, fmt.Errorf("history %s: execution child is gone: %w", histString(hist), err)
	}
	var resp execResp
	if err := e.dec.Decode(&resp); err != nil {
		e.stop()
		return nil, fmt.Errorf("history %s (fault %s): execution child died: %w", histString(hist), flt, err)
	}
	if resp.Err != "" {
		return nil, fmt.Errorf("%s", resp.Err)
	}
	return resp.Res, nil
}

// childMain serves execution requests on stdin/stdout until EOF.
func childMain() {
	fx, err := buildFixture()
	scratch := os.Getenv("C16_SCRATCH")
	dec := json.NewDecoder(bufio.NewReaderSize(os.Stdin, 1<<16))
	// the protocol gets a private descriptor; anything the code under test prints to stdout goes to stderr
	out := os.Stdout
	if fd, derr := syscall.Dup(1); derr == nil {
		out = os.NewFile(uintptr(fd), "c16-protocol")
		syscall.Dup2(2, 1)
	}
	w := bufio.NewWriter(out)
	enc := json.NewEncoder(w)
	for {
		var req execReq
		if dec.Decode(&req) != nil {
			return
		}
		var resp execResp
		if err != nil {
			resp.Err = "fixture: " + err.Error()
		} else if h, perr := parseHist(req.Hist); perr != nil {
			resp.Err = perr.Error()
		} else if res, xerr := execute(fx, req.Mode, scratch, h, req.Fault, req.EvalAll); xerr != nil {
			resp.Err = xerr.Error()
		} else {
			resp.Res = res
		}
		if enc.Encode(resp) != nil || w.Flush() != nil {
			return
		}
	}
}
