//go:build verif

package store

// In-package harness of check C16 (added into package store through the build
// overlay). It builds the store exactly as cmd/stargz-store does
// (NewLayerManager + the rootnode handed to go-fuse's NewNodeFS) but without a
// kernel mount: the returned fuse.RawFileSystem is the bridge the FUSE server
// would call, so the check issues LOOKUP / CREATE / RMDIR / OPEN / READ
// requests against it the way the kernel does. It also exposes the unexported
// LayerManager methods and read-only projections of the bookkeeping maps.

import (
	"context"
	"fmt"
	"io"
	"sort"
	"time"

	"github.com/containerd/containerd/v2/pkg/reference"
	"github.com/containerd/stargz-snapshotter/fs/config"
	"github.com/containerd/stargz-snapshotter/fs/layer"
	"github.com/containerd/stargz-snapshotter/fs/source"
	"github.com/containerd/stargz-snapshotter/metadata"
	fusefs "github.com/hanwen/go-fuse/v2/fs"
	"github.com/hanwen/go-fuse/v2/fuse"
	digest "github.com/opencontainers/go-digest"
)

// VerifStore is one store instance (LayerManager + FUSE node tree).
type VerifStore struct {
	LM   *LayerManager
	Raw  fuse.RawFileSystem
	root *rootnode

	// done counts Done() calls per spied layer object; key "<ref>|<toc>#<serial>".
	spies  []*verifSpy
	serial int
}

// VerifNew constructs the LayerManager the way cmd/stargz-store/main.go does and
// the node tree the way store.Mount does (same Options), minus fuse.NewServer.
func VerifNew(ctx context.Context, root string, hosts source.RegistryHosts, ms metadata.Store, cfg config.Config) (*VerifStore, error) {
	lm, err := NewLayerManager(ctx, root, hosts, ms, cfg)
	if err != nil {
		return nil, err
	}
	t := time.Second
	rn := &rootnode{
		fs: &fs{
			layerManager: lm,
			nodeMap:      new(idMap),
			layerMap:     new(idMap),
		},
	}
	raw := fusefs.NewNodeFS(rn, &fusefs.Options{
		AttrTimeout:     &t,
		EntryTimeout:    &t,
		NullPermissions: true,
	})
	return &VerifStore{LM: lm, Raw: raw, root: rn}, nil
}

// ---- kernel-side requests ------------------------------------------------------------

// Lookup sends LOOKUP(parent, name).
func (s *VerifStore) Lookup(parent uint64, name string) (uint64, fuse.Attr, fuse.Status) {
	var out fuse.EntryOut
	st := s.Raw.Lookup(nil, &fuse.InHeader{NodeId: parent}, name, &out)
	return out.NodeId, out.Attr, st
}

// Create sends CREATE(parent, name).
func (s *VerifStore) Create(parent uint64, name string) fuse.Status {
	var out fuse.CreateOut
	in := &fuse.CreateIn{Flags: 0x8241, Mode: 0600}
	in.NodeId = parent
	return s.Raw.Create(nil, in, name, &out)
}

// Rmdir sends RMDIR(parent, name).
func (s *VerifStore) Rmdir(parent uint64, name string) fuse.Status {
	return s.Raw.Rmdir(nil, &fuse.InHeader{NodeId: parent}, name)
}

// Readlink sends READLINK(node).
func (s *VerifStore) Readlink(node uint64) ([]byte, fuse.Status) {
	return s.Raw.Readlink(nil, &fuse.InHeader{NodeId: node})
}

// ReadFile sends OPEN, READ (chunks of chunk bytes until short read / max), RELEASE.
func (s *VerifStore) ReadFile(node uint64, chunk, max int) ([]byte, fuse.Status) {
	return verifReadFile(s.Raw, node, chunk, max)
}

func verifReadFile(raw fuse.RawFileSystem, node uint64, chunk, max int) ([]byte, fuse.Status) {
	var oo fuse.OpenOut
	oin := &fuse.OpenIn{}
	oin.NodeId = node
	if st := raw.Open(nil, oin, &oo); st != fuse.OK {
		return nil, st
	}
	defer func() {
		rin := &fuse.ReleaseIn{Fh: oo.Fh}
		rin.NodeId = node
		raw.Release(nil, rin)
	}()
	var all []byte
	for len(all) < max {
		buf := make([]byte, chunk)
		in := &fuse.ReadIn{Fh: oo.Fh, Offset: uint64(len(all)), Size: uint32(chunk)}
		in.NodeId = node
		rr, st := raw.Read(nil, in, buf)
		if st != fuse.OK {
			return all, st
		}
		b, st := rr.Bytes(buf)
		rr.Done()
		if st != fuse.OK {
			return all, st
		}
		all = append(all, b...)
		if len(b) < chunk {
			break
		}
	}
	return all, fuse.OK
}

// ---- direct LayerManager calls --------------------------------------------------------

func (s *VerifStore) GetLayer(ctx context.Context, ref reference.Spec, toc digest.Digest) (layer.Layer, error) {
	return s.LM.getLayer(ctx, ref, toc)
}

func (s *VerifStore) GetLayerInfo(ctx context.Context, ref reference.Spec, toc digest.Digest) (Layer, error) {
	return s.LM.getLayerInfo(ctx, ref, toc)
}

func (s *VerifStore) Use(ref reference.Spec, toc digest.Digest) int {
	return s.LM.use(ref, toc)
}

func (s *VerifStore) Release(ctx context.Context, ref reference.Spec, toc digest.Digest) (int, error) {
	return s.LM.release(ctx, ref, toc)
}

// ReadViaRootNode mounts the layer's root node (layer.RootNode, as
// layernode.Lookup("diff") does) into a private node tree and reads name.
func VerifReadViaRootNode(l layer.Layer, baseInode uint32, name string, max int) ([]byte, error) {
	rn, err := l.RootNode(baseInode)
	if err != nil {
		return nil, fmt.Errorf("RootNode: %w", err)
	}
	raw := fusefs.NewNodeFS(rn, &fusefs.Options{NullPermissions: true})
	var out fuse.EntryOut
	if st := raw.Lookup(nil, &fuse.InHeader{NodeId: 1}, name, &out); st != fuse.OK {
		return nil, fmt.Errorf("lookup %q in layer root: %v", name, st)
	}
	b, st := verifReadFile(raw, out.NodeId, 1<<12, max)
	if st != fuse.OK {
		return nil, fmt.Errorf("read %q in layer root: %v", name, st)
	}
	return b, nil
}

// VerifReadBlob reads the whole blob through Layer.ReadAt.
func VerifReadBlob(l layer.Layer, max int) ([]byte, error) {
	buf := make([]byte, max)
	n, err := l.ReadAt(buf, 0)
	if err != nil && err != io.EOF {
		return nil, err
	}
	return buf[:n], nil
}

// ---- Done() spy -----------------------------------------------------------------------

// verifSpy delegates everything to the real layer and counts Done()/Close().
type verifSpy struct {
	layer.Layer
	key    string
	serial int
	dones  int
	closes int
}

func (v *verifSpy) Done() {
	v.dones++
	v.Layer.Done()
}

func (v *verifSpy) Close() error {
	v.closes++
	return v.Layer.Close()
}

// Spy replaces every layer object cached in LayerManager.layer by a delegating
// wrapper that counts Done() calls (idempotent; call after every operation).
func (s *VerifStore) Spy() {
	lm := s.LM
	lm.mu.Lock()
	defer lm.mu.Unlock()
	for ref, m := range lm.layer {
		for toc, l := range m {
			if _, ok := l.(*verifSpy); ok {
				continue
			}
			s.serial++
			sp := &verifSpy{Layer: l, key: ref + "|" + toc, serial: s.serial}
			m[toc] = sp
			s.spies = append(s.spies, sp)
		}
	}
}

// VerifSpyInfo is the record of one layer object that was (or is) cached.
type VerifSpyInfo struct {
	Key    string // "<ref>|<toc>"
	Serial int
	Dones  int
	Closes int
	Cached bool  // still the object in LayerManager.layer[ref][toc]
	Check  error // Layer.Check() now
}

func (s *VerifStore) Spies() []VerifSpyInfo {
	lm := s.LM
	lm.mu.Lock()
	cur := map[*verifSpy]bool{}
	for _, m := range lm.layer {
		for _, l := range m {
			if sp, ok := l.(*verifSpy); ok {
				cur[sp] = true
			}
		}
	}
	lm.mu.Unlock()
	var out []VerifSpyInfo
	for _, sp := range s.spies {
		out = append(out, VerifSpyInfo{Key: sp.key, Serial: sp.serial, Dones: sp.dones, Closes: sp.closes, Cached: cur[sp], Check: sp.Layer.Check()})
	}
	return out
}

// ---- projections of the bookkeeping --------------------------------------------------

// VerifSnap is a copy of the reference-management state.
type VerifSnap struct {
	Refcounter   map[string]map[string]int    // LayerManager.refcounter
	Layers       map[string][]string          // LayerManager.layer: ref -> sorted TOC digests
	LayerDigests map[string]map[string]string // ref -> toc -> Info().Digest of the cached object
	ResolveCache map[string]map[string]string // LayerManager.resolveLayerCache: ref -> layer digest -> "" | error text
	PoolRefs     map[string]int               // refPool.refcounter
	Tree         map[string][]string          // node tree: "<ref>" -> layer dir names, "<ref>/<toc>" -> child names
	NodeIDs      int                          // ids handed out by fs.nodeMap and not returned
	LayerIDs     int                          // ids handed out by fs.layerMap
}

func (s *VerifStore) Snapshot() VerifSnap {
	lm := s.LM
	sn := VerifSnap{Refcounter: map[string]map[string]int{}, Layers: map[string][]string{}, LayerDigests: map[string]map[string]string{},
		ResolveCache: map[string]map[string]string{}, PoolRefs: map[string]int{}, Tree: map[string][]string{}}
	lm.mu.Lock()
	for ref, m := range lm.refcounter {
		c := map[string]int{}
		for toc, n := range m {
			c[toc] = n
		}
		sn.Refcounter[ref] = c
	}
	for ref, m := range lm.layer {
		var ks []string
		d := map[string]string{}
		for toc, l := range m {
			ks = append(ks, toc)
			d[toc] = l.Info().Digest.String()
		}
		sort.Strings(ks)
		sn.Layers[ref] = ks
		sn.LayerDigests[ref] = d
	}
	for ref, m := range lm.resolveLayerCache {
		c := map[string]string{}
		for d, err := range m {
			if err != nil {
				c[d] = err.Error()
			} else {
				c[d] = ""
			}
		}
		sn.ResolveCache[ref] = c
	}
	lm.mu.Unlock()
	lm.refPool.mu.Lock()
	for ref, r := range lm.refPool.refcounter {
		sn.PoolRefs[ref] = r.count
	}
	lm.refPool.mu.Unlock()

	for name, ch := range s.root.Children() {
		rn, ok := ch.Operations().(*refnode)
		if !ok {
			sn.Tree["/"+name] = nil
			continue
		}
		ref := rn.ref.String()
		var dirs []string
		for lname, lch := range ch.Children() {
			dirs = append(dirs, lname)
			var files []string
			for fname := range lch.Children() {
				files = append(files, fname)
			}
			sort.Strings(files)
			sn.Tree[ref+"/"+lname] = files
		}
		sort.Strings(dirs)
		sn.Tree[ref] = dirs
	}
	s.root.fs.nodeMap.mu.Lock()
	sn.NodeIDs = len(s.root.fs.nodeMap.m)
	s.root.fs.nodeMap.mu.Unlock()
	s.root.fs.layerMap.mu.Lock()
	sn.LayerIDs = len(s.root.fs.layerMap.m)
	s.root.fs.layerMap.mu.Unlock()
	return sn
}

// PoolRoot is refPool.root() (target of the "pool" symlink).
func (s *VerifStore) PoolRoot() string { return s.LM.refPool.root() }

// HasManifest reports whether the pool holds manifest and config of ref on disk.
func (s *VerifStore) HasManifest(ref reference.Spec) bool {
	_, _, err := s.LM.refPool.readManifestAndConfig(ref)
	return err == nil
}

// VerifUnwrap strips the Done() spy from a layer handed out by the LayerManager.
func VerifUnwrap(l layer.Layer) layer.Layer {
	if sp, ok := l.(*verifSpy); ok {
		return sp.Layer
	}
	return l
}

// VerifDones returns the number of Done() calls seen on l if it is a spied object.
func VerifDones(l layer.Layer) (int, bool) {
	if sp, ok := l.(*verifSpy); ok {
		return sp.dones, true
	}
	return 0, false
}

// CachedLayer is LayerManager.layer[ref][toc] (nil if absent), read under the manager lock.
func (s *VerifStore) CachedLayer(ref reference.Spec, toc digest.Digest) layer.Layer {
	s.LM.mu.Lock()
	defer s.LM.mu.Unlock()
	if m := s.LM.layer[ref.String()]; m != nil {
		if l, ok := m[toc.String()]; ok {
			return l
		}
	}
	return nil
}
