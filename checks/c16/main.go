// C16: store layers can be acquired, released and re-acquired in any order.
package main

import (
	"fmt"
	"os"
	"runtime/pprof"
	"strings"
	"time"

	"github.com/containerd/stargz-snapshotter/estargz/vrt"
	"github.com/hanwen/go-fuse/v2/fuse"

	"verif/lib/runner"
)

// basicsPart: requests that must not touch the reference management at all.
func basicsPart() runner.Part {
	return runner.Part{Name: "seq-basics", Shards: 1, Run: func(c *runner.Ctx) *runner.Result {
		res := &runner.Result{Outcomes: map[string]int{}}
		fx, err := buildFixture()
		if err != nil {
			res.Broken = "fixture: " + err.Error()
			return res
		}
		vrt.Run(vrt.Config{Chooser: func(vrt.ChoicePoint) int { return 0 }, KeepTimers: true}, func() { basics(fx, c, res) })
		return res
	}}
}

func basics(fx *fixture, c *runner.Ctx, res *runner.Result) *runner.Result {
	{
		w, err := newInst(fx, "fuse", c.Scratch, nil)
		if err != nil {
			res.Broken = err.Error()
			return res
		}
		defer w.close()
		bad := func(key, f string, a ...any) {
			res.Violations = append(res.Violations, runner.Violation{Key: "C16/basics/" + key, Msg: fmt.Sprintf(f, a...), Replay: map[string]any{"case": key}})
		}
		expect := func(what string, st, want fuse.Status, key string) {
			res.Evaluations++
			res.Outcomes[what+":"+st.String()]++
			if st != want {
				bad(key, "%s returned %v, want %v", what, st, want)
			}
		}
		im := fx.images[0]
		// pool symlink
		id, _, st := w.st.Lookup(1, "pool")
		expect("LOOKUP /pool", st, fuse.OK, "pool-lookup")
		if st == fuse.OK {
			tgt, st := w.st.Readlink(id)
			expect("READLINK /pool", st, fuse.OK, "pool-readlink")
			if string(tgt) != w.st.PoolRoot() {
				bad("pool-target", "pool link points to %q, the pool directory is %q", tgt, w.st.PoolRoot())
			}
		}
		_, _, st = w.st.Lookup(1, "not base64!")
		expect("LOOKUP /<not base64>", st, fuse.EINVAL, "invalid-base64")
		_, _, st = w.st.Lookup(1, b64("scheme://not/a/reference"))
		expect("LOOKUP /<base64 of an invalid reference>", st, fuse.EINVAL, "invalid-ref")
		refID, _, st := w.st.Lookup(1, b64(im.Ref))
		expect("LOOKUP /<ref>", st, fuse.OK, "ref-lookup")
		_, _, st = w.st.Lookup(refID, "sha256:zz")
		expect("LOOKUP /<ref>/<invalid digest>", st, fuse.EINVAL, "invalid-digest")
		st = w.st.Rmdir(refID, "sha256:zz")
		expect("RMDIR /<ref>/<invalid digest>", st, fuse.EINVAL, "invalid-digest-rmdir")
		layID, _, st := w.st.Lookup(refID, fx.tocOf("A").String())
		expect("LOOKUP /<ref>/<toc>", st, fuse.OK, "layerdir-lookup")
		_, _, st = w.st.Lookup(layID, "use")
		expect("LOOKUP /<ref>/<toc>/use", st, fuse.ENOENT, "use-lookup")
		_, _, st = w.st.Lookup(layID, "other")
		expect("LOOKUP /<ref>/<toc>/<unknown name>", st, fuse.ENOENT, "unknown-name")
		st = w.st.Create(layID, "other")
		expect("CREATE /<ref>/<toc>/<unknown name>", st, fuse.ENOENT, "create-other")
		sn := w.st.Snapshot()
		if len(sn.Refcounter) != 0 || len(sn.Layers) != 0 || len(sn.ResolveCache) != 0 || len(sn.PoolRefs) != 0 || w.reg.Count() != 0 {
			bad("bookkeeping-touched", "requests that neither look up diff|blob|info nor use/release a layer changed the bookkeeping or contacted the registry: %+v, %d requests", sn, w.reg.Count())
		}
		res.States = 1
		res.Transitions = res.Evaluations
		return res
	}
}

func debug() {
	fx, err := buildFixture()
	if err != nil {
		fmt.Println("fixture:", err)
		os.Exit(2)
	}
	for n, l := range fx.layers {
		fmt.Printf("layer %s blob=%d bytes digest=%s toc=%s\n", n, len(l.Blob), l.Digest, l.TOC)
	}
	mode := os.Getenv("C16_MODE")
	if mode == "" {
		mode = "fuse"
	}
	h, err := parseHist(strings.Fields(os.Getenv("C16_DEBUG")))
	if err != nil {
		fmt.Println(err)
		os.Exit(2)
	}
	scratch := "/dev/shm/c16-debug"
	os.MkdirAll(scratch, 0o755)
	defer os.RemoveAll(scratch)
	// trace
	vrt.Run(vrt.Config{Chooser: func(vrt.ChoicePoint) int { return 0 }, KeepTimers: true}, func() {
		w, err := newInst(fx, mode, scratch, nil)
		if err != nil {
			fmt.Println(err)
			os.Exit(2)
		}
		for _, o := range h {
			n0 := w.reg.Count()
			ob, cerr := w.step(o)
			vrt.WaitIdle()
			w.st.Spy()
			fmt.Printf("%s -> ok=%v %s %s %s\n", o.describe(fx), ob.OK, ob.Status, ob.Detail, cerr)
			for _, r := range w.reg.Requests()[n0:] {
				fmt.Printf("      %s %s [%s]\n", r.Method, r.Path, fx.classify(&r))
			}
			fmt.Printf("   state: %s\n", w.render(w.st.Snapshot(), false))
			for ref, m := range w.st.Snapshot().ResolveCache {
				for d, e := range m {
					if e != "" {
						fmt.Printf("   resolve error %s %s: %s\n", ref, w.symLayerDigest(d), e)
					}
				}
			}
		}
		w.close()
	})
	if pf := os.Getenv("C16_PROF"); pf != "" {
		f, _ := os.Create(pf)
		pprof.StartCPUProfile(f)
		defer pprof.StopCPUProfile()
	}
	t0 := time.Now()
	const N = 200
	for i := 0; i < N; i++ {
		if _, err := execute(fx, mode, scratch, h, nil, false); err != nil {
			fmt.Println(err)
			os.Exit(2)
		}
	}
	fmt.Printf("execute: %v per replay of %d ops\n", time.Since(t0)/N, len(h))
	r, _ := execute(fx, mode, scratch, h, nil, true)
	for _, v := range r.Viols {
		fmt.Printf("VIOL %s: %s\n", v.Key, v.Msg)
	}
}

func hasArg(a string) bool {
	for _, x := range os.Args[1:] {
		if x == a || strings.HasPrefix(x, a+"=") {
			return true
		}
	}
	return false
}

func main() {
	if os.Getenv("C16_CHILD") != "" {
		childMain()
		return
	}
	if os.Getenv("C16_DEBUG") != "" {
		debug()
		return
	}
	if !hasArg("--worker") && !hasArg("-worker") && !hasArg("--replay") && !hasArg("-replay") {
		setupClaims([]string{"seq-fuse", "seq-api", "seq-fault"})
	}
	runner.Main(runner.Check{
		ID:    "C16",
		Level: "model_checking",
		Rule: "explicit-state BFS over histories of {lookup diff|blob|info, use, release} x {img1, img2} x {each real TOC digest of the image, a TOC digest of the other image only, a bogus digest} (40 operations) " +
			"on the real store (NewLayerManager + rootnode/refnode/layernode driven through go-fuse's RawFileSystem bridge with LOOKUP/CREATE/RMDIR/OPEN/READ requests [seq-fuse], and getLayer/getLayerInfo/use/release called directly [seq-api]) over an in-memory registry with 2 images x 2 real eStargz layers (one shared); " +
			"successor = replay on a fresh store + 1 operation; states deduplicated by canonical form (reference model uses[(ref,toc)] + refcounter, layer table, resolveLayerCache, refPool counters, node tree, Done() counts of cached layer objects); oracle evaluated on every transition. " +
			"seq-fault: for every distinct state up to the fault depth, every registry request of its history (per manifest/config/layer blob) fails once. " +
			"conc: 2-3 clients (lookup = getLayer+Verify, use, release; also a single lookup whose other layer's blob request fails) race on one LayerManager under the cooperative scheduler (store/manager.go, util/namedmutex instrumented), all schedules within the preemption / free-switch bounds, oracle at quiescence (counts = reference model, lookup succeeds iff valid, what a client holding a use got from its lookup is still the live un-released layer object, all uses releasable afterwards, fresh lookup succeeds). " +
			"non-trivial = distinct states in which a resolved layer has been released down to zero (re-acquisition reachable); for seq-fault: executions where operations follow the failed one; for conc: distinct schedule traces",
		Assumptions: []string{
			"kernel model: every operation walks from the mount root with LOOKUP requests (no dentry caching), FORGET is never sent, one request at a time",
			"in-memory registry (lib/memreg) stands in for the network; no retrying transport, so one failed request = the request failed after all transport retries",
			"store config: NoPrefetch, NoBackgroundFetch (their goroutines issue registry requests at scheduler-dependent times), memory metadata store, no Prometheus namespace",
			"real time does not pass: the 120 s manifest-cache sleep (store/refs.go:102) and the layer TTL cache (fs/layer) never expire within a history, the 30 s resolve timeout (store/manager.go:209) never fires",
			"the Done() spy replaces cached layer objects by a delegating wrapper after each operation",
			"sequential histories run under the cooperative scheduler with the default schedule (running thread continues until it blocks, then the lowest runnable thread id): the order of getLayer's per-layer resolver goroutines is fixed to manifest order there; other orders are explored by the conc part only",
			"conc: sequential consistency at the instrumented operations of store/manager.go and util/namedmutex; fs/layer, fs/remote, store/refs.go, go-fuse and the registry client run atomically between them (their internal locks are never held across a scheduling point); getLayer's leaked blocked resolver goroutines at the end of an execution are not a verdict (DeadlockOK)",
		},
		QuickBudget: 4 * time.Minute, ThoroughBudget: 30 * time.Minute,
		Parts: func(tier string) []runner.Part {
			return append(concParts(tier), seqParts(tier)...) // the small concurrency part first: it must not starve behind the BFS under load
		},
	})
}
