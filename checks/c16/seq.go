package main

// Sequential part of C16: explicit-state breadth-first search over operation
// histories. A state is the shortest history reaching it; a successor is computed by
// replaying history+op on a fresh store (fresh LayerManager, fresh node tree, fresh
// registry, fresh root directory); states are deduplicated by their canonical form
// (reference model + bookkeeping observed through the in-package harness).

import (
	"encoding/json"
	"fmt"
	"os"
	"sort"
	"strconv"
	"strings"
	"time"

	"verif/lib/runner"
)

const bfsShards = 32

type seqReplay struct {
	Mode  string   `json:"mode"`
	Hist  []string `json:"hist"`
	Fault *fault   `json:"fault,omitempty"`
}

func bounds(tier string) (fuseDepth, apiDepth, faultDepth int, actions []string) {
	if v, err := strconv.Atoi(os.Getenv("C16_DEPTH")); err == nil { // experiments only
		fd := v - 1
		if f, err := strconv.Atoi(os.Getenv("C16_FAULT_DEPTH")); err == nil {
			fd = f
		}
		return v, v, fd, []string{"transient"}
	}
	if tier == "thorough" {
		return 7, 6, 4, []string{"transient", "500"}
	}
	return 5, 4, 3, []string{"transient"}
}

func seqParts(tier string) []runner.Part {
	fd, ad, fltd, acts := bounds(tier)
	sd := 3
	if fd < sd {
		sd = fd
	}
	return []runner.Part{
		basicsPart(),
		// one process each, strict breadth-first order from the empty history: listed first so that
		// counterexamples of up to 3 operations are reported with a minimal history
		bfsPart("seq-shallow-fuse", "fuse", sd, 1),
		bfsPart("seq-shallow-api", "api", sd, 1),
		bfsPart("seq-fuse", "fuse", fd, bfsShards),
		bfsPart("seq-api", "api", ad, bfsShards),
		faultPart("seq-fault", "fuse", fltd, acts),
	}
}

func outcomeClass(fx *fixture, o op, ob obs) string {
	tk := "valid"
	switch {
	case o.Toc == "X":
		tk = "bogus"
	case fx.layerOf(o.Img, o.Toc) == nil:
		tk = "foreign"
	}
	s := fmt.Sprintf("%c:%s:%s", o.K, tk, ob.Status)
	if ob.Detail != "" {
		s += ":" + ob.Detail
	}
	return s
}

type collector struct {
	res   *runner.Result
	mode  string
	seenK map[string]bool
}

func (c *collector) add(vs []viol, hist []op, flt *fault, fx *fixture) {
	for _, v := range vs {
		if c.seenK[v.Key] {
			continue
		}
		c.seenK[v.Key] = true
		var lines []string
		for i, o := range hist {
			lines = append(lines, fmt.Sprintf("  %d. %s", i+1, o.describe(fx)))
		}
		msg := fmt.Sprintf("%s\nhistory (%s mode, %d ops, on a fresh store; registry fault: %s): %s\n%s", v.Msg, c.mode, len(hist), flt, histString(hist), strings.Join(lines, "\n"))
		c.res.Violations = append(c.res.Violations, runner.Violation{Key: v.Key, Msg: msg, Replay: seqReplay{Mode: c.mode, Hist: histNames(hist), Fault: flt}})
	}
}

// bfsPart: the operations applicable to the initial state are dealt round-robin to the
// shards (shard 0 also evaluates the empty history); below that a state belongs to
// the worker that claimed it first in the cross-worker visited set (claims.go).
func bfsPart(name, mode string, depth, shards int) runner.Part {
	return runner.Part{Name: name, Shards: shards, Run: func(c *runner.Ctx) *runner.Result {
		res := &runner.Result{Outcomes: map[string]int{}}
		fx, err := buildFixture()
		if err != nil {
			res.Broken = "fixture: " + err.Error()
			return res
		}
		alpha := alphabet(fx)
		claims := openClaims(name)
		col := &collector{res: res, mode: mode, seenK: map[string]bool{}}
		nontrivial := 0
		perDepth := map[int]int{}
		ex := newExecutor(c.Scratch)
		defer ex.stop()
		r0, err := ex.run(mode, nil, nil, false)
		if err != nil {
			res.Broken = err.Error()
			return res
		}
		if _, first := claims.claim(r0.Canon, 0); first {
			res.States++
			res.Evaluations++
		}
		var frontier [][]op
		for i, o := range alpha {
			if i%c.Of == c.Shard {
				frontier = append(frontier, []op{o})
			}
		}
		completed := 0
		for d := 1; d <= depth && len(frontier) > 0; d++ {
			var next [][]op
			capped := false
			for i, h := range frontier {
				if i%16 == 0 && time.Now().After(c.Deadline) {
					res.Caps = append(res.Caps, fmt.Sprintf("time budget: depth %d of %d: %d of %d histories of this shard executed", d, depth, i, len(frontier)))
					capped = true
					break
				}
				r, err := ex.run(mode, h, nil, false)
				if err != nil {
					res.Broken = fmt.Sprintf("history %s: %v", histString(h), err)
					return res
				}
				res.Evaluations++
				res.Transitions++
				last := h[len(h)-1]
				res.Outcomes[outcomeClass(fx, last, r.Obs[len(r.Obs)-1])]++
				if r.ReResolve != "" {
					res.Outcomes[r.ReResolve]++
				}
				col.add(r.Viols, h, nil, fx)
				expand, first := claims.claim(r.Canon, d)
				if first {
					res.States++
					perDepth[d]++
					if r.Released {
						nontrivial++
					}
					if len(res.Samples) == 0 && d >= 3 && r.Released {
						res.Samples = append(res.Samples, map[string]any{"mode": mode, "history": histString(h), "canonical_state": r.Canon, "registry_requests": r.Requests})
					}
				}
				if expand && d < depth {
					for _, o := range alpha {
						nh := make([]op, len(h)+1)
						copy(nh, h)
						nh[len(h)] = o
						next = append(next, nh)
					}
				}
			}
			if capped {
				break
			}
			completed = d
			frontier = next
		}
		if len(res.Caps) == 0 {
			completed = depth // nothing left for this worker below the bound
		}
		res.Nontrivial = int64(nontrivial)
		if len(res.Samples) == 0 {
			res.Samples = append(res.Samples, map[string]any{"mode": mode, "states_claimed_per_depth_by_this_worker": perDepth})
		}
		res.Extra = map[string]any{"depth_bound": depth, "depth_completed": completed, "alphabet": len(alpha), "cross_worker_visited_set": claims.shared(), "states_claimed_per_depth_by_worker0": perDepth}
		return res
	}, Replay: replaySeq}
}

// faultPart: breadth-first search as in bfsPart up to the fault depth; for every executed
// history (every transition, also those that lead to a known state) and every registry
// request of its fault-free execution - counted per manifest / config / layer blob of an
// image - one execution in which exactly that request fails.
func faultPart(name, mode string, depth int, actions []string) runner.Part {
	return runner.Part{Name: name, Shards: bfsShards, Run: func(c *runner.Ctx) *runner.Result {
		res := &runner.Result{Outcomes: map[string]int{}}
		fx, err := buildFixture()
		if err != nil {
			res.Broken = "fixture: " + err.Error()
			return res
		}
		alpha := alphabet(fx)
		claims := openClaims(name)
		col := &collector{res: res, mode: mode, seenK: map[string]bool{}}
		nontriv := 0
		ex := newExecutor(c.Scratch)
		defer ex.stop()
		var frontier [][]op
		for i, o := range alpha {
			if i%c.Of == c.Shard {
				frontier = append(frontier, []op{o})
			}
		}
		completed := 0
	levels:
		for d := 1; d <= depth && len(frontier) > 0; d++ {
			var next [][]op
			for i, h := range frontier {
				if time.Now().After(c.Deadline) {
					res.Caps = append(res.Caps, fmt.Sprintf("time budget: depth %d of %d: %d of %d histories of this shard", d, depth, i, len(frontier)))
					break levels
				}
				r, err := ex.run(mode, h, nil, false)
				if err != nil {
					res.Broken = err.Error()
					return res
				}
				expand, first := claims.claim(r.Canon, d)
				if first {
					res.States++
				}
				var tgts []string
				for t := range r.PerTarget {
					tgts = append(tgts, t)
				}
				sort.Strings(tgts)
				for _, t := range tgts {
					if strings.HasPrefix(t, "other:") {
						res.Broken = fmt.Sprintf("history %s sent an unclassified request %s", histString(h), t)
						return res
					}
					for n := 1; n <= r.PerTarget[t]; n++ {
						for _, a := range actions {
							f := &fault{Target: t, Nth: n, Action: a}
							fr, err := ex.run(mode, h, f, true)
							if err != nil {
								res.Broken = err.Error()
								return res
							}
							res.Evaluations++
							res.Transitions += int64(len(h))
							if !fr.Fired {
								res.Broken = fmt.Sprintf("history %s: fault %s did not fire (request pattern is not deterministic)", histString(h), f)
								return res
							}
							var cls []string
							for i, ob := range fr.Obs {
								s := "ok"
								if !ob.OK {
									s = "fail"
								}
								if i == fr.FiredAtOp {
									s += "*"
								}
								cls = append(cls, fmt.Sprintf("%c%s", h[i].K, s))
							}
							res.Outcomes[strings.SplitN(t, ":", 2)[0]+"-fault:"+strings.Join(cls, ",")]++
							if fr.FiredAtOp < len(h)-1 {
								nontriv++
							}
							col.add(fr.Viols, h, f, fx)
							if len(res.Samples) == 0 && d == 2 && fr.FiredAtOp == 0 {
								res.Samples = append(res.Samples, map[string]any{"history": histString(h), "fault": f.String(), "observations": cls})
							}
						}
					}
				}
				if expand && d < depth {
					for _, o := range alpha {
						nh := make([]op, len(h)+1)
						copy(nh, h)
						nh[len(h)] = o
						next = append(next, nh)
					}
				}
			}
			completed = d
			frontier = next
		}
		if len(res.Caps) == 0 {
			completed = depth
		}
		res.Nontrivial = int64(nontriv)
		res.Extra = map[string]any{"depth_bound": depth, "depth_completed": completed, "deviation_bound_completed": 1, "fault_actions": actions}
		return res
	}, Replay: replaySeq}
}

func replaySeq(c *runner.Ctx, raw json.RawMessage) (string, error) {
	var r seqReplay
	if err := json.Unmarshal(raw, &r); err != nil {
		return "", err
	}
	fx, err := buildFixture()
	if err != nil {
		return "", err
	}
	h, err := parseHist(r.Hist)
	if err != nil {
		return "", err
	}
	res, err := execute(fx, r.Mode, c.Scratch, h, r.Fault, true)
	if err != nil {
		return "", err
	}
	var out []string
	for i, o := range h {
		out = append(out, fmt.Sprintf("%d. %s -> ok=%v %s %s", i+1, o.describe(fx), res.Obs[i].OK, res.Obs[i].Status, res.Obs[i].Detail))
	}
	out = append(out, "final state: "+res.Plain)
	if len(res.Viols) > 0 {
		var m []string
		for _, v := range res.Viols {
			m = append(m, v.Key+": "+v.Msg)
		}
		return strings.Join(out, "\n"), fmt.Errorf("%s", strings.Join(m, "\n  "))
	}
	return strings.Join(out, "\n"), nil
}
