package main

// Fixture (two images sharing one layer, real eStargz blobs), one store
// instance per executed history, the operations, the reference model and the
// oracle of property C16.

import (
	"archive/tar"
	"bytes"
	"compress/gzip"
	"context"
	"crypto/sha256"
	"encoding/base64"
	"encoding/json"
	"fmt"
	"io"
	"os"
	"sort"
	"strconv"
	"strings"

	"github.com/containerd/containerd/v2/pkg/reference"
	"github.com/containerd/log"
	"github.com/containerd/stargz-snapshotter/estargz"
	"github.com/containerd/stargz-snapshotter/estargz/vrt"
	"github.com/containerd/stargz-snapshotter/fs/config"
	memorymetadata "github.com/containerd/stargz-snapshotter/metadata/memory"
	"github.com/containerd/stargz-snapshotter/store"
	"github.com/hanwen/go-fuse/v2/fuse"
	digest "github.com/opencontainers/go-digest"
	ocispecroot "github.com/opencontainers/image-spec/specs-go"
	ocispec "github.com/opencontainers/image-spec/specs-go/v1"

	"verif/lib/memreg"
)

// ---- fixture ---------------------------------------------------------------------------

type layerFx struct {
	Name    string // A, S, C
	Blob    []byte
	Digest  digest.Digest
	TOC     digest.Digest
	DiffID  digest.Digest
	File    string
	Content []byte
}

type imageFx struct {
	Idx       int // 1 | 2
	Repo      string
	Ref       string
	Spec      reference.Spec
	Layers    []*layerFx
	Manifest  []byte
	ManDigest digest.Digest
	Config    []byte
	CfgDigest digest.Digest
}

type fixture struct {
	layers map[string]*layerFx
	images []*imageFx // [0]=img1 {A,S}, [1]=img2 {S,C}
	bogus  digest.Digest
}

func tinyTar(name string, content []byte) []byte {
	var buf bytes.Buffer
	tw := tar.NewWriter(&buf)
	tw.WriteHeader(&tar.Header{Name: "d/", Typeflag: tar.TypeDir, Mode: 0755})
	tw.WriteHeader(&tar.Header{Name: name, Typeflag: tar.TypeReg, Mode: 0644, Size: int64(len(content))})
	tw.Write(content)
	tw.WriteHeader(&tar.Header{Name: "d/g", Typeflag: tar.TypeReg, Mode: 0644, Size: 3})
	tw.Write([]byte("ggg"))
	tw.Close()
	return buf.Bytes()
}

// tocDigestFromSpec computes the TOC digest of an eStargz blob from the format
// description only (footer -> TOC offset -> gzip member -> tar entry
// stargz.index.json -> sha256), independent of the estargz package.
func tocDigestFromSpec(blob []byte) (digest.Digest, error) {
	const footerSize = 51
	if len(blob) < footerSize {
		return "", fmt.Errorf("blob too short")
	}
	zr, err := gzip.NewReader(bytes.NewReader(blob[len(blob)-footerSize:]))
	if err != nil {
		return "", fmt.Errorf("footer: %w", err)
	}
	extra := zr.Header.Extra
	// subfield: 'S','G', len(2, LE), "%016xSTARGZ"
	if len(extra) != 4+22 || extra[0] != 'S' || extra[1] != 'G' || string(extra[4+16:]) != "STARGZ" {
		return "", fmt.Errorf("footer extra field %q is not an eStargz footer", extra)
	}
	off, err := strconv.ParseInt(string(extra[4:4+16]), 16, 64)
	if err != nil {
		return "", err
	}
	zr2, err := gzip.NewReader(bytes.NewReader(blob[off : len(blob)-footerSize]))
	if err != nil {
		return "", fmt.Errorf("toc member: %w", err)
	}
	tr := tar.NewReader(zr2)
	h, err := tr.Next()
	if err != nil {
		return "", err
	}
	if h.Name != "stargz.index.json" {
		return "", fmt.Errorf("toc entry is %q", h.Name)
	}
	js, err := io.ReadAll(tr)
	if err != nil {
		return "", err
	}
	return digest.NewDigestFromBytes(digest.SHA256, sha256Sum(js)), nil
}

func sha256Sum(b []byte) []byte { s := sha256.Sum256(b); return s[:] }

func buildFixture() (*fixture, error) {
	fx := &fixture{layers: map[string]*layerFx{}, bogus: digest.FromString("c16 bogus toc digest")}
	for _, n := range []string{"A", "S", "C"} {
		content := bytes.Repeat([]byte("layer-"+n+"-payload;"), 7)
		tb := tinyTar("f", content)
		b, err := estargz.Build(io.NewSectionReader(bytes.NewReader(tb), 0, int64(len(tb))), estargz.WithCompressionLevel(1), estargz.WithChunkSize(64))
		if err != nil {
			return nil, fmt.Errorf("estargz.Build(%s): %w", n, err)
		}
		raw, err := io.ReadAll(b)
		b.Close()
		if err != nil {
			return nil, err
		}
		l := &layerFx{Name: n, Blob: raw, Digest: digest.FromBytes(raw), TOC: b.TOCDigest(), DiffID: b.DiffID(), File: "f", Content: content}
		spec, err := tocDigestFromSpec(raw)
		if err != nil {
			return nil, fmt.Errorf("layer %s: TOC digest by the format description: %w", n, err)
		}
		if spec != l.TOC {
			return nil, fmt.Errorf("layer %s: estargz.Build reports TOC digest %s, the blob's TOC hashes to %s", n, l.TOC, spec)
		}
		// independent DiffID: sha256 of the concatenated gunzipped members
		zr, err := gzip.NewReader(bytes.NewReader(raw))
		if err != nil {
			return nil, err
		}
		un, err := io.ReadAll(zr)
		if err != nil {
			return nil, err
		}
		if d := digest.FromBytes(un); d != l.DiffID {
			return nil, fmt.Errorf("layer %s: DiffID %s != sha256(uncompressed) %s", n, l.DiffID, d)
		}
		fx.layers[n] = l
	}
	mk := func(idx int, repo string, names ...string) (*imageFx, error) {
		im := &imageFx{Idx: idx, Repo: repo, Ref: "reg.test/" + repo + ":latest"}
		var err error
		im.Spec, err = reference.Parse(im.Ref)
		if err != nil {
			return nil, err
		}
		cfg := ocispec.Image{Platform: ocispec.Platform{Architecture: "amd64", OS: "linux"}, RootFS: ocispec.RootFS{Type: "layers"}}
		man := ocispec.Manifest{Versioned: ocispecroot.Versioned{SchemaVersion: 2}, MediaType: ocispec.MediaTypeImageManifest}
		for _, n := range names {
			l := fx.layers[n]
			im.Layers = append(im.Layers, l)
			cfg.RootFS.DiffIDs = append(cfg.RootFS.DiffIDs, l.DiffID)
			man.Layers = append(man.Layers, ocispec.Descriptor{MediaType: ocispec.MediaTypeImageLayerGzip, Digest: l.Digest, Size: int64(len(l.Blob)),
				Annotations: map[string]string{estargz.TOCJSONDigestAnnotation: l.TOC.String()}})
		}
		im.Config, _ = json.Marshal(cfg)
		im.CfgDigest = digest.FromBytes(im.Config)
		man.Config = ocispec.Descriptor{MediaType: ocispec.MediaTypeImageConfig, Digest: im.CfgDigest, Size: int64(len(im.Config))}
		im.Manifest, _ = json.Marshal(man)
		im.ManDigest = digest.FromBytes(im.Manifest)
		return im, nil
	}
	i1, err := mk(1, "img/one", "A", "S")
	if err != nil {
		return nil, err
	}
	i2, err := mk(2, "img/two", "S", "C")
	if err != nil {
		return nil, err
	}
	fx.images = []*imageFx{i1, i2}
	return fx, nil
}

func (fx *fixture) registry() *memreg.Registry {
	g := memreg.New()
	for _, l := range fx.layers {
		g.AddBlob(l.Digest.String(), l.Blob)
	}
	for _, im := range fx.images {
		g.AddBlob(im.CfgDigest.String(), im.Config)
		g.AddManifest(im.Repo, "latest", ocispec.MediaTypeImageManifest, im.Manifest)
		g.AddManifest(im.Repo, im.ManDigest.String(), ocispec.MediaTypeImageManifest, im.Manifest)
	}
	return g
}

// tocOf maps a symbolic TOC name to the digest.
func (fx *fixture) tocOf(name string) digest.Digest {
	if name == "X" {
		return fx.bogus
	}
	return fx.layers[name].TOC
}

// layerOf returns the layer of image img whose TOC is the symbolic name (nil if none).
func (fx *fixture) layerOf(img int, name string) *layerFx {
	for _, l := range fx.images[img-1].Layers {
		if l.Name == name {
			return l
		}
	}
	return nil
}

// tocNames: the image's own TOC digests, one TOC digest of the other image only, a bogus one.
func (fx *fixture) tocNames(img int) []string {
	if img == 1 {
		return []string{"A", "S", "C", "X"}
	}
	return []string{"C", "S", "A", "X"}
}

// ---- operations --------------------------------------------------------------------------

// op: K in D(lookup diff) B(lookup blob) I(lookup info) U(use) R(release); Img 1|2; Toc A|S|C|X.
type op struct {
	K   byte
	Img int
	Toc string
}

func (o op) String() string { return fmt.Sprintf("%c%d%s", o.K, o.Img, o.Toc) }

func (o op) key() string { return fmt.Sprintf("%d%s", o.Img, o.Toc) }

func parseOp(s string) (op, error) {
	if len(s) != 3 || !strings.ContainsRune("DBIUR", rune(s[0])) || (s[1] != '1' && s[1] != '2') || !strings.ContainsRune("ASCX", rune(s[2])) {
		return op{}, fmt.Errorf("bad op %q", s)
	}
	return op{K: s[0], Img: int(s[1] - '0'), Toc: s[2:]}, nil
}

func (o op) describe(fx *fixture) string {
	kind := map[byte]string{'D': "lookup diff", 'B': "lookup blob", 'I': "lookup info", 'U': "use (create 'use')", 'R': "release (rmdir)"}[o.K]
	what := "a layer of this image"
	switch {
	case o.Toc == "X":
		what = "bogus digest"
	case fx.layerOf(o.Img, o.Toc) == nil:
		what = "TOC digest of a layer of the other image only"
	case o.Toc == "S":
		what = "the layer shared by both images"
	}
	return fmt.Sprintf("%s %s of <img%d>/<toc %s: %s>", o.String(), kind, o.Img, o.Toc, what)
}

func alphabet(fx *fixture) []op {
	var out []op
	for _, k := range []byte("DBIUR") {
		for img := 1; img <= 2; img++ {
			for _, t := range fx.tocNames(img) {
				out = append(out, op{k, img, t})
			}
		}
	}
	return out
}

func histString(h []op) string {
	var s []string
	for _, o := range h {
		s = append(s, o.String())
	}
	return strings.Join(s, " ")
}

func histNames(h []op) []string {
	s := make([]string, 0, len(h))
	for _, o := range h {
		s = append(s, o.String())
	}
	return s
}

func parseHist(names []string) ([]op, error) {
	var h []op
	for _, n := range names {
		o, err := parseOp(n)
		if err != nil {
			return nil, err
		}
		h = append(h, o)
	}
	return h, nil
}

// fault: the Nth request (1-based) for Target gets Action instead of the perfect reply (one-shot).
// Target: "manifest:<img>", "config:<img>", "blob:<img>:<layer>".
type fault struct {
	Target string `json:"target"`
	Nth    int    `json:"nth"`
	Action string `json:"action"` // transient | 500
}

func (f *fault) String() string {
	if f == nil {
		return "none"
	}
	return fmt.Sprintf("%s#%d=%s", f.Target, f.Nth, f.Action)
}

// classify maps a logged request to its target name.
func (fx *fixture) classify(r *memreg.Req) string {
	for _, im := range fx.images {
		pre := "/v2/" + im.Repo + "/"
		if !strings.HasPrefix(r.Path, pre) {
			continue
		}
		rest := strings.TrimPrefix(r.Path, pre)
		switch {
		case strings.HasPrefix(rest, "manifests/"):
			return fmt.Sprintf("manifest:%d", im.Idx)
		case strings.HasPrefix(rest, "blobs/"):
			d := strings.TrimPrefix(rest, "blobs/")
			if d == im.CfgDigest.String() {
				return fmt.Sprintf("config:%d", im.Idx)
			}
			for _, l := range im.Layers {
				if d == l.Digest.String() {
					return fmt.Sprintf("blob:%d:%s", im.Idx, l.Name)
				}
			}
		}
	}
	return "other:" + r.Path
}

// ---- one store instance ---------------------------------------------------------------------

type handle struct {
	diffFile uint64 // node id of <diff>/f obtained by the kernel
	blob     uint64 // node id of blob
}

type inst struct {
	fx      *fixture
	mode    string // fuse | api
	dir     string
	reg     *memreg.Registry
	st      *store.VerifStore
	perTgt  map[string]int // requests seen per target
	flt     *fault
	fired   bool
	uses    map[string]int     // reference model: "<img><toc>" -> outstanding uses
	held    map[string]*handle // kernel-side handles obtained by successful lookups (fuse mode)
	heldAPI map[string]apiLayer
	zeroed  map[int]bool    // image had a layer released down to zero uses in this history
	tainted map[string]bool // "<img><toc>" whose counter was observed <= 0 after an earlier operation
	layerID uint32
}

type apiLayer interface {
	Check() error
}

func newInst(fx *fixture, mode, scratch string, flt *fault) (*inst, error) {
	d, err := os.MkdirTemp(scratch, "c16-")
	if err != nil {
		return nil, err
	}
	w := &inst{fx: fx, mode: mode, dir: d, reg: fx.registry(), perTgt: map[string]int{}, flt: flt, uses: map[string]int{}, held: map[string]*handle{}, zeroed: map[int]bool{}, tainted: map[string]bool{}}
	w.reg.Script = func(r *memreg.Req) memreg.Action {
		t := fx.classify(r)
		w.perTgt[t]++
		if w.flt != nil && !w.fired && t == w.flt.Target && w.perTgt[t] == w.flt.Nth {
			w.fired = true
			if w.flt.Action == "500" {
				return memreg.ServerError
			}
			return memreg.Transient
		}
		return memreg.Perfect
	}
	cfg := config.Config{NoPrometheus: true, NoPrefetch: true, NoBackgroundFetch: true, HTTPCacheType: "memory", FSCacheType: "memory"}
	w.st, err = store.VerifNew(context.Background(), d, w.reg.CompatHosts(nil), memorymetadata.NewReader, cfg)
	if err != nil {
		os.RemoveAll(d)
		return nil, err
	}
	return w, nil
}

func (w *inst) close() { os.RemoveAll(w.dir) }

// obs is what the client observes from one operation.
type obs struct {
	OK     bool   // lookup: entry returned and content readable; use/release: request reached the handler
	Status string // errno / error class
	Detail string
}

func b64(s string) string { return base64.StdEncoding.EncodeToString([]byte(s)) }

// walk sends the LOOKUPs for <root>/<b64 ref>[/<toc>].
func (w *inst) walk(im *imageFx, toc digest.Digest, layerDir bool) (refID, layID uint64, st fuse.Status, stage string) {
	refID, _, st = w.st.Lookup(1, b64(im.Ref))
	if st != fuse.OK {
		return 0, 0, st, "ref"
	}
	if !layerDir {
		return refID, 0, fuse.OK, ""
	}
	layID, _, st = w.st.Lookup(refID, toc.String())
	if st != fuse.OK {
		return refID, 0, st, "layerdir"
	}
	return refID, layID, fuse.OK, ""
}

type viol struct {
	Key string
	Msg string
}

// step executes one operation on the implementation and advances the reference model.
// contentErr is a violation found while reading the returned entry (wrong bytes).
func (w *inst) step(o op) (ob obs, contentErr string) {
	im := w.fx.images[o.Img-1]
	toc := w.fx.tocOf(o.Toc)
	want := w.fx.layerOf(o.Img, o.Toc)
	k := o.key()
	if w.mode == "api" {
		return w.stepAPI(o, im, toc, want)
	}
	switch o.K {
	case 'D', 'B', 'I':
		_, layID, st, stage := w.walk(im, toc, true)
		if st != fuse.OK {
			return obs{Status: stage + ":" + st.String()}, ""
		}
		name := map[byte]string{'D': "diff", 'B': "blob", 'I': "info"}[o.K]
		id, attr, st := w.st.Lookup(layID, name)
		if st != fuse.OK {
			return obs{Status: st.String()}, ""
		}
		switch o.K {
		case 'D':
			fid, _, st := w.st.Lookup(id, "f")
			if st != fuse.OK {
				return obs{OK: true, Status: "OK"}, fmt.Sprintf("diff directory returned but LOOKUP of file f in it gives %v", st)
			}
			b, st := w.st.ReadFile(fid, 4096, 1<<20)
			if st != fuse.OK {
				return obs{OK: true, Status: "OK"}, fmt.Sprintf("diff directory returned but reading file f gives %v", st)
			}
			if want == nil {
				return obs{OK: true, Status: "OK"}, ""
			}
			if !bytes.Equal(b, want.Content) {
				return obs{OK: true, Status: "OK"}, fmt.Sprintf("diff/f has %d bytes %q, layer %s has %q", len(b), trunc(b), want.Name, trunc(want.Content))
			}
			h := w.hold(k)
			h.diffFile = fid
		case 'B':
			b, st := w.st.ReadFile(id, 4096, 1<<20)
			if st != fuse.OK {
				return obs{OK: true, Status: "OK"}, fmt.Sprintf("blob entry returned but reading it gives %v", st)
			}
			if want == nil {
				return obs{OK: true, Status: "OK"}, ""
			}
			if !bytes.Equal(b, want.Blob) || attr.Size != uint64(len(want.Blob)) {
				return obs{OK: true, Status: "OK"}, fmt.Sprintf("blob has %d bytes (attr size %d, sha256 %x), layer %s blob has %d bytes (%s)", len(b), attr.Size, sha256Sum(b)[:6], want.Name, len(want.Blob), want.Digest)
			}
			h := w.hold(k)
			h.blob = id
		case 'I':
			b, st := w.st.ReadFile(id, 4096, 1<<20)
			if st != fuse.OK {
				return obs{OK: true, Status: "OK"}, fmt.Sprintf("info entry returned but reading it gives %v", st)
			}
			return obs{OK: true, Status: "OK", Detail: w.infoClass(b, toc, want)}, w.checkInfo(b, im, toc, want)
		}
		return obs{OK: true, Status: "OK"}, ""
	case 'U':
		_, layID, st, stage := w.walk(im, toc, true)
		if st != fuse.OK {
			return obs{Status: stage + ":" + st.String()}, ""
		}
		st = w.st.Create(layID, "use")
		w.uses[k]++
		return obs{OK: true, Status: st.String()}, ""
	case 'R':
		refID, _, st, stage := w.walk(im, toc, false)
		if st != fuse.OK {
			return obs{Status: stage + ":" + st.String()}, ""
		}
		st = w.st.Rmdir(refID, toc.String())
		w.modelRelease(k)
		return obs{OK: true, Status: st.String()}, ""
	}
	return obs{Status: "?"}, ""
}

func (w *inst) hold(k string) *handle {
	h := w.held[k]
	if h == nil {
		h = &handle{}
		w.held[k] = h
	}
	return h
}

func (w *inst) modelRelease(k string) {
	if w.uses[k] > 0 {
		w.uses[k]--
		if w.uses[k] == 0 {
			w.zeroed[int(k[0]-'0')] = true
			delete(w.uses, k)
			// the layer is released: handles of it may legitimately stop working
			delete(w.held, k)
			delete(w.heldAPI, k)
		}
	}
}

func trunc(b []byte) string {
	if len(b) > 40 {
		return string(b[:40]) + "..."
	}
	return string(b)
}

type infoJSON struct {
	UncompressedSize int64             `json:"diff-size"`
	CompressionType  int               `json:"compression"`
	TOCDigest        string            `json:"toc-digest"`
	Flags            map[string]string `json:"flags"`
}

func (w *inst) infoClass(b []byte, toc digest.Digest, want *layerFx) string {
	var ij infoJSON
	if json.Unmarshal(b, &ij) != nil {
		return "info:unparsable"
	}
	if len(ij.Flags) == 0 {
		return "info:toc-only"
	}
	return "info:full"
}

func (w *inst) checkInfo(b []byte, im *imageFx, toc digest.Digest, want *layerFx) string {
	var ij infoJSON
	if err := json.Unmarshal(b, &ij); err != nil {
		return fmt.Sprintf("info file is not JSON: %v (%q)", err, trunc(b))
	}
	if ij.TOCDigest != toc.String() {
		return fmt.Sprintf("info file says toc-digest %q, directory is %s", ij.TOCDigest, toc)
	}
	if len(ij.Flags) > 0 {
		if want == nil {
			return fmt.Sprintf("info file of a digest that is no layer of the image carries layer flags %v", ij.Flags)
		}
		if ij.Flags["expected-layer-diffid"] != want.DiffID.String() {
			return fmt.Sprintf("info file says expected-layer-diffid %q, the layer's DiffID is %s", ij.Flags["expected-layer-diffid"], want.DiffID)
		}
	}
	return ""
}

// stepAPI: the same operations through the unexported LayerManager methods, composed
// the way layernode.Lookup / layernode.Create / refnode.Rmdir compose them.
func (w *inst) stepAPI(o op, im *imageFx, toc digest.Digest, want *layerFx) (obs, string) {
	ctx := context.Background()
	k := o.key()
	switch o.K {
	case 'D', 'B':
		l, err := w.st.GetLayer(ctx, im.Spec, toc)
		if err != nil {
			return obs{Status: "getLayer:" + errClass(err)}, ""
		}
		if err := l.Verify(toc); err != nil {
			return obs{Status: "verify:" + errClass(err)}, ""
		}
		if o.K == 'D' {
			w.layerID++
			b, err := store.VerifReadViaRootNode(l, w.layerID, "f", 1<<20)
			if err != nil {
				return obs{OK: true, Status: "OK"}, fmt.Sprintf("getLayer+Verify succeeded but reading f through RootNode fails: %v", err)
			}
			if want != nil && !bytes.Equal(b, want.Content) {
				return obs{OK: true, Status: "OK"}, fmt.Sprintf("f read through RootNode is %q, layer %s has %q", trunc(b), want.Name, trunc(want.Content))
			}
		} else {
			b, err := store.VerifReadBlob(l, 1<<20)
			if err != nil {
				return obs{OK: true, Status: "OK"}, fmt.Sprintf("getLayer+Verify succeeded but ReadAt fails: %v", err)
			}
			if want != nil && !bytes.Equal(b, want.Blob) {
				return obs{OK: true, Status: "OK"}, fmt.Sprintf("ReadAt returns %d bytes (sha256 %x), layer %s blob has %d bytes (%s)", len(b), sha256Sum(b)[:6], want.Name, len(want.Blob), want.Digest)
			}
		}
		if want != nil {
			if w.heldAPI == nil {
				w.heldAPI = map[string]apiLayer{}
			}
			w.heldAPI[k] = l
		}
		return obs{OK: true, Status: "OK"}, ""
	case 'I':
		info, err := w.st.GetLayerInfo(ctx, im.Spec, toc)
		if err != nil {
			return obs{Status: "getLayerInfo:" + errClass(err)}, ""
		}
		b, _ := json.Marshal(info)
		return obs{OK: true, Status: "OK", Detail: w.infoClass(b, toc, want)}, w.checkInfo(b, im, toc, want)
	case 'U':
		n := w.st.Use(im.Spec, toc)
		w.uses[k]++
		if n != w.uses[k] && !w.tainted[k] {
			return obs{OK: true, Status: "n=" + strconv.Itoa(n)}, fmt.Sprintf("use() returned count %d, %d uses are outstanding", n, w.uses[k])
		}
		return obs{OK: true, Status: "counted"}, ""
	case 'R':
		before := w.uses[k]
		n, err := w.st.Release(ctx, im.Spec, toc)
		w.modelRelease(k)
		if err != nil {
			return obs{OK: true, Status: "err:" + errClass(err)}, ""
		}
		if w.tainted[k] {
			// the counter already went to <= 0 earlier in this history (reported there)
			return obs{OK: true, Status: "n=" + strconv.Itoa(n)}, ""
		}
		if before == 0 {
			return obs{OK: true, Status: "n=" + strconv.Itoa(n)}, fmt.Sprintf("release() of a layer without outstanding uses returned count %d and no error", n)
		}
		if n != before-1 {
			return obs{OK: true, Status: "n=" + strconv.Itoa(n)}, fmt.Sprintf("release() returned count %d, %d uses remain outstanding", n, before-1)
		}
		return obs{OK: true, Status: "counted"}, ""
	}
	return obs{Status: "?"}, ""
}

func errClass(err error) string {
	s := err.Error()
	switch {
	case strings.Contains(s, "not found"):
		return "not-found"
	case strings.Contains(s, "timeout"):
		return "timeout"
	case strings.Contains(s, "manifest and config"):
		return "manifest"
	case strings.Contains(s, "not tracked"):
		return "not-tracked"
	case strings.Contains(s, "not registered"):
		return "not-registered"
	case strings.Contains(s, "invalid checksum") || strings.Contains(s, "verif"):
		return "verify"
	}
	return "other"
}

// ---- oracle --------------------------------------------------------------------------------

func (w *inst) refKeyOf(k string) (ref string, toc string) {
	img := int(k[0] - '0')
	return w.fx.images[img-1].Ref, w.fx.tocOf(k[1:]).String()
}

// symbolic renders a ref/toc pair of the implementation's maps with the symbolic names.
func (w *inst) symRef(ref string) string {
	for _, im := range w.fx.images {
		if im.Ref == ref {
			return strconv.Itoa(im.Idx)
		}
	}
	return "?" + ref
}

func (w *inst) symToc(toc string) string {
	for n, l := range w.fx.layers {
		if l.TOC.String() == toc {
			return n
		}
	}
	if toc == w.fx.bogus.String() {
		return "X"
	}
	return "?" + toc
}

func (w *inst) symLayerDigest(d string) string {
	for n, l := range w.fx.layers {
		if l.Digest.String() == d {
			return n
		}
	}
	return "?" + d
}

// imgUses is the number of outstanding uses over all layers of image img in the model.
func imgUses(uses map[string]int, img int) int {
	n := 0
	for k, v := range uses {
		if int(k[0]-'0') == img {
			n += v
		}
	}
	return n
}

// evaluate applies the oracle to the last operation. pre/post are the bookkeeping
// snapshots around it, usesBefore the model before it, faultSeen whether an injected
// registry error has already fired in this execution (then liveness clauses are
// evaluated separately).
func (w *inst) evaluate(o op, ob obs, contentErr string, pre, post store.VerifSnap, usesBefore map[string]int, donesBefore map[int]int, reqBefore, reqAfter int, faultFiredBefore bool) []viol {
	var vs []viol
	add := func(key, f string, a ...any) { vs = append(vs, viol{"C16/" + key, fmt.Sprintf(f, a...)}) }
	im := w.fx.images[o.Img-1]
	toc := w.fx.tocOf(o.Toc).String()
	want := w.fx.layerOf(o.Img, o.Toc)
	k := o.key()
	faulty := w.fired // a registry error was injected during or before this operation

	// (1) lookup succeeds <=> toc is the verified TOC digest of a layer of ref
	if o.K == 'D' || o.K == 'B' {
		switch {
		case ob.OK && want == nil:
			kind := "foreign"
			if o.Toc == "X" {
				kind = "bogus"
			}
			add("lookup/"+kind+"-toc-succeeds", "%s succeeded although image %s has no layer with TOC digest %s", o.describe(w.fx), im.Ref, toc)
		case !ob.OK && want != nil && !faulty:
			cls := "lookup/valid-toc-fails"
			if w.zeroed[o.Img] && imgUses(w.uses, o.Img) == 0 {
				cls = "lookup/valid-toc-fails-after-image-released-to-zero"
			} else if w.zeroed[o.Img] {
				cls = "lookup/valid-toc-fails-after-layer-released-while-image-in-use"
			}
			add(cls, "%s failed (%s) although layer %s of %s has exactly this verified TOC digest", o.describe(w.fx), ob.Status, want.Name, im.Ref)
		case !ob.OK && want != nil && faulty && !faultFiredBefore && strings.HasPrefix(w.flt.Target, "blob:") && w.flt.Target != fmt.Sprintf("blob:%d:%s", o.Img, want.Name):
			add("lookup/fails-because-another-layer-failed", "%s failed (%s) although the wanted layer %s resolved without any error: the only failing registry request (%s) concerned ANOTHER layer of the image", o.describe(w.fx), ob.Status, want.Name, w.flt)
		case !ob.OK && want != nil && faulty && faultFiredBefore:
			add("lookup/fails-after-registry-error-has-passed", "%s failed (%s) although layer %s of %s has this TOC digest; the only injected registry error (%s) hit an EARLIER operation and the registry answers perfectly since (this operation sent %d requests)", o.describe(w.fx), ob.Status, want.Name, im.Ref, w.flt, reqAfter-reqBefore)
		}
		if contentErr != "" {
			add("lookup/serves-wrong-content", "%s: %s", o.describe(w.fx), contentErr)
		}
	} else if contentErr != "" {
		switch o.K {
		case 'I':
			add("info/inconsistent", "%s: %s", o.describe(w.fx), contentErr)
		default:
			add("count/returned-count-wrong", "%s: %s", o.describe(w.fx), contentErr)
		}
	}
	if o.K == 'I' && !ob.OK && !faulty {
		add("info/fails", "%s failed (%s) although the manifest and config of %s are available", o.describe(w.fx), ob.Status, im.Ref)
	} else if o.K == 'I' && !ob.OK && faultFiredBefore {
		add("lookup/fails-after-registry-error-has-passed", "%s failed (%s); the only injected registry error (%s) hit an EARLIER operation and the registry answers perfectly since", o.describe(w.fx), ob.Status, w.flt)
	}

	// (2) use counts: the implementation's counters equal the reference model; never <= 0
	implCount := map[string]int{}
	for ref, m := range post.Refcounter {
		for t, n := range m {
			kk := w.symRef(ref) + w.symToc(t)
			implCount[kk] = n
			if n < 0 {
				add("release/count-negative", "after %s the use count of <img%s>/<toc %s> is %d", o.String(), kk[:1], kk[1:], n)
			} else if n == 0 {
				add("release-to-zero/bookkeeping-not-dropped", "after %s the counter table still has <img%s>/<toc %s> with count 0: the entry of a layer whose last use was released must be dropped (it keeps the image's entry non-empty, so the image's resolution results are never reset)", o.String(), kk[:1], kk[1:])
			}
		}
		if len(m) == 0 {
			add("release-to-zero/bookkeeping-not-dropped", "after %s the counter table has an empty entry for image %s", o.String(), w.symRef(ref))
		}
	}
	// a counter that was already <= 0 at some earlier point of this history has been reported there;
	// what follows from it (drifting counts) is not reported again
	stale := w.tainted
	for kk, n := range w.uses {
		if stale[kk] {
			continue
		}
		if implCount[kk] != n && implCount[kk] > 0 {
			add("count/mismatch", "after %s the implementation counts %d uses of <img%s>/<toc %s>, %d are outstanding", o.String(), implCount[kk], kk[:1], kk[1:], n)
		} else if implCount[kk] <= 0 {
			if _, present := implCount[kk]; !present {
				add("count/mismatch", "after %s the implementation does not track <img%s>/<toc %s>, %d uses are outstanding", o.String(), kk[:1], kk[1:], n)
			}
		}
	}
	for kk, n := range implCount {
		if n > 0 && w.uses[kk] == 0 && !stale[kk] {
			add("count/mismatch", "after %s the implementation counts %d uses of <img%s>/<toc %s>, none is outstanding", o.String(), n, kk[:1], kk[1:])
		}
	}

	// (3) a layer with outstanding uses is never released
	for _, sp := range w.st.Spies() {
		parts := strings.SplitN(sp.Key, "|", 2)
		kk := w.symRef(parts[0]) + w.symToc(parts[1])
		if sp.Dones > 1 {
			add("release/layer-done-twice", "after %s the layer object #%d of <img%s>/<toc %s> was released (Done) %d times", o.String(), sp.Serial, kk[:1], kk[1:], sp.Dones)
		}
		if sp.Dones > 0 && sp.Cached {
			add("release/done-layer-still-cached", "after %s the layer object #%d of <img%s>/<toc %s> was released (Done) but is still handed out by the layer table", o.String(), sp.Serial, kk[:1], kk[1:])
		}
		if sp.Dones > donesBefore[sp.Serial] && w.uses[kk] > 0 {
			add("release/layer-released-while-in-use", "%s released (Done) the layer object #%d of <img%s>/<toc %s> although %d use(s) are still outstanding", o.String(), sp.Serial, kk[:1], kk[1:], w.uses[kk])
		}
		if sp.Cached && sp.Check != nil {
			add("release/cached-layer-unusable", "after %s the cached layer object of <img%s>/<toc %s> fails Check(): %v", o.String(), kk[:1], kk[1:], sp.Check)
		}
	}
	// a resolved layer that is in use stays in the layer table
	for kk, n := range w.uses {
		ref, t := w.refKeyOf(kk)
		if n > 0 && contains(pre.Layers[ref], t) && !contains(post.Layers[ref], t) {
			add("release/layer-released-while-in-use", "%s dropped the resolved layer <img%s>/<toc %s> from the layer table although %d use(s) are still outstanding", o.String(), kk[:1], kk[1:], n)
		}
	}
	// handles obtained earlier keep serving reads while the layer is not released
	if w.mode == "fuse" {
		var hk []string
		for kk := range w.held {
			hk = append(hk, kk)
		}
		sort.Strings(hk)
		for _, kk := range hk {
			h := w.held[kk]
			l := w.fx.layerOf(int(kk[0]-'0'), kk[1:])
			if h.diffFile != 0 {
				b, st := w.st.ReadFile(h.diffFile, 4096, 1<<20)
				if st != fuse.OK || !bytes.Equal(b, l.Content) {
					add("release/held-layer-stops-serving", "after %s reading diff/f of <img%s>/<toc %s> through the node obtained earlier gives %v %q (uses outstanding: %d)", o.String(), kk[:1], kk[1:], st, trunc(b), w.uses[kk])
				}
			}
			if h.blob != 0 {
				b, st := w.st.ReadFile(h.blob, 4096, 1<<20)
				if st != fuse.OK || !bytes.Equal(b, l.Blob) {
					add("release/held-layer-stops-serving", "after %s reading blob of <img%s>/<toc %s> through the node obtained earlier gives %v, %d bytes (uses outstanding: %d)", o.String(), kk[:1], kk[1:], st, len(b), w.uses[kk])
				}
			}
		}
	} else {
		for kk, l := range w.heldAPI {
			if err := l.Check(); err != nil {
				add("release/held-layer-stops-serving", "after %s the layer <img%s>/<toc %s> obtained earlier fails Check(): %v (uses outstanding: %d)", o.String(), kk[:1], kk[1:], err, w.uses[kk])
			}
		}
	}

	// (4) last use of an image released => the released layer and the resolution bookkeeping are dropped
	if o.K == 'R' && usesBefore[k] == 1 {
		if contains(post.Layers[im.Ref], toc) {
			add("release-to-zero/layer-not-dropped", "%s released the last use of <img%d>/<toc %s> but the layer is still in the layer table", o.String(), o.Img, o.Toc)
		}
		if imgUses(w.uses, o.Img) == 0 {
			if m, ok := post.ResolveCache[im.Ref]; ok {
				add("release-to-zero/bookkeeping-not-dropped", "%s released the last use of image %d (no layer of it has outstanding uses) but the memoised resolution results of its layers %v are kept, so a later lookup cannot resolve the image again", o.String(), o.Img, w.symKeys(m))
			}
			if _, ok := post.Refcounter[im.Ref]; ok {
				add("release-to-zero/bookkeeping-not-dropped", "%s released the last use of image %d but the image still has an entry in the counter table: %v", o.String(), o.Img, w.symCounts(post.Refcounter[im.Ref]))
			}
		}
	}
	// (5) a successful lookup of a layer that was not in the layer table resolved it (again)
	if (o.K == 'D' || o.K == 'B') && ob.OK && want != nil && !contains(pre.Layers[im.Ref], toc) && w.mode == "api" {
		if !contains(post.Layers[im.Ref], toc) {
			add("lookup/resolved-layer-not-cached", "%s succeeded but the layer is not in the layer table afterwards", o.String())
		}
		if _, ok := post.ResolveCache[im.Ref][want.Digest.String()]; !ok {
			add("lookup/resolution-not-recorded", "%s succeeded but the resolution of layer %s is not recorded", o.String(), want.Name)
		}
	}
	return vs
}

func contains(l []string, s string) bool {
	for _, x := range l {
		if x == s {
			return true
		}
	}
	return false
}

func (w *inst) symKeys(m map[string]string) []string {
	var out []string
	for d, e := range m {
		s := w.symLayerDigest(d)
		if e != "" {
			s += "!err"
		}
		out = append(out, s)
	}
	sort.Strings(out)
	return out
}

func (w *inst) symCounts(m map[string]int) []string {
	var out []string
	for t, n := range m {
		out = append(out, fmt.Sprintf("%s=%d", w.symToc(t), n))
	}
	sort.Strings(out)
	return out
}

// canon is the canonical state: reference model + observable bookkeeping
// (refcounter contents, layer table keys, resolveLayerCache keys with their
// error flag, refPool counters, Done() count of the layer objects currently in the
// layer table), minimised over the symmetry of the fixture (img1<->img2, A<->C).
// The node tree, the kernel-side handles and layer objects that already left the
// layer table are deliberately not part of it.
func (w *inst) canon(sn store.VerifSnap) string {
	a, b := w.render(sn, false), w.render(sn, true)
	if b < a {
		return b
	}
	return a
}

func swapName(s string, swap bool) string {
	if !swap {
		return s
	}
	r := []byte(s)
	for i, c := range r {
		switch c {
		case '1':
			r[i] = '2'
		case '2':
			r[i] = '1'
		case 'A':
			r[i] = 'C'
		case 'C':
			r[i] = 'A'
		}
	}
	return string(r)
}

func (w *inst) render(sn store.VerifSnap, swap bool) string {
	var b strings.Builder
	var ks []string
	for k, n := range w.uses {
		ks = append(ks, fmt.Sprintf("%s=%d", swapName(k, swap), n))
	}
	sort.Strings(ks)
	fmt.Fprintf(&b, "uses[%s]", strings.Join(ks, ","))
	live := map[string][]string{}
	for _, s := range w.st.Spies() {
		if s.Cached {
			parts := strings.SplitN(s.Key, "|", 2)
			live[parts[0]] = append(live[parts[0]], fmt.Sprintf("%s:d%d", swapName(w.symToc(parts[1]), swap), s.Dones))
		}
	}
	var imgs []string
	for _, im := range w.fx.images {
		r := im.Ref
		_, h1 := sn.Refcounter[r]
		_, h2 := sn.Layers[r]
		_, h3 := sn.ResolveCache[r]
		_, h4 := sn.PoolRefs[r]
		man := w.st.HasManifest(im.Spec)
		if !h1 && !h2 && !h3 && !h4 && !man {
			continue
		}
		var cnt, ls, rs []string
		for t, n := range sn.Refcounter[r] {
			cnt = append(cnt, fmt.Sprintf("%s=%d", swapName(w.symToc(t), swap), n))
		}
		for _, t := range sn.Layers[r] {
			ls = append(ls, swapName(w.symToc(t)+":"+w.symLayerDigest(sn.LayerDigests[r][t]), swap))
		}
		for d, e := range sn.ResolveCache[r] {
			x := swapName(w.symLayerDigest(d), swap)
			if e != "" {
				x += "!err"
			}
			rs = append(rs, x)
		}
		sort.Strings(cnt)
		sort.Strings(ls)
		sort.Strings(rs)
		sort.Strings(live[r])
		imgs = append(imgs, fmt.Sprintf("img%s{man=%v cnt%v%v lay%v res%v%v pool=%d objs%v}", swapName(strconv.Itoa(im.Idx), swap), man, h1, cnt, ls, h3, rs, sn.PoolRefs[r], live[r]))
	}
	sort.Strings(imgs)
	b.WriteString(" " + strings.Join(imgs, " "))
	return b.String()
}

// released reports whether some resolved layer has been released down to zero in this execution.
func (w *inst) released() bool {
	for _, s := range w.st.Spies() {
		if s.Dones > 0 {
			return true
		}
	}
	return false
}

func keysOf[V any](m map[string]V) map[string]bool {
	out := map[string]bool{}
	for k := range m {
		out[k] = true
	}
	return out
}

// ---- executing one history ------------------------------------------------------------------

type execResult struct {
	Canon     string
	Plain     string // the state without symmetry minimisation (for humans)
	Obs       []obs
	Viols     []viol
	PerTarget map[string]int
	Requests  int
	Fired     bool
	Released  bool // a resolved layer was released down to zero
	FiredAtOp int
	ReResolve string // informational: what a lookup after release-to-zero did
}

func copyUses(m map[string]int) map[string]int {
	out := map[string]int{}
	for k, v := range m {
		out[k] = v
	}
	return out
}

// execute replays hist on a fresh store. The oracle is evaluated after the last
// operation only (evalAll=false; the prefix was evaluated when it was a state of its
// own) or after every operation.
func execute(fx *fixture, mode, scratch string, hist []op, flt *fault, evalAll bool) (res *execResult, err error) {
	// store/manager.go is compiled against the cooperative scheduler (for the concurrency part);
	// a sequential history runs under it with the default schedule: the running thread continues
	// until it blocks, then the runnable thread with the lowest id goes on. That makes the order of
	// the per-layer resolver goroutines of getLayer (and of their registry requests) deterministic.
	rr := vrt.Run(vrt.Config{Chooser: func(vrt.ChoicePoint) int { return 0 }, KeepTimers: true}, func() {
		res, err = executeBody(fx, mode, scratch, hist, flt, evalAll)
	})
	if rr.Broken != "" {
		return nil, fmt.Errorf("history %s: scheduler: %s", histString(hist), rr.Broken)
	}
	if rr.Failure != nil {
		return nil, fmt.Errorf("history %s: %s\n%s", histString(hist), rr.Failure.Msg, rr.Failure.Stack)
	}
	if rr.StepCap {
		return nil, fmt.Errorf("history %s: step cap", histString(hist))
	}
	return res, err
}

func executeBody(fx *fixture, mode, scratch string, hist []op, flt *fault, evalAll bool) (*execResult, error) {
	w, err := newInst(fx, mode, scratch, flt)
	if err != nil {
		return nil, err
	}
	defer w.close()
	res := &execResult{FiredAtOp: -1}
	post := w.st.Snapshot()
	for i, o := range hist {
		last := i == len(hist)-1
		pre := post
		eval := evalAll || last
		usesBefore := copyUses(w.uses)
		donesBefore := map[int]int{}
		if eval {
			for _, sp := range w.st.Spies() {
				donesBefore[sp.Serial] = sp.Dones
			}
		}
		reqBefore := w.reg.Count()
		firedBefore := w.fired
		ob, cerr := w.step(o)
		// getLayer returns as soon as the wanted layer is there and leaves the image's other
		// layers resolving in background threads: let them finish (or block for good)
		vrt.WaitIdle()
		w.st.Spy()
		if w.fired && !firedBefore {
			res.FiredAtOp = i
		}
		res.Obs = append(res.Obs, ob)
		post = w.st.Snapshot()
		if eval {
			res.Viols = append(res.Viols, w.evaluate(o, ob, cerr, pre, post, usesBefore, donesBefore, reqBefore, w.reg.Count(), firedBefore)...)
			if last && (o.K == 'D' || o.K == 'B') && ob.OK && !contains(pre.Layers[fx.images[o.Img-1].Ref], fx.tocOf(o.Toc).String()) {
				for _, sp := range w.st.Spies() {
					if sp.Dones > 0 && sp.Key == fx.images[o.Img-1].Ref+"|"+fx.tocOf(o.Toc).String() {
						res.ReResolve = fmt.Sprintf("lookup after release-to-zero resolved again: registry requests=%d", w.reg.Count()-reqBefore)
					}
				}
			}
		}
		for ref, m := range post.Refcounter {
			for t, n := range m {
				if n <= 0 {
					w.tainted[w.symRef(ref)+w.symToc(t)] = true
				}
			}
		}
	}
	res.Canon = w.canon(post)
	res.Plain = w.render(post, false)
	res.Released = w.released()
	res.PerTarget = w.perTgt
	res.Requests = w.reg.Count()
	res.Fired = w.fired
	return res, nil
}

func init() {
	log.SetLevel("panic")
}
