//go:build verif

// In-package harness for property C17 (added into package fusemanager through
// the build overlay). It only constructs Server values, exposes read-only views
// of their unexported state and provides the two seams the instrumented
// service.go calls instead of service.NewFileSystem / mountinfo.GetMounts.
package fusemanager

import (
	"context"
	"fmt"

	"github.com/moby/sys/mountinfo"
	bolt "go.etcd.io/bbolt"

	"github.com/containerd/stargz-snapshotter/service"
	"github.com/containerd/stargz-snapshotter/snapshot"
)

// VerifNewFS is what Init's filesystem constructor call is redirected to.
var VerifNewFS func(ctx context.Context, root string, cfg *service.Config) (snapshot.FileSystem, error)

// VerifMounted is the ground truth behind the mountinfo seam: is this path a live mount?
var VerifMounted func(mountpoint string) bool

func verifNewFileSystem(ctx context.Context, root string, config *service.Config, opts ...service.Option) (snapshot.FileSystem, error) {
	if VerifNewFS == nil {
		return nil, fmt.Errorf("verif: VerifNewFS not set")
	}
	return VerifNewFS(ctx, root, config)
}

// verifGetMounts answers like mountinfo.GetMounts over the fake mount tables.
// It offers the queried path to the filter only through the ground-truth oracle:
// every path the harness uses is offered, the filter keeps what it wants.
var VerifMountCandidates []string

func verifGetMounts(f mountinfo.FilterFunc) ([]*mountinfo.Info, error) {
	var out []*mountinfo.Info
	for _, mp := range VerifMountCandidates {
		if VerifMounted == nil || !VerifMounted(mp) {
			continue
		}
		info := &mountinfo.Info{Mountpoint: mp, FSType: "fuse.rawBridge", Source: "stargz"}
		if f == nil {
			out = append(out, info)
			continue
		}
		skip, stop := f(info)
		if !skip {
			out = append(out, info)
		}
		if stop {
			break
		}
	}
	return out, nil
}

// VerifNewServer builds a manager exactly like runFuseManager does (minus the
// listener and grpc server, which Init/Mount/Check/Unmount never touch).
func VerifNewServer(ctx context.Context, storePath string) (*Server, error) {
	return NewFuseManager(ctx, nil, nil, storePath, "")
}

// VerifKill models the death of the manager process: the bolt handle (and its
// flock) goes away, Close() is NOT run, the store file stays.
func VerifKill(s *Server) error {
	if s == nil || s.ms == nil {
		return nil
	}
	return s.ms.Close()
}

// VerifView is a snapshot of the unexported manager state.
type VerifView struct {
	Status    int32
	Root      string
	HasConfig bool
	ConfigTag int64 // Config.Config.MaxConcurrency of the latest config
	CurFs     snapshot.FileSystem
	FsMap     map[string]snapshot.FileSystem
}

func VerifInspect(s *Server) VerifView {
	v := VerifView{Status: s.status, Root: s.root, CurFs: s.curFs, FsMap: map[string]snapshot.FileSystem{}}
	if s.config != nil {
		v.HasConfig = true
		v.ConfigTag = s.config.Config.MaxConcurrency
	}
	s.fsMap.Range(func(k, val any) bool {
		fs, _ := val.(snapshot.FileSystem)
		v.FsMap[fmt.Sprint(k)] = fs
		return true
	})
	return v
}

// VerifRecord is one raw key/value pair of the persistent store.
type VerifRecord struct {
	Key string
	Val []byte
}

// VerifStore reads the persistent record through the manager's own bolt handle
// (the file is flock'ed, nobody else can open it) with a reader written here,
// not with restoreFuseInfo. open=false when the handle is closed.
func VerifStore(s *Server) (recs []VerifRecord, open bool, err error) {
	err = s.ms.View(func(tx *bolt.Tx) error {
		b := tx.Bucket([]byte("fuse-info-bucket"))
		if b == nil {
			return nil
		}
		c := b.Cursor()
		for k, v := c.First(); k != nil; k, v = c.Next() {
			recs = append(recs, VerifRecord{Key: string(k), Val: append([]byte{}, v...)})
		}
		return nil
	})
	if err != nil {
		return nil, false, err
	}
	return recs, true, nil
}
