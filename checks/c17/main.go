// C17: FUSE manager's persistent record equals its live mounts across re-init/restart.
//
// Explicit-state BFS over RPC histories executed on the REAL fusemanager.Server
// (Init/Mount/Check/Unmount/Close/Status) plus manager restarts (process death:
// bolt handle dropped without Close(), new Server on the same store file) and
// crash-restarts at every statement boundary inside Init/Mount/Unmount
// (vrt.Crash hooks). The filesystem constructor called by Init is replaced by a
// seam that returns a fresh recording fake per Init (tagged with the config it was
// built from) or an injected error; backend Mount/Check/Unmount failures are
// injected as deviations. A state is the shortest history reaching it; a
// successor is "replay on a fresh temp dir + one op"; states are merged by a
// canonical projection. The oracle is evaluated after every operation.
package main

import (
	"context"
	"encoding/json"
	"fmt"
	"io"
	"os"
	"path/filepath"
	"reflect"
	"runtime"
	"sort"
	"strconv"
	"strings"
	"time"

	"github.com/sirupsen/logrus"

	"github.com/containerd/stargz-snapshotter/estargz/vrt"
	"github.com/containerd/stargz-snapshotter/fusemanager"
	pb "github.com/containerd/stargz-snapshotter/fusemanager/api"
	fsconfig "github.com/containerd/stargz-snapshotter/fs/config"
	"github.com/containerd/stargz-snapshotter/service"
	"github.com/containerd/stargz-snapshotter/snapshot"

	"verif/lib/runner"
)

const rootDir = "/verif-c17/root"

var mpPath = map[string]string{"1": "/verif-c17/mnt/mp1", "2": "/verif-c17/mnt/mp2"}

func mpName(path string) string {
	for k, v := range mpPath {
		if v == path {
			return "mp" + k
		}
	}
	return path
}

// ---- operations -------------------------------------------------------------------

// op: Kind I(nit) M(ount) K(check) U(nmount) C(lose) S(tatus) R(estart);
// Arg "1"/"2" = config for I, mountpoint for M/K/U;
// Fault "" | "ctor" (constructor fails) | "m1"/"m2" (1st/2nd backend Mount of this Init fails) | "f" (the backend call fails);
// Crash k>0: the manager process dies at the k-th statement boundary inside the RPC, then restarts.
type op struct {
	Kind  byte
	Arg   string
	Fault string
	Crash int
}

func (o op) String() string {
	s := string(o.Kind) + o.Arg
	if o.Fault != "" {
		s += "!" + o.Fault
	}
	if o.Crash > 0 {
		s += "@" + strconv.Itoa(o.Crash)
	}
	return s
}

func parseOp(s string) (op, error) {
	var o op
	if s == "" {
		return o, fmt.Errorf("empty op")
	}
	if i := strings.IndexByte(s, '@'); i >= 0 {
		k, err := strconv.Atoi(s[i+1:])
		if err != nil {
			return o, err
		}
		o.Crash = k
		s = s[:i]
	}
	if i := strings.IndexByte(s, '!'); i >= 0 {
		o.Fault = s[i+1:]
		s = s[:i]
	}
	o.Kind = s[0]
	o.Arg = s[1:]
	if !strings.ContainsRune("IMKUCSR", rune(o.Kind)) {
		return o, fmt.Errorf("bad op %q", s)
	}
	return o, nil
}

func (o op) kindName() string {
	return map[byte]string{'I': "Init", 'M': "Mount", 'K': "Check", 'U': "Unmount", 'C': "Close", 'S': "Status", 'R': "RESTART"}[o.Kind]
}

func (o op) human() string {
	var s string
	switch o.Kind {
	case 'I':
		s = "Init(cfg" + o.Arg + ")"
	case 'M', 'K', 'U':
		s = o.kindName() + "(mp" + o.Arg + ")"
	default:
		s = o.kindName()
	}
	switch o.Fault {
	case "ctor":
		s += "!filesystem-constructor-fails"
	case "m1":
		s += "!1st-restore-mount-fails"
	case "m2":
		s += "!2nd-restore-mount-fails"
	case "f":
		s += "!backend-call-fails"
	}
	if o.Crash > 0 {
		s += fmt.Sprintf("@crash-at-hook-%d+RESTART", o.Crash)
	}
	return s
}

func humanHist(h []string) string {
	var out []string
	for _, s := range h {
		o, _ := parseOp(s)
		out = append(out, o.human())
	}
	return strings.Join(out, ", ")
}

// ---- recording fake of snapshot.FileSystem --------------------------------------------

type call struct {
	op     string // Mount Check Unmount
	mp     string
	labels map[string]string
	failed bool
}

type inst struct {
	w      *world
	id     int    // creation ordinal in this world
	inc    int    // manager incarnation that built it
	cfg    string // "1"/"2": config it was built from
	mounts map[string]map[string]string
	calls  []call
}

var _ snapshot.FileSystem = (*inst)(nil)

func (i *inst) String() string { return fmt.Sprintf("#%d(cfg%s)", i.id, i.cfg) }

func cp(m map[string]string) map[string]string {
	if m == nil {
		return nil
	}
	o := make(map[string]string, len(m))
	for k, v := range m {
		o[k] = v
	}
	return o
}

func (i *inst) live() bool { return i.inc == i.w.inc && !i.w.closed }

func (i *inst) Mount(ctx context.Context, mp string, labels map[string]string) error {
	w := i.w
	if !i.live() {
		w.harnessErr("Mount on an instance of a dead incarnation")
	}
	c := call{op: "Mount", mp: mp, labels: cp(labels)}
	if w.takeFault("mount") {
		c.failed = true
		i.calls = append(i.calls, c)
		return fmt.Errorf("verif: injected mount failure")
	}
	if _, dup := i.mounts[mp]; dup {
		w.addViol("C17/second-mount-of-served-mountpoint", fmt.Sprintf("instance %v received Mount(%s) although it already serves that mountpoint", i, mpName(mp)))
	}
	i.mounts[mp] = cp(labels)
	i.calls = append(i.calls, c)
	return nil
}

func (i *inst) Check(ctx context.Context, mp string, labels map[string]string) error {
	w := i.w
	c := call{op: "Check", mp: mp, labels: cp(labels)}
	if w.takeFault("check") {
		c.failed = true
		i.calls = append(i.calls, c)
		return fmt.Errorf("verif: injected check failure")
	}
	if _, ok := i.mounts[mp]; !ok {
		c.failed = true
		i.calls = append(i.calls, c)
		return fmt.Errorf("verif: %s is not mounted on %v", mp, i)
	}
	i.calls = append(i.calls, c)
	return nil
}

func (i *inst) Unmount(ctx context.Context, mp string) error {
	w := i.w
	c := call{op: "Unmount", mp: mp}
	if w.takeFault("unmount") {
		c.failed = true
		i.calls = append(i.calls, c)
		return fmt.Errorf("verif: injected unmount failure")
	}
	if _, ok := i.mounts[mp]; !ok {
		c.failed = true
		i.calls = append(i.calls, c)
		return fmt.Errorf("verif: %s is not mounted on %v", mp, i)
	}
	delete(i.mounts, mp)
	i.calls = append(i.calls, c)
	return nil
}

// ---- world: one real Server + store file + fakes + ghost state ------------------------------

type fault struct {
	kind  string // ctor mount check unmount
	nth   int
	seen  int
	fired bool
}

type viol struct{ key, msg string }

type crashSentinel struct{ label string }

type world struct {
	dir, store string
	srv        *fusemanager.Server
	closed     bool // Close() ran: the process is about to exit, nothing is served
	inc        int
	insts      []*inst
	fault      *fault
	inOp       bool
	hooks      int
	lastHook   string
	crashAt    int
	ctorCalls  int
	ctorCfgBad string

	// ghost state (reference model; never read from the code under test)
	newest        *inst // instance built by the latest successful constructor call of this incarnation
	initialised   bool  // a filesystem has been constructed in this incarnation
	initAttempted bool
	pending       map[string]bool // recorded mountpoints the statement allows to be unserved
	lastCfg       string          // config of the latest Init request of this incarnation
	devs, crashes int

	viols []viol
	trace []string
	hErr  string
}

var cur *world

func init() {
	fusemanager.VerifNewFS = func(ctx context.Context, root string, cfg *service.Config) (snapshot.FileSystem, error) {
		w := cur
		w.ctorCalls++
		tag := strconv.FormatInt(cfg.MaxConcurrency, 10)
		wantRoot := rootDir
		if w.lastCfg == "2" {
			wantRoot = rootDir + "/"
		}
		if tag != w.lastCfg || root != wantRoot {
			w.ctorCfgBad = fmt.Sprintf("constructor got root=%q config tag=%s, Init request had root=%q config tag=%s", root, tag, wantRoot, w.lastCfg)
		}
		if w.takeFault("ctor") {
			return nil, fmt.Errorf("verif: injected filesystem construction failure")
		}
		i := &inst{w: w, id: len(w.insts) + 1, inc: w.inc, cfg: tag, mounts: map[string]map[string]string{}}
		w.insts = append(w.insts, i)
		return i, nil
	}
	fusemanager.VerifMountCandidates = []string{mpPath["1"], mpPath["2"]}
	fusemanager.VerifMounted = func(mp string) bool {
		w := cur
		for _, i := range w.insts {
			if i.live() {
				if _, ok := i.mounts[mp]; ok {
					return true
				}
			}
		}
		return false
	}
	vrt.CrashHook = func(label string) {
		w := cur
		if w == nil || !w.inOp {
			return
		}
		w.hooks++
		w.lastHook = label
		if w.crashAt > 0 && w.hooks == w.crashAt {
			panic(crashSentinel{label})
		}
	}
}

func (w *world) takeFault(kind string) bool {
	f := w.fault
	if f == nil || f.kind != kind || f.fired {
		return false
	}
	f.seen++
	if f.seen == f.nth {
		f.fired = true
		return true
	}
	return false
}

func (w *world) addViol(key, msg string) { w.viols = append(w.viols, viol{key, msg}) }
func (w *world) harnessErr(s string) {
	if w.hErr == "" {
		w.hErr = s
	}
}

var worldSeq int

func newWorld(scratch string) (*world, error) {
	worldSeq++
	dir := filepath.Join(scratch, fmt.Sprintf("w%d", worldSeq))
	if err := os.MkdirAll(dir, 0o755); err != nil {
		return nil, err
	}
	w := &world{dir: dir, store: filepath.Join(dir, "fusestore.db"), pending: map[string]bool{}, lastCfg: "0"}
	cur = w
	srv, err := fusemanager.VerifNewServer(context.Background(), w.store)
	if err != nil {
		return nil, err
	}
	w.srv = srv
	return w, nil
}

func (w *world) destroy() {
	if w.srv != nil {
		fusemanager.VerifKill(w.srv)
		w.srv = nil
	}
	os.RemoveAll(w.dir)
	if cur == w {
		cur = nil
	}
}

// restart = the manager process dies (no Close()) and a new one starts on the same store file.
func (w *world) restart() error {
	if err := fusemanager.VerifKill(w.srv); err != nil {
		return fmt.Errorf("closing bolt handle: %w", err)
	}
	w.inc++
	w.closed = false
	w.newest, w.initialised, w.initAttempted, w.lastCfg = nil, false, false, "0"
	srv, err := fusemanager.VerifNewServer(context.Background(), w.store)
	if err != nil {
		return err
	}
	w.srv = srv
	// everything recorded is pending restoration until the next Init
	w.pending = map[string]bool{}
	recs, _, _ := fusemanager.VerifStore(srv)
	for _, r := range recs {
		w.pending[r.Key] = true
	}
	return nil
}

// ---- observation of the state ---------------------------------------------------------

type rec struct {
	Key        string
	Root       string
	Mountpoint string
	Labels     map[string]string
	Config     struct {
		MaxConcurrency int64 `json:"max_concurrency"`
	}
	bad string
}

type snap struct {
	view      fusemanager.VerifView
	store     []rec
	storeOpen bool
	fileThere bool
	served    map[string]*inst // ground truth: live fake instance holding the mountpoint
	dups      []string
	callLen   map[*inst]int
}

func (s *snap) recOf(mp string) *rec {
	for i := range s.store {
		if s.store[i].Key == mp {
			return &s.store[i]
		}
	}
	return nil
}

func (w *world) snap() *snap {
	s := &snap{served: map[string]*inst{}, callLen: map[*inst]int{}}
	s.view = fusemanager.VerifInspect(w.srv)
	raw, open, _ := fusemanager.VerifStore(w.srv)
	s.storeOpen = open
	for _, r := range raw {
		var x rec
		if err := json.Unmarshal(r.Val, &x); err != nil {
			x.bad = err.Error()
		}
		x.Key = r.Key
		s.store = append(s.store, x)
	}
	if _, err := os.Stat(w.store); err == nil {
		s.fileThere = true
	}
	for _, i := range w.insts {
		s.callLen[i] = len(i.calls)
		if !i.live() {
			continue
		}
		for mp := range i.mounts {
			if o, ok := s.served[mp]; ok {
				s.dups = append(s.dups, fmt.Sprintf("%s on %v and %v", mpName(mp), o, i))
				continue
			}
			s.served[mp] = i
		}
	}
	sort.Strings(s.dups)
	return s
}

func asInst(fs snapshot.FileSystem) *inst {
	if fs == nil {
		return nil
	}
	i, _ := fs.(*inst)
	return i
}

func sortedKeys[V any](m map[string]V) []string {
	ks := make([]string, 0, len(m))
	for k := range m {
		ks = append(ks, k)
	}
	sort.Strings(ks)
	return ks
}

func labelStr(l map[string]string) string {
	var p []string
	for _, k := range sortedKeys(l) {
		p = append(p, k+"="+l[k])
	}
	return strings.Join(p, ",")
}

func shortLabels(l map[string]string) string {
	if l == nil {
		return "nil"
	}
	return "gen=" + l["verif/gen"] + ",ref=" + l["containerd.io/snapshot/remote/stargz.reference"]
}

// describe renders a state for traces.
func (w *world) describe(s *snap) string {
	if w.closed {
		return fmt.Sprintf("CLOSED store-file-present=%v", s.fileThere)
	}
	var b strings.Builder
	fmt.Fprintf(&b, "status=%d curFs=%v fsMap{", s.view.Status, instName(asInst(s.view.CurFs)))
	for n, mp := range sortedKeys(s.view.FsMap) {
		if n > 0 {
			b.WriteString(" ")
		}
		fmt.Fprintf(&b, "%s:%v", mpName(mp), instName(asInst(s.view.FsMap[mp])))
	}
	b.WriteString("} store{")
	for n, r := range s.store {
		if n > 0 {
			b.WriteString(" ")
		}
		fmt.Fprintf(&b, "%s[%s,cfg%d]", mpName(r.Key), shortLabels(r.Labels), r.Config.MaxConcurrency)
	}
	b.WriteString("} live{")
	n := 0
	for _, i := range w.insts {
		if !i.live() || len(i.mounts) == 0 {
			continue
		}
		if n > 0 {
			b.WriteString(" ")
		}
		n++
		fmt.Fprintf(&b, "%v:", i)
		for m, mp := range sortedKeys(i.mounts) {
			if m > 0 {
				b.WriteString(",")
			}
			fmt.Fprintf(&b, "%s[%s]", mpName(mp), shortLabels(i.mounts[mp]))
		}
	}
	b.WriteString("}")
	if len(w.pending) > 0 {
		var p []string
		for _, k := range sortedKeys(w.pending) {
			p = append(p, mpName(k))
		}
		fmt.Fprintf(&b, " allowed-unserved{%s}", strings.Join(p, ","))
	}
	return b.String()
}

func instName(i *inst) string {
	if i == nil {
		return "nil"
	}
	return i.String()
}

// canon is the canonical projection used to merge histories: instance identities are
// renumbered in order of first reference (curFs, fsMap by mountpoint, then leftovers).
func (w *world) canon(s *snap) string {
	if w.closed {
		return fmt.Sprintf("closed|file=%v|d%d|c%d", s.fileThere, w.devs, w.crashes)
	}
	ids := map[*inst]int{}
	var order []*inst
	name := func(i *inst) string {
		if i == nil {
			return "nil"
		}
		if _, ok := ids[i]; !ok {
			ids[i] = len(ids) + 1
			order = append(order, i)
		}
		return fmt.Sprintf("%d/%s", ids[i], i.cfg)
	}
	var b strings.Builder
	fmt.Fprintf(&b, "st%d|cfg%v:%d|cur=%s|new=%s|fs{", s.view.Status, s.view.HasConfig, s.view.ConfigTag, name(asInst(s.view.CurFs)), name(w.newest))
	for _, mp := range sortedKeys(s.view.FsMap) {
		fmt.Fprintf(&b, "%s=%s;", mp, name(asInst(s.view.FsMap[mp])))
	}
	b.WriteString("}|store{")
	for _, r := range s.store {
		fmt.Fprintf(&b, "%s:%s:%s:%s:%d:%s;", r.Key, r.Mountpoint, r.Root, labelStr(r.Labels), r.Config.MaxConcurrency, r.bad)
	}
	b.WriteString("}|live{")
	for _, i := range w.insts {
		if i.live() && len(i.mounts) > 0 {
			name(i)
		}
	}
	for _, i := range order {
		fmt.Fprintf(&b, "%s:", name(i))
		if i.live() {
			for _, mp := range sortedKeys(i.mounts) {
				fmt.Fprintf(&b, "%s[%s];", mp, labelStr(i.mounts[mp]))
			}
		} else {
			b.WriteString("dead")
		}
		b.WriteString("|")
	}
	fmt.Fprintf(&b, "}|pend%v|init%v/%v|last%s|d%d|c%d", sortedKeys(w.pending), w.initialised, w.initAttempted, w.lastCfg, w.devs, w.crashes)
	return b.String()
}

// ---- one step + oracle -----------------------------------------------------------------

type stepObs struct {
	Err        string
	Panic      string
	Crashed    bool
	CrashLabel string
	FaultFired bool
	Hooks      int
	Status     int32
	Class      string   // outcome class for the histogram
	Notes      []string // further observations (not verdicts) for the histogram
}

func (w *world) labelsFor(arg string) map[string]string {
	return map[string]string{
		"containerd.io/snapshot/remote/stargz.reference": "registry.test/img" + arg + ":1",
		"verif/gen": "cfg" + w.lastCfg,
	}
}

func cfgBytes(arg string) []byte {
	n, _ := strconv.ParseInt(arg, 10, 64)
	c := &fusemanager.Config{Config: service.Config{Config: fsconfig.Config{MaxConcurrency: n}}}
	b, err := json.Marshal(c)
	if err != nil {
		panic(err)
	}
	return b
}

func (w *world) phase() string {
	switch {
	case w.closed:
		return "closed"
	case w.initialised:
		return "initialised"
	case w.initAttempted:
		return "after-failed-first-init"
	}
	return "before-first-init"
}

// step applies one operation to the real Server, then evaluates the oracle.
func (w *world) step(o op) (obs stepObs, post *snap) {
	cur = w
	pre := w.snap()
	prePhase := w.phase()
	preInitialised := w.initialised
	preNewest := w.newest
	nInstPre := len(w.insts)
	ctx := context.Background()

	w.fault = nil
	switch o.Fault {
	case "ctor":
		w.fault = &fault{kind: "ctor", nth: 1}
	case "m1":
		w.fault = &fault{kind: "mount", nth: 1}
	case "m2":
		w.fault = &fault{kind: "mount", nth: 2}
	case "f":
		w.fault = &fault{kind: map[byte]string{'M': "mount", 'K': "check", 'U': "unmount"}[o.Kind], nth: 1}
	}
	w.crashAt, w.hooks, w.ctorCalls, w.ctorCfgBad = o.Crash, 0, 0, ""
	var labels map[string]string
	if o.Kind == 'I' {
		w.lastCfg = o.Arg
	}
	var err error
	func() {
		defer func() {
			w.inOp = false
			if r := recover(); r != nil {
				if cs, ok := r.(crashSentinel); ok {
					obs.Crashed, obs.CrashLabel = true, cs.label
					return
				}
				buf := make([]byte, 4096)
				n := runtime.Stack(buf, false)
				obs.Panic = fmt.Sprintf("%v\n%s", r, firstFrames(string(buf[:n])))
			}
		}()
		w.inOp = true
		switch o.Kind {
		case 'I':
			root := rootDir
			if o.Arg == "2" {
				root = rootDir + "/" // the same directory spelled differently: re-initialisation must not depend on it
			}
			_, err = w.srv.Init(ctx, &pb.InitRequest{Root: root, Config: cfgBytes(o.Arg)})
		case 'M':
			labels = w.labelsFor(o.Arg)
			_, err = w.srv.Mount(ctx, &pb.MountRequest{Mountpoint: mpPath[o.Arg], Labels: cp(labels)})
		case 'K':
			labels = w.labelsFor(o.Arg)
			_, err = w.srv.Check(ctx, &pb.CheckRequest{Mountpoint: mpPath[o.Arg], Labels: cp(labels)})
		case 'U':
			_, err = w.srv.Unmount(ctx, &pb.UnmountRequest{Mountpoint: mpPath[o.Arg]})
		case 'S':
			var r *pb.StatusResponse
			r, err = w.srv.Status(ctx, &pb.StatusRequest{})
			if r != nil {
				obs.Status = r.Status
			}
		case 'C':
			err = w.srv.Close(ctx)
		case 'R':
			w.inOp = false
			if e := w.restart(); e != nil {
				w.harnessErr("restart: " + e.Error())
			}
		}
	}()
	obs.Hooks = w.hooks
	w.crashAt = 0
	if err != nil {
		obs.Err = err.Error()
	}
	if w.fault != nil {
		obs.FaultFired = w.fault.fired
		if w.fault.fired {
			w.devs++
		}
	}
	w.fault = nil

	// ---- panics: never an acceptable way to "fail"
	if obs.Panic != "" {
		obs.Class = o.kindName() + "/" + prePhase + "/PANIC"
		w.addViol("C17/panic/"+o.kindName()+"/"+prePhase,
			fmt.Sprintf("%s panicked in phase %q (expected: an error return). Statement being executed: %s (original source position). %s [frames carry line numbers of the instrumented copy]", o.human(), prePhase, w.lastHook, obs.Panic))
		w.trace = append(w.trace, fmt.Sprintf("%-28s -> PANIC %s", o.human(), strings.SplitN(obs.Panic, "\n", 2)[0]))
		return obs, nil
	}

	// ---- crash inside the RPC: the process is gone; restart it
	if obs.Crashed {
		w.crashes++
		if e := w.restart(); e != nil {
			w.harnessErr("restart after crash: " + e.Error())
			return obs, nil
		}
		post = w.snap()
		obs.Class = o.kindName() + "/crash+restart"
		w.invariants(o, post)
		w.trace = append(w.trace, fmt.Sprintf("%-28s -> process died at %s, restarted | %s", o.human(), obs.CrashLabel, w.describe(post)))
		return obs, post
	}

	if o.Kind == 'C' {
		w.closed = true
	}
	post = w.snap()

	// new backend calls made during this op, per instance
	type icall struct {
		i *inst
		c call
	}
	var calls []icall
	for _, i := range w.insts {
		for _, c := range i.calls[pre.callLen[i]:] {
			calls = append(calls, icall{i, c})
		}
	}
	only := func(kind string) []icall {
		var out []icall
		for _, c := range calls {
			if c.c.op == kind {
				out = append(out, c)
			} else {
				w.addViol("C17/unexpected-backend-call/"+o.kindName(), fmt.Sprintf("%s caused backend %s(%s) on %v", o.human(), c.c.op, mpName(c.c.mp), c.i))
			}
		}
		return out
	}
	res := "ok"
	if obs.Err != "" {
		res = "error"
	}
	obs.Class = o.kindName() + "/" + prePhase + "/" + res
	if o.Fault != "" {
		obs.Class += "/fault-" + o.Fault
	}
	mp := mpPath[o.Arg]

	switch o.Kind {
	case 'M', 'K', 'U':
		if !preInitialised {
			// "requests before initialisation fail"
			if obs.Err == "" {
				w.addViol("C17/rpc-before-init-succeeds/"+o.kindName()+"/"+prePhase,
					fmt.Sprintf("%s returned success in phase %q (no filesystem has been constructed in this incarnation); expected an error", o.human(), prePhase))
			}
			if len(calls) > 0 {
				w.addViol("C17/rpc-before-init-reaches-backend/"+o.kindName(), fmt.Sprintf("%s reached a backend in phase %q", o.human(), prePhase))
			}
			break
		}
		h := pre.served[mp]
		switch o.Kind {
		case 'M':
			mc := only("Mount")
			if h != nil {
				obs.Class += "/already-served"
				if r := post.recOf(mp); r != nil && !reflect.DeepEqual(r.Labels, h.mounts[mp]) {
					obs.Notes = append(obs.Notes, "note/Mount-of-served-mountpoint-rewrites-record-labels-differing-from-live-mount")
				}
				if len(mc) > 0 {
					w.addViol("C17/second-mount-of-served-mountpoint", fmt.Sprintf("%s: mountpoint is served by %v, yet backend Mount was called on %v", o.human(), h, mc[0].i))
				}
				break
			}
			if len(mc) != 1 {
				w.addViol("C17/mount/backend-call-count", fmt.Sprintf("%s of an unserved mountpoint made %d backend Mount calls, expected 1", o.human(), len(mc)))
				break
			}
			c := mc[0]
			if c.i != preNewest {
				w.addViol("C17/mount-not-on-newest-instance", fmt.Sprintf("%s went to %v, newest instance is %v", o.human(), c.i, instName(preNewest)))
			}
			if c.c.mp != mp || !reflect.DeepEqual(c.c.labels, labels) {
				w.addViol("C17/mount/wrong-arguments", fmt.Sprintf("%s: backend got Mount(%s,[%s]), request was (%s,[%s])", o.human(), mpName(c.c.mp), labelStr(c.c.labels), mpName(mp), labelStr(labels)))
			}
			if c.c.failed && obs.Err == "" {
				w.addViol("C17/mount/backend-error-swallowed", fmt.Sprintf("%s: backend Mount failed but the RPC returned success", o.human()))
			}
		case 'K':
			kc := only("Check")
			if h == nil {
				obs.Class += "/unserved"
				if len(kc) > 0 {
					w.addViol("C17/check-misrouted", fmt.Sprintf("%s: nobody serves the mountpoint, yet Check reached %v", o.human(), kc[0].i))
				}
				break
			}
			if len(kc) != 1 || kc[0].i != h || kc[0].c.mp != mp {
				var got []string
				for _, c := range kc {
					got = append(got, fmt.Sprintf("%v.Check(%s)", c.i, mpName(c.c.mp)))
				}
				w.addViol("C17/check-misrouted", fmt.Sprintf("%s: mountpoint was mounted by %v; expected exactly one Check there, got %v", o.human(), h, got))
				break
			}
			if kc[0].c.failed != (obs.Err != "") {
				w.addViol("C17/check/result-not-propagated", fmt.Sprintf("%s: backend failed=%v, RPC error=%q", o.human(), kc[0].c.failed, obs.Err))
			}
		case 'U':
			uc := only("Unmount")
			if h == nil {
				obs.Class += "/unserved"
				if len(uc) > 0 {
					w.addViol("C17/unmount-misrouted", fmt.Sprintf("%s: nobody serves the mountpoint, yet Unmount reached %v", o.human(), uc[0].i))
				}
				if pre.recOf(mp) != nil && obs.Err == "" && post.recOf(mp) != nil {
					obs.Notes = append(obs.Notes, "note/Unmount-ok-of-recorded-but-unserved-mountpoint-keeps-the-record")
				}
				if pre.recOf(mp) == nil && obs.Err != "" {
					w.addViol("C17/unmount-unknown-fails", fmt.Sprintf("%s: mountpoint is neither recorded nor mounted, expected success, got error %q", o.human(), obs.Err))
				}
				break
			}
			if len(uc) != 1 || uc[0].i != h || uc[0].c.mp != mp {
				var got []string
				for _, c := range uc {
					got = append(got, fmt.Sprintf("%v.Unmount(%s)", c.i, mpName(c.c.mp)))
				}
				w.addViol("C17/unmount-misrouted", fmt.Sprintf("%s: mountpoint was mounted by %v; expected exactly one Unmount there, got %v", o.human(), h, got))
				break
			}
			if uc[0].c.failed && obs.Err == "" {
				w.addViol("C17/unmount/backend-error-swallowed", fmt.Sprintf("%s: backend Unmount failed but the RPC returned success", o.human()))
			}
		}
	case 'I':
		w.initAttempted = true
		mc := only("Mount")
		var n *inst
		if len(w.insts) > nInstPre {
			n = w.insts[len(w.insts)-1]
		}
		if w.ctorCfgBad != "" {
			w.addViol("C17/init/constructor-wrong-config", o.human()+": "+w.ctorCfgBad)
		}
		if n != nil {
			w.initialised = true
			w.newest = n
		}
		if n == nil {
			// constructor failed (or was never called)
			if obs.Err == "" {
				w.addViol("C17/init/constructor-error-swallowed", fmt.Sprintf("%s: no filesystem was constructed (constructor calls=%d) but Init returned success", o.human(), w.ctorCalls))
			}
		}
		anyFailed := false
		for _, c := range mc {
			r := pre.recOf(c.c.mp)
			switch {
			case c.i != n:
				w.addViol("C17/mount-not-on-newest-instance", fmt.Sprintf("%s: restore Mount(%s) went to %v, the instance built by this Init is %v", o.human(), mpName(c.c.mp), c.i, instName(n)))
			case r == nil:
				w.addViol("C17/init/mounted-unrecorded", fmt.Sprintf("%s mounted %s which was not in the store", o.human(), mpName(c.c.mp)))
			case pre.served[c.c.mp] != nil:
				w.addViol("C17/second-mount-of-served-mountpoint", fmt.Sprintf("%s: %s is already served by %v and was mounted again on %v", o.human(), mpName(c.c.mp), pre.served[c.c.mp], c.i))
			case !reflect.DeepEqual(r.Labels, c.c.labels) && !(len(r.Labels) == 0 && len(c.c.labels) == 0):
				w.addViol("C17/restore-wrong-labels", fmt.Sprintf("%s: restore Mount(%s) used labels [%s], store has [%s]", o.human(), mpName(c.c.mp), labelStr(c.c.labels), labelStr(r.Labels)))
			}
			if c.c.failed {
				anyFailed = true
			}
		}
		if anyFailed && obs.Err == "" {
			w.addViol("C17/init/restore-error-swallowed", fmt.Sprintf("%s: a restore mount failed but Init returned success", o.human()))
		}
		if obs.Err == "" {
			for _, r := range pre.store {
				if post.served[r.Key] == nil {
					w.addViol("C17/restore-incomplete", fmt.Sprintf("%s returned success but recorded mountpoint %s is not mounted", o.human(), mpName(r.Key)))
				}
			}
			w.pending = map[string]bool{}
		} else {
			// at most those whose restoration failed during the last initialisation, which then reported the error
			w.pending = map[string]bool{}
			for _, r := range pre.store {
				if post.served[r.Key] == nil {
					w.pending[r.Key] = true
				}
			}
		}
	case 'S':
		only("none")
		obs.Class = fmt.Sprintf("Status/%s=%d", prePhase, obs.Status)
	case 'C':
		only("none")
		if obs.Err != "" {
			obs.Class = "Close/error"
		}
	case 'R':
		obs.Class = "RESTART/" + prePhase
	}

	w.invariants(o, post)
	resStr := "ok"
	if obs.Err != "" {
		resStr = "error(" + obs.Err + ")"
	}
	if o.Kind == 'S' {
		resStr = fmt.Sprintf("status=%d", obs.Status)
	}
	w.trace = append(w.trace, fmt.Sprintf("%-28s -> %s | %s", o.human(), resStr, w.describe(post)))
	return obs, post
}

// invariants: the quiescent-point part of the statement.
func (w *world) invariants(o op, s *snap) {
	if w.closed {
		return // process is exiting; it serves nothing
	}
	after := "after " + o.human() + ": "
	for _, d := range s.dups {
		w.addViol("C17/mounted-twice", after+"mountpoint mounted on two instances at once: "+d)
	}
	for _, r := range s.store {
		if r.bad != "" || r.Mountpoint != r.Key {
			w.addViol("C17/record-corrupt", fmt.Sprintf("%sstore record %q unreadable or inconsistent (mountpoint=%q, err=%s)", after, r.Key, r.Mountpoint, r.bad))
		}
	}
	// each served mountpoint is held (in fsMap) by the instance that mounted it
	for _, mp := range sortedKeys(s.view.FsMap) {
		i := asInst(s.view.FsMap[mp])
		if i == nil || !i.live() {
			w.addViol("C17/fsmap-not-holder", fmt.Sprintf("%sfsMap[%s] is not a live filesystem instance", after, mpName(mp)))
			continue
		}
		if _, ok := i.mounts[mp]; !ok {
			w.addViol("C17/fsmap-not-holder", fmt.Sprintf("%sfsMap[%s]=%v but that instance does not have it mounted (mounted by %v)", after, mpName(mp), i, instName(s.served[mp])))
		}
	}
	for _, mp := range sortedKeys(s.served) {
		if asInst(s.view.FsMap[mp]) != s.served[mp] {
			w.addViol("C17/live-mount-not-tracked", fmt.Sprintf("%s%s is mounted on %v but fsMap has %v", after, mpName(mp), s.served[mp], instName(asInst(s.view.FsMap[mp]))))
		}
	}
	// store vs served
	for _, mp := range sortedKeys(s.served) {
		if s.recOf(mp) == nil {
			w.addViol("C17/served-not-recorded", fmt.Sprintf("%s%s is served by %v but the store has no record of it (store keys: %v)", after, mpName(mp), s.served[mp], storeKeys(s)))
		}
	}
	for _, r := range s.store {
		if s.served[r.Key] == nil && !w.pending[r.Key] {
			w.addViol("C17/recorded-not-served", fmt.Sprintf("%sstore records %s but nobody serves it, and it is not a leftover of a failed restoration", after, mpName(r.Key)))
		}
	}
	// a leftover stops being one as soon as it is served again or leaves the store
	for _, mp := range sortedKeys(w.pending) {
		if s.served[mp] != nil || s.recOf(mp) == nil {
			delete(w.pending, mp)
		}
	}
	// the filesystem built from the latest config is the current one
	if asInst(s.view.CurFs) != w.newest {
		w.addViol("C17/curfs-not-newest", fmt.Sprintf("%scurFs=%v, newest constructed instance=%v", after, instName(asInst(s.view.CurFs)), instName(w.newest)))
	}
}

func storeKeys(s *snap) []string {
	var k []string
	for _, r := range s.store {
		k = append(k, mpName(r.Key))
	}
	return k
}

func firstFrames(stack string) string {
	var out []string
	for _, l := range strings.Split(stack, "\n") {
		if strings.Contains(l, "/fusemanager/") || strings.Contains(l, "fusemanager.") {
			out = append(out, strings.TrimSpace(l))
		}
		if len(out) >= 6 {
			break
		}
	}
	return strings.Join(out, " | ")
}

// ---- explorer -----------------------------------------------------------------------------

type bounds struct {
	depth, maxDev, maxCrash int
	crashKinds              string
	shardDepth              int
}

func boundsFor(tier string) bounds {
	if tier == "thorough" {
		return bounds{depth: 6, maxDev: 2, maxCrash: 2, crashKinds: "MUI", shardDepth: 3}
	}
	return bounds{depth: 5, maxDev: 1, maxCrash: 1, crashKinds: "MUI", shardDepth: 2}
}

type node struct {
	hist          []string
	closed        bool
	devs, crashes int
}

func alphabet(n node, b bounds) []op {
	if n.closed {
		return []op{{Kind: 'R'}}
	}
	var out []op
	for _, a := range []string{"1", "2"} {
		out = append(out, op{Kind: 'I', Arg: a})
	}
	for _, k := range []byte{'M', 'K', 'U'} {
		for _, a := range []string{"1", "2"} {
			out = append(out, op{Kind: k, Arg: a})
		}
	}
	out = append(out, op{Kind: 'S'}, op{Kind: 'C'}, op{Kind: 'R'})
	if n.devs < b.maxDev {
		for _, a := range []string{"1", "2"} {
			for _, f := range []string{"ctor", "m1", "m2"} {
				out = append(out, op{Kind: 'I', Arg: a, Fault: f})
			}
		}
		for _, k := range []byte{'M', 'K', 'U'} {
			for _, a := range []string{"1", "2"} {
				out = append(out, op{Kind: k, Arg: a, Fault: "f"})
			}
		}
	}
	return out
}

type runOut struct {
	obs   stepObs
	canon string
	viols []viol
	trace []string
	w     node
	nontr bool
	hErr  string
}

// runHist replays hist on a fresh world and applies last; the oracle runs on every step,
// only violations of the last step are reported (prefixes were accepted before).
func runHist(scratch string, hist []string, last op) runOut {
	var out runOut
	w, err := newWorld(scratch)
	if err != nil {
		out.hErr = "newWorld: " + err.Error()
		return out
	}
	defer w.destroy()
	for _, s := range hist {
		o, _ := parseOp(s)
		w.step(o)
		if len(w.viols) > 0 || w.hErr != "" {
			out.hErr = fmt.Sprintf("prefix %v misbehaved on replay (non-deterministic?): %v %s", hist, w.viols, w.hErr)
			return out
		}
	}
	obs, post := w.step(last)
	out.obs = obs
	out.viols = w.viols
	out.trace = w.trace
	out.hErr = w.hErr
	if post != nil {
		out.canon = w.canon(post)
		out.nontr = !w.closed && w.initialised && (len(post.store) > 0 || len(post.served) > 0)
	}
	out.w = node{closed: w.closed, devs: w.devs, crashes: w.crashes}
	return out
}

func explore(c *runner.Ctx) *runner.Result {
	b := boundsFor(c.Tier)
	res := &runner.Result{Outcomes: map[string]int{}}
	visited := map[string]bool{}
	nontrivial := 0
	seenKey := map[string]bool{}
	var maxDepthDone int
	crashLabels := map[string]bool{}

	root := runHist(c.Scratch, nil, op{Kind: 'S'})
	if root.hErr != "" {
		res.Broken = root.hErr
		return res
	}
	visited[root.canon] = true
	frontier := []node{{}}
	counted := func(depth int) bool { return depth >= b.shardDepth || c.Shard == 0 }
	if c.Shard == 0 {
		res.States++
	}

	handle := func(n node, o op, depth int, next *[]node) (hooks int, ok bool) {
		r := runHist(c.Scratch, n.hist, o)
		if r.hErr != "" {
			res.Broken = fmt.Sprintf("history %v + %s: %s", n.hist, o, r.hErr)
			return 0, false
		}
		if o.Fault != "" && !r.obs.FaultFired {
			return 0, true // the deviation had nothing to act on: identical to the plain op
		}
		if o.Crash > 0 && !r.obs.Crashed {
			res.Broken = fmt.Sprintf("history %v + %s: crash point not reached on replay", n.hist, o)
			return 0, false
		}
		cnt := counted(depth)
		if cnt {
			res.Evaluations++
			res.Transitions += int64(len(n.hist) + 1)
			res.Outcomes[r.obs.Class]++
			for _, nt := range r.obs.Notes {
				res.Outcomes[nt]++
			}
			if r.obs.Crashed {
				crashLabels[r.obs.CrashLabel] = true
			}
		}
		hist := append(append([]string{}, n.hist...), o.String())
		if len(r.viols) > 0 {
			for _, v := range r.viols {
				if seenKey[v.key] {
					continue
				}
				seenKey[v.key] = true
				res.Violations = append(res.Violations, runner.Violation{
					Key:    v.key,
					Msg:    fmt.Sprintf("history: %s\n%s\ntrace:\n  %s", humanHist(hist), v.msg, strings.Join(r.trace, "\n  ")),
					Replay: map[string]any{"history": hist},
				})
			}
			return r.obs.Hooks, true // violating states are not expanded
		}
		if !visited[r.canon] {
			visited[r.canon] = true
			if cnt {
				res.States++
				if r.nontr {
					nontrivial++
				}
			}
			nn := r.w
			nn.hist = hist
			*next = append(*next, nn)
			if len(res.Samples) < 2 && depth+1 == b.depth && r.nontr && o.Kind != 'S' {
				res.Samples = append(res.Samples, map[string]any{"history": humanHist(hist), "trace": r.trace})
			}
		}
		return r.obs.Hooks, true
	}

	for depth := 0; depth < b.depth; depth++ {
		var next []node
		for idx, n := range frontier {
			if depth == b.shardDepth && idx%c.Of != c.Shard {
				continue
			}
			if time.Now().After(c.Deadline) {
				res.Caps = append(res.Caps, fmt.Sprintf("time budget: stopped at depth %d, state %d of %d in this shard's frontier", depth+1, idx, len(frontier)))
				goto done
			}
			for _, o := range alphabet(n, b) {
				hooks, ok := handle(n, o, depth, &next)
				if !ok {
					return res
				}
				if o.Fault == "" && n.crashes < b.maxCrash && strings.IndexByte(b.crashKinds, o.Kind) >= 0 {
					for k := 1; k <= hooks; k++ {
						oc := o
						oc.Crash = k
						if _, ok := handle(n, oc, depth, &next); !ok {
							return res
						}
					}
				}
			}
		}
		frontier = next
		maxDepthDone = depth + 1
	}
done:
	res.Nontrivial = int64(nontrivial)
	var cl []string
	for l := range crashLabels {
		cl = append(cl, l)
	}
	sort.Strings(cl)
	res.Extra = map[string]any{
		"depth_completed":        maxDepthDone,
		"deviation_bound":        b.maxDev,
		"crash_restart_bound":    b.maxCrash,
		"crash_points_exercised": cl,
		"shard_level":            b.shardDepth,
		"alphabet":               "Init(cfg1|cfg2)[!ctor|!m1|!m2] Mount|Check|Unmount(mp1|mp2)[!f] Status Close RESTART; Init/Mount/Unmount@crash-hook-k+RESTART",
	}
	return res
}

func replay(c *runner.Ctx, raw json.RawMessage) (string, error) {
	var r struct {
		History []string `json:"history"`
	}
	if err := json.Unmarshal(raw, &r); err != nil {
		return "", err
	}
	if len(r.History) == 0 {
		return "", fmt.Errorf("empty history")
	}
	last, err := parseOp(r.History[len(r.History)-1])
	if err != nil {
		return "", err
	}
	out := runHist(c.Scratch, r.History[:len(r.History)-1], last)
	txt := "history: " + humanHist(r.History) + "\n  " + strings.Join(out.trace, "\n  ")
	if out.hErr != "" {
		return txt, fmt.Errorf("harness: %s", out.hErr)
	}
	if len(out.viols) > 0 {
		var m []string
		for _, v := range out.viols {
			m = append(m, v.key+": "+v.msg)
		}
		return txt, fmt.Errorf("%s", strings.Join(m, "\n  "))
	}
	return txt, nil
}

func main() {
	logrus.SetOutput(io.Discard)
	logrus.SetLevel(logrus.PanicLevel)
	if h := os.Getenv("C17_HIST"); h != "" { // debugging aid: C17_HIST="I1!ctor,M1"
		sc, _ := os.MkdirTemp("/dev/shm", "c17dbg")
		defer os.RemoveAll(sc)
		b, _ := json.Marshal(map[string]any{"history": strings.Split(h, ",")})
		out, err := replay(&runner.Ctx{Scratch: sc}, b)
		fmt.Println(out)
		if err != nil {
			fmt.Println("VIOLATION:", err)
		}
		return
	}
	runner.Main(runner.Check{
		ID:    "C17",
		Level: "model_checking",
		Rule: "BFS over histories of Init(cfg1|cfg2), Mount/Check/Unmount(mp1|mp2), Status, Close, RESTART on the real fusemanager.Server with a bolt store file, " +
			"with filesystem-constructor / restore-mount / Mount / Check / Unmount failures as deviations and process death at every statement boundary of Init/Mount/Unmount followed by RESTART; " +
			"states merged by canonical projection (store records, fsMap->instance, curFs, status, per-instance mount tables, ghost model); states are distinct per shard " +
			"(a state reachable from prefixes owned by several shards is counted in each; levels below the shard level are counted once). " +
			"non-trivial = distinct canonical state in which a filesystem has been constructed and the store or a live mount table is non-empty",
		Assumptions: []string{
			"RPCs are applied sequentially (quiescent points between RPCs); concurrency of RPCs is not explored here",
			"process death kills every FUSE mount of that process: instances of a previous incarnation hold nothing",
			"bbolt commits atomically; a panic inside a bolt transaction rolls it back (bbolt's own deferred rollback), which models death before commit",
			"after Close() the process exits (runFuseManager stops the grpc server first): only RESTART follows Close in a history",
			"'initialised' = a filesystem instance has been constructed by some Init of the current incarnation; an Init whose restoration failed still counts (the statement describes that state as a serving one)",
			"mountinfo.GetMounts is replaced by the fake mount tables; labels of a Mount request are a function of (mountpoint, config of the latest Init request)",
		},
		QuickBudget: 170 * time.Second, ThoroughBudget: 28 * time.Minute,
		Parts: func(tier string) []runner.Part {
			return []runner.Part{{Name: "bfs", Shards: 16, Run: explore, Replay: replay}}
		},
	})
}
