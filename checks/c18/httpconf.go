// C18 part (b): headers configured for a registry host and registry credentials are confined
// to that host on every HTTP request path of the remote fetcher.
package main

import (
	"context"
	"encoding/base64"
	"encoding/json"
	"fmt"
	"io"
	"net/http"
	"strings"
	"time"

	"github.com/containerd/containerd/v2/core/remotes/docker"
	"github.com/containerd/containerd/v2/pkg/reference"
	"github.com/containerd/stargz-snapshotter/cache"
	"github.com/containerd/stargz-snapshotter/estargz/vrt"
	"github.com/containerd/stargz-snapshotter/fs/config"
	"github.com/containerd/stargz-snapshotter/fs/remote"
	"github.com/containerd/stargz-snapshotter/fs/source"
	digest "github.com/opencontainers/go-digest"
	ocispec "github.com/opencontainers/image-spec/specs-go/v1"
	"github.com/sirupsen/logrus"

	"verif/lib/memreg"
	"verif/lib/runner"
	"verif/lib/vexp"
)

const (
	secretHeader = "X-Registry-Secret"
	secretValue  = "hdr-s3cr3t"
	user, pass   = "alice", "pw-s3cr3t"
	tokenValue   = "tok-s3cr3t"
)

func init() { logrus.SetOutput(io.Discard) }

// personality of the fake registry for one scenario.
type persona struct {
	Redirect1  bool   `json:"redirect_first"` // first blob GET on the registry is answered 307 -> CDN
	RedirectN  bool   `json:"redirect_later"` // later blob GETs on the registry are answered 307 too
	CDNExpires int    `json:"cdn_expires_at"` // the k-th CDN request (counted after resolution) is answered 403; 0 = never
	Challenge  bool   `json:"challenge"`      // the registry answers 401 + Bearer challenge until a token is presented
	Mirror     bool   `json:"mirror"`         // a mirror host with its own header is tried first and fails
	CDN        string `json:"cdn,omitempty"`  // host the registry redirects to ("" = an unrelated name)
}

func (p persona) String() string {
	return fmt.Sprintf("redirect(first=%v,later=%v,to=%q) cdn403@%d challenge=%v mirror=%v", p.Redirect1, p.RedirectN, p.CDN, p.CDNExpires, p.Challenge, p.Mirror)
}

type hworld struct {
	p      persona
	reg    *memreg.Registry
	data   []byte
	desc   ocispec.Descriptor
	ref    reference.Spec
	blob   remote.Blob
	res    *remote.Resolver
	base   int
	regGet int
	cdnN   int
	errs   []string
}

const mirrorHost = "mirror.test"

func (w *hworld) hosts() source.RegistryHosts {
	return func(ref reference.Spec) ([]docker.RegistryHost, error) {
		client := &http.Client{Transport: w.reg}
		auth := docker.NewDockerAuthorizer(docker.WithAuthClient(client), docker.WithAuthCreds(func(host string) (string, string, error) {
			if host == w.reg.Host {
				return user, pass, nil
			}
			return "", "", nil
		}))
		hdr := http.Header{}
		hdr.Set(secretHeader, secretValue)
		var out []docker.RegistryHost
		if w.p.Mirror {
			mh := http.Header{}
			mh.Set(secretHeader, "mirror-"+secretValue)
			out = append(out, docker.RegistryHost{Client: client, Host: mirrorHost, Scheme: "https", Path: "/v2",
				Capabilities: docker.HostCapabilityPull | docker.HostCapabilityResolve, Header: mh})
		}
		out = append(out, docker.RegistryHost{Client: client, Authorizer: auth, Host: w.reg.Host, Scheme: "https", Path: "/v2",
			Capabilities: docker.HostCapabilityPull | docker.HostCapabilityResolve, Header: hdr})
		return out, nil
	}
}

func newHWorld(p persona) *hworld {
	w := &hworld{p: p, reg: memreg.New(), data: []byte("0123456789abcdefghij")}
	if p.CDN != "" {
		w.reg.CDNHost = p.CDN // e.g. the registry's name with another port, or a subdomain of it: still another host
	}
	d := digest.FromBytes(w.data)
	w.reg.AddBlob(d.String(), w.data)
	w.reg.Token = tokenValue
	w.desc = ocispec.Descriptor{Digest: d, Size: int64(len(w.data)), MediaType: ocispec.MediaTypeImageLayerGzip}
	w.ref, _ = reference.Parse(w.reg.Host + "/img/x:latest")
	w.reg.Script = func(r *memreg.Req) memreg.Action {
		switch {
		case r.Host == mirrorHost:
			return memreg.NotFound
		case r.Kind == "blob":
			if p.Challenge && !strings.Contains(r.Header.Get("Authorization"), tokenValue) {
				return memreg.Unauthorized
			}
			if r.Method == "GET" {
				w.regGet++
				if (w.regGet == 1 && p.Redirect1) || (w.regGet > 1 && p.RedirectN) {
					return memreg.Redirect
				}
			}
		case r.Kind == "cdn":
			if w.base > 0 {
				w.cdnN++
				if p.CDNExpires > 0 && w.cdnN == p.CDNExpires {
					return memreg.Forbidden
				}
			}
		}
		return memreg.Perfect
	}
	w.res = remote.NewResolver(config.BlobConfig{ChunkSize: 8, CheckAlways: true, MaxRetries: 1, MinWaitMSec: 1, MaxWaitMSec: 1}, nil)
	return w
}

func (w *hworld) resolve() error {
	b, err := w.res.Resolve(context.Background(), w.hosts(), w.ref, w.desc, cache.NewMemoryCache())
	if err != nil {
		return err
	}
	w.blob = b
	w.base = w.reg.Count()
	return nil
}

// confinement oracle over the complete request log.
func (w *hworld) checkLog() error {
	for _, r := range w.reg.Requests() {
		hv := r.Header.Get(secretHeader)
		if hv == secretValue && r.Host != w.reg.Host {
			return fmt.Errorf("header %s configured for %s was sent to %s (%s %s%s, request #%d)", secretHeader, w.reg.Host, r.Host, r.Method, r.Host, r.Path, r.N)
		}
		if hv == "mirror-"+secretValue && r.Host != mirrorHost {
			return fmt.Errorf("header configured for the mirror %s was sent to %s (%s %s, request #%d)", mirrorHost, r.Host, r.Method, r.Path, r.N)
		}
		az := r.Header.Get("Authorization")
		if az != "" && r.Host != w.reg.Host {
			leak := strings.Contains(az, tokenValue) || strings.Contains(az, base64.StdEncoding.EncodeToString([]byte(user+":"+pass)))
			if leak {
				return fmt.Errorf("registry credentials were sent to %s (%s %s, request #%d)", r.Host, r.Method, r.Path, r.N)
			}
		}
	}
	return nil
}

var hops = []string{"read", "read2", "check", "refresh", "cache"}

func (w *hworld) do(op string) string {
	var err error
	switch op {
	case "read":
		buf := make([]byte, 5)
		_, err = w.blob.ReadAt(buf, 1)
	case "read2":
		buf := make([]byte, 6)
		_, err = w.blob.ReadAt(buf, 12)
	case "check":
		err = w.blob.Check()
	case "refresh":
		err = w.blob.Refresh(context.Background(), w.hosts(), w.ref, w.desc)
	case "cache":
		err = w.blob.Cache(0, int64(len(w.data)))
	}
	if err != nil {
		return op + "=err"
	}
	return op + "=ok"
}

func personas(tier string) []persona {
	var out []persona
	for _, r1 := range []bool{false, true} {
		for _, rn := range []bool{false, true} {
			for _, exp := range []int{0, 1, 2, 3} {
				for _, ch := range []bool{false, true} {
					for _, mi := range []bool{false, true} {
						if !r1 && exp > 0 && !rn {
							continue // no CDN ever contacted
						}
						out = append(out, persona{Redirect1: r1, RedirectN: rn, CDNExpires: exp, Challenge: ch, Mirror: mi})
						if (r1 || rn) && !mi {
							out = append(out, persona{Redirect1: r1, RedirectN: rn, CDNExpires: exp, Challenge: ch, CDN: "reg.test:9000"})
							out = append(out, persona{Redirect1: r1, RedirectN: rn, CDNExpires: exp, Challenge: ch, CDN: "blobs.reg.test"})
						}
					}
				}
			}
		}
	}
	return out
}

// sequential: every persona x every history of depth <= d over the request paths.
func httpSeqPart(tier string) runner.Part {
	ps := personas(tier)
	depth := 3
	if tier == "thorough" {
		depth = 4
	}
	return runner.Part{Name: "http-hist", Shards: 16, Run: func(c *runner.Ctx) *runner.Result {
		res := &runner.Result{Outcomes: map[string]int{}}
		keys := map[string]bool{}
		idx := 0
		var hist []string
		var rec func(p persona)
		rec = func(p persona) {
			idx++
			if idx%c.Of == c.Shard {
				w := newHWorld(p)
				out := []string{}
				if err := w.resolve(); err != nil {
					out = append(out, "resolve=err")
				} else {
					for _, op := range hist {
						out = append(out, w.do(op))
					}
					w.blob.Close()
				}
				res.Evaluations++
				res.Transitions += int64(len(hist) + 1)
				hosts := map[string]bool{}
				for _, r := range w.reg.Requests() {
					hosts[r.Host] = true
				}
				if len(hosts) > 1 {
					res.Nontrivial++
				}
				res.Outcomes[strings.Join(out, ",")]++
				if err := w.checkLog(); err != nil {
					k := "C18/http/" + classifyHTTP(err.Error())
					if !keys[k] {
						keys[k] = true
						res.Violations = append(res.Violations, runner.Violation{Key: k, Msg: fmt.Sprintf("%s history %v: %v", p, hist, err), Replay: map[string]any{"persona": p, "hist": append([]string{}, hist...)}})
					}
				}
				if len(res.Samples) == 0 && len(hist) == depth {
					var log []string
					for _, r := range w.reg.Requests() {
						log = append(log, fmt.Sprintf("%s %s%s hdr=%v auth=%v -> %s", r.Method, r.Host, r.Path, r.Header.Get(secretHeader) != "", r.Header.Get("Authorization") != "", r.Action))
					}
					res.Samples = append(res.Samples, map[string]any{"persona": p.String(), "history": append([]string{}, hist...), "request_log": log})
				}
			}
			if len(hist) == depth {
				return
			}
			for _, op := range hops {
				hist = append(hist, op)
				rec(p)
				hist = hist[:len(hist)-1]
			}
		}
		for _, p := range ps {
			if time.Now().After(c.Deadline) {
				res.Caps = append(res.Caps, "time budget")
				break
			}
			rec(p)
		}
		res.States = res.Evaluations
		res.Extra = map[string]any{"history_depth": depth, "personas": len(ps)}
		return res
	}, Replay: func(c *runner.Ctx, raw json.RawMessage) (string, error) {
		var r struct {
			Persona persona  `json:"persona"`
			Hist    []string `json:"hist"`
		}
		if err := json.Unmarshal(raw, &r); err != nil {
			return "", err
		}
		w := newHWorld(r.Persona)
		var out []string
		if err := w.resolve(); err == nil {
			for _, op := range r.Hist {
				out = append(out, w.do(op))
			}
		}
		return strings.Join(out, ","), w.checkLog()
	}}
}

func classifyHTTP(msg string) string {
	switch {
	case strings.Contains(msg, "credentials were sent"):
		return "credentials-sent-to-other-host"
	case strings.Contains(msg, "mirror"):
		return "mirror-header-sent-to-other-host"
	case strings.Contains(msg, "was sent to"):
		return "host-header-sent-to-redirect-target"
	case strings.Contains(msg, "deadlock"):
		return "deadlock"
	case strings.Contains(msg, "panic"):
		return "panic"
	}
	return "other"
}

// concurrent: fetch || check/refresh with the URL expiring and the registry changing its mind.
type hconc struct {
	P       persona    `json:"persona"`
	Threads [][]string `json:"threads"`
}

func (h hconc) String() string { return fmt.Sprintf("%s threads=%v", h.P, h.Threads) }

func httpConcScenario(sc hconc) *vexp.Scenario {
	return &vexp.Scenario{
		Name: sc.String(), LockDominance: true, StateCache: true, MaxSteps: 100000,
		New: func() (func(), func(vrt.Result) (string, error)) {
			var w *hworld
			var outs []string
			body := func() {
				w = newHWorld(sc.P)
				var rerr error
				vrt.Quiet(func() { rerr = w.resolve() })
				if rerr != nil {
					outs = []string{"resolve=err"}
					return
				}
				outs = make([]string, len(sc.Threads))
				done := make([]bool, len(sc.Threads))
				for i, prog := range sc.Threads {
					i, prog := i, prog
					vrt.GoNamed(fmt.Sprintf("t%d", i), func() {
						var o []string
						for _, op := range prog {
							o = append(o, w.do(op))
						}
						outs[i] = strings.Join(o, ",")
						done[i] = true
					})
				}
				for i := range done {
					i := i
					for !done[i] {
						vrt.Block("join", func() bool { return done[i] })
					}
				}
			}
			check := func(vrt.Result) (string, error) {
				if err := w.checkLog(); err != nil {
					return "", err
				}
				return strings.Join(outs, "|"), nil
			}
			return body, check
		},
	}
}

func httpConcPart(tier string) runner.Part {
	var scs []hconc
	for _, p := range []persona{
		{Redirect1: true, RedirectN: false, CDNExpires: 1},
		{Redirect1: true, RedirectN: false, CDNExpires: 2},
		{Redirect1: true, RedirectN: true, CDNExpires: 1},
		{Redirect1: true, RedirectN: false, CDNExpires: 1, Challenge: true},
	} {
		scs = append(scs, hconc{p, [][]string{{"read"}, {"check"}}})
		scs = append(scs, hconc{p, [][]string{{"read"}, {"read2"}}})
		scs = append(scs, hconc{p, [][]string{{"read", "read2"}, {"refresh"}}})
		if tier == "thorough" {
			scs = append(scs, hconc{p, [][]string{{"read"}, {"check"}, {"read2"}}})
		}
	}
	pb := 2
	if tier == "thorough" {
		pb = 3
	}
	return runner.Part{Name: "http-sched", Shards: len(scs), Run: func(c *runner.Ctx) *runner.Result {
		res := &runner.Result{Outcomes: map[string]int{}}
		sc := scs[c.Shard]
		st := vexp.Explore(httpConcScenario(sc), vexp.Options{PB: pb, DetChecks: 5, Deadline: c.Deadline})
		res.Evaluations, res.States, res.Transitions = st.Executions, int64(st.StateKeys), st.Transitions
		for o, n := range st.Outcomes {
			res.Outcomes[o] += n
		}
		res.Nontrivial = int64(len(st.Outcomes))
		if st.Broken != "" {
			res.Broken = sc.String() + ": " + st.Broken
			return res
		}
		if st.Capped {
			res.Caps = append(res.Caps, sc.String()+": "+st.CapReason)
		}
		keys := map[string]bool{}
		for _, v := range st.Violations {
			k := "C18/http-sched/" + classifyHTTP(v.Msg)
			if keys[k] {
				continue
			}
			keys[k] = true
			res.Violations = append(res.Violations, runner.Violation{Key: k, Msg: fmt.Sprintf("%s\nchoices=%v\n%s\ntrace:\n  %s", sc.String(), v.Choices, v.Msg, strings.Join(v.Trace, "\n  ")), Replay: map[string]any{"scen": sc, "choices": v.Choices}})
		}
		if len(st.SampleTraces) > 0 {
			t := st.SampleTraces[0]
			if len(t) > 25 {
				t = t[:25]
			}
			res.Samples = append(res.Samples, map[string]any{"scenario": sc.String(), "executions": st.Executions, "trace_head": t})
		}
		res.Extra = map[string]any{"preemption_bound_completed": pb}
		return res
	}, Replay: func(c *runner.Ctx, raw json.RawMessage) (string, error) {
		var r struct {
			Scen    hconc `json:"scen"`
			Choices []int `json:"choices"`
		}
		if err := json.Unmarshal(raw, &r); err != nil {
			return "", err
		}
		out, err, trace, broken := vexp.Replay(httpConcScenario(r.Scen), r.Choices)
		if broken != "" {
			return "", fmt.Errorf("replay broken: %s", broken)
		}
		return strings.Join(trace, "\n") + "\n" + out, err
	}}
}

func headerParts(tier string) []runner.Part {
	return []runner.Part{httpSeqPart(tier), httpConcPart(tier)}
}
