//go:build verif

package cri

import (
	"fmt"
	"reflect"
	"sort"
	"strings"

	runtime "k8s.io/cri-api/pkg/apis/runtime/v1"
)

// VerifDump renders the complete data state of the keychain canonically: every field of
// instrumentedService except the backend client and the mutexes, walked by reflection so
// that it keeps covering the whole state if fields are added or retyped.
func VerifDump(s runtime.ImageServiceServer) string {
	in, ok := s.(*instrumentedService)
	if !ok {
		return fmt.Sprintf("?%T", s)
	}
	v := reflect.ValueOf(in).Elem()
	var parts []string
	for i := 0; i < v.NumField(); i++ {
		f := v.Field(i)
		if f.Kind() == reflect.Interface { // the backend CRI client
			continue
		}
		if d := verifDumpValue(f, 0); d != "" {
			parts = append(parts, v.Type().Field(i).Name+"="+d)
		}
	}
	return strings.Join(parts, ";")
}

func verifDumpValue(v reflect.Value, depth int) string {
	if depth > 8 {
		return "..."
	}
	switch v.Kind() {
	case reflect.String:
		return fmt.Sprintf("%q", v.String())
	case reflect.Bool:
		return fmt.Sprint(v.Bool())
	case reflect.Int, reflect.Int8, reflect.Int16, reflect.Int32, reflect.Int64:
		return fmt.Sprint(v.Int())
	case reflect.Uint, reflect.Uint8, reflect.Uint16, reflect.Uint32, reflect.Uint64:
		return fmt.Sprint(v.Uint())
	case reflect.Ptr, reflect.Interface:
		if v.IsNil() {
			return "nil"
		}
		return "&" + verifDumpValue(v.Elem(), depth+1)
	case reflect.Map:
		var es []string
		for _, k := range v.MapKeys() {
			es = append(es, verifDumpValue(k, depth+1)+":"+verifDumpValue(v.MapIndex(k), depth+1))
		}
		sort.Strings(es)
		return "{" + strings.Join(es, ",") + "}"
	case reflect.Slice, reflect.Array:
		var es []string
		for i := 0; i < v.Len(); i++ {
			es = append(es, verifDumpValue(v.Index(i), depth+1))
		}
		return "[" + strings.Join(es, ",") + "]"
	case reflect.Struct:
		t := v.Type()
		if t.PkgPath() == "sync" || t.PkgPath() == "sync/atomic" {
			return ""
		}
		var es []string
		for i := 0; i < v.NumField(); i++ {
			// foreign structs (protobuf messages): exported fields only; own structs: everything
			if t.Field(i).PkgPath != "" && !strings.HasSuffix(t.PkgPath(), "service/keychain/cri") {
				continue
			}
			if d := verifDumpValue(v.Field(i), depth+1); d != "" && d != `""` {
				es = append(es, t.Field(i).Name+"="+d)
			}
		}
		if len(es) == 0 && depth == 0 {
			return ""
		}
		return "(" + strings.Join(es, ",") + ")"
	}
	return ""
}
