// C18 part (a): the CRI keychain.
//
// Real code under test: cri.NewCRIKeychain (service/keychain/cri/cri.go) with an in-memory
// backend image service, the credential function it returns, and resolver.ParseAuth behind it.
// Reference model: map canonical image reference -> auth of the last PullImage request.
package main

import (
	"context"
	"crypto/sha256"
	"encoding/base64"
	"encoding/hex"
	"encoding/json"
	"fmt"
	"hash/fnv"
	"io"
	goruntime "runtime"
	"sort"
	"strings"
	"time"

	"github.com/containerd/containerd/v2/pkg/reference"
	"github.com/containerd/stargz-snapshotter/service/keychain/cri"
	"github.com/containerd/stargz-snapshotter/service/resolver"
	"github.com/sirupsen/logrus"
	"google.golang.org/grpc"
	criapi "k8s.io/cri-api/pkg/apis/runtime/v1"

	"verif/lib/runner"
)

// ---- alphabet ------------------------------------------------------------------------------------

// image strings a CRI client may send, and the canonical reference each denotes (docker
// reference normalisation, restated: no registry => docker.io/library/..., index.docker.io => docker.io)
var images = []struct {
	S     string
	Canon int
}{
	{"a.example/x:1", 0},
	{"a.example/y:1", 1},
	{"docker.io/library/z:1", 2},
	{"z:1", 2},
	{"index.docker.io/library/z:1", 2},
}

var canon = []struct {
	S        string
	Registry string // registry host the reference lives on
	Match    string // that registry as a credential server address (docker: the index endpoint)
	MatchBar string // the same without scheme
}{
	{"a.example/x:1", "a.example", "https://a.example", "a.example"},
	{"a.example/y:1", "a.example", "https://a.example", "a.example"},
	{"docker.io/library/z:1", "docker.io", "https://index.docker.io/v1/", "index.docker.io"},
}

const (
	fUserPass = iota
	fIDToken
	fBase64
	fNone
)

const (
	sAbsent = iota
	sMatchScheme
	sMatchBare
	sOtherScheme
	sOtherBare
)

var formNames = []string{"user/password", "identity-token", "base64-auth", "no-auth"}
var srvNames = []string{"no server address", "matching server address with scheme", "matching server address without scheme", "other host's server address with scheme", "other host's server address without scheme"}

type variant struct{ Form, Srv int }

// all auth variants: 3 forms x 5 server addresses + none
var variants = func() []variant {
	var v []variant
	for f := fUserPass; f <= fBase64; f++ {
		for s := sAbsent; s <= sOtherBare; s++ {
			v = append(v, variant{f, s})
		}
	}
	return append(v, variant{fNone, sAbsent})
}()

func serverAddress(c int, s int) string {
	switch s {
	case sMatchScheme:
		return canon[c].Match
	case sMatchBare:
		return canon[c].MatchBar
	case sOtherScheme:
		return "https://b.example"
	case sOtherBare:
		return "b.example"
	}
	return ""
}

// credentials are unique per (canonical ref, variant): a value observed at a query identifies
// the pull request it came from.
func secrets(c int, v variant) (user, secret string) {
	tag := fmt.Sprintf("%d-%d-%d", c, v.Form, v.Srv)
	switch v.Form {
	case fUserPass:
		return "user-" + tag, "pass-" + tag
	case fIDToken:
		return "", "idtoken-" + tag
	case fBase64:
		return "buser-" + tag, "bpass-" + tag
	}
	return "", ""
}

func authConfig(c int, v variant) *criapi.AuthConfig {
	if v.Form == fNone {
		return nil
	}
	a := &criapi.AuthConfig{ServerAddress: serverAddress(c, v.Srv)}
	u, s := secrets(c, v)
	switch v.Form {
	case fUserPass:
		a.Username, a.Password = u, s
	case fIDToken:
		a.IdentityToken = s
	case fBase64:
		a.Auth = base64.StdEncoding.EncodeToString([]byte(u + ":" + s))
	}
	return a
}

const (
	opPull = iota
	opRemove
	opRemoveByID
)

type op struct {
	Kind int `json:"k"`
	Img  int `json:"i"` // index into images (pull, remove) or canon (remove by id)
	Var  int `json:"v"` // index into variants (pull)
}

func (o op) String() string {
	switch o.Kind {
	case opPull:
		v := variants[o.Var]
		c := images[o.Img].Canon
		s := ""
		if v.Form != fNone {
			s = fmt.Sprintf(", server_address=%q", serverAddress(c, v.Srv))
		}
		return fmt.Sprintf("PullImage(%q, %s%s)", images[o.Img].S, formNames[v.Form], s)
	case opRemove:
		return fmt.Sprintf("RemoveImage(%q)", images[o.Img].S)
	}
	return fmt.Sprintf("RemoveImage(%q /* image id of %s */)", imageID(o.Img), canon[o.Img].S)
}

func histString(h []op) string {
	var s []string
	for _, o := range h {
		s = append(s, o.String())
	}
	return strings.Join(s, "; ")
}

// ---- queries ----------------------------------------------------------------------------------------

var queryHosts = []string{"a.example", "b.example", "docker.io", "registry-1.docker.io", "index.docker.io"}

// query references: the three canonical ones, a sibling tag and the same path on another registry
var queryRefs = []string{"a.example/x:1", "a.example/y:1", "docker.io/library/z:1", "a.example/x:2", "b.example/x:1"}

var querySpecs = func() []reference.Spec {
	var out []reference.Spec
	for _, r := range queryRefs {
		s, err := reference.Parse(r)
		if err != nil {
			panic(err)
		}
		out = append(out, s)
	}
	return out
}()

// hostClass: the three names of Docker Hub are one host for credential purposes.
func hostClass(h string) string {
	switch h {
	case "docker.io", "registry-1.docker.io", "index.docker.io":
		return "docker-hub"
	}
	return h
}

// serverHost extracts the host of a credential server address (with or without scheme).
func serverHost(a string) string {
	if i := strings.Index(a, "://"); i >= 0 {
		a = a[i+3:]
	}
	if i := strings.Index(a, "/"); i >= 0 {
		a = a[:i]
	}
	return a
}

// ---- reference model ------------------------------------------------------------------------------------

type model struct {
	Cur  [3]int  // variant index + 1 of the last pull not followed by a remove; 0 = none
	Ever [3]bool // for messages only
	ByID [3]bool // for messages only: the last removal named the image id
}

func (m *model) apply(o op) {
	switch o.Kind {
	case opPull:
		c := images[o.Img].Canon
		m.Cur[c] = o.Var + 1
		m.Ever[c] = true
		m.ByID[c] = false
	case opRemove:
		m.Cur[images[o.Img].Canon] = 0
		m.ByID[images[o.Img].Canon] = false
	case opRemoveByID:
		if m.Cur[o.Img] != 0 {
			m.ByID[o.Img] = true
		}
		m.Cur[o.Img] = 0
	}
}

const (
	mustEmpty = iota
	mustExact
	emptyOrExact
)

// expectation for one query in one model state
func (m *model) expect(host string, q int) (mode int, user, secret, why string) {
	if q > 2 {
		return mustEmpty, "", "", "no pull request ever named this reference"
	}
	if m.Cur[q] == 0 {
		if m.Ever[q] {
			return mustEmpty, "", "", "the image was removed after its last pull"
		}
		return mustEmpty, "", "", "no pull request named this reference"
	}
	v := variants[m.Cur[q]-1]
	if v.Form == fNone {
		return mustEmpty, "", "", "the last pull request for the reference carried no auth"
	}
	u, s := secrets(q, v)
	addr := serverAddress(q, v.Srv)
	if addr != "" && hostClass(serverHost(addr)) != hostClass(host) {
		return mustEmpty, "", "", fmt.Sprintf("the pull request named server address %q, a different host than %q", addr, host)
	}
	if addr != "" && !strings.Contains(addr, "://") {
		return emptyOrExact, u, s, "server address without scheme names the contacted host"
	}
	return mustExact, u, s, "last pull request for exactly this reference"
}

// ---- the implementation under test behind a small driver --------------------------------------------------

// fakeBackend is an in-memory CRI image service: it knows which images are present and answers
// ImageStatus by name or by image id (a keychain may consult it).
type fakeBackend struct {
	present        [3]bool
	pulls, removes int
	lastPull       *criapi.PullImageRequest
	lastRemove     *criapi.RemoveImageRequest
}

func imageID(c int) string {
	h := sha256.Sum256([]byte(canon[c].S))
	return "sha256:" + hex.EncodeToString(h[:])
}

func (b *fakeBackend) ListImages(ctx context.Context, in *criapi.ListImagesRequest, opts ...grpc.CallOption) (*criapi.ListImagesResponse, error) {
	res := &criapi.ListImagesResponse{}
	for c := range canon {
		if b.present[c] {
			res.Images = append(res.Images, b.image(c))
		}
	}
	return res, nil
}
func (b *fakeBackend) lookup(name string) int {
	for c := range canon {
		if name == imageID(c) {
			return c
		}
	}
	for _, im := range images {
		if im.S == name {
			return im.Canon
		}
	}
	return -1
}

func (b *fakeBackend) image(c int) *criapi.Image {
	return &criapi.Image{Id: imageID(c), RepoTags: []string{canon[c].S}}
}

func (b *fakeBackend) ImageStatus(ctx context.Context, in *criapi.ImageStatusRequest, opts ...grpc.CallOption) (*criapi.ImageStatusResponse, error) {
	if c := b.lookup(in.GetImage().GetImage()); c >= 0 && b.present[c] {
		return &criapi.ImageStatusResponse{Image: b.image(c)}, nil
	}
	return &criapi.ImageStatusResponse{}, nil
}
func (b *fakeBackend) PullImage(ctx context.Context, in *criapi.PullImageRequest, opts ...grpc.CallOption) (*criapi.PullImageResponse, error) {
	b.pulls++
	b.lastPull = in
	if c := b.lookup(in.GetImage().GetImage()); c >= 0 {
		b.present[c] = true
		return &criapi.PullImageResponse{ImageRef: imageID(c)}, nil
	}
	return nil, fmt.Errorf("fake backend: unknown image %q", in.GetImage().GetImage())
}
func (b *fakeBackend) RemoveImage(ctx context.Context, in *criapi.RemoveImageRequest, opts ...grpc.CallOption) (*criapi.RemoveImageResponse, error) {
	b.removes++
	b.lastRemove = in
	if c := b.lookup(in.GetImage().GetImage()); c >= 0 {
		b.present[c] = false
	}
	return &criapi.RemoveImageResponse{}, nil
}
func (b *fakeBackend) ImageFsInfo(ctx context.Context, in *criapi.ImageFsInfoRequest, opts ...grpc.CallOption) (*criapi.ImageFsInfoResponse, error) {
	return &criapi.ImageFsInfoResponse{}, nil
}

type keychain struct {
	creds resolver.Credential
	srv   criapi.ImageServiceServer
	be    *fakeBackend
}

var bg = context.Background()

// newKeychain returns a fresh keychain whose backend connection is established.
func newKeychain() (*keychain, error) {
	be := &fakeBackend{}
	creds, srv := cri.NewCRIKeychain(bg, func() (criapi.ImageServiceClient, error) { return be, nil })
	for i := 0; ; i++ {
		if _, err := srv.ImageFsInfo(bg, &criapi.ImageFsInfoRequest{}); err == nil {
			break
		}
		goruntime.Gosched()
		if i > 2000 {
			time.Sleep(50 * time.Microsecond)
		}
		if i > 200000 {
			return nil, fmt.Errorf("keychain never connected to the backend")
		}
	}
	return &keychain{creds, srv, be}, nil
}

func (k *keychain) do(o op) error {
	switch o.Kind {
	case opPull:
		c := images[o.Img].Canon
		req := &criapi.PullImageRequest{Image: &criapi.ImageSpec{Image: images[o.Img].S}, Auth: authConfig(c, variants[o.Var])}
		n := k.be.pulls
		res, err := k.srv.PullImage(bg, req)
		if err != nil {
			return fmt.Errorf("%s: %v", o, err)
		}
		if k.be.pulls != n+1 || k.be.lastPull != req || res.GetImageRef() != imageID(c) {
			return fmt.Errorf("%s: request not proxied to the backend unchanged", o)
		}
	case opRemove, opRemoveByID:
		name := ""
		if o.Kind == opRemove {
			name = images[o.Img].S
		} else {
			name = imageID(o.Img)
		}
		req := &criapi.RemoveImageRequest{Image: &criapi.ImageSpec{Image: name}}
		n := k.be.removes
		if _, err := k.srv.RemoveImage(bg, req); err != nil {
			return fmt.Errorf("%s: %v", o, err)
		}
		if k.be.removes != n+1 || k.be.lastRemove != req {
			return fmt.Errorf("%s: request not proxied to the backend unchanged", o)
		}
	}
	return nil
}

// ---- checking one state against the model ------------------------------------------------------------------

type kcCheck struct {
	res     *runner.Result
	viol    map[string]runner.Violation
	dumps   map[string]struct{}
	queries int64
	shard   int
	of      int
}

func newKcCheck(c *runner.Ctx) *kcCheck {
	logrus.SetOutput(io.Discard)
	logrus.SetLevel(logrus.PanicLevel)
	of := c.Of
	if of <= 0 {
		of = 1
	}
	return &kcCheck{res: &runner.Result{Outcomes: map[string]int{}}, viol: map[string]runner.Violation{}, dumps: map[string]struct{}{}, shard: c.Shard, of: of}
}

func (x *kcCheck) violation(key string, h []op, msg string) {
	if old, ok := x.viol[key]; ok && len(old.Replay.(map[string]any)["history"].([]op)) <= len(h) {
		return
	}
	x.viol[key] = runner.Violation{Key: key, Msg: "history: " + histString(h) + "\n" + msg, Replay: map[string]any{"history": append([]op{}, h...)}}
}

func (x *kcCheck) finish() *runner.Result {
	keys := make([]string, 0, len(x.viol))
	for k := range x.viol {
		keys = append(keys, k)
	}
	sort.Strings(keys)
	for _, k := range keys {
		x.res.Violations = append(x.res.Violations, x.viol[k])
	}
	// a state is counted by the shard that owns its hash, so that the sum over shards does not
	// count a state twice (a lower bound on the distinct states reached)
	for st := range x.dumps {
		h := fnv.New32a()
		h.Write([]byte(st))
		if int(h.Sum32()%uint32(x.of)) == x.shard {
			x.res.States++
		}
	}
	if x.res.Extra == nil {
		x.res.Extra = map[string]any{}
	}
	x.res.Extra["credential_queries_in_shard_0"] = x.queries
	return x.res
}

// observe queries every (host, reference) pair and judges each answer.
// It returns the observation vector (part of the canonical state).
func (x *kcCheck) observe(k *keychain, m *model, h []op) (string, int) {
	var obs strings.Builder
	nOffered := 0
	for qi, spec := range querySpecs {
		for _, host := range queryHosts {
			x.queries++
			u, s, err := k.creds(host, spec)
			mode, wu, ws, why := m.expect(host, qi)
			offered := err == nil && (u != "" || s != "")
			if offered {
				nOffered++
				obs.WriteString(u + "/" + s + "|")
			} else if err != nil {
				obs.WriteString("E|")
			} else {
				obs.WriteString("-|")
			}
			q := fmt.Sprintf("query (host=%q, ref=%q)", host, queryRefs[qi])
			switch {
			case offered && mode == mustEmpty:
				reason := "no-pull-for-reference"
				switch {
				case qi <= 2 && m.Cur[qi] == 0 && m.Ever[qi]:
					reason = "after-remove"
					if m.ByID[qi] {
						reason = "after-remove-by-image-id"
					}
				case qi <= 2 && m.Cur[qi] != 0 && variants[m.Cur[qi]-1].Form == fNone:
					reason = "last-pull-had-no-auth"
				case qi <= 2 && m.Cur[qi] != 0:
					reason = "server-address-names-another-host"
				}
				x.violation("C18/keychain/credentials-offered/"+reason, h, fmt.Sprintf("%s: expected no credentials (%s), got user=%q secret=%q", q, why, u, s))
				x.res.Outcomes["query: credentials offered although forbidden"]++
			case offered && (u != wu || s != ws):
				x.violation("C18/keychain/credentials-offered/not-those-of-the-last-pull-of-this-reference", h, fmt.Sprintf("%s: expected user=%q secret=%q (%s), got user=%q secret=%q", q, wu, ws, why, u, s))
				x.res.Outcomes["query: wrong credentials offered"]++
			case offered:
				if mode == emptyOrExact {
					x.res.Outcomes["query: scheme-less matching server address -> credentials offered"]++
				} else {
					x.res.Outcomes["query: credentials of the last pull offered ("+formNames[variants[m.Cur[qi]-1].Form]+")"]++
				}
			case mode == mustExact:
				x.violation("C18/keychain/credentials-withheld", h, fmt.Sprintf("%s: the reference model offers user=%q secret=%q (%s), got none (error: %v)", q, wu, ws, why, err))
				x.res.Outcomes["query: credentials withheld although the model offers them"]++
			case mode == emptyOrExact:
				x.res.Outcomes["query: scheme-less matching server address -> no credentials"]++
			case err != nil:
				x.res.Outcomes["query: error, no credentials"]++
			default:
				switch {
				case qi > 2 || (m.Cur[qi] == 0 && !m.Ever[qi]):
					x.res.Outcomes["query: none (reference never pulled)"]++
				case m.Cur[qi] == 0:
					x.res.Outcomes["query: none (image removed)"]++
				case variants[m.Cur[qi]-1].Form == fNone:
					x.res.Outcomes["query: none (pull without auth)"]++
				default:
					x.res.Outcomes["query: none (server address names another host)"]++
				}
			}
		}
	}
	return obs.String(), nOffered
}

// run executes a history on a fresh keychain. After the ops listed in checkFrom.. it queries
// everything. Returns the canonical state (implementation dump + observation vector) at the end.
func (x *kcCheck) run(h []op, checkFrom int) (state string, m model, ok bool) {
	offered := 0
	k, err := newKeychain()
	if err != nil {
		x.res.Broken = err.Error()
		return "", m, false
	}
	for i, o := range h {
		if err := k.do(o); err != nil {
			x.violation("C18/keychain/request-failed-or-not-proxied", h[:i+1], err.Error())
			return "", m, false
		}
		m.apply(o)
		x.res.Transitions++
		if i+1 >= checkFrom {
			obs, n := x.observe(k, &m, h[:i+1])
			offered += n
			state = cri.VerifDump(k.srv) + "#" + obs
			x.dumps[state] = struct{}{}
		}
	}
	if len(h) == 0 {
		obs, _ := x.observe(k, &m, h)
		state = cri.VerifDump(k.srv) + "#" + obs
		x.dumps[state] = struct{}{}
	}
	x.res.Evaluations++
	if offered > 0 {
		x.res.Nontrivial++
	}
	return state, m, true
}

// ---- part kc-states: explicit-state search with state merging -----------------------------------------------

func allOps(byID bool) []op {
	var ops []op
	for i := range images {
		for v := range variants {
			ops = append(ops, op{Kind: opPull, Img: i, Var: v})
		}
	}
	for i := range images {
		ops = append(ops, op{Kind: opRemove, Img: i})
	}
	if byID {
		for c := range canon {
			ops = append(ops, op{Kind: opRemoveByID, Img: c})
		}
	}
	return ops
}

// canonicalHistory reaches model state s with the fewest operations.
func canonicalHistory(s [3]int) []op {
	var h []op
	for c, v := range s {
		if v > 0 {
			h = append(h, op{Kind: opPull, Img: c, Var: v - 1}) // images[c] is the canonical spelling of canon[c] for c=0..2
		}
	}
	return h
}

func statesPart(tier string) runner.Part {
	extra := 1 // ops applied after the canonical prefix (<= 3 pulls): histories of depth <= 4
	if tier == "thorough" {
		extra = 2 // depth <= 5
	}
	return runner.Part{
		Name:   "kc-states",
		Shards: 16,
		Run: func(c *runner.Ctx) *runner.Result {
			x := newKcCheck(c)
			ops := allOps(false)
			nv := len(variants) + 1
			canonState := map[[3]int]string{} // model state -> implementation state reached by its canonical history
			stateOf := func(s [3]int) (string, bool) {
				if st, ok := canonState[s]; ok {
					return st, true
				}
				h := canonicalHistory(s)
				st, _, ok := x.run(h, len(h))
				if ok {
					canonState[s] = st
				}
				return st, ok
			}
			idx := 0
			capped := false
			for a := 0; a < nv && !capped; a++ {
				for b := 0; b < nv && !capped; b++ {
					for d := 0; d < nv; d++ {
						i := idx
						idx++
						if i%c.Of != c.Shard {
							continue
						}
						if time.Now().After(c.Deadline) {
							capped = true
							break
						}
						s := [3]int{a, b, d}
						if _, ok := stateOf(s); !ok {
							return x.finish()
						}
						prefix := canonicalHistory(s)
						var rec func(h []op, left int)
						rec = func(h []op, left int) {
							for _, o := range ops {
								hh := append(append([]op{}, h...), o)
								st, m, ok := x.run(hh, len(hh))
								if !ok {
									continue
								}
								// the implementation state must be determined by the model state (no hidden history)
								want, ok := stateOf(m.Cur)
								if ok && st != want {
									x.violation("C18/keychain/state-depends-on-history", hh, fmt.Sprintf("after this history the keychain state is\n  %s\nbut after %s (same reference model state) it is\n  %s", st, histString(canonicalHistory(m.Cur)), want))
								}
								if left > 1 {
									rec(hh, left-1)
								}
							}
						}
						rec(prefix, extra)
					}
				}
			}
			if capped {
				x.res.Caps = append(x.res.Caps, "time budget: not every state of this shard expanded")
			}
			if c.Shard == 0 {
				x.res.Samples = append(x.res.Samples, map[string]any{"ops": len(ops), "model_states": nv * nv * nv, "example_history": histString(append(canonicalHistory([3]int{1, 7, 12}), ops[len(ops)-2])), "example_state": canonState[[3]int{0, 0, 0}]})
			}
			x.res.Extra = map[string]any{"depth_completed": 3 + extra, "alphabet": len(ops)}
			return x.finish()
		},
		Replay: replayHistory,
	}
}

// ---- part kc-hist: every history up to the depth, no merging, reduced auth menu ------------------------------

func histPart(tier string) runner.Part {
	depth := 4
	if tier == "thorough" {
		depth = 5
	}
	// reduced auth menu (quick: 3 variants, thorough: 4)
	pick := []variant{{fUserPass, sAbsent}, {fIDToken, sOtherScheme}, {fNone, sAbsent}}
	if tier == "thorough" {
		pick = append(pick, variant{fBase64, sMatchBare})
	}
	var ops []op
	for i := range images {
		for vi, v := range variants {
			for _, p := range pick {
				if v == p {
					ops = append(ops, op{Kind: opPull, Img: i, Var: vi})
				}
			}
		}
	}
	for i := range images {
		ops = append(ops, op{Kind: opRemove, Img: i})
	}
	return runner.Part{
		Name:   "kc-hist",
		Shards: 32,
		Run: func(c *runner.Ctx) *runner.Result {
			x := newKcCheck(c)
			idx := 0
			capped := false
			var rec func(h []op)
			rec = func(h []op) {
				if capped || x.res.Broken != "" {
					return
				}
				i := idx
				idx++
				if i%c.Of == c.Shard {
					if i%256 == c.Shard%256 && time.Now().After(c.Deadline) {
						capped = true
						return
					}
					// the set of histories is prefix-closed: checking after the last step of each
					// is checking after every step of every history
					x.run(h, len(h))
				}
				if len(h) == depth {
					return
				}
				for _, o := range ops {
					rec(append(append([]op{}, h...), o))
				}
			}
			rec(nil)
			if capped {
				x.res.Caps = append(x.res.Caps, "time budget: not every history of this shard executed")
			}
			x.res.Extra = map[string]any{"depth_completed": depth, "alphabet": len(ops), "histories": idx}
			return x.finish()
		},
		Replay: replayHistory,
	}
}

// ---- part kc-rmid: removal by image id (how kubelet's image GC removes) ----------------------------------------

func rmidPart(tier string) runner.Part {
	depth := 3
	if tier == "thorough" {
		depth = 4
	}
	var ops []op
	for c := range canon {
		for vi, v := range variants {
			if v == (variant{fUserPass, sAbsent}) {
				ops = append(ops, op{Kind: opPull, Img: c, Var: vi})
			}
		}
		ops = append(ops, op{Kind: opRemove, Img: c}, op{Kind: opRemoveByID, Img: c})
	}
	return runner.Part{
		Name:   "kc-rmid",
		Shards: 1,
		Run: func(c *runner.Ctx) *runner.Result {
			x := newKcCheck(c)
			var rec func(h []op)
			rec = func(h []op) {
				x.run(h, len(h))
				if len(h) == depth {
					return
				}
				for _, o := range ops {
					rec(append(append([]op{}, h...), o))
				}
			}
			rec(nil)
			x.res.Extra = map[string]any{"depth_completed": depth, "alphabet": len(ops)}
			return x.finish()
		},
		Replay: replayHistory,
	}
}

func replayHistory(c *runner.Ctx, raw json.RawMessage) (string, error) {
	var r struct {
		History []op `json:"history"`
	}
	if err := json.Unmarshal(raw, &r); err != nil {
		return "", err
	}
	x := newKcCheck(c)
	st, _, _ := x.run(r.History, 1)
	res := x.finish()
	if res.Broken != "" {
		return "", fmt.Errorf("broken: %s", res.Broken)
	}
	out := histString(r.History) + "\nfinal state: " + st
	if len(res.Violations) > 0 {
		var s []string
		for _, v := range res.Violations {
			s = append(s, v.Key+"\n"+v.Msg)
		}
		return out, fmt.Errorf("%s", strings.Join(s, "\n\n"))
	}
	return out, nil
}

// keychainParts is part (a) of C18.
func keychainParts(tier string) []runner.Part {
	return []runner.Part{statesPart(tier), rmidPart(tier), histPart(tier)}
}
