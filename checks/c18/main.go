// C18: registry credentials and custom headers reach only their own image and host.
//
// Part (a), keychain.go: the CRI keychain (credentials captured from PullImage requests).
// Part (b), header/credential confinement on the HTTP paths, is added as further parts here.
package main

import (
	"time"

	"verif/lib/runner"
	"verif/lib/vexp"
)

func parts(tier string) []runner.Part {
	var ps []runner.Part
	ps = append(ps, keychainParts(tier)...)
	ps = append(ps, headerParts(tier)...) // part (b)
	return ps
}

func main() {
	runner.Main(runner.Check{
		RacePass: func(n int, scratch string) (int, []string) {
			total, ps := 0, []string(nil)
			for _, p0 := range []persona{{Redirect1: true, CDNExpires: 1}, {Redirect1: true, RedirectN: true, CDNExpires: 2}} {
				for _, th := range [][][]string{{{"read"}, {"check"}}, {{"read", "read2"}, {"refresh"}}} {
					d, p := vexp.RacePass(httpConcScenario(hconc{p0, th}), n)
					total += d
					ps = append(ps, p...)
				}
			}
			return total, ps
		},
		ID:    "C18",
		Level: "model_checking",
		Rule:  "http-hist: every registry personality (direct/redirect on first and later requests, CDN URL expiring at the k-th request, 401 token challenge, failing mirror with its own header) x every history of depth<=3/4 over the request paths {range read, second read, check, refresh, cache} of the real remote fetcher with a per-host header and a docker authorizer; oracle over the complete request log: the header and the credentials/token appear only on requests to the host they were configured for. http-sched: fetch || check/refresh/fetch threads under the cooperative scheduler with httpFetcher.url/header watched. keychain: alphabet {PullImage(image, auth), RemoveImage(image)} over images {a.example/x:1, a.example/y:1, docker.io/library/z:1, z:1, index.docker.io/library/z:1} x auth {user/password, identity token, base64 auth} x server address {absent, matching with scheme, matching without scheme, other host with scheme, other host without scheme} + no auth, on a fresh cri.NewCRIKeychain with an in-memory backend; after every step all 25 (host, reference) pairs are queried. kc-states: every reference-model state (18^3) reached by its canonical history, then every operation (quick: 1, thorough: every 2) applied; the implementation state (reflection dump of every field + observation vector) must be the one of the resulting model state's canonical history, so merging is sound. kc-hist: every history up to depth 4 (thorough 5) without merging over a reduced auth menu. kc-rmid: removal by image id. states = distinct canonical keychain states (dump + observations) reached, transitions = operations applied, evaluations = histories executed; non-trivial = histories after which at least one query is answered with credentials",
		Assumptions: []string{
			"the three names of Docker Hub (docker.io, registry-1.docker.io, index.docker.io) are one host for the server-address comparison",
			"a server address without scheme that names the contacted host may or may not yield credentials (both accepted; counted in the outcomes)",
			"the reference model also expects the credentials of the last pull to BE offered where the statement allows it (key credentials-withheld); the statement itself only forbids",
			"the backend image service always succeeds; concurrency of PullImage/credential queries is not explored in this part",
		},
		QuickBudget: 3 * time.Minute, ThoroughBudget: 25 * time.Minute,
		Parts: parts,
	})
}
