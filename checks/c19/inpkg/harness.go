//go:build verif

package externaltoc

import (
	"io"

	"github.com/containerd/containerd/v2/pkg/archive/compression"
	"github.com/containerd/stargz-snapshotter/estargz/vrt"
	"github.com/containerd/stargz-snapshotter/util/ioutils"
	"github.com/opencontainers/go-digest"
)

// verifCalcUncompression replaces the two calls of calcUncompression in
// layerLossLessConvertFunc (inst.json "seams").
//
// Without a scheduler (parts "inputs" and "retry" of C19) it IS calcUncompression.
//
// Under the vrt scheduler (part "sched") calcUncompression cannot run as
// instrumented: its goroutine would become a vrt thread that talks to the
// converting thread through a real io.Pipe, which blocks the OS goroutine of
// one vrt thread while the other is parked (a real deadlock), and its
// *io.PipeWriter result type rules out a scheduler-aware pipe. The helper is
// private to one layer conversion (it computes DiffID and size of what is
// streamed through it), so it is run the way estargz.Build's helpers are run in
// this check: as plain goroutines outside the scheduler (plainCalcUncompression
// is calcUncompression verbatim, compiled without instrumentation) on which the
// converting vrt thread waits. The result is handed over at Close, so that the
// instrumented receive in layerLossLessConvertFunc finds it deterministically.
func verifCalcUncompression() (io.WriteCloser, chan uncompressedInfo) {
	if !vrt.Active() {
		pw, ch := calcUncompression()
		return pw, ch
	}
	pw, ch := plainCalcUncompression()
	out := make(chan uncompressedInfo, 1)
	return &joinOnClose{pw: pw, in: ch, out: out}, out
}

type joinOnClose struct {
	pw   *io.PipeWriter
	in   chan uncompressedInfo
	out  chan uncompressedInfo
	done bool
}

func (j *joinOnClose) Write(p []byte) (int, error) { return j.pw.Write(p) }

func (j *joinOnClose) Close() error {
	err := j.pw.Close()
	if !j.done {
		j.done = true
		if v, ok := <-j.in; ok {
			j.out <- v
		} else {
			close(j.out)
		}
	}
	return err
}

// plainCalcUncompression is calcUncompression (converter.go) verbatim.
func plainCalcUncompression() (*io.PipeWriter, chan uncompressedInfo) {
	pr, pw := io.Pipe()
	infoCh := make(chan uncompressedInfo)
	go func() {
		defer pr.Close()

		c := new(ioutils.CountWriter)
		diffID := digest.Canonical.Digester()
		decompressR, err := compression.DecompressStream(pr)
		if err != nil {
			pr.CloseWithError(err)
			close(infoCh)
			return
		}
		defer decompressR.Close()
		if _, err := io.Copy(io.MultiWriter(c, diffID.Hash()), decompressR); err != nil {
			pr.CloseWithError(err)
			close(infoCh)
			return
		}
		infoCh <- uncompressedInfo{
			diffID: diffID.Digest(),
			size:   c.Size(),
		}
	}()
	return pw, infoCh
}
