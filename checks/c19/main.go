// C19: image conversion emits descriptors that describe exactly the blobs it wrote.
//
// Part A ("inputs", "retry"): every source layer x converter x option set against a real
// containerd local content store; the oracle is recomputed from the store.
// Part B ("sched"): one converter instance converting 2-3 layers in parallel (errgroup, as
// containerd's image converter does), every schedule within the preemption bound at
// statement granularity of the three converter files, then finalize.
package main

import (
	"archive/tar"
	"bytes"
	"compress/gzip"
	"context"
	"encoding/binary"
	"encoding/json"
	"fmt"
	"io"
	"os"
	"path/filepath"
	"runtime"
	"runtime/debug"
	"sort"
	"strconv"
	"strings"
	"sync"
	"time"

	"github.com/containerd/containerd/v2/core/content"
	"github.com/containerd/containerd/v2/core/images"
	"github.com/containerd/containerd/v2/core/images/converter"
	"github.com/containerd/containerd/v2/plugins/content/local"
	"github.com/containerd/stargz-snapshotter/cache"
	"github.com/containerd/stargz-snapshotter/estargz"
	esgzexternaltoc "github.com/containerd/stargz-snapshotter/estargz/externaltoc"
	"github.com/containerd/stargz-snapshotter/estargz/vrt"
	"github.com/containerd/stargz-snapshotter/estargz/vrt/xsync/errgroup"
	esgzzstd "github.com/containerd/stargz-snapshotter/estargz/zstdchunked"
	fsreader "github.com/containerd/stargz-snapshotter/fs/reader"
	"github.com/containerd/stargz-snapshotter/metadata"
	memorymetadata "github.com/containerd/stargz-snapshotter/metadata/memory"
	estargzconvert "github.com/containerd/stargz-snapshotter/nativeconverter/estargz"
	extconvert "github.com/containerd/stargz-snapshotter/nativeconverter/estargz/externaltoc"
	zstdconvert "github.com/containerd/stargz-snapshotter/nativeconverter/zstdchunked"
	"github.com/klauspost/compress/zstd"
	"github.com/opencontainers/go-digest"
	ocispec "github.com/opencontainers/image-spec/specs-go/v1"

	"verif/lib/enumx"
	"verif/lib/runner"
	"verif/lib/vexp"
)

const (
	tocAnn       = estargz.TOCJSONDigestAnnotation
	sizeAnn      = estargz.StoreUncompressedSizeAnnotation
	uncLabel     = "containerd.io/uncompressed"
	layerDgstAnn = "containerd.io/snapshot/stargz/layer.digest"
	targetRef    = "docker.io/library/c19:target"

	kEstargz  = "estargz"
	kZstd     = "zstdchunked"
	kExtLossy = "externaltoc-lossy"
	kExtLL    = "externaltoc-lossless"
)

var kinds = []string{kEstargz, kZstd, kExtLossy, kExtLL}

// ---- source layers -------------------------------------------------------------------

type tarSpec struct {
	Name string
	Ents []enumx.Ent
	Prio string
}

var tars = []tarSpec{
	{"T0", []enumx.Ent{
		{Name: "hello", Type: tar.TypeReg, Size: 12, Mode: 0o644, MTime: 1_600_000_000},
	}, "hello"},
	{"T1", []enumx.Ent{
		{Name: "dir/", Type: tar.TypeDir, Mode: 0o755, MTime: 1_600_000_000},
		{Name: "dir/a", Type: tar.TypeReg, Size: 30, Mode: 0o644, UID: 1000, GID: 1000, MTime: 1_600_000_001},
		{Name: "dir/b", Type: tar.TypeReg, Size: 0, Mode: 0o600},
		{Name: "lnk", Type: tar.TypeSymlink, Link: "dir/a", Mode: 0o777},
		{Name: "dir/h", Type: tar.TypeLink, Link: "dir/a", Mode: 0o644},
	}, "dir/a"},
	{"T2", []enumx.Ent{
		{Name: "./", Type: tar.TypeDir, Mode: 0o755},
		{Name: "./etc/", Type: tar.TypeDir, Mode: 0o755},
		{Name: "./etc/conf", Type: tar.TypeReg, Size: 100, Mode: 0o640, Xattrs: map[string]string{"user.k": "v"}, MTime: 1_600_000_002},
		{Name: "./bin/", Type: tar.TypeDir, Mode: 0o755},
		{Name: "./bin/tool", Type: tar.TypeReg, Size: 17, Mode: 0o755},
		{Name: "./.wh.old", Type: tar.TypeReg, Size: 0, Mode: 0o600},
	}, "bin/tool"},
}

// source identifies one source layer of the enumeration.
type source struct {
	Tar    int    `json:"tar"`
	Comp   string `json:"comp"`   // tar | gzip | zstd
	Family string `json:"family"` // oci | docker
	Pre    string `json:"pre"`    // "" (fresh) or the converter kind of a first pass with default options
}

func (s source) String() string {
	p := "fresh"
	if s.Pre != "" {
		p = "converted-by-" + s.Pre
	}
	return fmt.Sprintf("%s/%s/%s/%s", tars[s.Tar].Name, s.Comp, s.Family, p)
}

func mediaType(family, comp string) string {
	if family == "docker" {
		switch comp {
		case "gzip":
			return images.MediaTypeDockerSchema2LayerGzip
		case "zstd":
			return images.MediaTypeDockerSchema2LayerZstd
		}
		return images.MediaTypeDockerSchema2Layer
	}
	switch comp {
	case "gzip":
		return ocispec.MediaTypeImageLayerGzip
	case "zstd":
		return ocispec.MediaTypeImageLayerZstd
	}
	return ocispec.MediaTypeImageLayer
}

var zenc, _ = zstd.NewWriter(nil, zstd.WithEncoderConcurrency(1))

func compress(comp string, b []byte) []byte {
	switch comp {
	case "gzip":
		var buf bytes.Buffer
		w := gzip.NewWriter(&buf)
		w.Write(b)
		w.Close()
		return buf.Bytes()
	case "zstd":
		return zenc.EncodeAll(b, nil)
	}
	return b
}

// compression of a blob by its magic number (what a runtime sniffs).
func sniff(raw []byte) string {
	switch {
	case len(raw) >= 3 && raw[0] == 0x1f && raw[1] == 0x8b && raw[2] == 8:
		return "gzip"
	case len(raw) >= 4 && bytes.Equal(raw[:4], []byte{0x28, 0xb5, 0x2f, 0xfd}):
		return "zstd"
	case len(raw) >= 4 && bytes.Equal(raw[:4], []byte{0x50, 0x2a, 0x4d, 0x18}):
		return "zstd"
	}
	return "tar"
}

// compression a media type promises (OCI image-spec / Docker schema2 suffix conventions).
func mtCompression(mt string) string {
	switch {
	case strings.HasSuffix(mt, "+gzip"), strings.HasSuffix(mt, ".gzip"):
		return "gzip"
	case strings.HasSuffix(mt, "+zstd"), strings.HasSuffix(mt, ".zstd"):
		return "zstd"
	}
	return "tar"
}

func decompressAny(raw []byte) ([]byte, error) {
	switch sniff(raw) {
	case "gzip":
		return enumx.DecompressAll(enumx.KindGzip, raw)
	case "zstd":
		return enumx.DecompressAll(enumx.KindZstd, raw)
	}
	return raw, nil
}

// ---- option sets and converters --------------------------------------------------------

type optset struct {
	Name     string
	Chunk    int
	MinChunk int
	Prio     bool
	PerLayer bool // use the API variant that takes per-layer options
	Fast     bool // non-default compression level
	CtrLike  bool // the option list ctr-remote builds (6 options in a slice of capacity 8)
}

var optsets = []optset{
	{Name: "default"},
	{Name: "chunk8", Chunk: 8},
	{Name: "chunk8-minchunk24", Chunk: 8, MinChunk: 24},
	{Name: "minchunk64", MinChunk: 64},
	{Name: "prioritized", Prio: true},
	{Name: "perlayer-prioritized+common-chunk8", Chunk: 8, Prio: true, PerLayer: true},
	{Name: "ctr-remote-like", Prio: true, CtrLike: true},
	{Name: "fast-level", Fast: true},
}

func optApplies(kind string, o optset) bool {
	if kind == kExtLL {
		return !o.Prio && !o.PerLayer && !o.CtrLike
	}
	return true
}

type conv struct {
	fn       converter.ConvertFunc
	finalize func(ctx context.Context, cs content.Store, ref string, desc *ocispec.Descriptor) (*images.Image, error)
}

// mkConv builds ONE converter instance. prio maps a source digest to its prioritized file
// (all of them are passed for a common prioritized list; per-layer variants get one each).
func mkConv(kind string, o optset, prio map[digest.Digest]string) conv {
	var missed []string
	var common, all []estargz.Option
	add := func(dst *[]estargz.Option, x ...estargz.Option) { *dst = append(*dst, x...) }
	if o.CtrLike {
		// cmd/ctr-remote/commands/convert.go getESGZConvertOpts
		common = []estargz.Option{
			estargz.WithCompressionLevel(gzip.BestCompression),
			estargz.WithChunkSize(0),
			estargz.WithMinChunkSize(0),
			estargz.WithParallelism(0),
		}
	}
	if o.Chunk > 0 {
		add(&common, estargz.WithChunkSize(o.Chunk))
	}
	if o.MinChunk > 0 {
		add(&common, estargz.WithMinChunkSize(o.MinChunk))
	}
	if o.Fast && kind == kEstargz {
		add(&common, estargz.WithCompressionLevel(gzip.BestSpeed))
	}
	perLayer := map[digest.Digest][]estargz.Option{}
	if o.Prio {
		var files []string
		for _, d := range sortedDigests(prio) {
			files = append(files, prio[d])
			perLayer[d] = []estargz.Option{estargz.WithPrioritizedFiles([]string{prio[d]})}
		}
		all = append(all, common...)
		all = append(all, estargz.WithPrioritizedFiles(files))
		all = append(all, estargz.WithAllowPrioritizeNotFound(&missed))
	} else {
		all = common
	}
	level := gzip.BestCompression
	if o.Fast {
		level = gzip.BestSpeed
	}
	switch kind {
	case kEstargz:
		if o.PerLayer {
			return conv{fn: estargzconvert.LayerConvertWithLayerAndCommonOptsFunc(perLayer, common...)}
		}
		return conv{fn: estargzconvert.LayerConvertFunc(all...)}
	case kZstd:
		if o.PerLayer {
			pl := map[digest.Digest][]estargz.Option{}
			for d, x := range perLayer {
				pl[d] = append(append([]estargz.Option{}, common...), x...)
			}
			return conv{fn: zstdconvert.LayerConvertWithLayerOptsFunc(pl)}
		}
		if o.Fast {
			return conv{fn: zstdconvert.LayerConvertFuncWithCompressionLevel(zstd.SpeedFastest, all...)}
		}
		return conv{fn: zstdconvert.LayerConvertFunc(all...)}
	case kExtLossy:
		if o.PerLayer {
			f, fin := extconvert.LayerConvertWithLayerAndCommonOptsFunc(perLayer, common, level)
			return conv{f, fin}
		}
		f, fin := extconvert.LayerConvertFunc(all, level)
		return conv{f, fin}
	case kExtLL:
		f, fin := extconvert.LayerConvertLossLessFunc(extconvert.LayerConvertLossLessConfig{CompressionLevel: level, ChunkSize: o.Chunk, MinChunkSize: o.MinChunk})
		return conv{f, fin}
	}
	panic("unknown kind " + kind)
}

func sortedDigests[V any](m map[digest.Digest]V) []digest.Digest {
	var ds []digest.Digest
	for d := range m {
		ds = append(ds, d)
	}
	sort.Slice(ds, func(i, j int) bool { return ds[i] < ds[j] })
	return ds
}

func outKind(kind string) string {
	switch kind {
	case kEstargz:
		return enumx.KindGzip
	case kZstd:
		return enumx.KindZstd
	}
	return enumx.KindExt
}

// ---- store helpers -------------------------------------------------------------------------

func newStore(scratch string) (content.Store, string, error) {
	dir, err := os.MkdirTemp(scratch, "store")
	if err != nil {
		return nil, "", err
	}
	cs, err := local.NewLabeledStore(dir, &memLabels{m: map[digest.Digest]map[string]string{}})
	return cs, dir, err
}

// memLabels is the label store of the local content store (the plain local.NewStore drops labels).
type memLabels struct {
	mu sync.Mutex
	m  map[digest.Digest]map[string]string
}

func (l *memLabels) Get(d digest.Digest) (map[string]string, error) {
	l.mu.Lock()
	defer l.mu.Unlock()
	out := map[string]string{}
	for k, v := range l.m[d] {
		out[k] = v
	}
	return out, nil
}

func (l *memLabels) Set(d digest.Digest, labels map[string]string) error {
	l.mu.Lock()
	defer l.mu.Unlock()
	c := map[string]string{}
	for k, v := range labels {
		c[k] = v
	}
	l.m[d] = c
	return nil
}

func (l *memLabels) Update(d digest.Digest, update map[string]string) (map[string]string, error) {
	l.mu.Lock()
	defer l.mu.Unlock()
	cur := l.m[d]
	if cur == nil {
		cur = map[string]string{}
		l.m[d] = cur
	}
	for k, v := range update {
		if v == "" {
			delete(cur, k)
		} else {
			cur[k] = v
		}
	}
	out := map[string]string{}
	for k, v := range cur {
		out[k] = v
	}
	return out, nil
}

func ingest(ctx context.Context, cs content.Store, raw []byte, mt string, labels map[string]string) (ocispec.Descriptor, error) {
	desc := ocispec.Descriptor{MediaType: mt, Digest: digest.FromBytes(raw), Size: int64(len(raw))}
	err := content.WriteBlob(ctx, cs, "c19-ingest-"+desc.Digest.String(), bytes.NewReader(raw), desc, content.WithLabels(labels))
	return desc, err
}

func readBlob(ctx context.Context, cs content.Store, d digest.Digest) ([]byte, error) {
	ra, err := cs.ReaderAt(ctx, ocispec.Descriptor{Digest: d})
	if err != nil {
		return nil, err
	}
	defer ra.Close()
	b := make([]byte, ra.Size())
	if _, err := ra.ReadAt(b, 0); err != nil && err != io.EOF {
		return nil, err
	}
	return b, nil
}

// srcInfo is what the oracle knows about a source layer (computed by the harness).
type srcInfo struct {
	Src    source
	Desc   ocispec.Descriptor
	Raw    []byte
	Tar    []byte // decompressed source
	DiffID string
}

// prepare ingests the source (running the first pass when Src.Pre is set) and returns its descriptor.
func prepare(ctx context.Context, cs content.Store, s source) (*srcInfo, error) {
	tb := enumx.BuildTar(tars[s.Tar].Ents)
	raw := compress(s.Comp, tb)
	desc, err := ingest(ctx, cs, raw, mediaType(s.Family, s.Comp), map[string]string{
		uncLabel: enumx.Sha256(tb),
		"containerd.io/distribution.source.docker.io": "library/c19",
	})
	if err != nil {
		return nil, fmt.Errorf("ingest: %w", err)
	}
	if s.Pre != "" {
		c := mkConv(s.Pre, optsets[0], nil)
		d, err := c.fn(ctx, cs, desc)
		if err != nil {
			return nil, fmt.Errorf("first pass (%s): %w", s.Pre, err)
		}
		if d == nil {
			return nil, fmt.Errorf("first pass (%s) returned no descriptor", s.Pre)
		}
		desc = *d
		if raw, err = readBlob(ctx, cs, desc.Digest); err != nil {
			return nil, fmt.Errorf("first pass blob: %w", err)
		}
		if tb, err = decompressAny(raw); err != nil {
			return nil, fmt.Errorf("first pass blob: %w", err)
		}
		if sniff(raw) != mtCompression(desc.MediaType) {
			// reported for the first-pass converter on the fresh source; feeding the lie on would only repeat it
			return nil, fmt.Errorf("first pass (%s) emitted a media type inconsistent with its blob", s.Pre)
		}
	}
	return &srcInfo{Src: s, Desc: desc, Raw: raw, Tar: tb, DiffID: enumx.Sha256(tb)}, nil
}

// ---- the oracle ------------------------------------------------------------------------------

type finding struct {
	Class string // defect class (part of the key)
	Qual  string // optional qualifier (part of the key)
	Msg   string
}

func (f finding) key(kind string) string {
	k := "C19/" + f.Class + "/" + kind
	if f.Qual != "" {
		k += "/" + f.Qual
	}
	return k
}

type layerObs struct {
	LibVerifyTOC string // observation about estargz.Reader.VerifyTOC (not the mount path)
	TOCEntries   int
	Chunked    bool
	OutDigest  string
}

var landmarkNames = map[string]bool{".prefetch.landmark": true, ".no.prefetch.landmark": true, "stargz.index.json": true}

// checkLayer recomputes everything the descriptor claims from the blob in the store.
// tocBlob is the external TOC found through the TOC manifest (external-TOC kinds only).
func checkLayer(ctx context.Context, cs content.Store, kind string, src *srcInfo, desc *ocispec.Descriptor, tocBlob []byte, haveTOC bool) (obs layerObs, fs []finding) {
	add := func(class, qual, format string, a ...any) {
		fs = append(fs, finding{class, qual, fmt.Sprintf(format, a...)})
	}
	if desc == nil {
		add("no-descriptor", "", "converter returned (nil, nil) for layer media type %s", src.Desc.MediaType)
		return
	}
	obs.OutDigest = desc.Digest.String()
	raw, err := readBlob(ctx, cs, desc.Digest)
	if err != nil {
		add("blob-not-in-store", "", "descriptor digest %s: %v", desc.Digest, err)
		return
	}
	if got := enumx.Sha256(raw); got != desc.Digest.String() {
		add("descriptor-digest-mismatch", "", "blob stored as %s has sha256 %s", desc.Digest, got)
	}
	if int64(len(raw)) != desc.Size {
		add("descriptor-size-mismatch", "", "descriptor.Size=%d, committed blob has %d bytes", desc.Size, len(raw))
	}
	// media type vs compression
	k := outKind(kind)
	wantComp := "gzip"
	if k == enumx.KindZstd {
		wantComp = "zstd"
	}
	if got := sniff(raw); got != wantComp {
		add("blob-compression", "", "blob starts with % x (%s), converter %s must write %s", raw[:min(4, len(raw))], got, kind, wantComp)
	}
	if got := mtCompression(desc.MediaType); got != sniff(raw) {
		add("mediatype-mismatch", src.Src.Comp+"-source", "descriptor media type %q promises %s, the blob is %s (source media type %q)", desc.MediaType, got, sniff(raw), src.Desc.MediaType)
	}
	if k == enumx.KindZstd {
		if images.IsDockerType(desc.MediaType) {
			add("mediatype-family", "", "zstd:chunked must emit OCI media types, got %q", desc.MediaType)
		}
	} else if images.IsDockerType(desc.MediaType) != images.IsDockerType(src.Desc.MediaType) {
		add("mediatype-family", "", "media type family changed: %q -> %q", src.Desc.MediaType, desc.MediaType)
	}
	// independent decompression
	dec, err := enumx.DecompressAll(k, raw)
	if err != nil {
		add("blob-not-decompressible", "", "%v", err)
		return
	}
	diffID := enumx.Sha256(dec)
	if v, ok := desc.Annotations[sizeAnn]; !ok {
		add("uncompressed-size-annotation-missing", "", "annotation %s is absent", sizeAnn)
	} else if n, err := strconv.ParseInt(v, 10, 64); err != nil || n != int64(len(dec)) {
		add("uncompressed-size-annotation-mismatch", "", "annotation %s=%q, the blob decompresses to %d bytes (compressed size %d)", sizeAnn, v, len(dec), len(raw))
	}
	info, err := cs.Info(ctx, desc.Digest)
	if err != nil {
		add("blob-not-in-store", "", "Info(%s): %v", desc.Digest, err)
	} else if v, ok := info.Labels[uncLabel]; !ok {
		add("uncompressed-label-missing", "", "blob %s has no %s label (labels %v); DiffID of the blob is %s", desc.Digest, uncLabel, info.Labels, diffID)
	} else if v != diffID {
		add("uncompressed-label-mismatch", "", "label %s=%s on blob %s, the blob decompresses to %s (source DiffID %s)", uncLabel, v, desc.Digest, diffID, src.DiffID)
	}
	if kind == kExtLL && diffID != src.DiffID {
		add("lossless-diffid-changed", "", "source DiffID %s, converted blob DiffID %s", src.DiffID, diffID)
	}
	// TOC digest annotation
	ann, ok := desc.Annotations[tocAnn]
	if !ok {
		add("toc-digest-annotation-missing", "", "annotation %s is absent", tocAnn)
		return
	}
	if k == enumx.KindExt && !haveTOC {
		return // reported by the TOC-manifest oracle
	}
	blob, err := enumx.ParseBlob(k, raw, tocBlob)
	if err != nil {
		add("blob-malformed", "", "from-the-spec reader: %v", err)
	} else {
		if got := enumx.Sha256(blob.TOCJSON); got != ann {
			add("toc-digest-annotation-mismatch", "", "annotation %s=%s, the TOC JSON of the committed blob has digest %s", tocAnn, ann, got)
		}
		files, err := blob.Files()
		if err != nil {
			add("toc-does-not-verify", "", "from-the-spec reader: %v", err)
		} else {
			fs = append(fs, compareContent(src, files)...)
		}
		obs.TOCEntries = len(blob.TOC.Entries)
		for _, e := range blob.TOC.Entries {
			if e.Type == "chunk" {
				obs.Chunked = true
			}
		}
		if k == enumx.KindZstd {
			fs = append(fs, checkZstdAnnotations(desc, raw)...)
		}
	}
	ad, err := digest.Parse(ann)
	if err != nil {
		add("toc-digest-annotation-mismatch", "", "annotation %s=%q does not parse: %v", tocAnn, ann, err)
		return
	}
	// the mount path of the snapshotter (fs/layer): metadata reader + fs/reader, VerifyTOC(annotation), read every file
	fs = append(fs, mountVerify(k, raw, tocBlob, desc.Digest, ad, src)...)
	// observation only: estargz.Reader.VerifyTOC (not used by the mount path)
	var dopt estargz.OpenOption
	switch k {
	case enumx.KindZstd:
		dopt = estargz.WithDecompressors(new(esgzzstd.Decompressor))
	case enumx.KindExt:
		dopt = estargz.WithDecompressors(esgzexternaltoc.NewGzipDecompressor(func() ([]byte, error) { return tocBlob, nil }))
	default:
		dopt = estargz.WithDecompressors()
	}
	r, err := estargz.Open(io.NewSectionReader(bytes.NewReader(raw), 0, int64(len(raw))), dopt)
	if err != nil {
		add("open-failed", "", "estargz.Open on the committed blob: %v", err)
		return
	}
	if _, err := r.VerifyTOC(ad); err != nil {
		switch {
		case strings.Contains(err.Error(), "found twice"):
			obs.LibVerifyTOC = "library-VerifyTOC-rejects-minchunk-stream"
		case strings.Contains(err.Error(), "invalid TOC JSON"):
			add("toc-digest-annotation-mismatch", "", "estargz.VerifyTOC(%s) on the committed blob: %v", ann, err)
		default:
			add("library-verifytoc-failed", "", "estargz.VerifyTOC(%s) on the committed blob: %v", ann, err)
		}
	}
	return
}

// mountVerify opens the committed blob the way fs/layer does when a layer is mounted, verifies the
// TOC against the annotation and reads every regular file of the source through the verifying reader.
func mountVerify(k string, raw, tocBlob []byte, layer, ann digest.Digest, src *srcInfo) (fs []finding) {
	add := func(class, qual, format string, a ...any) {
		fs = append(fs, finding{class, qual, fmt.Sprintf(format, a...)})
	}
	decs := []metadata.Decompressor{new(esgzzstd.Decompressor)}
	if k == enumx.KindExt {
		decs = append(decs, esgzexternaltoc.NewGzipDecompressor(func() ([]byte, error) { return tocBlob, nil }))
	}
	meta, err := memorymetadata.NewReader(io.NewSectionReader(bytes.NewReader(raw), 0, int64(len(raw))), metadata.WithDecompressors(decs...))
	if err != nil {
		add("blob-does-not-mount", "metadata-reader", "mount path: metadata reader on the committed blob: %v", err)
		return
	}
	vr, err := fsreader.NewReader(meta, cache.NewMemoryCache(), layer)
	if err != nil {
		add("blob-does-not-mount", "reader", "mount path: fs/reader.NewReader: %v", err)
		return
	}
	defer vr.Close()
	r, err := vr.VerifyTOC(ann)
	if err != nil {
		if strings.Contains(err.Error(), "invalid TOC JSON") {
			add("toc-digest-annotation-mismatch", "", "mount path: VerifyTOC(%s): %v", ann, err)
		} else {
			add("blob-does-not-mount", "verify-toc", "mount path: VerifyTOC(%s): %v", ann, err)
		}
		return
	}
	ents, err := enumx.ParseTar(src.Tar)
	if err != nil {
		return []finding{{"harness", "", "source tar does not parse: " + err.Error()}}
	}
	for _, e := range enumx.LastWins(ents) {
		n := enumx.Clean(e.Hdr.Name)
		if e.Hdr.Typeflag != tar.TypeReg || landmarkNames[n] {
			continue
		}
		id := meta.RootID()
		var attr metadata.Attr
		ok := true
		for _, comp := range strings.Split(n, "/") {
			cid, a, err := meta.GetChild(id, comp)
			if err != nil {
				add("blob-does-not-mount", "lookup", "mount path: file %q of the source is not reachable in the mounted layer (component %q): %v", n, comp, err)
				ok = false
				break
			}
			id, attr = cid, a
		}
		if !ok {
			continue
		}
		if attr.Size != int64(len(e.Data)) {
			add("blob-does-not-mount", "content", "mount path: file %q has size %d in the mounted layer, %d in the source", n, attr.Size, len(e.Data))
			continue
		}
		ra, err := r.OpenFile(id)
		if err != nil {
			add("blob-does-not-mount", "open-file", "mount path: OpenFile(%q): %v", n, err)
			continue
		}
		buf := make([]byte, attr.Size)
		if len(buf) > 0 {
			if m, err := ra.ReadAt(buf, 0); m != len(buf) || (err != nil && err != io.EOF) {
				add("blob-does-not-mount", "read", "mount path: reading file %q through the verifying reader: %d of %d bytes, %v", n, m, len(buf), err)
				continue
			}
		}
		if !bytes.Equal(buf, e.Data) {
			add("blob-does-not-mount", "content", "mount path: file %q read through the verifying reader differs from the source", n)
		}
	}
	return
}

// compareContent: every file of the source is readable through the TOC with the same payload, and vice versa.
func compareContent(src *srcInfo, files []enumx.File) (fs []finding) {
	ents, err := enumx.ParseTar(src.Tar)
	if err != nil {
		return []finding{{"harness", "", "source tar does not parse: " + err.Error()}}
	}
	want := map[string]enumx.Parsed{}
	for _, e := range enumx.LastWins(ents) {
		n := enumx.Clean(e.Hdr.Name)
		if landmarkNames[n] {
			continue
		}
		want[n] = e
	}
	got := map[string]enumx.File{}
	for _, f := range files {
		n := enumx.Clean(f.Entry.Name)
		if landmarkNames[n] {
			continue
		}
		got[n] = f
	}
	var names []string
	for n := range want {
		names = append(names, n)
	}
	sort.Strings(names)
	for _, n := range names {
		f, ok := got[n]
		if !ok {
			if n == "" {
				continue // the root directory entry is implied
			}
			fs = append(fs, finding{"content-mismatch", "", fmt.Sprintf("source entry %q is missing from the TOC of the converted blob", n)})
			continue
		}
		if want[n].Hdr.Typeflag == tar.TypeReg && !bytes.Equal(f.Data, want[n].Data) {
			fs = append(fs, finding{"content-mismatch", "", fmt.Sprintf("file %q: payload read through the TOC differs from the source (%d vs %d bytes)", n, len(f.Data), len(want[n].Data))})
		}
	}
	for n := range got {
		if _, ok := want[n]; !ok && n != "" {
			fs = append(fs, finding{"content-mismatch", "", fmt.Sprintf("TOC entry %q does not exist in the source", n)})
		}
	}
	return
}

// checkZstdAnnotations recomputes the zstd:chunked manifest annotations from the 40-byte footer.
func checkZstdAnnotations(desc *ocispec.Descriptor, raw []byte) (fs []finding) {
	if len(raw) < 48 {
		return
	}
	f := raw[len(raw)-40:]
	off := binary.LittleEndian.Uint64(f[0:])
	clen := binary.LittleEndian.Uint64(f[8:])
	ulen := binary.LittleEndian.Uint64(f[16:])
	typ := binary.LittleEndian.Uint64(f[24:])
	if off+clen > uint64(len(raw)) {
		return
	}
	wantPos := fmt.Sprintf("%d:%d:%d:%d", off, clen, ulen, typ)
	wantSum := enumx.Sha256(raw[off : off+clen])
	if v, ok := desc.Annotations[esgzzstd.ManifestPositionAnnotation]; !ok || v != wantPos {
		fs = append(fs, finding{"zstdchunked-manifest-annotation-mismatch", "", fmt.Sprintf("annotation %s=%q (present=%v), the footer of the committed blob says %s", esgzzstd.ManifestPositionAnnotation, v, ok, wantPos)})
	}
	if v, ok := desc.Annotations[esgzzstd.ManifestChecksumAnnotation]; !ok || v != wantSum {
		fs = append(fs, finding{"zstdchunked-manifest-annotation-mismatch", "", fmt.Sprintf("annotation %s=%q (present=%v), the compressed TOC of the committed blob has digest %s", esgzzstd.ManifestChecksumAnnotation, v, ok, wantSum)})
	}
	return
}

// checkTOCManifest evaluates the result of finalize against the store: it returns the TOC blob
// for every layer digest it could resolve.
func checkTOCManifest(ctx context.Context, cs content.Store, img *images.Image, ferr error, layers []digest.Digest) (tocs map[digest.Digest][]byte, fs []finding) {
	tocs = map[digest.Digest][]byte{}
	add := func(class, format string, a ...any) {
		fs = append(fs, finding{class, "", fmt.Sprintf(format, a...)})
	}
	if ferr != nil {
		add("finalize-error", "finalize: %v", ferr)
		return
	}
	if img == nil {
		add("finalize-error", "finalize returned no image")
		return
	}
	if img.Name != targetRef+"-esgztoc" {
		add("toc-image-name", "TOC image name %q, want %q", img.Name, targetRef+"-esgztoc")
	}
	mraw, err := readBlob(ctx, cs, img.Target.Digest)
	if err != nil {
		add("toc-manifest-not-in-store", "%v", err)
		return
	}
	if enumx.Sha256(mraw) != img.Target.Digest.String() || int64(len(mraw)) != img.Target.Size {
		add("toc-manifest-descriptor-mismatch", "target %s size %d, blob has sha256 %s size %d", img.Target.Digest, img.Target.Size, enumx.Sha256(mraw), len(mraw))
	}
	var m ocispec.Manifest
	if err := json.Unmarshal(mraw, &m); err != nil {
		add("toc-manifest-malformed", "%v", err)
		return
	}
	if _, err := readBlob(ctx, cs, m.Config.Digest); err != nil {
		add("toc-manifest-config-missing", "%v", err)
	}
	byLayer := map[string][]ocispec.Descriptor{}
	for _, l := range m.Layers {
		byLayer[l.Annotations[layerDgstAnn]] = append(byLayer[l.Annotations[layerDgstAnn]], l)
	}
	for _, ld := range layers {
		ls := byLayer[ld.String()]
		if len(ls) == 0 {
			var have []string
			for k := range byLayer {
				have = append(have, k)
			}
			sort.Strings(have)
			add("toc-manifest-missing-layer", "converted layer %s has no entry in the TOC manifest (entries for %v)", ld, have)
			continue
		}
		if len(ls) > 1 {
			add("toc-manifest-duplicate-layer", "converted layer %s has %d entries in the TOC manifest", ld, len(ls))
		}
		tb, err := readBlob(ctx, cs, ls[0].Digest)
		if err != nil {
			add("toc-blob-not-in-store", "layer %s -> TOC %s: %v", ld, ls[0].Digest, err)
			continue
		}
		if enumx.Sha256(tb) != ls[0].Digest.String() || int64(len(tb)) != ls[0].Size {
			add("toc-blob-descriptor-mismatch", "layer %s -> TOC descriptor %s size %d, blob has sha256 %s size %d", ld, ls[0].Digest, ls[0].Size, enumx.Sha256(tb), len(tb))
		}
		tocs[ld] = tb
	}
	if len(m.Layers) != len(byLayer) || len(byLayer) != len(uniq(layers)) {
		add("toc-manifest-extra-entries", "TOC manifest has %d entries for %d distinct layer digests; %d distinct layers were converted", len(m.Layers), len(byLayer), len(uniq(layers)))
	}
	return
}

func uniq(ds []digest.Digest) map[digest.Digest]bool {
	m := map[digest.Digest]bool{}
	for _, d := range ds {
		m[d] = true
	}
	return m
}

// ---- Part A: one case ---------------------------------------------------------------------------

type caseSpec struct {
	Src  source `json:"src"`
	Kind string `json:"kind"`
	Opt  int    `json:"opt"`
}

func (c caseSpec) String() string {
	return fmt.Sprintf("source=%s converter=%s options=%s", c.Src, c.Kind, optsets[c.Opt].Name)
}

// protect runs f and converts a panic into an error.
func protect(f func() error) (err error) {
	defer func() {
		if r := recover(); r != nil {
			err = fmt.Errorf("PANIC: %v\n%s", r, firstFrames(string(debug.Stack())))
		}
	}()
	return f()
}

func firstFrames(st string) string {
	lines := strings.Split(st, "\n")
	var out []string
	for _, l := range lines {
		if strings.Contains(l, "/repo/") || strings.Contains(l, "stargz-snapshotter") {
			out = append(out, strings.TrimSpace(l))
		}
		if len(out) >= 8 {
			break
		}
	}
	return strings.Join(out, "\n")
}

func errClass(err error) string {
	s := err.Error()
	switch {
	case strings.HasPrefix(s, "PANIC"):
		return "panic"
	case strings.Contains(s, "unknown mediatype"):
		return "unknown-mediatype"
	case strings.Contains(s, "lossless"):
		return "lossless"
	}
	return "other"
}

// convertAndCheck converts src with c (one layer, sequentially) and evaluates the whole oracle.
func convertAndCheck(ctx context.Context, cs content.Store, store content.Store, kind string, c conv, src *srcInfo) (obs layerObs, outcome string, fs []finding) {
	var desc *ocispec.Descriptor
	err := protect(func() (e error) { desc, e = c.fn(ctx, cs, src.Desc); return })
	if err != nil {
		if kind == kExtLL && strings.Contains(err.Error(), "existing TOC JSON is not allowed") {
			// documented refusal: a layer that already carries a TOC entry cannot be converted losslessly
			return obs, "externaltoc-lossless: refused (source already carries stargz.index.json)", nil
		}
		if errClass(err) == "panic" {
			fs = append(fs, finding{"panic", "", fmt.Sprintf("conversion of a layer (media type %s) panicked: %v", src.Desc.MediaType, err)})
		}
		// C19 is about the descriptors that ARE returned; a refused input is recorded as an outcome only
		return obs, fmt.Sprintf("%s: %s -> conversion error (%s)", kind, src.Desc.MediaType, errClass(err)), fs
	}
	return checkConverted(ctx, store, kind, c, src, desc)
}

func checkConverted(ctx context.Context, cs content.Store, kind string, c conv, src *srcInfo, desc *ocispec.Descriptor) (obs layerObs, outcome string, fs []finding) {
	var tocBlob []byte
	haveTOC := false
	if c.finalize != nil && desc != nil {
		var img *images.Image
		ferr := protect(func() (e error) { img, e = c.finalize(ctx, cs, targetRef, desc); return })
		tocs, ff := checkTOCManifest(ctx, cs, img, ferr, []digest.Digest{desc.Digest})
		fs = append(fs, ff...)
		tocBlob, haveTOC = tocs[desc.Digest]
	}
	obs, lf := checkLayer(ctx, cs, kind, src, desc, tocBlob, haveTOC)
	fs = append(fs, lf...)
	mt := "<nil>"
	if desc != nil {
		mt = desc.MediaType
	}
	outcome = fmt.Sprintf("%s: %s -> %s", kind, src.Desc.MediaType, mt)
	if len(fs) > 0 {
		outcome += " [" + fs[0].Class + "]"
	}
	return
}

func runCase(ctx context.Context, scratch string, cs caseSpec) (obs layerObs, outcome string, fs []finding, broken string) {
	store, dir, err := newStore(scratch)
	if err != nil {
		return obs, "", nil, err.Error()
	}
	defer os.RemoveAll(dir)
	src, err := prepare(ctx, store, cs.Src)
	if err != nil {
		// the first pass failing is a finding of the first-pass converter on a fresh source; that
		// case is enumerated on its own, so here it only makes this case inapplicable
		return obs, "inapplicable: " + errClassPrep(err), nil, ""
	}
	c := mkConv(cs.Kind, optsets[cs.Opt], map[digest.Digest]string{src.Desc.Digest: tars[cs.Src.Tar].Prio})
	obs, outcome, fs = convertAndCheck(ctx, store, store, cs.Kind, c, src)
	return obs, outcome, fs, ""
}

func errClassPrep(err error) string {
	s := err.Error()
	if i := strings.Index(s, ":"); i > 0 {
		s = s[:i]
	}
	if strings.Contains(err.Error(), "unknown mediatype") {
		s += " unknown mediatype"
	}
	return s
}

func sources(tier string) []source {
	var out []source
	pres := []string{"", "same"}
	if tier == "thorough" {
		pres = []string{"", kEstargz, kZstd, kExtLossy}
	}
	for _, pre := range pres {
		for t := range tars {
			for _, comp := range []string{"tar", "gzip", "zstd"} {
				for _, fam := range []string{"oci", "docker"} {
					out = append(out, source{t, comp, fam, pre})
				}
			}
		}
	}
	return out
}

func cases(tier string) []caseSpec {
	var out []caseSpec
	for _, s := range sources(tier) {
		for _, k := range kinds {
			for oi, o := range optsets {
				if !optApplies(k, o) {
					continue
				}
				s2 := s
				if s2.Pre == "same" {
					s2.Pre = k
					if k == kExtLL {
						s2.Pre = kExtLossy
					}
				}
				out = append(out, caseSpec{s2, k, oi})
			}
		}
	}
	return out
}

func setupEnv(scratch string) {
	os.Setenv("TMPDIR", scratch)
	// containerd's DecompressStream would otherwise fork unpigz/igzip per gzip stream
	os.Setenv("CONTAINERD_DISABLE_PIGZ", "1")
	os.Setenv("CONTAINERD_DISABLE_IGZIP", "1")
	debug.SetMaxStack(64 << 20)
}

func violation(kind, desc string, f finding, replay any) runner.Violation {
	return runner.Violation{Key: f.key(kind), Msg: desc + "\n" + f.Msg, Replay: replay}
}

type keyed struct {
	seen map[string]bool
	res  *runner.Result
}

func (k *keyed) add(v runner.Violation) {
	if k.seen[v.Key] {
		return
	}
	k.seen[v.Key] = true
	k.res.Violations = append(k.res.Violations, v)
}

func inputsPart(tier string) runner.Part {
	return runner.Part{
		Name:   "inputs",
		Shards: 16,
		Run: func(c *runner.Ctx) *runner.Result {
			setupEnv(c.Scratch)
			res := &runner.Result{Outcomes: map[string]int{}}
			kv := &keyed{map[string]bool{}, res}
			ctx := context.Background()
			all := cases(tier)
			outs := map[string]bool{}
			for idx, cs := range all {
				if idx%c.Of != c.Shard {
					continue
				}
				if time.Now().After(c.Deadline) {
					res.Caps = append(res.Caps, fmt.Sprintf("time budget: stopped at case %d of %d", idx, len(all)))
					break
				}
				obs, outcome, fs, broken := runCase(ctx, c.Scratch, cs)
				if broken != "" {
					res.Broken = cs.String() + ": " + broken
					return res
				}
				res.Evaluations++
				res.States++
				res.Transitions++
				res.Outcomes[outcome]++
				if obs.LibVerifyTOC != "" {
					res.Outcomes[obs.LibVerifyTOC]++
				}
				if obs.OutDigest != "" && !outs[obs.OutDigest] && obs.TOCEntries >= 3 {
					outs[obs.OutDigest] = true
					res.Nontrivial++
				}
				for _, f := range fs {
					if f.Class == "harness" {
						res.Broken = cs.String() + ": " + f.Msg
						return res
					}
					kv.add(violation(cs.Kind, cs.String(), f, map[string]any{"case": cs}))
				}
				if len(res.Samples) < 2 && obs.Chunked {
					res.Samples = append(res.Samples, map[string]any{"case": cs.String(), "outcome": outcome, "toc_entries": obs.TOCEntries, "out_digest": obs.OutDigest})
				}
			}
			res.Extra = map[string]any{"cases": len(all), "sources": len(sources(tier)), "option_sets": len(optsets)}
			return res
		},
		Replay: func(c *runner.Ctx, raw json.RawMessage) (string, error) {
			setupEnv(c.Scratch)
			var r struct {
				Case caseSpec `json:"case"`
			}
			if err := json.Unmarshal(raw, &r); err != nil {
				return "", err
			}
			_, outcome, fs, broken := runCase(context.Background(), c.Scratch, r.Case)
			if broken != "" {
				return "", fmt.Errorf("broken: %s", broken)
			}
			if len(fs) > 0 {
				var ms []string
				for _, f := range fs {
					ms = append(ms, f.key(r.Case.Kind)+": "+f.Msg)
				}
				return r.Case.String() + "\n" + outcome, fmt.Errorf("%s", strings.Join(ms, "\n"))
			}
			return r.Case.String() + "\n" + outcome, nil
		},
	}
}

// ---- Part A': interrupted and retried conversion ----------------------------------------------------

// faultStore wraps the content store: every Write of every writer opened through it is
// counted; at the k-th the context is cancelled and (mode "fail") the write fails with
// the context's error, as a context-aware writer (e.g. the gRPC content proxy) does.
type faultStore struct {
	content.Store
	n      int
	k      int // 0 = never
	mode   string
	cancel context.CancelFunc
	ctx    context.Context
}

func (s *faultStore) Writer(ctx context.Context, opts ...content.WriterOpt) (content.Writer, error) {
	w, err := s.Store.Writer(ctx, opts...)
	if err != nil {
		return nil, err
	}
	return &faultWriter{w, s}, nil
}

type faultWriter struct {
	content.Writer
	s *faultStore
}

func (w *faultWriter) Write(p []byte) (int, error) {
	w.s.n++
	if w.s.k > 0 && w.s.n == w.s.k {
		w.s.cancel()
		if w.s.mode == "fail" {
			// half of the data reaches the ingest before the interruption
			h := len(p) / 2
			if h > 0 {
				w.Writer.Write(p[:h])
			}
			return h, w.s.ctx.Err()
		}
	}
	return w.Writer.Write(p)
}

type retrySpec struct {
	Case caseSpec `json:"case"`
	K    int      `json:"k"`
	Mode string   `json:"mode"`
}

func (r retrySpec) String() string {
	return fmt.Sprintf("%s; first attempt interrupted at content-writer Write #%d (mode %s), then retried with the same ref on the same store", r.Case, r.K, r.Mode)
}

// countWrites runs the conversion once, uninterrupted, on a scratch store and returns the number of
// content-writer Writes and the finding keys of that run (the baseline the inputs part reports).
func countWrites(ctx context.Context, scratch string, cs caseSpec) (int, map[string]bool, error) {
	store, dir, err := newStore(scratch)
	if err != nil {
		return 0, nil, err
	}
	defer os.RemoveAll(dir)
	src, err := prepare(ctx, store, cs.Src)
	if err != nil {
		return 0, nil, nil
	}
	fsr := &faultStore{Store: store}
	c := mkConv(cs.Kind, optsets[cs.Opt], map[digest.Digest]string{src.Desc.Digest: tars[cs.Src.Tar].Prio})
	var d *ocispec.Descriptor
	if err := protect(func() (e error) { d, e = c.fn(ctx, fsr, src.Desc); return }); err != nil {
		return 0, nil, nil // recorded by the inputs part
	}
	base := map[string]bool{}
	_, _, fs := checkConverted(ctx, store, cs.Kind, c, src, d)
	for _, f := range fs {
		base[f.key(cs.Kind)] = true
	}
	return fsr.n, base, nil
}

// interruptionPoints: every write for conversions with few writes; for long ones (zstd encoders emit
// hundreds of small writes) the first and last 8 and every ceil(n/8)-th. Thorough: every write.
func interruptionPoints(n int, mode, tier string) []int {
	var ks []int
	if mode == "cancel-only" {
		for _, k := range []int{1, 2, n / 2, n - 1, n} {
			if k >= 1 && k <= n && (len(ks) == 0 || ks[len(ks)-1] < k) {
				ks = append(ks, k)
			}
		}
		return ks
	}
	if n <= 24 || tier == "thorough" {
		for k := 1; k <= n; k++ {
			ks = append(ks, k)
		}
		return ks
	}
	stride := (n + 7) / 8
	for k := 1; k <= n; k++ {
		if k <= 8 || k > n-8 || k%stride == 0 {
			ks = append(ks, k)
		}
	}
	return ks
}

func runRetry(scratch string, r retrySpec, base map[string]bool) (outcome string, fs []finding, broken string) {
	ctx := context.Background()
	store, dir, err := newStore(scratch)
	if err != nil {
		return "", nil, err.Error()
	}
	defer os.RemoveAll(dir)
	src, err := prepare(ctx, store, r.Case.Src)
	if err != nil {
		return "inapplicable", nil, ""
	}
	c := mkConv(r.Case.Kind, optsets[r.Case.Opt], map[digest.Digest]string{src.Desc.Digest: tars[r.Case.Src.Tar].Prio})
	ctx1, cancel := context.WithCancel(ctx)
	fsr := &faultStore{Store: store, k: r.K, mode: r.Mode, cancel: cancel, ctx: ctx1}
	var d1 *ocispec.Descriptor
	err1 := protect(func() (e error) { d1, e = c.fn(ctx1, fsr, src.Desc); return })
	cancel()
	first := "first-attempt-failed"
	if err1 == nil {
		first = "first-attempt-succeeded"
		if r.Mode == "fail" {
			fs = append(fs, finding{"retry/write-error-swallowed", "", fmt.Sprintf("content-writer Write #%d failed with %v but the conversion returned a descriptor (%v) and no error", r.K, context.Canceled, d1)})
		}
	} else if strings.HasPrefix(err1.Error(), "PANIC") {
		fs = append(fs, finding{"retry/panic-on-interruption", "", err1.Error()})
	}
	// second attempt: same converter instance, same store, same source => same ref
	fsr.k = 0
	var d2 *ocispec.Descriptor
	err2 := protect(func() (e error) { d2, e = c.fn(ctx, fsr, src.Desc); return })
	if err2 != nil {
		fs = append(fs, finding{"retry/second-attempt-failed", "", fmt.Sprintf("retry after the interrupted attempt (%v) failed: %v", err1, err2)})
		return "retry-failed", fs, ""
	}
	_, _, f2 := checkConverted(ctx, store, r.Case.Kind, c, src, d2)
	for _, f := range f2 {
		if base[f.key(r.Case.Kind)] {
			continue // the uninterrupted conversion has it too: reported by the inputs part
		}
		f.Class = "retry/" + f.Class
		fs = append(fs, f)
	}
	if r.Mode == "fail" {
		outcome = first + ", retry ok"
	} else {
		outcome = "cancel-only: retry ok" // whether the first attempt notices the cancellation is timing dependent
	}
	if len(fs) > 0 {
		outcome += " [" + fs[0].Class + "]"
	}
	return outcome, fs, ""
}

func retryCases(tier string) []caseSpec {
	var out []caseSpec
	for _, cs := range cases(tier) {
		if cs.Src.Pre != "" {
			continue
		}
		if tier != "thorough" {
			if cs.Src.Family != "oci" {
				continue
			}
			if n := optsets[cs.Opt].Name; n != "default" && n != "chunk8" && n != "prioritized" {
				continue
			}
		}
		out = append(out, cs)
	}
	return out
}

func retryPart(tier string) runner.Part {
	return runner.Part{
		Name:   "retry",
		Shards: 16,
		Run: func(c *runner.Ctx) *runner.Result {
			setupEnv(c.Scratch)
			res := &runner.Result{Outcomes: map[string]int{}}
			kv := &keyed{map[string]bool{}, res}
			all := retryCases(tier)
			maxK := 0
			for idx, cs := range all {
				if idx%c.Of != c.Shard {
					continue
				}
				if time.Now().After(c.Deadline) {
					res.Caps = append(res.Caps, fmt.Sprintf("time budget: stopped at case %d of %d", idx, len(all)))
					break
				}
				n, base, err := countWrites(context.Background(), c.Scratch, cs)
				if err != nil {
					res.Broken = err.Error()
					return res
				}
				if n > maxK {
					maxK = n
				}
				if n > 0 {
					res.States++
				}
				for _, mode := range []string{"fail", "cancel-only"} {
					for _, k := range interruptionPoints(n, mode, tier) {
						if time.Now().After(c.Deadline) {
							res.Caps = appendUniq(res.Caps, "time budget: not every interruption point was tried")
							break
						}
						r := retrySpec{cs, k, mode}
						outcome, fs, broken := runRetry(c.Scratch, r, base)
						if broken != "" {
							res.Broken = r.String() + ": " + broken
							return res
						}
						res.Evaluations += 2
						res.Transitions += int64(n + k)
						res.Outcomes[outcome]++
						if n > 1 {
							res.Nontrivial++
						}
						for _, f := range fs {
							kv.add(violation(cs.Kind, r.String(), f, map[string]any{"retry": r}))
						}
						if len(res.Samples) < 1 && k == n && n > 1 {
							res.Samples = append(res.Samples, map[string]any{"case": r.String(), "writes_of_an_uninterrupted_conversion": n, "outcome": outcome})
						}
					}
				}
			}
			res.Extra = map[string]any{"cases": len(all), "max_writes_per_conversion_in_shard0": maxK}
			return res
		},
		Replay: func(c *runner.Ctx, raw json.RawMessage) (string, error) {
			setupEnv(c.Scratch)
			var r struct {
				Retry retrySpec `json:"retry"`
			}
			if err := json.Unmarshal(raw, &r); err != nil {
				return "", err
			}
			_, base, _ := countWrites(context.Background(), c.Scratch, r.Retry.Case)
			outcome, fs, broken := runRetry(c.Scratch, r.Retry, base)
			if broken != "" {
				return "", fmt.Errorf("broken: %s", broken)
			}
			if len(fs) > 0 {
				var ms []string
				for _, f := range fs {
					ms = append(ms, f.key(r.Retry.Case.Kind)+": "+f.Msg)
				}
				return r.Retry.String() + "\n" + outcome, fmt.Errorf("%s", strings.Join(ms, "\n"))
			}
			return r.Retry.String() + "\n" + outcome, nil
		},
	}
}

// ---- Part B: parallel conversion by one converter instance under the vrt scheduler -------------------------

type schedSpec struct {
	Kind   string   `json:"kind"`
	Opt    int      `json:"opt"`
	Layers []source `json:"layers"`
	PB     int      `json:"pb"`
}

func (s schedSpec) String() string {
	var ls []string
	for _, l := range s.Layers {
		ls = append(ls, l.String())
	}
	return fmt.Sprintf("converter=%s options=%s layers=[%s] converted in parallel by ONE converter instance, then finalize", s.Kind, optsets[s.Opt].Name, strings.Join(ls, " || "))
}

var layerSets = [][]source{
	{{0, "gzip", "oci", ""}, {1, "tar", "oci", ""}},
	{{2, "zstd", "oci", ""}, {1, "gzip", "docker", ""}},
	{{0, "gzip", "oci", ""}, {1, "tar", "oci", ""}, {2, "gzip", "oci", ""}},
}

func schedSpecs(tier string) []schedSpec {
	var out []schedSpec
	optNames := []string{"default", "ctr-remote-like", "perlayer-prioritized+common-chunk8"}
	for li, ls := range layerSets {
		for _, k := range kinds {
			for oi, o := range optsets {
				use := false
				for _, n := range optNames {
					if o.Name == n {
						use = true
					}
				}
				if !use || !optApplies(k, o) {
					continue
				}
				if tier != "thorough" && li == 1 && o.Name != "default" {
					continue
				}
				pb := 1
				if tier == "thorough" && len(ls) == 2 {
					pb = 2
				}
				out = append(out, schedSpec{k, oi, ls, pb})
			}
		}
	}
	return out
}

// scenario builds the closed driver of one spec.
// base: finding keys of the un-preempted default schedule (nil while that baseline is computed);
// they are per-layer input findings that the inputs part reports and must not mask what needs parallelism.
func scenario(scratch string, sp schedSpec, base map[string]bool) *vexp.Scenario {
	lastDir := ""
	return &vexp.Scenario{
		Name:          sp.String(),
		LockDominance: true,
		StateCache:    true,
		DeadlockOK:    true, // judged in check: leaked helper threads of a failed conversion are not a deadlock of the conversion
		MaxSteps:      20000,
		New: func() (func(), func(vrt.Result) (string, error)) {
			ctx := context.Background()
			if lastDir != "" {
				os.RemoveAll(lastDir) // an execution that ended in a failure never reaches check
			}
			store, dir, err := newStore(scratch)
			if err != nil {
				panic(err)
			}
			lastDir = dir
			var srcs []*srcInfo
			prio := map[digest.Digest]string{}
			for _, l := range sp.Layers {
				si, err := prepare(ctx, store, l)
				if err != nil {
					panic(fmt.Sprintf("prepare %s: %v", l, err))
				}
				srcs = append(srcs, si)
				prio[si.Desc.Digest] = tars[l.Tar].Prio
			}
			c := mkConv(sp.Kind, optsets[sp.Opt], prio)
			descs := make([]*ocispec.Descriptor, len(srcs))
			var werr error
			var img *images.Image
			var ferr error
			finished := false
			body := func() {
				// containerd core/images/converter/default.go convertManifest: errgroup over the layers,
				// every goroutine calls the same layer ConvertFunc
				eg, ctx2 := errgroup.WithContext(ctx)
				for i := range srcs {
					i := i
					eg.Go(func() error {
						defer vrt.MapQuiesce()
						d, err := c.fn(ctx2, store, srcs[i].Desc)
						if err != nil {
							return fmt.Errorf("layer %d (%s): %w", i, srcs[i].Src, err)
						}
						descs[i] = d
						return nil
					})
				}
				werr = eg.Wait()
				if werr == nil && c.finalize != nil {
					img, ferr = c.finalize(ctx, store, targetRef, descs[0])
				}
				finished = true
			}
			check := func(res vrt.Result) (string, error) {
				defer os.RemoveAll(dir)
				if !finished {
					return "", fmt.Errorf("deadlock: the conversion did not finish: %s", strings.Join(res.Blocked, "; "))
				}
				var fs []finding
				if werr != nil {
					fs = append(fs, finding{"parallel/conversion-error", errClass(werr), fmt.Sprintf("parallel conversion failed: %v", werr)})
				} else {
					var tocs map[digest.Digest][]byte
					if c.finalize != nil {
						var lds []digest.Digest
						for _, d := range descs {
							if d != nil {
								lds = append(lds, d.Digest)
							}
						}
						var ff []finding
						tocs, ff = checkTOCManifest(ctx, store, img, ferr, lds)
						fs = append(fs, ff...)
					}
					for i, d := range descs {
						var tb []byte
						have := false
						if d != nil {
							tb, have = tocs[d.Digest]
						}
						_, lf := checkLayer(ctx, store, sp.Kind, srcs[i], d, tb, have)
						for _, f := range lf {
							f.Msg = fmt.Sprintf("layer %d (%s): %s", i, srcs[i].Src, f.Msg)
							fs = append(fs, f)
						}
					}
				}
				var ms []string
				known := 0
				for _, f := range fs {
					if base[f.key(sp.Kind)] {
						known++
						continue
					}
					ms = append(ms, "["+f.key(sp.Kind)+"] "+f.Msg)
				}
				if len(ms) > 0 {
					return "findings", fmt.Errorf("%s", strings.Join(ms, "\n"))
				}
				out := "ok"
				if known > 0 {
					out = "ok apart from the per-layer findings of the sequential conversion"
				}
				if len(res.Blocked) > 0 {
					out += " (helper threads left parked)"
				}
				return out, nil
			}
			return body, check
		},
	}
}

// seqKnown: finding classes that the sequential parts already report for the same input; the
// schedule part only reports what needs parallelism (or is not a per-layer finding at all).
func panicSite(stack string) string {
	for _, l := range strings.Split(stack, "\n") {
		l = strings.TrimSpace(l)
		if !strings.Contains(l, "stargz-snapshotter/") || strings.Contains(l, "/vrt.") || strings.HasPrefix(l, "/") {
			continue
		}
		if i := strings.LastIndex(l, "/"); i >= 0 {
			l = l[i+1:]
		}
		if i := strings.Index(l, "("); i > 0 && !strings.HasPrefix(l[i:], "(*") {
			l = l[:i]
		} else if j := strings.LastIndex(l, "("); j > 0 {
			l = l[:j]
		}
		l = strings.NewReplacer("(*", "", ")", "").Replace(l)
		return l
	}
	return "unknown"
}

func schedKey(kind, msg, stack string, seq map[string]bool) (key string, novel bool) {
	switch {
	case strings.Contains(msg, "concurrent map writes"):
		return "C19/externaltoc/concurrent-map-writes", true
	case strings.Contains(msg, "concurrent map read and map write"):
		return "C19/externaltoc/concurrent-map-read-write", true
	case strings.HasPrefix(msg, "deadlock"):
		return "C19/parallel/deadlock/" + kind, true
	case strings.HasPrefix(msg, "panic in"):
		return "C19/parallel/panic/" + kind + "/" + panicSite(stack), true
	}
	// first finding key embedded in the message that the sequential baseline does not have
	for _, line := range strings.Split(msg, "\n") {
		if !strings.HasPrefix(line, "[C19/") {
			continue
		}
		k := line[1:strings.Index(line, "]")]
		if !seq[k] {
			return strings.Replace(k, "C19/", "C19/parallel/", 1), true
		}
	}
	return "", false
}

// sequentialBaseline converts the layers of sp one after another with one converter instance and
// returns the finding keys that occur without any parallelism.
func sequentialBaseline(scratch string, sp schedSpec) (map[string]bool, error) {
	seq := map[string]bool{}
	sc := scenario(scratch, sp, nil)
	_, err, _, broken := vexp.Replay(sc, nil)
	if broken != "" {
		return nil, fmt.Errorf("%s", broken)
	}
	if err != nil {
		for _, line := range strings.Split(err.Error(), "\n") {
			if strings.HasPrefix(line, "[C19/") {
				seq[line[1:strings.Index(line, "]")]] = true
			}
		}
	}
	return seq, nil
}

const subShards = 4

func schedPart(tier string) runner.Part {
	return runner.Part{
		Name:   "sched",
		Shards: 16,
		Run: func(c *runner.Ctx) *runner.Result {
			setupEnv(c.Scratch)
			runtime.GOMAXPROCS(1) // keeps klauspost zstd stream decoders synchronous (no foreign goroutine reads a vrt pipe)
			vrt.CrashHook = func(label string) {
				if vrt.Active() {
					vrt.Point("stmt@"+label, "mem")
				}
			}
			res := &runner.Result{Outcomes: map[string]int{}}
			kv := &keyed{map[string]bool{}, res}
			specs := schedSpecs(tier)
			// contiguous blocks of (scenario, sub-shard) items per worker: the simplest scenarios are
			// in the lowest shards, so the first violation reported per key is the smallest one
			items := len(specs) * subShards
			per := (items + c.Of - 1) / c.Of
			item := 0
			for _, sp := range specs {
				for u := 0; u < subShards; u++ {
					item++
					if (item-1)/per != c.Shard {
						continue
					}
					if time.Now().After(c.Deadline) {
						res.Caps = appendUniq(res.Caps, "time budget: not every scenario was explored")
						continue
					}
					seq, err := sequentialBaseline(c.Scratch, sp)
					if err != nil {
						res.Broken = sp.String() + ": " + err.Error()
						return res
					}
					det := 0
					if u == 0 {
						det = 2
					}
					// iterative context bounding: bound 1 first, so the violation kept per key has the fewest preemptions
					var st *vexp.Stats
					for pb := 1; pb <= sp.PB; pb++ {
						x := vexp.Explore(scenario(c.Scratch, sp, seq), vexp.Options{PB: pb, DB: 0, DetChecks: det, Deadline: c.Deadline, Shard: u, Of: subShards, ShardLevel: 1})
						if st == nil || x.Broken != "" || pb == sp.PB {
							if st != nil {
								x.Violations = append(st.Violations, x.Violations...)
							}
							st = x
						}
						if x.Broken != "" {
							break
						}
					}
					if st.Broken != "" {
						res.Broken = sp.String() + ": " + st.Broken
						return res
					}
					res.Evaluations += st.Executions
					res.States += int64(st.TraceHashes)
					res.Transitions += st.Transitions
					if st.TraceHashes > 1 {
						res.Nontrivial++
					}
					for o, n := range st.Outcomes {
						res.Outcomes[sp.Kind+" parallel: "+o] += n
					}
					if st.Capped {
						res.Caps = appendUniq(res.Caps, st.CapReason)
					}
					for _, v := range st.Violations {
						key, novel := schedKey(sp.Kind, v.Msg, v.Stack, seq)
						if !novel {
							continue
						}
						kv.add(runner.Violation{
							Key:    key,
							Msg:    fmt.Sprintf("%s\npreemption bound %d, schedule choices=%v\n%s%s\nschedule (thread, operation):\n  %s", sp.String(), sp.PB, v.Choices, v.Msg, stackOf(v), strings.Join(tail(v.Trace, 60), "\n  ")),
							Replay: map[string]any{"spec": sp, "choices": v.Choices},
						})
					}
					if len(res.Samples) < 1 && len(st.SampleTraces) > 0 {
						res.Samples = append(res.Samples, map[string]any{"scenario": sp.String(), "executions_in_subshard": st.Executions, "max_threads": st.MaxThreads, "schedule_trace_head": head(st.SampleTraces[0], 25)})
					}
				}
			}
			res.Extra = map[string]any{"scenarios": len(specs), "preemption_bound": "1 (thorough: 2 for the two-layer scenarios)"}
			return res
		},
		Replay: func(c *runner.Ctx, raw json.RawMessage) (string, error) {
			setupEnv(c.Scratch)
			runtime.GOMAXPROCS(1)
			vrt.CrashHook = func(label string) {
				if vrt.Active() {
					vrt.Point("stmt@"+label, "mem")
				}
			}
			var r struct {
				Spec    schedSpec `json:"spec"`
				Choices []int     `json:"choices"`
			}
			if err := json.Unmarshal(raw, &r); err != nil {
				return "", err
			}
			seq, berr := sequentialBaseline(c.Scratch, r.Spec)
			if berr != nil {
				return "", berr
			}
			out, err, trace, broken := vexp.Replay(scenario(c.Scratch, r.Spec, seq), r.Choices)
			if broken != "" {
				return "", fmt.Errorf("replay broken: %s", broken)
			}
			return r.Spec.String() + "\n" + strings.Join(trace, "\n") + "\n" + out, err
		},
	}
}

func stackOf(v vexp.Violation) string {
	if !strings.HasPrefix(v.Msg, "panic in") || v.Stack == "" {
		return ""
	}
	return "\nstack (repository frames):\n  " + strings.ReplaceAll(firstFrames(v.Stack), "\n", "\n  ")
}

func head(l []string, n int) []string {
	if len(l) > n {
		return l[:n]
	}
	return l
}

func tail(l []string, n int) []string {
	if len(l) > n {
		return append([]string{fmt.Sprintf("... (%d earlier steps)", len(l)-n)}, l[len(l)-n:]...)
	}
	return l
}

func appendUniq(l []string, s string) []string {
	for _, x := range l {
		if x == s {
			return l
		}
	}
	return append(l, s)
}

func main() {
	if p := os.Getenv("C19_DEBUG"); p != "" {
		debugMain(p)
		return
	}
	runner.Main(runner.Check{
		ID:    "C19",
		Level: "model_checking",
		Rule: "inputs: every source layer (3 tars x {tar,gzip,zstd} x {OCI,Docker} x {fresh, already converted}) x converter {estargz, zstd:chunked, external-TOC lossy, external-TOC lossless} x option set, on a real containerd local content store, oracle recomputed from the committed blobs; non-trivial = distinct converted blobs whose TOC has >= 3 entries. " +
			"retry: fresh sources; the first attempt is interrupted at content-writer Write k (context cancelled and the write fails after half of its bytes: every k when the conversion has <= 24 writes, else the first 8, the last 8 and every ceil(n/8)-th, thorough: every k; context cancelled only: k in {1,2,n/2,n-1,n}), then the same converter instance retries on the same store with the same ref; the retry must succeed and satisfy the oracle; non-trivial = interruption points of conversions with > 1 write. " +
			"sched: one converter instance converting 2-3 layers in parallel (errgroup) then finalize, every schedule within the preemption bound with a scheduling point before every statement of the three converter files; non-trivial = scenario sub-shards with > 1 distinct schedule",
		Assumptions: []string{
			"sequential consistency at statement granularity of nativeconverter/{estargz/estargz.go, zstdchunked/zstdchunked.go, estargz/externaltoc/converter.go}; a map write is modelled as non-atomic across one scheduling point (the Go runtime's concurrent-map check made schedulable)",
			"estargz.Build and the content store run un-instrumented: their goroutines are private to one layer conversion (checked by reading build.go) and run freely while the converting vrt thread waits for them",
			"under the scheduler calcUncompression (externaltoc lossless helper: goroutine + io.Pipe private to one layer) runs as a verbatim un-instrumented copy outside the scheduler, like Build's helpers; without scheduler (inputs, retry) the repository's function itself runs",
			"a descriptor is judged only when one is returned: conversions that fail on a valid layer (zstd source into lossless, Docker zstd media type into zstd:chunked) are recorded as outcomes, not as violations",
			"zstd decompression in the oracle uses klauspost/compress (no second zstd implementation is available offline); gzip uses compress/gzip and compress/flate",
		},
		QuickBudget: budget(4 * time.Minute), ThoroughBudget: budget(30 * time.Minute),
		Parts: func(tier string) []runner.Part {
			return []runner.Part{schedPart(tier), inputsPart(tier), retryPart(tier)}
		},
	})
}

// budget: C19_BUDGET_MIN overrides the wall budget (for runs on a machine whose worker slots are shared).
func budget(d time.Duration) time.Duration {
	if v, err := strconv.Atoi(os.Getenv("C19_BUDGET_MIN")); err == nil && v > 0 {
		return time.Duration(v) * time.Minute
	}
	return d
}

func debugMain(p string) {
	scratch := filepath.Join("/dev/shm", fmt.Sprintf("c19-debug-%d", os.Getpid()))
	os.MkdirAll(scratch, 0o755)
	defer os.RemoveAll(scratch)
	setupEnv(scratch)
	switch p {
	case "count":
		fmt.Println("cases", len(cases("quick")), "retry", len(retryCases("quick")), "sched", len(schedSpecs("quick")))
		fmt.Println("thorough cases", len(cases("thorough")), "retry", len(retryCases("thorough")), "sched", len(schedSpecs("thorough")))
	case "one":
		t0 := time.Now()
		for _, cs := range cases("quick")[:40] {
			obs, out, fs, br := runCase(context.Background(), scratch, cs)
			fmt.Println(cs, "=>", out, obs, br)
			for _, f := range fs {
				fmt.Println("   ", f.key(cs.Kind), f.Msg)
			}
		}
		fmt.Println(time.Since(t0))
	case "det":
		runtime.GOMAXPROCS(1)
		vrt.CrashHook = func(label string) {
			if vrt.Active() {
				vrt.Point("stmt@"+label, "mem")
			}
		}
		idx, _ := strconv.Atoi(os.Getenv("C19_IDX"))
		sp := schedSpecs("quick")[idx]
		fmt.Println(sp)
		var first []string
		for i := 0; i < 30; i++ {
			_, err, tr, br := vexp.Replay(scenario(scratch, sp, nil), []int{1})
			if i == 0 {
				first = tr
				continue
			}
			if strings.Join(tr, "\n") != strings.Join(first, "\n") {
				fmt.Println("DIFF at run", i, err, br, len(first), len(tr))
				for j := 0; j < len(first) && j < len(tr); j++ {
					if first[j] != tr[j] {
						fmt.Println("  first differing step", j, ":", first[j], "|", tr[j])
						fmt.Println("  context:", strings.Join(first[max(0, j-5):j], " ; "))
						break
					}
				}
				return
			}
		}
		fmt.Println("30 identical traces", len(first))
	case "retry":
		t0 := time.Now()
		all := retryCases("quick")
		for i := 0; i < len(all); i += 9 {
			cs := all[i]
			n, base, _ := countWrites(context.Background(), scratch, cs)
			for _, mode := range []string{"fail", "cancel-only"} {
				for _, k := range interruptionPoints(n, mode, "quick") {
					r := retrySpec{cs, k, mode}
					out, fs, br := runRetry(scratch, r, base)
					fmt.Println(r, "n=", n, "=>", out, br)
					for _, f := range fs {
						fmt.Println("   ", f.key(cs.Kind), f.Msg)
					}
				}
			}
		}
		fmt.Println(time.Since(t0))
	case "sched":
		runtime.GOMAXPROCS(1)
		vrt.CrashHook = func(label string) {
			if vrt.Active() {
				vrt.Point("stmt@"+label, "mem")
			}
		}
		for i, sp := range schedSpecs("quick") {
			if v := os.Getenv("C19_IDX"); v != "" && v != strconv.Itoa(i) {
				continue
			}
			t0 := time.Now()
			seq, _ := sequentialBaseline(scratch, sp)
			st := vexp.Explore(scenario(scratch, sp, seq), vexp.Options{PB: sp.PB, DetChecks: 1})
			fmt.Printf("%s\n  exec=%d trans=%d threads=%d traces=%d pruned=%d outcomes=%v viol=%d broken=%q %v\n", sp, st.Executions, st.Transitions, st.MaxThreads, st.TraceHashes, st.Pruned, st.OutcomeList(), len(st.Violations), st.Broken, time.Since(t0))
			seen := map[string]bool{}
			for _, v := range st.Violations {
				l := v.Msg
				if len(l) > 700 {
					l = l[:700]
				}
				if !seen[l] {
					seen[l] = true
					fmt.Println("  viol:", l)
					if os.Getenv("C19_TRACE") != "" {
						fmt.Println("    " + strings.Join(tail(v.Trace, 40), "\n    "))
						fmt.Println("    stack: " + strings.ReplaceAll(firstFrames(v.Stack), "\n", "\n      "))
					}
				}
			}
		}
	}
}
