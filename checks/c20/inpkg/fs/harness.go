//go:build verif

package fs

import ocispec "github.com/opencontainers/image-spec/specs-go/v1"

// VerifNeighboringLayers exposes the list of layers Mount pre-resolves next to the target.
func VerifNeighboringLayers(manifest ocispec.Manifest, target ocispec.Descriptor) []ocispec.Descriptor {
	return neighboringLayers(manifest, target)
}
