//go:build verif

package service

import "github.com/containerd/stargz-snapshotter/fs/source"

// VerifSourceFromCRILabels exposes the CRI-label reader (service/cri.go).
func VerifSourceFromCRILabels(hosts source.RegistryHosts) source.GetSources {
	return sourceFromCRILabels(hosts)
}

// VerifSources is the label-to-source conversion exactly as NewFileSystem wires it
// (service.go: sources(sourceFromCRILabels(hosts), source.FromDefaultLabels(hosts))).
func VerifSources(hosts source.RegistryHosts) source.GetSources {
	return sources(
		sourceFromCRILabels(hosts),
		source.FromDefaultLabels(hosts),
	)
}
