// C20: snapshot labels written at pull time reproduce the layer's source at mount time.
//
// Pipeline exercised per case (all real code):
//
//	manifest JSON -> containerd images.ChildrenHandler (config first, then layers)
//	  -> source.AppendDefaultLabelsHandlerWrapper            ("default")
//	   | source.AppendExtraLabelsHandler(snapshotters.AppendInfoHandlerWrapper) ("extra", CRI-style labels)
//	  -> snapshots.FilterInheritedLabels (what containerd hands to the snapshotter)
//	  -> source.FromDefaultLabels | service.sourceFromCRILabels | service.sources(cri, default)
//	  -> fs.neighboringLayers (what Mount pre-resolves)
//
// The oracle compares the reconstructed source with the manifest the harness built
// (never with the labels), and — for removed/corrupted label sets — with a small
// from-the-protocol reader written here (specRead).
package main

import (
	"bytes"
	"context"
	"encoding/json"
	"fmt"
	"io"
	"regexp"
	"sort"
	"strconv"
	"strings"
	"time"

	"github.com/containerd/containerd/v2/core/content"
	"github.com/containerd/containerd/v2/core/images"
	"github.com/containerd/containerd/v2/core/remotes/docker"
	"github.com/containerd/containerd/v2/core/snapshots"
	ctdlabels "github.com/containerd/containerd/v2/pkg/labels"
	"github.com/containerd/containerd/v2/pkg/reference"
	ctdsnapshotters "github.com/containerd/containerd/v2/pkg/snapshotters"
	stargzfs "github.com/containerd/stargz-snapshotter/fs"
	"github.com/containerd/stargz-snapshotter/fs/source"
	"github.com/containerd/stargz-snapshotter/service"
	digest "github.com/opencontainers/go-digest"
	ocispec "github.com/opencontainers/image-spec/specs-go/v1"
	"github.com/sirupsen/logrus"

	"verif/lib/runner"
)

// ---- the label protocol, restated (this is the specification the oracle uses) ----------

const (
	kRef        = "containerd.io/snapshot/remote/stargz.reference"
	kDigest     = "containerd.io/snapshot/remote/stargz.digest"
	kLayers     = "containerd.io/snapshot/remote/stargz.layers"
	kPrefetch   = "containerd.io/snapshot/remote/stargz.prefetch"
	kURLs       = "containerd.io/snapshot/remote/urls"
	kURLsPrefix = "containerd.io/snapshot/remote/urls."
	kCRIRef     = "containerd.io/snapshot/cri.image-ref"
	kCRIDigest  = "containerd.io/snapshot/cri.layer-digest"
	kCRILayers  = "containerd.io/snapshot/cri.image-layers"
	kCRIMfst    = "containerd.io/snapshot/cri.manifest-digest"
	labelLimit  = 4096
)

func short(k string) string {
	switch {
	case strings.HasPrefix(k, kURLsPrefix):
		return "urls." + k[len(kURLsPrefix):]
	case k == kURLs:
		return "urls"
	}
	k = strings.TrimPrefix(k, "containerd.io/snapshot/remote/")
	return strings.TrimPrefix(k, "containerd.io/snapshot/")
}

// ---- menus --------------------------------------------------------------------------------

const hexd = "1111111111111111111111111111111111111111111111111111111111111111"

var refMenu = []struct{ S, Host, Locator string }{
	{"a.example/x:1", "a.example", "a.example/x"},
	{"docker.io/library/z:1", "docker.io", "docker.io/library/z"},
	{"a.example:5000/ns/x@sha256:" + hexd, "a.example:5000", "a.example:5000/ns/x"},
	{"a.example/x:1@sha256:" + hexd, "a.example", "a.example/x"},
}

var prefetchMenu = []int64{1, 0, 1 << 62}

var manifestMTs = []string{ocispec.MediaTypeImageManifest, images.MediaTypeDockerSchema2Manifest}

// layer media types; Layer says whether the entry is a layer in containerd's sense
// (stated here independently: OCI layer types and the docker rootfs diff types incl. foreign).
var layerMTs = []struct {
	MT    string
	Layer bool
}{
	{"application/vnd.oci.image.layer.v1.tar+gzip", true},
	{"application/vnd.docker.image.rootfs.foreign.diff.tar.gzip", true},
	{"application/vnd.oci.image.layer.nondistributable.v1.tar+gzip", true},
	{"application/vnd.example.sbom.v1+json", false},
}

const mNonLayer = 3

// url menu
const (
	uNone  = 0
	uOne   = 1
	uTwo   = 2
	uComma = 3 // one URL that contains a comma (legal in a URL)
	uLong  = 4 // one URL that alone exceeds the label limit
	uB0    = 5 // uB0+i: three URLs, joined length = 4096-len(kURLs)+(i-4), i=0..5 (just below .. just above the limit for urls / urls.N / urls.NN keys)
	uCount = 11
)

var uNames = []string{"none", "1url", "2urls", "1url-with-comma", "1url-longer-than-limit", "3urls-limit-4", "3urls-limit-3", "3urls-limit-2", "3urls-limit-1", "3urls-limit+0", "3urls-limit+1"}

var urlCache = map[[2]int][]string{}

// urlsFor: the URL list of menu entry u for the layer at position pos (position-unique, so that
// a list paired with the wrong layer is recognisable). Cached; callers must not modify.
func urlsFor(pos, u int) []string {
	if v, ok := urlCache[[2]int{pos, u}]; ok {
		return v
	}
	v := urlsFor0(pos, u)
	urlCache[[2]int{pos, u}] = v
	return v
}

func urlsFor0(pos, u int) []string {
	switch {
	case u == uNone:
		return nil
	case u == uOne:
		return []string{fmt.Sprintf("https://cdn.example/p%02d/a", pos)}
	case u == uTwo:
		return []string{fmt.Sprintf("https://cdn.example/p%02d/a", pos), fmt.Sprintf("https://mirror.example/p%02d/b", pos)}
	case u == uComma:
		return []string{fmt.Sprintf("https://cdn.example/p%02d/a?sig=1,2", pos)}
	case u == uLong:
		h := fmt.Sprintf("https://cdn.example/p%02d/", pos)
		return []string{h + strings.Repeat("x", labelLimit+4-len(h))}
	default:
		total := labelLimit - len(kURLs) + (u - uB0 - 4)
		u2 := fmt.Sprintf("https://m.example/p%02d/b", pos)
		u3 := fmt.Sprintf("https://n.example/p%02d/c", pos)
		h := fmt.Sprintf("https://cdn.example/p%02d/", pos)
		pad := total - 2 - len(u2) - len(u3) - len(h)
		return []string{h + strings.Repeat("y", pad), u2, u3}
	}
}

// manifest-supplied annotation presets on a layer descriptor (keys that collide with the protocol)
var annotMenu = []struct{ Name, K, V string }{
	{"", "", ""},
	{"urls", kURLs, "https://other.example/from-annotation"},
	{"urls.0", kURLsPrefix + "0", "https://other.example/from-annotation0"},
	{"urls.1", kURLsPrefix + "1", "https://other.example/from-annotation1"},
	{"stargz.prefetch", kPrefetch, "7"},
}

var digestPool [2][]digest.Digest

func init() {
	for i := 0; i < 70; i++ {
		digestPool[0] = append(digestPool[0], digest.SHA256.FromString(fmt.Sprintf("layer-%d", i)))
		digestPool[1] = append(digestPool[1], digest.SHA512.FromString(fmt.Sprintf("layer-%d", i)))
	}
}

// ---- case description -----------------------------------------------------------------------

type lspec struct {
	D int `json:"d"` // digest id
	U int `json:"u"` // url menu
	M int `json:"m"` // media type menu
	A int `json:"a"` // annotation preset
	G int `json:"g"` // 1: this layer's digest uses the other algorithm than the case's (mixed digest lengths)
}

func algName(a int) string {
	if a == 1 {
		return "sha512"
	}
	return "sha256"
}

func (c mcase) dg(l lspec) digest.Digest { return digestPool[c.Alg^l.G][l.D] }

type mcase struct {
	H   int     `json:"h"`   // 0 default handler, 1 extra handler on CRI labels
	MT  int     `json:"mt"`  // manifest media type
	R   int     `json:"r"`   // ref menu
	P   int     `json:"p"`   // prefetch menu
	Alg int     `json:"alg"` // 0 sha256, 1 sha512
	L   []lspec `json:"l"`
}

var hNames = []string{"default", "extra"}

func (c mcase) String() string {
	var ls []string
	for i, l := range c.L {
		s := fmt.Sprintf("L%d{digest=D%d type=%s urls=%s", i, l.D, layerMTs[l.M].MT, uNames[l.U])
		if l.A != 0 {
			s += fmt.Sprintf(" annotation[%s]=%q", annotMenu[l.A].K, annotMenu[l.A].V)
		}
		if l.G != 0 {
			s += " " + algName(c.Alg^1)
		}
		ls = append(ls, s+"}")
	}
	if len(ls) > 8 {
		ls = append(append(append([]string{}, ls[:3]...), fmt.Sprintf("... %d more (U=none unless listed) ...", len(ls)-6)), ls[len(ls)-3:]...)
		for i, l := range c.L {
			if i >= 3 && i < len(c.L)-3 && (l.U != 0 || l.M != 0 || l.A != 0 || l.D != i || l.G != 0) {
				g := ""
				if l.G != 0 {
					g = " " + algName(c.Alg^1)
				}
				ls = append(ls, fmt.Sprintf("L%d{digest=D%d type=%s urls=%s%s}", i, l.D, layerMTs[l.M].MT, uNames[l.U], g))
			}
		}
	}
	alg := algName(c.Alg) + " unless marked"
	return fmt.Sprintf("handler=%s ref=%q prefetch=%d manifest=%s digests=%s layers(%d)=[%s]", hNames[c.H], refMenu[c.R].S, prefetchMenu[c.P], manifestMTs[c.MT], alg, len(c.L), strings.Join(ls, " "))
}

type memProv map[digest.Digest][]byte

type memRA struct {
	*bytes.Reader
	n int64
}

func (m memRA) Close() error { return nil }
func (m memRA) Size() int64  { return m.n }

func (p memProv) ReaderAt(ctx context.Context, desc ocispec.Descriptor) (content.ReaderAt, error) {
	b, ok := p[desc.Digest]
	if !ok {
		return nil, fmt.Errorf("not found %s", desc.Digest)
	}
	return memRA{bytes.NewReader(b), int64(len(b))}, nil
}

type built struct {
	layers []ocispec.Descriptor
	desc   ocispec.Descriptor
	prov   memProv
}

func build(c mcase) built {
	var m ocispec.Manifest
	m.SchemaVersion = 2
	m.MediaType = manifestMTs[c.MT]
	cfgMT := ocispec.MediaTypeImageConfig
	if c.MT == 1 {
		cfgMT = images.MediaTypeDockerSchema2Config
	}
	m.Config = ocispec.Descriptor{MediaType: cfgMT, Digest: digest.FromString("config"), Size: 6}
	for i, l := range c.L {
		d := ocispec.Descriptor{MediaType: layerMTs[l.M].MT, Digest: c.dg(l), Size: int64(100 + l.D), URLs: urlsFor(i, l.U)}
		if l.A != 0 {
			d.Annotations = map[string]string{annotMenu[l.A].K: annotMenu[l.A].V}
		}
		m.Layers = append(m.Layers, d)
	}
	b, err := json.Marshal(m)
	if err != nil {
		panic(err)
	}
	desc := ocispec.Descriptor{MediaType: manifestMTs[c.MT], Digest: digest.FromBytes(b), Size: int64(len(b))}
	return built{layers: m.Layers, desc: desc, prov: memProv{desc.Digest: b}}
}

// ---- helpers ------------------------------------------------------------------------------------

func nonEmpty(in []string) []string {
	var out []string
	for _, s := range in {
		if s != "" {
			out = append(out, s)
		}
	}
	return out
}

func eq(a, b []string) bool {
	if len(a) != len(b) {
		return false
	}
	for i := range a {
		if a[i] != b[i] {
			return false
		}
	}
	return true
}

func abbrev(s string) string {
	if len(s) > 150 {
		return fmt.Sprintf("%s...(%d bytes)...%s", s[:60], len(s), s[len(s)-40:])
	}
	return s
}

func abbrevList(l []string) string {
	var o []string
	for _, s := range l {
		o = append(o, abbrev(s))
	}
	return "[" + strings.Join(o, " ") + "]"
}

func fmtLabels(l map[string]string) string {
	ks := make([]string, 0, len(l))
	for k := range l {
		ks = append(ks, k)
	}
	sort.Strings(ks)
	var b strings.Builder
	for i, k := range ks {
		if i >= 14 {
			fmt.Fprintf(&b, "    ... %d more labels\n", len(ks)-i)
			break
		}
		fmt.Fprintf(&b, "    %s = %q\n", k, abbrev(l[k]))
	}
	return b.String()
}

// lossy is what a comma-joined value under one label key of length K can carry at most
// when every element is followed by a separator while being appended (only used to NAME
// the cause of a deviation; a deviation is reported whatever the cause).
func lossy(urls []string, K int) []string {
	var kept []string
	total := 0
	for _, u := range urls {
		if K+total+len(u)+1 > labelLimit {
			break
		}
		total += len(u) + 1
		kept = append(kept, u)
	}
	return nonEmpty(strings.Split(strings.Join(kept, ","), ","))
}

// explained: the deviation is exactly what the label encoding (one comma-joined value under a
// 4096-byte key+value limit) does to the descriptor's own list; such deviations share one key per
// cause, whichever handler or role (target / neighbour) they were seen with.
func explained(cls string) bool {
	return strings.HasPrefix(cls, "truncated") || cls == "url-containing-comma-split"
}

func urlKey(hn, role, cls, qual string) string {
	if explained(cls) {
		return "C20/urls/" + cls
	}
	return "C20/" + hn + "/" + role + "-urls/" + cls + qual
}

// classifyURLs names the relation between the reconstructed URL list and the descriptor's.
func classifyURLs(actual, own []string, K int) string {
	a, o := nonEmpty(actual), nonEmpty(own)
	if eq(a, o) {
		return "exact"
	}
	joined := strings.Join(o, ",")
	trunc := K+len(joined)+1 > labelLimit
	comma := false
	for _, u := range o {
		if strings.Contains(u, ",") {
			comma = true
		}
	}
	if (trunc || comma) && eq(a, lossy(o, K)) {
		switch {
		case trunc && comma:
			return "truncated-and-comma-split"
		case trunc && K+len(joined) <= labelLimit:
			return "truncated-though-full-list-is-a-valid-label"
		case trunc:
			return "truncated-list-cannot-fit-label-limit"
		default:
			return "url-containing-comma-split"
		}
	}
	return "mismatch"
}

// ---- the from-the-protocol reader (oracle for removed / corrupted label sets) ---------------

var digestRe = regexp.MustCompile(`^(sha256:[a-f0-9]{64}|sha384:[a-f0-9]{96}|sha512:[a-f0-9]{128})$`)

// refWellFormed: the harness only ever produces reference values that are clearly well-formed
// (host[:port]/path with tag and/or digest) or clearly not (empty, no host, URL with scheme).
func refWellFormed(s string) bool {
	if s == "" || strings.Contains(s, "://") || strings.ContainsAny(s, " \t\n") {
		return false
	}
	i := strings.Index(s, "/")
	return i > 0 && i < len(s)-1
}

type specNeigh struct {
	digest string
	idx    int
	urls   []string
}

type specSrc struct {
	mustErr string // mandatory label missing or malformed
	mayErr  string // optional label malformed: rejection or ignoring it are both within the statement
	ref     string
	digest  string
	urls    []string
	neigh   []specNeigh
}

func specRead(cri bool, l map[string]string) specSrc {
	rk, dk, lk := kRef, kDigest, kLayers
	if cri {
		rk, dk, lk = kCRIRef, kCRIDigest, kCRILayers
	}
	var s specSrc
	r, ok := l[rk]
	if !ok {
		s.mustErr = "missing " + short(rk)
		return s
	}
	if !refWellFormed(r) {
		s.mustErr = "malformed " + short(rk)
		return s
	}
	s.ref = r
	d, ok := l[dk]
	if !ok {
		s.mustErr = "missing " + short(dk)
		return s
	}
	if !digestRe.MatchString(d) {
		s.mustErr = "malformed " + short(dk)
		return s
	}
	s.digest = d
	if v, ok := l[kURLs]; ok {
		s.urls = nonEmpty(strings.Split(v, ","))
	}
	if v, ok := l[lk]; ok {
		for i, e := range strings.Split(v, ",") {
			if !digestRe.MatchString(e) {
				s.mayErr = "malformed element in " + short(lk)
				continue
			}
			if e == d {
				continue
			}
			n := specNeigh{digest: e, idx: i}
			if u, ok := l[kURLsPrefix+strconv.Itoa(i)]; ok {
				n.urls = nonEmpty(strings.Split(u, ","))
			}
			s.neigh = append(s.neigh, n)
		}
	}
	return s
}

// consistent reports whether a reconstructed source says what the labels say (spec s).
func consistent(src source.Source, s specSrc) string {
	if got := src.Name.String(); got != s.ref {
		return fmt.Sprintf("reference: labels say %q, source has %q", s.ref, got)
	}
	if got := src.Target.Digest.String(); got != s.digest {
		return fmt.Sprintf("digest: labels say %q, source has %q", s.digest, got)
	}
	if got := nonEmpty(src.Target.URLs); !eq(got, s.urls) {
		return fmt.Sprintf("target urls: labels say %s, source has %s", abbrevList(s.urls), abbrevList(got))
	}
	ns := stargzfs.VerifNeighboringLayers(src.Manifest, src.Target)
	if len(ns) > len(s.neigh) {
		return fmt.Sprintf("neighbours: labels name %d, source has %d", len(s.neigh), len(ns))
	}
	for i, n := range ns {
		if n.Digest.String() != s.neigh[i].digest {
			return fmt.Sprintf("neighbour %d: labels say %s, source has %s", i, s.neigh[i].digest, n.Digest)
		}
		if got := nonEmpty(n.URLs); !eq(got, s.neigh[i].urls) {
			return fmt.Sprintf("neighbour %d (%s, label index %d) urls: labels say %s, source has %s", i, n.Digest.String()[:15], s.neigh[i].idx, abbrevList(s.neigh[i].urls), abbrevList(got))
		}
	}
	return ""
}

// ---- the checker ----------------------------------------------------------------------------------

var errSentinel = fmt.Errorf("verif-hosts-sentinel")

type rd struct {
	name string
	fn   source.GetSources
	cri  []bool // spec flavours tried in order
}

type checker struct {
	res       *runner.Result
	viol      map[string]runner.Violation
	readers   [2][]rd // per handler flavour
	ctx       context.Context
	samplesAt map[string]bool
}

func newChecker() *checker {
	logrus.SetOutput(io.Discard)
	logrus.SetLevel(logrus.PanicLevel)
	hosts := func(reference.Spec) ([]docker.RegistryHost, error) { return nil, errSentinel }
	x := &checker{res: &runner.Result{Outcomes: map[string]int{}}, viol: map[string]runner.Violation{}, ctx: context.Background(), samplesAt: map[string]bool{}}
	combined := service.VerifSources(hosts)
	x.readers[0] = []rd{{"FromDefaultLabels", source.FromDefaultLabels(hosts), []bool{false}}, {"service.sources", combined, []bool{true, false}}}
	x.readers[1] = []rd{{"sourceFromCRILabels", service.VerifSourceFromCRILabels(hosts), []bool{true}}, {"service.sources", combined, []bool{true, false}}}
	return x
}

func (x *checker) violation(key, msg string, replay any) {
	if _, ok := x.viol[key]; ok {
		return
	}
	x.viol[key] = runner.Violation{Key: key, Msg: msg, Replay: replay}
}

// want: is this key still unreported (messages are only formatted then)
func (x *checker) want(key string) bool {
	_, ok := x.viol[key]
	return !ok
}

func (x *checker) finish() *runner.Result {
	keys := make([]string, 0, len(x.viol))
	for k := range x.viol {
		keys = append(keys, k)
	}
	sort.Strings(keys)
	for _, k := range keys {
		x.res.Violations = append(x.res.Violations, x.viol[k])
	}
	return x.res
}

type tlabels struct {
	t      int
	labels map[string]string
}

func (x *checker) handle(c mcase, b built) ([]ocispec.Descriptor, error) {
	base := images.ChildrenHandler(b.prov)
	ref, p := refMenu[c.R].S, prefetchMenu[c.P]
	var h images.Handler
	if c.H == 0 {
		h = source.AppendDefaultLabelsHandlerWrapper(ref, p)(base)
	} else {
		h = source.AppendExtraLabelsHandler(p, ctdsnapshotters.AppendInfoHandlerWrapper(ref))(base)
	}
	return h.Handle(x.ctx, b.desc)
}

// e2e runs one manifest through writer and readers and judges every layer target.
func (x *checker) e2e(c mcase) []tlabels {
	b := build(c)
	hn := hNames[c.H]
	replay := map[string]any{"case": c}
	children, err := x.handle(c, b)
	if err != nil {
		if vk := "C20/" + hn + "/handler-error"; x.want(vk) {
			x.violation(vk, fmt.Sprintf("%s\nthe pull-side handler failed on a well-formed manifest: %v", c, err), replay)
		}
		return nil
	}
	if len(children) != len(c.L)+1 || children[0].Digest != digest.FromString("config") {
		x.res.Broken = fmt.Sprintf("children enumeration unexpected: %d children for %d layers", len(children), len(c.L))
		return nil
	}
	var out []tlabels
	informative := false
	for t := range c.L {
		ch := children[t+1]
		if ch.Digest != b.layers[t].Digest {
			x.res.Broken = "children order changed"
			return nil
		}
		if !layerMTs[c.L[t].M].Layer {
			x.res.Outcomes["e2e:"+hn+":non-layer entry: not labelled"]++
			if _, ok := ch.Annotations[kDigest]; ok {
				x.res.Outcomes["e2e:"+hn+":non-layer entry: labelled"]++
			}
			continue
		}
		// (1) every label is acceptable to containerd
		for k, v := range ch.Annotations {
			if err := ctdlabels.Validate(k, v); err != nil || len(k)+len(v) > labelLimit {
				if vk := "C20/" + hn + "/label-rejected-by-validation/" + short(k); x.want(vk) {
					x.violation(vk, fmt.Sprintf("%s\ntarget=L%d: label %s has %d bytes (key+value) > %d: %v", c, t, k, len(k)+len(v), labelLimit, err), replay)
				}
			}
		}
		labels := snapshots.FilterInheritedLabels(ch.Annotations)
		if len(labels) != len(ch.Annotations) {
			if vk := "C20/" + hn + "/label-not-inherited-by-snapshot"; x.want(vk) {
				x.violation(vk, fmt.Sprintf("%s\ntarget=L%d: %d annotations but only %d pass containerd's snapshot label filter", c, t, len(ch.Annotations), len(labels)), replay)
			}
		}
		out = append(out, tlabels{t, labels})
		for ri, r := range x.readers[c.H] {
			x.res.Evaluations++
			cp := make(map[string]string, len(labels))
			for k, v := range labels {
				cp[k] = v
			}
			srcs, err := r.fn(cp)
			if x.judge(c, b, t, labels, r, srcs, err, replay) && ri == 0 {
				informative = true
			}
		}
		// (7) prefetch size label round-trips (parsed the way Mount parses it: base-10 int64)
		want := prefetchMenu[c.P]
		ps, ok := labels[kPrefetch]
		got, perr := strconv.ParseInt(ps, 10, 64)
		if !ok || perr != nil || got != want {
			q := ""
			if annotMenu[c.L[t].A].K == kPrefetch {
				q = "/manifest-annotation-" + annotMenu[c.L[t].A].Name + "-collides"
			}
			if vk := "C20/" + hn + "/prefetch-size-mismatch" + q; x.want(vk) {
				x.violation(vk, fmt.Sprintf("%s\ntarget=L%d: prefetch size given to the handler=%d, label %s=%q (present=%v) -> mount would use %d (parse error %v)\nlabels:\n%s", c, t, want, kPrefetch, ps, ok, got, perr, fmtLabels(labels)), replay)
			}
		}
	}
	x.res.States++
	if informative {
		x.res.Nontrivial++
	}
	return out
}

// judge compares one reconstructed source with the manifest. It returns whether the
// source carried at least one URL or neighbour.
func (x *checker) judge(c mcase, b built, t int, labels map[string]string, r rd, srcs []source.Source, err error, replay any) bool {
	hn := hNames[c.H]
	pre := func() string {
		return fmt.Sprintf("%s\ntarget=L%d reader=%s\nlabels handed to the snapshotter:\n%s", c, t, r.name, fmtLabels(labels))
	}
	if err != nil || len(srcs) != 1 {
		if vk := "C20/" + hn + "/reader-rejects-writer-labels"; x.want(vk) {
			x.violation(vk, fmt.Sprintf("%sexpected one source, got %d sources, error %v", pre(), len(srcs), err), replay)
		}
		return false
	}
	src := srcs[0]
	// a manifest-supplied annotation on a protocol key is named in the key when it is the label
	// that feeds the compared field
	annQual := func(pos int, role string) string {
		a := c.L[pos].A
		if a == 0 {
			return ""
		}
		k := annotMenu[a].K
		if (role == "target" && k == kURLs && pos == t) || (role == "neighbour" && strings.HasPrefix(k, kURLsPrefix) && pos == t) {
			return "/manifest-annotation-" + annotMenu[a].Name + "-collides"
		}
		return ""
	}
	// (2) reference
	rm := refMenu[c.R]
	if src.Name.String() != rm.S || src.Name.Hostname() != rm.Host || src.Name.Locator != rm.Locator {
		if vk := "C20/" + hn + "/reference-mismatch"; x.want(vk) {
			x.violation(vk, fmt.Sprintf("%sexpected reference %q (host %q), got %q (host %q locator %q)", pre(), rm.S, rm.Host, src.Name.String(), src.Name.Hostname(), src.Name.Locator), replay)
		}
	}
	if src.Hosts == nil {
		if vk := "C20/" + hn + "/hosts-missing"; x.want(vk) {
			x.violation(vk, pre()+"source has no registry hosts function", replay)
		}
	} else if _, herr := src.Hosts(src.Name); herr != errSentinel {
		if vk := "C20/" + hn + "/hosts-mismatch"; x.want(vk) {
			x.violation(vk, pre()+"source carries a different registry hosts function", replay)
		}
	}
	// (3) digest
	if src.Target.Digest != b.layers[t].Digest {
		if vk := "C20/" + hn + "/digest-mismatch"; x.want(vk) {
			x.violation(vk, fmt.Sprintf("%sexpected target digest %s, got %s", pre(), b.layers[t].Digest, src.Target.Digest), replay)
		}
	}
	if len(src.Manifest.Layers) == 0 || src.Manifest.Layers[0].Digest != src.Target.Digest {
		if vk := "C20/" + hn + "/manifest-head-is-not-target"; x.want(vk) {
			x.violation(vk, pre()+"Manifest.Layers[0] is not the target", replay)
		}
	}
	// (4) target URLs
	cls := classifyURLs(src.Target.URLs, b.layers[t].URLs, len(kURLs))
	x.res.Outcomes["e2e:"+hn+":target-urls:"+cls]++
	if len(b.layers[t].URLs) == 0 && len(src.Target.URLs) > 0 && len(nonEmpty(src.Target.URLs)) == 0 {
		x.res.Outcomes["e2e:"+hn+":target without URLs reconstructed as [\"\"] (ignored: not a URL)"]++
	}
	if cls != "exact" {
		if vk := urlKey(hn, "target", cls, annQual(t, "target")); x.want(vk) {
			x.violation(vk, fmt.Sprintf("%starget URLs: descriptor has %d %s\n reconstructed %d %s", pre(), len(b.layers[t].URLs), abbrevList(b.layers[t].URLs), len(nonEmpty(src.Target.URLs)), abbrevList(nonEmpty(src.Target.URLs))), replay)
		}
	}
	// (5) neighbours: a prefix, in manifest order, of the layers that follow the target
	var expect []int
	for j := t + 1; j < len(c.L); j++ {
		if layerMTs[c.L[j].M].Layer && b.layers[j].Digest != b.layers[t].Digest {
			expect = append(expect, j)
		}
	}
	neigh := stargzfs.VerifNeighboringLayers(src.Manifest, src.Target)
	spec := specRead(r.cri[0], labels)
	if c.H == 0 {
		spec = specRead(false, labels)
	}
	if len(neigh) > len(expect) {
		if vk := "C20/" + hn + "/neighbours-not-a-prefix/too-many"; x.want(vk) {
			x.violation(vk, fmt.Sprintf("%s%d layers follow the target, source lists %d neighbours", pre(), len(expect), len(neigh)), replay)
		}
	}
	for k, n := range neigh {
		if k >= len(expect) {
			break
		}
		j := expect[k]
		gap := ""
		for q := t + 1; q < j; q++ {
			if !layerMTs[c.L[q].M].Layer {
				gap = "/non-layer-entry-before-neighbour"
			}
		}
		if n.Digest != b.layers[j].Digest {
			if vk := "C20/" + hn + "/neighbours-not-a-prefix/wrong-order-or-digest" + gap; x.want(vk) {
				x.violation(vk, fmt.Sprintf("%sneighbour %d: expected L%d %s, got %s", pre(), k, j, b.layers[j].Digest, n.Digest), replay)
			}
			break
		}
		K := len(kURLsPrefix) + 1
		if k < len(spec.neigh) {
			K = len(kURLsPrefix) + len(strconv.Itoa(spec.neigh[k].idx))
		}
		ncls := classifyURLs(n.URLs, b.layers[j].URLs, K)
		if ncls == "mismatch" {
			a := nonEmpty(n.URLs)
			// same blob listed twice in the manifest: the other descriptor's URLs locate the same content
			for j2 := range c.L {
				if j2 != j && layerMTs[c.L[j2].M].Layer && b.layers[j2].Digest == b.layers[j].Digest {
					if c2 := classifyURLs(n.URLs, b.layers[j2].URLs, K); c2 == "exact" {
						ncls = "exact(urls of the other descriptor with the same digest)"
					} else if explained(c2) && ncls == "mismatch" {
						ncls = c2
					}
				}
			}
			if ncls == "mismatch" {
				for j2 := range c.L {
					if j2 != j && len(a) > 0 && b.layers[j2].Digest != b.layers[j].Digest && (eq(a, nonEmpty(b.layers[j2].URLs)) || eq(a, lossy(b.layers[j2].URLs, K))) {
						ncls = "paired-with-another-layers-urls"
					}
				}
			}
			if ncls == "mismatch" && len(a) == 0 {
				ncls = "urls-lost"
			}
		}
		x.res.Outcomes["e2e:"+hn+":neighbour-urls:"+ncls]++
		if !strings.HasPrefix(ncls, "exact") {
			q := ""
			if c.H == 0 {
				q = gap
			} else {
				for j2 := range c.L {
					if !layerMTs[c.L[j2].M].Layer && b.layers[j2].Digest == b.layers[j].Digest {
						q = "/digest-also-listed-as-non-layer-entry"
					}
				}
			}
			for pos := range c.L {
				q += annQual(pos, "neighbour")
			}
			if vk := urlKey(hn, "neighbour", ncls, q); x.want(vk) {
				x.violation(vk, fmt.Sprintf("%sneighbour %d = L%d %s: descriptor has %d URLs %s\n reconstructed %d %s", pre(), k, j, b.layers[j].Digest.String()[:19], len(b.layers[j].URLs), abbrevList(b.layers[j].URLs), len(nonEmpty(n.URLs)), abbrevList(nonEmpty(n.URLs))), replay)
			}
		}
	}
	switch {
	case len(expect) == 0:
		x.res.Outcomes["e2e:"+hn+":neighbours:none-follow"]++
	case len(neigh) == len(expect):
		x.res.Outcomes["e2e:"+hn+":neighbours:all"]++
	default:
		if len(neigh) >= fitCount(c, b, t) {
			x.res.Outcomes["e2e:"+hn+":neighbours:proper-prefix(label size limit)"]++
		} else {
			x.res.Outcomes["e2e:"+hn+":neighbours:proper-prefix(shorter than the label limit requires)"]++
		}
	}
	if len(x.res.Samples) < 2 && len(neigh) > 0 && len(nonEmpty(src.Target.URLs)) > 0 && !x.samplesAt[hn] {
		x.samplesAt[hn] = true
		x.res.Samples = append(x.res.Samples, map[string]any{"case": c.String(), "target": t, "labels": labels, "reader": r.name,
			"source": map[string]any{"ref": src.Name.String(), "digest": src.Target.Digest, "urls": src.Target.URLs, "neighbours": neigh}})
	}
	return len(neigh) > 0 || len(nonEmpty(src.Target.URLs)) > 0
}

// fitCount: how many neighbours the layers label has room for: the longest run of layer entries
// from the target on whose comma-joined digests stay within the label limit (entries repeating
// the target digest take room but are not neighbours).
func fitCount(c mcase, b built, t int) int {
	total := len(kLayers) + len(b.layers[t].Digest.String()) + 1 // default writer counts a trailing comma
	if c.H == 1 {
		total = len(kCRILayers) + len(b.layers[t].Digest.String())
	}
	n := 0
	for j := t + 1; j < len(c.L); j++ {
		if !layerMTs[c.L[j].M].Layer {
			continue
		}
		total += len(b.layers[j].Digest.String()) + 1
		if total > labelLimit {
			break
		}
		if b.layers[j].Digest != b.layers[t].Digest {
			n++
		}
	}
	return n
}

// ---- removed / corrupted label sets ----------------------------------------------------------------

type mutation struct {
	Remove []string `json:"remove,omitempty"`
	Key    string   `json:"key,omitempty"`
	Val    string   `json:"val,omitempty"`
	Name   string   `json:"name,omitempty"`
}

func (m mutation) String() string {
	if m.Key != "" {
		return fmt.Sprintf("corrupt %s := %q (%s)", m.Key, abbrev(m.Val), m.Name)
	}
	var s []string
	for _, k := range m.Remove {
		s = append(s, short(k))
	}
	return "remove {" + strings.Join(s, ", ") + "}"
}

func srcSig(srcs []source.Source, err error) string {
	if err != nil || len(srcs) == 0 {
		return "error"
	}
	s := srcs[0]
	sig := s.Name.String() + "|" + s.Target.Digest.String() + "|" + strings.Join(s.Target.URLs, ",")
	for _, n := range stargzfs.VerifNeighboringLayers(s.Manifest, s.Target) {
		sig += "|" + n.Digest.String() + "=" + strings.Join(n.URLs, ",")
	}
	return sig
}

// mutate applies one mutation to the labels of one target and judges every reader.
func (x *checker) mutate(c mcase, tl tlabels, m mutation, baseSig map[string]string) {
	hn := hNames[c.H]
	l := make(map[string]string, len(tl.labels))
	for k, v := range tl.labels {
		l[k] = v
	}
	for _, k := range m.Remove {
		delete(l, k)
	}
	if m.Key != "" {
		l[m.Key] = m.Val
	}
	what := "remove"
	lab := ""
	if m.Key != "" {
		what = "corrupt"
		lab = short(m.Key)
		if strings.HasPrefix(lab, "urls.") {
			lab = "urls.N"
		}
	}
	for _, r := range x.readers[c.H] {
		x.res.Evaluations++
		cp := make(map[string]string, len(l))
		for k, v := range l {
			cp[k] = v
		}
		srcs, err := r.fn(cp)
		if srcSig(srcs, err) != baseSig[r.name] {
			x.res.Nontrivial++
		}
		// which spec applies
		var specs []specSrc
		for _, cri := range r.cri {
			specs = append(specs, specRead(cri, l))
		}
		first := -1
		for i, s := range specs {
			if s.mustErr == "" {
				first = i
				break
			}
		}
		replay := map[string]any{"case": c, "target": tl.t, "mutation": m}
		pre := func() string {
			return fmt.Sprintf("%s\ntarget=L%d reader=%s mutation: %s\nlabels handed to the snapshotter:\n%s", c, tl.t, r.name, m, fmtLabels(l))
		}
		switch {
		case first < 0:
			reason := specs[len(specs)-1].mustErr
			if len(specs) > 1 && c.H == 1 {
				reason = specs[0].mustErr
			}
			if err == nil {
				kind := strings.ReplaceAll(reason, " ", "-")
				key := fmt.Sprintf("C20/%s/%s/%s-accepted", hn, r.name, kind)
				if m.Key != "" {
					key += "/" + m.Name
				}
				if vk := key; x.want(vk) {
					x.violation(vk, fmt.Sprintf("%sexpected rejection (%s), got source ref=%q digest=%s", pre(), reason, srcs[0].Name.String(), srcs[0].Target.Digest), replay)
				}
				x.res.Outcomes["mut:"+hn+":"+what+":mandatory label missing/malformed -> ACCEPTED"]++
			} else {
				x.res.Outcomes["mut:"+hn+":"+what+":mandatory label missing/malformed -> rejected"]++
			}
		case err != nil:
			if specs[first].mayErr != "" {
				x.res.Outcomes["mut:"+hn+":"+what+":optional label malformed -> rejected"]++
				break
			}
			key := fmt.Sprintf("C20/%s/%s/well-formed-labels-rejected/%s", hn, r.name, what)
			if m.Key != "" {
				key += "-" + lab
			}
			if vk := key; x.want(vk) {
				x.violation(vk, fmt.Sprintf("%sall mandatory labels are present and well-formed, expected a source, got error: %v", pre(), err), replay)
			}
		default:
			if len(srcs) != 1 {
				if vk := fmt.Sprintf("C20/%s/%s/source-count", hn, r.name); x.want(vk) {
					x.violation(vk, fmt.Sprintf("%sexpected one source, got %d", pre(), len(srcs)), replay)
				}
				break
			}
			why := ""
			ok := false
			for i := first; i < len(specs); i++ {
				if specs[i].mustErr != "" {
					continue
				}
				w := consistent(srcs[0], specs[i])
				if w == "" {
					ok = true
					break
				}
				if why == "" {
					why = w
				}
				if specs[first].mayErr == "" {
					break
				}
			}
			if !ok {
				key := fmt.Sprintf("C20/%s/%s/source-differs-from-labels/%s", hn, r.name, what)
				if m.Key != "" {
					key += "-" + lab
				}
				if vk := key; x.want(vk) {
					x.violation(vk, pre()+why, replay)
				}
			}
			if m.Key != "" {
				x.res.Outcomes["mut:"+hn+":corrupt:"+lab+" -> source follows labels"]++
			} else {
				x.res.Outcomes["mut:"+hn+":remove:optional labels only -> source follows remaining labels"]++
			}
		}
	}
}

func otherDigest(i int) string { return digest.FromString(fmt.Sprintf("other-%d", i)).String() }

func corruptionMenu(c mcase, tl tlabels, key string) []mutation {
	var vals [][2]string // name, value
	orig := tl.labels[key]
	switch {
	case key == kRef || key == kCRIRef:
		vals = [][2]string{{"empty", ""}, {"no-host", "/x:1"}, {"with-scheme", "https://a.example/x:1"}, {"other-repo", "b.example/other:2"}, {"by-digest", "a.example/x@sha256:" + hexd}}
	case key == kDigest || key == kCRIDigest:
		vals = [][2]string{{"empty", ""}, {"algorithm-only", "sha256:"}, {"63-hex", "sha256:" + hexd[:63]}, {"65-hex", "sha256:" + hexd + "1"},
			{"upper-case-algorithm", "SHA256:" + hexd}, {"upper-case-hex", "sha256:" + strings.Repeat("A", 64)}, {"md5", "md5:" + hexd[:32]},
			{"trailing-space", orig + " "}, {"leading-space", " " + orig}, {"trailing-newline", orig + "\n"}, {"two-digests", orig + "," + otherDigest(1)},
			{"no-algorithm", hexd}, {"other-sha256", otherDigest(2)}, {"sha512", digest.SHA512.FromString("x").String()}, {"sha384", digest.SHA384.FromString("x").String()}}
		for j := range c.L {
			if j != tl.t {
				vals = append(vals, [2]string{"digest-of-another-layer", c.dg(c.L[j]).String()})
				break
			}
		}
	case key == kLayers || key == kCRILayers:
		parts := strings.Split(orig, ",")
		rev := make([]string, len(parts))
		for i := range parts {
			rev[len(parts)-1-i] = parts[i]
		}
		vals = [][2]string{{"empty", ""}, {"trailing-comma", orig + ","}, {"leading-comma", "," + orig}, {"double-comma", strings.Replace(orig, ",", ",,", 1) + ",,"},
			{"garbage", "garbage"}, {"space-after-comma", strings.ReplaceAll(orig, ",", ", ") + ", " + otherDigest(3)}, {"reversed", strings.Join(rev, ",")},
			{"duplicated", orig + "," + orig}, {"target-only", parts[0]}, {"other-digest-first", otherDigest(4) + "," + orig}, {"other-digest-only", otherDigest(5)},
			{"truncated-last-digest", orig[:len(orig)-1]}}
	case key == kURLs || strings.HasPrefix(key, kURLsPrefix):
		vals = [][2]string{{"empty", ""}, {"comma", ","}, {"one", "https://x.example/1"}, {"two", "https://x.example/1,https://x.example/2"}, {"leading-comma", ",https://x.example/1"},
			{"trailing-comma", "https://x.example/1,"}, {"double-comma", "https://x.example/1,,https://x.example/2"}, {"not-a-url", "x"}}
	case key == kPrefetch:
		vals = [][2]string{{"empty", ""}, {"text", "abc"}, {"negative", "-1"}, {"overflow", "9223372036854775808"}, {"float", "1e3"}, {"space", " 5"}}
	case key == kCRIMfst:
		vals = [][2]string{{"empty", ""}, {"garbage", "garbage"}, {"other", otherDigest(6)}}
	}
	var out []mutation
	for _, v := range vals {
		if v[1] == orig {
			continue
		}
		out = append(out, mutation{Key: key, Val: v[1], Name: v[0]})
	}
	return out
}

func (x *checker) allMutations(c mcase, tl tlabels, deadline time.Time) {
	keys := make([]string, 0, len(tl.labels))
	for k := range tl.labels {
		keys = append(keys, k)
	}
	sort.Strings(keys)
	base := map[string]string{}
	for _, r := range x.readers[c.H] {
		cp := map[string]string{}
		for k, v := range tl.labels {
			cp[k] = v
		}
		s, err := r.fn(cp)
		base[r.name] = srcSig(s, err)
	}
	if len(keys) <= 10 {
		for mask := 1; mask < 1<<len(keys); mask++ {
			var rm []string
			for i, k := range keys {
				if mask&(1<<i) != 0 {
					rm = append(rm, k)
				}
			}
			x.mutate(c, tl, mutation{Remove: rm}, base)
		}
	} else {
		for _, k := range keys {
			x.mutate(c, tl, mutation{Remove: []string{k}}, base)
		}
		for i := range keys {
			for j := i + 1; j < len(keys); j++ {
				x.mutate(c, tl, mutation{Remove: []string{keys[i], keys[j]}}, base)
			}
		}
	}
	for _, k := range keys {
		for _, m := range corruptionMenu(c, tl, k) {
			x.mutate(c, tl, m, base)
		}
	}
}

// ---- enumeration --------------------------------------------------------------------------------------

// rgs yields every assignment of digests to n layers up to renaming (restricted growth strings):
// all patterns of repeated digests.
func rgs(n int, yield func([]int)) {
	var all [][]int
	a := make([]int, n)
	var rec func(i, max int)
	rec = func(i, max int) {
		if i == n {
			all = append(all, append([]int{}, a...))
			return
		}
		for v := 0; v <= max+1; v++ {
			a[i] = v
			m := max
			if v > max {
				m = v
			}
			rec(i+1, m)
		}
	}
	if n == 0 {
		yield(a)
		return
	}
	a[0] = 0
	rec(1, 0)
	// simplest first: all digests distinct, then ever more repetition
	distinct := func(p []int) int {
		m := 0
		for _, v := range p {
			if v > m {
				m = v
			}
		}
		return m
	}
	sort.SliceStable(all, func(i, j int) bool { return distinct(all[i]) > distinct(all[j]) })
	for _, p := range all {
		yield(p)
	}
}

// product yields every vector in menu^n.
func product(n int, menu []int, yield func([]int)) {
	a := make([]int, n)
	var rec func(i int)
	rec = func(i int) {
		if i == n {
			yield(a)
			return
		}
		for _, v := range menu {
			a[i] = v
			rec(i + 1)
		}
	}
	rec(0)
}

type family struct {
	name   string
	shards int
	mutate bool
	gen    func(tier string, yield func(mcase))
}

func layersOf(d, u, m []int) []lspec {
	l := make([]lspec, len(d))
	for i := range d {
		l[i] = lspec{D: d[i], U: u[i], M: m[i]}
	}
	return l
}

func seq(n int) []int {
	s := make([]int, n)
	for i := range s {
		s[i] = i
	}
	return s
}

func families() []family {
	allU := seq(uCount)
	return []family{
		{name: "small", shards: 4, gen: func(tier string, yield func(mcase)) {
			// n = 0..2: full product of everything (quick, n=2: 4 (prefetch, ref) pairs instead of all 12)
			for n := 0; n <= 2; n++ {
				rgs(n, func(d []int) {
					product(n, allU, func(u []int) {
						product(n, []int{0, 1, 2, 3}, func(m []int) {
							for h := 0; h < 2; h++ {
								for mt := 0; mt < 2; mt++ {
									for p := range prefetchMenu {
										for r := range refMenu {
											if n == 2 && tier != "thorough" && !(r == p && mt == p%2) && !(p == 0 && r == 3 && mt == 1) {
												continue // quick: 4 (manifest type, prefetch, ref) combinations instead of 24
											}
											yield(mcase{H: h, MT: mt, R: r, P: p, L: layersOf(d, u, m)})
										}
									}
								}
							}
						})
					})
				})
			}
		}},
		{name: "n3", shards: 6, gen: func(tier string, yield func(mcase)) {
			um := []int{uNone, uOne, uTwo, uComma, uB0, uB0 + 5}
			if tier == "thorough" {
				um = allU
			}
			rgs(3, func(d []int) {
				product(3, um, func(u []int) {
					ms := []int{0, 1, 3}
					product(3, ms, func(m []int) {
						for h := 0; h < 2; h++ {
							if tier != "thorough" {
								yield(mcase{H: h, P: 2, L: layersOf(d, u, m)})
								continue
							}
							for mt := 0; mt < 2; mt++ {
								for p := range prefetchMenu {
									yield(mcase{H: h, MT: mt, P: p, L: layersOf(d, u, m)})
								}
							}
						}
					})
				})
			})
		}},
		{name: "n45", shards: 4, gen: func(tier string, yield func(mcase)) {
			for n := 4; n <= 5; n++ {
				rgs(n, func(d []int) {
					um := []int{uNone, uOne, uTwo}
					if n == 5 && tier != "thorough" {
						um = []int{uNone, uTwo}
					}
					product(n, um, func(u []int) {
						// layer-ish entries: foreign type iff they carry URLs
						product(n, []int{0, 1}, func(nl []int) {
							cnt := 0
							for _, v := range nl {
								cnt += v
							}
							if tier != "thorough" && ((n == 5 && cnt > 1) || (n == 4 && cnt > 2)) {
								return
							}
							m := make([]int, n)
							for i := range m {
								switch {
								case nl[i] == 1:
									m[i] = mNonLayer
								case u[i] != uNone:
									m[i] = 1
								}
							}
							for h := 0; h < 2; h++ {
								mts := []int{0}
								if tier == "thorough" {
									mts = []int{0, 1}
								}
								for _, mt := range mts {
									yield(mcase{H: h, MT: mt, P: 2, R: 1, L: layersOf(d, u, m)})
								}
							}
						})
					})
				})
			}
		}},
		{name: "big", shards: 8, gen: func(tier string, yield func(mcase)) {
			// label-size boundary of the layers list: 4096/72 for sha256, 4096/136 for sha512
			type bn struct{ alg, n int }
			for _, s := range []bn{{0, 55}, {0, 56}, {0, 57}, {0, 60}, {1, 29}, {1, 30}, {1, 31}} {
				n := s.n
				// positions around: the target itself, the one/two-digit urls.N key boundary, the last digest
				// that fits the layers label of target 0 and the first that does not, the last layer
				lim := 56
				if s.alg == 1 {
					lim = 29
				}
				var pos []int
				for _, p := range []int{0, 1, 10, lim - 2, lim - 1, lim, n - 1} {
					if p < n && (len(pos) == 0 || pos[len(pos)-1] < p) {
						pos = append(pos, p)
					}
				}
				umenu := []int{uOne, uTwo, uComma, uB0, uB0 + 1, uB0 + 2}
				if tier == "thorough" {
					umenu = []int{uOne, uTwo, uComma, uLong, uB0, uB0 + 1, uB0 + 2, uB0 + 3, uB0 + 4, uB0 + 5}
				}
				mk := func() []lspec {
					l := make([]lspec, n)
					for i := range l {
						l[i].D = i
					}
					return l
				}
				emit := func(l []lspec) {
					for h := 0; h < 2; h++ {
						yield(mcase{H: h, Alg: s.alg, L: l})
					}
				}
				emit(mk())
				for _, p1 := range pos {
					for _, u1 := range umenu {
						l := mk()
						l[p1].U, l[p1].M = u1, 1
						emit(l)
						// the same with a non-layer entry at position 1, and with a repeated digest
						if p1 != 1 {
							l2 := append([]lspec{}, l...)
							l2[1].M = mNonLayer
							emit(l2)
						}
						l3 := append([]lspec{}, l...)
						l3[n-2].D = l3[0].D
						emit(l3)
						if tier == "thorough" || u1 == uOne {
							for _, p2 := range pos {
								if p2 <= p1 {
									continue
								}
								for _, u2 := range []int{uTwo, uB0 + 2} {
									l4 := append([]lspec{}, l...)
									l4[p2].U, l4[p2].M = u2, 2
									emit(l4)
								}
							}
						}
					}
				}
			}
		}},
		{name: "mixed", shards: 8, gen: func(tier string, yield func(mcase)) {
			// digests of mixed length (sha256: 71 bytes, sha512: 135 bytes) around the point where the
			// layers label is full: an entry that no longer fits may be followed by a shorter one that would
			emitAll := func(alg int, flip []bool) {
				n := len(flip)
				for ucfg := 0; ucfg < 3; ucfg++ {
					l := make([]lspec, n)
					for i := range l {
						l[i].D = i
						if flip[i] {
							l[i].G = 1
						}
						// URLs on the last layers (those around / after the cut-off)
						if (ucfg == 1 && i >= n-6) || (ucfg == 2 && i >= n-3) {
							l[i].U, l[i].M = ucfg, 1
						}
					}
					for h := 0; h < 2; h++ {
						yield(mcase{H: h, Alg: alg, L: l})
					}
				}
			}
			// (1) mostly one algorithm, one or two layers of the other one near the front or the cut-off
			type major struct{ alg, lim int }
			for _, mj := range []major{{0, 56}, {1, 29}} {
				for n := mj.lim; n <= mj.lim+4; n++ {
					var pos []int
					for _, p := range []int{0, 1, mj.lim - 3, mj.lim - 2, mj.lim - 1, mj.lim, mj.lim + 1, mj.lim + 2} {
						if p < n {
							pos = append(pos, p)
						}
					}
					for i, p1 := range pos {
						flip := make([]bool, n)
						flip[p1] = true
						emitAll(mj.alg, flip)
						for _, p2 := range pos[i+1:] {
							f2 := append([]bool{}, flip...)
							f2[p2] = true
							emitAll(mj.alg, f2)
						}
					}
				}
			}
			// (2) k layers of one algorithm followed by layers of the other, total around the limit; both orders
			ks := []int{1, 5, 10, 15, 20, 25, 28, 29}
			if tier == "thorough" {
				ks = seq(31)[1:]
			}
			for _, k := range ks {
				// k sha512 then j sha256
				j0 := (labelLimit - len(kLayers) - 136*k) / 72
				for dj := -1; dj <= 3; dj++ {
					if j := j0 + dj; j >= 1 {
						flip := make([]bool, k+j)
						for i := 0; i < k; i++ {
							flip[i] = true
						}
						emitAll(0, flip)
					}
				}
			}
			ks2 := []int{1, 10, 20, 30, 40, 50, 54, 55, 56}
			if tier == "thorough" {
				ks2 = seq(58)[1:]
			}
			for _, k := range ks2 {
				// k sha256 then j sha512
				j0 := (labelLimit - len(kLayers) - 72*k) / 136
				for dj := -1; dj <= 3; dj++ {
					if j := j0 + dj; j >= 1 {
						flip := make([]bool, k+j)
						for i := 0; i < k; i++ {
							flip[i] = true
						}
						emitAll(1, flip)
					}
				}
			}
		}},
		{name: "annot", shards: 1, gen: func(tier string, yield func(mcase)) {
			// layer descriptors whose own (manifest-supplied) annotations use protocol keys
			for n := 1; n <= 3; n++ {
				rgs(n, func(d []int) {
					product(n, []int{uNone, uOne}, func(u []int) {
						for ap := 0; ap < n; ap++ {
							for a := 1; a < len(annotMenu); a++ {
								for h := 0; h < 2; h++ {
									for _, p := range []int{0, 2} {
										l := layersOf(d, u, make([]int, n))
										l[ap].A = a
										yield(mcase{H: h, P: p, L: l})
									}
								}
							}
						}
					})
				})
			}
		}},
		{name: "mutate", shards: 4, mutate: true, gen: func(tier string, yield func(mcase)) {
			ms := []int{0, mNonLayer}
			if tier == "thorough" {
				ms = []int{0, 1, mNonLayer}
			}
			for n := 1; n <= 3; n++ {
				rgs(n, func(d []int) {
					product(n, []int{uNone, uOne, uTwo}, func(u []int) {
						product(n, ms, func(m []int) {
							for h := 0; h < 2; h++ {
								yield(mcase{H: h, L: layersOf(d, u, m)})
							}
						})
					})
				})
			}
			if tier == "thorough" {
				// larger label sets: single and pairwise removal, every corruption
				rgs(4, func(d []int) {
					product(4, []int{uNone, uOne}, func(u []int) {
						for h := 0; h < 2; h++ {
							yield(mcase{H: h, L: layersOf(d, u, make([]int, 4))})
						}
					})
				})
			}
		}},
	}
}

var order = map[string]int{"mutate": 0, "annot": 1, "small": 2, "n3": 3, "n45": 4, "big": 5, "mixed": 6}

func clone(c mcase) mcase {
	c.L = append([]lspec{}, c.L...)
	return c
}

func parts(tier string) []runner.Part {
	var ps []runner.Part
	fs := families()
	sort.SliceStable(fs, func(i, j int) bool { return order[fs[i].name] < order[fs[j].name] })
	for _, f := range fs {
		f := f
		ps = append(ps, runner.Part{
			Name:   f.name,
			Shards: f.shards,
			Run: func(rc *runner.Ctx) *runner.Result {
				x := newChecker()
				idx, done, total := 0, 0, 0
				capped := false
				f.gen(tier, func(c mcase) {
					i := idx
					idx++
					if i%rc.Of != rc.Shard {
						return
					}
					total++
					if capped || x.res.Broken != "" {
						return
					}
					if done%64 == 0 && time.Now().After(rc.Deadline) {
						capped = true
						return
					}
					done++
					c = clone(c)
					tls := x.e2e(c)
					if f.mutate {
						for _, tl := range tls {
							x.allMutations(c, tl, rc.Deadline)
						}
					}
				})
				if capped {
					x.res.Caps = append(x.res.Caps, fmt.Sprintf("time budget: %d of %d cases of this shard done", done, total))
				}
				x.res.Extra = map[string]any{"cases_in_family": idx}
				return x.finish()
			},
			Replay: func(rc *runner.Ctx, raw json.RawMessage) (string, error) {
				var r struct {
					Case     mcase     `json:"case"`
					Target   int       `json:"target"`
					Mutation *mutation `json:"mutation"`
				}
				if err := json.Unmarshal(raw, &r); err != nil {
					return "", err
				}
				x := newChecker()
				tls := x.e2e(r.Case)
				if r.Mutation != nil {
					x.viol = map[string]runner.Violation{}
					for _, tl := range tls {
						if tl.t == r.Target {
							base := map[string]string{}
							x.mutate(r.Case, tl, *r.Mutation, base)
						}
					}
				}
				res := x.finish()
				if res.Broken != "" {
					return "", fmt.Errorf("broken: %s", res.Broken)
				}
				if len(res.Violations) > 0 {
					var s []string
					for _, v := range res.Violations {
						s = append(s, v.Key+"\n"+v.Msg)
					}
					return r.Case.String(), fmt.Errorf("%s", strings.Join(s, "\n\n"))
				}
				return r.Case.String(), nil
			},
		})
	}
	return ps
}

func main() {
	runner.Main(runner.Check{
		ID:    "C20",
		Level: "exploration",
		Rule:  "every manifest of the stated families (config + n layers, n in 0..5 and 55,56,57,60 [sha512: 29,30,31]; manifests mixing sha512 and sha256 digests around the point where the layers label is full (one or two odd-length digests near the cut-off, and k digests of one algorithm followed by the other, both orders, with and without URLs after the cut-off); every repeated-digest pattern; per-layer URL lists none/1/2/with-comma/over-limit/3 URLs with joined length limit-4..limit+1; layer, foreign-layer and non-layer media types; manifest-supplied annotations on protocol keys) x {default handler, extra handler over containerd's CRI labels} x prefetch {1,0,2^62} x 4 references, every layer as mount target, read back by the direct reader and by service.sources; then every subset of the emitted labels removed and every label corrupted from a menu. evaluations = reader invocations; states = distinct manifest/handler inputs; non-trivial = inputs whose reconstructed source carried >=1 URL or neighbour, plus label-set variants whose reader result differs from the unmutated one",
		Assumptions: []string{
			"an empty-string element in a reconstructed URL list is not a URL and is ignored on both sides (the writer emits an empty urls label for a layer without URLs; the reader turns it into [\"\"])",
			"two descriptors with the same digest denote the same blob: a neighbour carrying the URLs of the other descriptor with its digest is accepted and counted separately in the outcomes",
			"the prefetch size label is judged with Mount's parse rule (base-10 int64) restated in the harness; Mount itself (FUSE, resolver) is not executed",
			"well-formedness of a reference is containerd's reference grammar; the corruption menu only contains values that are clearly malformed (empty, no host, URL with scheme) or clearly well-formed",
			"the image reference given to the handlers is one containerd's reference.Parse accepts (the pull would not have resolved otherwise)",
		},
		QuickBudget: 3 * time.Minute, ThoroughBudget: 25 * time.Minute,
		Parts: parts,
	})
}
