// vinst generates the instrumented overlay for one check from its config.
package main

import (
	"encoding/json"
	"fmt"
	"os"

	"verif/lib/vinst"
)

func main() {
	if len(os.Args) != 2 {
		fmt.Fprintln(os.Stderr, "usage: vinst <config.json>")
		os.Exit(2)
	}
	b, err := os.ReadFile(os.Args[1])
	if err != nil {
		fmt.Fprintln(os.Stderr, err)
		os.Exit(2)
	}
	var cfg vinst.Config
	if err := json.Unmarshal(b, &cfg); err != nil {
		fmt.Fprintln(os.Stderr, err)
		os.Exit(2)
	}
	if cfg.Repo == "" {
		cfg.Repo = "/repo"
	}
	if cfg.Verif == "" {
		cfg.Verif = "/verif"
	}
	if _, err := vinst.Generate(cfg); err != nil {
		fmt.Fprintln(os.Stderr, "vinst:", err)
		os.Exit(2)
	}
}
